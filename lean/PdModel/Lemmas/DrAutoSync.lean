import PdModel.Model.DrAutoSync
import PdModel.Spec.C19
set_option linter.unusedSimpArgs false
set_option linter.unusedVariables false
/-!
Helper lemmas for the DR auto-sync model: the shape of the event list of an operation (`Sw`), the
translation into the vocabulary of `Spec.C19`, the cursor invariant of the recovery scan (`Inv`) and its
preservation by every operation.
-/
namespace PdModel.DrAutoSync
open PdModel.Spec

/-! ### translation to the spec's vocabulary -/

def toSpecState : DrState → C19.DrState
  | .none => .none | .sync => .sync | .async => .async | .syncRecover => .syncRecover

def toSpec (v : Served) : C19.Served := (toSpecState v.1, v.2)

def toReport (r : Region) : C19.Report :=
  { start := r.start, end_ := r.end_, integrity := r.st == .integrity, sid := r.sid }

def specEv : Ev → Option C19.Ev
  | .alloc id => some (.id id)
  | .allocFail => some .idFail
  | .file st id _ seen => some (.offer (toSpecState st) id (toSpec seen))
  | .save st id ok seen => some (.persist (toSpecState st) id ok (toSpec seen))
  | _ => none

def specEvs (l : List Ev) : List C19.Ev := l.filterMap specEv

theorem specEvs_append (a b : List Ev) : specEvs (a ++ b) = specEvs a ++ specEvs b := by
  simp [specEvs]

/-! ### the shape of an operation's event list -/

/-- `Sw P cur evs fin`: `evs` is a sequence of scans and of attempted state switches
    `alloc ; file ; save [; publish]`, the file and the save of every switch saw the state that was
    served before it, a publish follows exactly the successful saves, every performed switch `a → b`
    satisfies `P a b`, and `fin` is the state served in the end. -/
inductive Sw (P : Served → Served → Prop) : Served → List Ev → Served → Prop where
  | done (cur) : Sw P cur [] cur
  | scan (cur k l n evs fin) : Sw P cur evs fin → Sw P cur (.scan k l n :: evs) fin
  | count (cur n evs fin) : Sw P cur evs fin → Sw P cur (.count n :: evs) fin
  | allocFail (cur evs fin) : Sw P cur evs fin → Sw P cur (.allocFail :: evs) fin
  | failed (cur st id okf evs fin) : Sw P cur evs fin →
      Sw P cur (.alloc id :: .file st id okf cur :: .save st id false cur :: evs) fin
  | switched (cur st id okf evs fin) : P cur (st, id) → Sw P (st, id) evs fin →
      Sw P cur (.alloc id :: .file st id okf cur :: .save st id true cur :: .publish st id :: evs) fin

theorem Sw.append {P} {a b c : Served} {e1 e2 : List Ev} (h1 : Sw P a e1 b) (h2 : Sw P b e2 c) :
    Sw P a (e1 ++ e2) c := by
  induction h1 with
  | done cur => simpa using h2
  | scan cur k l n evs fin _ ih => exact .scan _ _ _ _ _ _ (ih h2)
  | count cur n evs fin _ ih => exact .count _ _ _ _ (ih h2)
  | allocFail cur evs fin _ ih => exact .allocFail _ _ _ (ih h2)
  | failed cur st id okf evs fin _ ih => exact .failed _ _ _ _ _ _ (ih h2)
  | switched cur st id okf evs fin hp _ ih => exact .switched _ _ _ _ _ _ hp (ih h2)

theorem Sw.mono {P Q : Served → Served → Prop} (hpq : ∀ a b, P a b → Q a b) {a b : Served} {e : List Ev}
    (h : Sw P a e b) : Sw Q a e b := by
  induction h with
  | done cur => exact .done _
  | scan cur k l n evs fin _ ih => exact .scan _ _ _ _ _ _ ih
  | count cur n evs fin _ ih => exact .count _ _ _ _ ih
  | allocFail cur evs fin _ ih => exact .allocFail _ _ _ ih
  | failed cur st id okf evs fin _ ih => exact .failed _ _ _ _ _ _ ih
  | switched cur st id okf evs fin hp _ ih => exact .switched _ _ _ _ _ _ (hpq _ _ hp) ih

def Ev.isScan : Ev → Bool
  | .scan _ _ _ => true | .count _ => true | _ => false

theorem sw_of_scans {P} (cur : Served) (evs : List Ev) (h : ∀ e ∈ evs, e.isScan = true) : Sw P cur evs cur := by
  induction evs with
  | nil => exact .done _
  | cons e evs ih =>
    have he := h e (by simp)
    have ht := ih (fun e' he' => h e' (by simp [he']))
    cases e <;> simp [Ev.isScan] at he
    · exact .scan _ _ _ _ _ _ ht
    · exact .count _ _ _ _ ht

/-- every performed switch of an `Sw` list satisfies `P` for some state served before it -/
theorem Sw.publish_sat {P} {a b : Served} {e : List Ev} (h : Sw P a e b) (st : DrState) (id : Nat)
    (hm : Ev.publish st id ∈ e) : ∃ cur, P cur (st, id) := by
  induction h with
  | done cur => simp at hm
  | scan cur k l n evs fin _ ih => simp at hm; exact ih hm
  | count cur n evs fin _ ih => simp at hm; exact ih hm
  | allocFail cur evs fin _ ih => simp at hm; exact ih hm
  | failed cur st' id' okf evs fin _ ih => simp at hm; exact ih hm
  | switched cur st' id' okf evs fin hp _ ih =>
    simp at hm
    rcases hm with ⟨rfl, rfl⟩ | hm
    · exact ⟨cur, hp⟩
    · exact ih hm

/-- no successful save: the served state is unchanged -/
theorem Sw.unchanged {P} {a b : Served} {e : List Ev} (h : Sw P a e b)
    (hn : ∀ st id seen, Ev.save st id true seen ∉ e) : b = a := by
  induction h with
  | done cur => rfl
  | scan cur k l n evs fin _ ih => exact ih (fun st id seen hm => hn st id seen (by simp [hm]))
  | count cur n evs fin _ ih => exact ih (fun st id seen hm => hn st id seen (by simp [hm]))
  | allocFail cur evs fin _ ih => exact ih (fun st id seen hm => hn st id seen (by simp [hm]))
  | failed cur st' id' okf evs fin _ ih => exact ih (fun st id seen hm => hn st id seen (by simp [hm]))
  | switched cur st' id' okf evs fin hp _ ih => exact absurd (by simp) (hn st' id' cur)

/-- the successful saves are exactly the publishes, and each is preceded by its file and alloc events
    while the previous state was still served -/
theorem Sw.publish_after_persist {P} {a b : Served} {e : List Ev} (h : Sw P a e b) (st : DrState) (id : Nat)
    (hm : Ev.publish st id ∈ e) :
    ∃ pre post okf seen, e = pre ++ [.alloc id, .file st id okf seen, .save st id true seen, .publish st id] ++ post := by
  induction h with
  | done cur => simp at hm
  | scan cur k l n evs fin _ ih =>
    simp at hm; obtain ⟨pre, post, okf, seen, rfl⟩ := ih hm
    exact ⟨.scan k l n :: pre, post, okf, seen, by simp⟩
  | count cur n evs fin _ ih =>
    simp at hm; obtain ⟨pre, post, okf, seen, rfl⟩ := ih hm
    exact ⟨.count n :: pre, post, okf, seen, by simp⟩
  | allocFail cur evs fin _ ih =>
    simp at hm; obtain ⟨pre, post, okf, seen, rfl⟩ := ih hm
    exact ⟨.allocFail :: pre, post, okf, seen, by simp⟩
  | failed cur st' id' okf' evs fin _ ih =>
    simp at hm; obtain ⟨pre, post, okf, seen, rfl⟩ := ih hm
    exact ⟨.alloc id' :: .file st' id' okf' cur :: .save st' id' false cur :: pre, post, okf, seen, by simp⟩
  | switched cur st' id' okf' evs fin hp _ ih =>
    simp at hm
    rcases hm with ⟨rfl, rfl⟩ | hm
    · exact ⟨[], evs, okf', cur, by simp⟩
    · obtain ⟨pre, post, okf, seen, rfl⟩ := ih hm
      exact ⟨.alloc id' :: .file st' id' okf' cur :: .save st' id' true cur :: .publish st' id' :: pre, post, okf, seen, by simp⟩

/-! ### state switches -/

theorem switchTo_frame (s : St) (tgt : DrState) (x : SwitchIn) :
    (switchTo s tgt x).1.regions = s.regions ∧ (switchTo s tgt x).1.log = s.log ∧
    (switchTo s tgt x).1.cfg = s.cfg ∧ (switchTo s tgt x).1.stores = s.stores ∧
    (switchTo s tgt x).1.mgr = s.mgr ∧ (switchTo s tgt x).1.members = s.members ∧
    (switchTo s tgt x).1.initOld = s.initOld := by
  unfold switchTo
  split
  · simp
  · split
    · split <;> simp
    · split <;> simp

/-- what a switch does to the served state and to the cursor -/
theorem switchTo_cases (s : St) (tgt : DrState) (x : SwitchIn) :
    (switched (switchTo s tgt x).2 = false ∧ (switchTo s tgt x).1.dr = s.dr ∧
      (switchTo s tgt x).1.passed = s.passed ∧ (switchTo s tgt x).1.recKey = s.recKey ∧
      (switchTo s tgt x).1.recCount = s.recCount) ∨
    (∃ id, x.id = some id ∧ x.save = 0 ∧ switched (switchTo s tgt x).2 = true ∧
      (switchTo s tgt x).1.served = (tgt, id) ∧
      ((tgt = .syncRecover ∧ (switchTo s tgt x).1.passed = [] ∧ (switchTo s tgt x).1.recKey = 0 ∧
          (switchTo s tgt x).1.recCount = 0) ∨
       (tgt ≠ .syncRecover ∧ (switchTo s tgt x).1.passed = s.passed ∧ (switchTo s tgt x).1.recKey = s.recKey ∧
          (switchTo s tgt x).1.recCount = s.recCount))) := by
  unfold switchTo
  split
  · left; simp [switched]
  · next id hid =>
    split
    · next h0 =>
      right
      refine ⟨id, hid, h0, by simp [switched], ?_, ?_⟩
      · split <;> simp [St.served]
      · by_cases ht : tgt = .syncRecover
        · left; simp [ht]
        · right; simp [ht]
    · left
      split <;> simp [switched]

theorem sw_switchTo {P} (s : St) (tgt : DrState) (x : SwitchIn)
    (hP : ∀ id, x.id = some id → x.save = 0 → P s.served (tgt, id)) :
    Sw P s.served (switchTo s tgt x).2 (switchTo s tgt x).1.served := by
  unfold switchTo
  split
  · exact .allocFail _ _ _ (.done _)
  · next id hid =>
    split
    · next h0 =>
      have hs : (if tgt = DrState.syncRecover then
          ({ s with stored := some (tgt, id), dr := { state := tgt, id := id }, recKey := 0, recCount := 0, passed := [] } : St)
          else { s with stored := some (tgt, id), dr := { state := tgt, id := id } }).served = (tgt, id) := by
        split <;> simp [St.served]
      simp only [hs]
      exact .switched _ _ _ _ _ _ (hP id hid h0) (.done _)
    · have hs : (if x.save = 1 then s else { s with stored := some (tgt, id) }).served = s.served := by
        split <;> simp [St.served]
      simp only [hs]
      exact .failed _ _ _ _ _ _ (.done _)

/-! ### the recovery scan -/

theorem scan_subset (rs : List Region) (key limit : Nat) : ∀ r ∈ scan rs key limit, r ∈ rs := by
  intro r hr
  unfold scan at hr
  simp only at hr
  split at hr
  · exact (List.mem_filter.1 (List.mem_of_mem_take hr)).1
  · exact (List.mem_filter.1 hr).1

/-- contiguous chain of regions from key `a` up to the cursor `e` -/
def Chain : Nat → List Region → Nat → Prop
  | cur, [], e => cur = e
  | cur, r :: rs, e => r.start = cur ∧ Chain r.end_ rs e

theorem chain_append (a : Nat) (l : List Region) (b : Nat) (r : Region) (h : Chain a l b) (hr : r.start = b) :
    Chain a (l ++ [r]) r.end_ := by
  induction l generalizing a with
  | nil => simp [Chain] at h ⊢; omega
  | cons x xs ih => simp only [Chain, List.cons_append] at h ⊢; exact ⟨h.1, ih _ h.2⟩

/-- every key from the start of a non-empty chain up to its end lies in one of its regions -/
theorem chain_covers (a : Nat) (l : List Region) (e : Nat) (h : Chain a l e) (hne : l ≠ []) (k : Nat) (hak : a ≤ k)
    (hke : e = 0 ∨ k < e) : ∃ r ∈ l, r.start ≤ k ∧ (r.end_ = 0 ∨ k < r.end_) := by
  induction l generalizing a with
  | nil => exact absurd rfl hne
  | cons x xs ih =>
    simp only [Chain] at h
    by_cases hx : x.end_ = 0 ∨ k < x.end_
    · exact ⟨x, by simp, by omega, hx⟩
    · have hxs : xs ≠ [] := by
        intro hnil; subst hnil; simp only [Chain] at h; omega
      obtain ⟨r, hr, h1, h2⟩ := ih x.end_ h.2 hxs (by omega)
      exact ⟨r, by simp [hr], h1, h2⟩

/-- the cursor invariant of the recovery scan -/
structure Inv (s : St) : Prop where
  count : s.recCount = s.passed.length
  chain : Chain 0 s.passed s.recKey
  ok    : ∀ r ∈ s.passed, s.dr.state = .syncRecover → r.st = .integrity ∧ r.sid = s.dr.id
  plog  : ∀ r ∈ s.passed, r ∈ s.log
  rlog  : ∀ r ∈ s.regions, r ∈ s.log

theorem walkBatch_frame (s : St) (rs : List Region) :
    (walkBatch s rs).1.dr = s.dr ∧ (walkBatch s rs).1.regions = s.regions ∧ (walkBatch s rs).1.log = s.log ∧
    (walkBatch s rs).1.minSample = s.minSample ∧ (walkBatch s rs).1.batch = s.batch := by
  induction rs generalizing s with
  | nil => simp [walkBatch]
  | cons r rs ih =>
    simp only [walkBatch]
    split
    · have := ih { s with recKey := r.end_, recCount := s.recCount + 1, passed := s.passed ++ [r] }
      simpa using this
    · simp

theorem inv_walkBatch (s : St) (rs : List Region) (h : Inv s) (hrs : ∀ r ∈ rs, r ∈ s.log) :
    Inv (walkBatch s rs).1 := by
  induction rs generalizing s with
  | nil => simpa [walkBatch] using h
  | cons r rs ih =>
    simp only [walkBatch]
    split
    · next hrec =>
      simp only [regionRecovered, Bool.and_eq_true, beq_iff_eq] at hrec
      apply ih
      · constructor
        · simp [h.count]
        · exact chain_append _ _ _ _ h.chain hrec.1.1.symm
        · intro r' hr' hst
          simp only [List.mem_append, List.mem_singleton] at hr'
          rcases hr' with hr' | rfl
          · exact h.ok r' hr' hst
          · exact ⟨hrec.2, hrec.1.2⟩
        · intro r' hr'
          simp only [List.mem_append, List.mem_singleton] at hr'
          rcases hr' with hr' | rfl
          · exact h.plog r' hr'
          · exact hrs _ (by simp)
        · exact h.rlog
      · intro r' hr'; exact hrs r' (by simp [hr'])
    · exact h

theorem sample_frame (s : St) (rest : List Region) :
    (sample s rest).1.dr = s.dr ∧ (sample s rest).1.regions = s.regions ∧ (sample s rest).1.log = s.log ∧
    (sample s rest).1.passed = s.passed ∧ (sample s rest).1.recKey = s.recKey ∧
    (sample s rest).1.recCount = s.recCount := by
  simp [sample]

theorem inv_sample (s : St) (rest : List Region) (h : Inv s) : Inv (sample s rest).1 := by
  obtain ⟨h1, h2, h3, h4, h5, h6⟩ := sample_frame s rest
  exact ⟨by rw [h6, h4]; exact h.count, by rw [h4, h5]; exact h.chain,
    by rw [h4, h1]; exact h.ok, by rw [h4, h3]; exact h.plog, by rw [h2, h3]; exact h.rlog⟩

theorem sample_scans (s : St) (rest : List Region) : ∀ e ∈ (sample s rest).2, e.isScan = true := by
  intro e he
  simp only [sample] at he
  simp only [List.mem_append, List.mem_singleton] at he
  rcases he with he | rfl
  · split at he
    · simp at he; subst he; rfl
    · simp at he
  · rfl

theorem updateLoop_spec (fuel : Nat) (s : St) (h : Inv s) :
    Inv (updateLoop fuel s).1 ∧ (updateLoop fuel s).1.dr = s.dr ∧ (updateLoop fuel s).1.regions = s.regions ∧
    (updateLoop fuel s).1.log = s.log ∧ (∀ e ∈ (updateLoop fuel s).2, e.isScan = true) := by
  induction fuel generalizing s with
  | zero =>
    simp only [updateLoop]
    refine ⟨⟨h.count, h.chain, h.ok, h.plog, h.rlog⟩, ?_, ?_, ?_, ?_⟩ <;> simp
  | succ fuel ih =>
    simp only [updateLoop]
    split
    · split
      · exact ⟨h, rfl, rfl, rfl, by simp [Ev.isScan]⟩
      · have hsub : ∀ r ∈ scan s.regions s.recKey s.batch, r ∈ s.log :=
          fun r hr => h.rlog r (scan_subset _ _ _ r hr)
        have hw := inv_walkBatch s _ h hsub
        obtain ⟨f1, f2, f3, _, _⟩ := walkBatch_frame s (scan s.regions s.recKey s.batch)
        split
        · obtain ⟨i1, i2, i3, i4, i5⟩ := ih _ hw
          refine ⟨i1, by rw [i2, f1], by rw [i3, f2], by rw [i4, f3], ?_⟩
          intro e he
          simp only [List.mem_cons] at he
          rcases he with rfl | he
          · rfl
          · exact i5 e he
        · next rest _ =>
          obtain ⟨g1, g2, g3, _, _, _⟩ := sample_frame (walkBatch s (scan s.regions s.recKey s.batch)).1 rest
          refine ⟨inv_sample _ _ hw, by rw [g1, f1], by rw [g2, f2], by rw [g3, f3], ?_⟩
          intro e he
          simp only [List.mem_cons] at he
          rcases he with rfl | he
          · rfl
          · exact sample_scans _ _ e he
    · exact ⟨h, rfl, rfl, rfl, by simp⟩

theorem estimate_frame (s : St) :
    (estimate s).1.dr = s.dr ∧ (estimate s).1.regions = s.regions ∧ (estimate s).1.log = s.log ∧
    (estimate s).1.passed = s.passed ∧ (estimate s).1.recKey = s.recKey ∧ (estimate s).1.recCount = s.recCount := by
  unfold estimate; split <;> simp

theorem inv_estimate (s : St) (h : Inv s) : Inv (estimate s).1 := by
  obtain ⟨h1, h2, h3, h4, h5, h6⟩ := estimate_frame s
  exact ⟨by rw [h6, h4]; exact h.count, by rw [h4, h5]; exact h.chain,
    by rw [h4, h1]; exact h.ok, by rw [h4, h3]; exact h.plog, by rw [h2, h3]; exact h.rlog⟩

/-- the state tickDR decides on -/
theorem scanned_spec (s : St) (h : Inv s) :
    Inv (scanned s) ∧ (scanned s).dr = s.dr ∧ (scanned s).regions = s.regions ∧ (scanned s).log = s.log ∧
    (∀ e ∈ (updateProgress s).2, e.isScan = true) := by
  obtain ⟨i1, i2, i3, i4, i5⟩ := updateLoop_spec (s.regions.length + 2) s h
  obtain ⟨e1, e2, e3, _, _, _⟩ := estimate_frame (updateProgress s).1
  unfold scanned
  refine ⟨inv_estimate _ i1, ?_, ?_, ?_, i5⟩
  · rw [e1]; exact i2
  · rw [e2]; exact i3
  · rw [e3]; exact i4

/-- a finished scan covers the whole key space with regions that reported integrity under the current id -/
theorem inv_finished_covered (s : St) (h : Inv s) (hf : finished s = true) (hst : s.dr.state = .syncRecover) :
    s.passed ≠ [] ∧ Chain 0 s.passed 0 ∧ (∀ r ∈ s.passed, r.st = .integrity ∧ r.sid = s.dr.id ∧ r ∈ s.log) ∧
    C19.Covered (s.log.map toReport) s.dr.id := by
  simp only [finished, Bool.and_eq_true, beq_iff_eq, decide_eq_true_eq] at hf
  have hne : s.passed ≠ [] := by
    intro hnil; have := h.count; rw [hnil] at this; simp at this; omega
  have hch : Chain 0 s.passed 0 := by have := h.chain; rwa [hf.1] at this
  refine ⟨hne, hch, fun r hr => ⟨(h.ok r hr hst).1, (h.ok r hr hst).2, h.plog r hr⟩, ?_⟩
  intro k
  obtain ⟨r, hr, h1, h2⟩ := chain_covers 0 s.passed 0 hch hne k (by omega) (Or.inl rfl)
  refine ⟨toReport r, List.mem_map.2 ⟨r, h.plog r hr, rfl⟩, ?_⟩
  obtain ⟨hi, hs⟩ := h.ok r hr hst
  simp [C19.Report.Covers, toReport, hi, hs, h1, h2]


/-! ### the cursor only advances over regions of the cache that report integrity under the current id -/

def Passable (s : St) (r : Region) : Prop := r ∈ s.regions ∧ r.st = .integrity ∧ r.sid = s.dr.id

theorem walkBatch_passed (s : St) (rs : List Region) :
    ∀ r ∈ (walkBatch s rs).1.passed, r ∈ s.passed ∨ (r ∈ rs ∧ r.st = .integrity ∧ r.sid = s.dr.id) := by
  induction rs generalizing s with
  | nil => intro r hr; exact Or.inl hr
  | cons x xs ih =>
    intro r hr
    simp only [walkBatch] at hr
    split at hr
    · next hrec =>
      simp only [regionRecovered, Bool.and_eq_true, beq_iff_eq] at hrec
      rcases ih _ r hr with h | ⟨h1, h2, h3⟩
      · simp only [List.mem_append, List.mem_singleton] at h
        rcases h with h | rfl
        · exact Or.inl h
        · exact Or.inr ⟨by simp, hrec.2, hrec.1.2⟩
      · exact Or.inr ⟨by simp [h1], h2, h3⟩
    · exact Or.inl hr

theorem updateLoop_passed (fuel : Nat) (s : St) :
    ∀ r ∈ (updateLoop fuel s).1.passed, r ∈ s.passed ∨ Passable s r := by
  induction fuel generalizing s with
  | zero => intro r hr; exact Or.inl hr
  | succ fuel ih =>
    intro r hr
    simp only [updateLoop] at hr
    split at hr
    · split at hr
      · exact Or.inl hr
      · obtain ⟨f1, f2, _, _, _⟩ := walkBatch_frame s (scan s.regions s.recKey s.batch)
        have hw := walkBatch_passed s (scan s.regions s.recKey s.batch)
        split at hr
        · rcases ih _ r hr with h | ⟨h1, h2, h3⟩
          · rcases hw r h with h | ⟨h1, h2, h3⟩
            · exact Or.inl h
            · exact Or.inr ⟨scan_subset _ _ _ r h1, h2, h3⟩
          · exact Or.inr ⟨by rw [← f2]; exact h1, h2, by rw [← f1]; exact h3⟩
        · next rest _ =>
          rw [(sample_frame _ rest).2.2.2.1] at hr
          rcases hw r hr with h | ⟨h1, h2, h3⟩
          · exact Or.inl h
          · exact Or.inr ⟨scan_subset _ _ _ r h1, h2, h3⟩
    · exact Or.inl hr

theorem scanned_passed (s : St) : ∀ r ∈ (scanned s).passed, r ∈ s.passed ∨ Passable s r := by
  intro r hr
  unfold scanned at hr
  rw [(estimate_frame _).2.2.2.1] at hr
  exact updateLoop_passed _ s r hr

/-! ### frames without the invariant -/

theorem updateLoop_frame (fuel : Nat) (s : St) :
    (updateLoop fuel s).1.dr = s.dr ∧ (updateLoop fuel s).1.regions = s.regions ∧
    (updateLoop fuel s).1.log = s.log ∧ (∀ e ∈ (updateLoop fuel s).2, e.isScan = true) := by
  induction fuel generalizing s with
  | zero => simp only [updateLoop]; refine ⟨?_, ?_, ?_, ?_⟩ <;> simp
  | succ fuel ih =>
    simp only [updateLoop]
    split
    · split
      · exact ⟨rfl, rfl, rfl, by simp [Ev.isScan]⟩
      · obtain ⟨f1, f2, f3, _, _⟩ := walkBatch_frame s (scan s.regions s.recKey s.batch)
        split
        · obtain ⟨i2, i3, i4, i5⟩ := ih (walkBatch s (scan s.regions s.recKey s.batch)).1
          refine ⟨by rw [i2, f1], by rw [i3, f2], by rw [i4, f3], ?_⟩
          intro e he
          simp only [List.mem_cons] at he
          rcases he with rfl | he
          · rfl
          · exact i5 e he
        · next rest _ =>
          obtain ⟨g1, g2, g3, _, _, _⟩ := sample_frame (walkBatch s (scan s.regions s.recKey s.batch)).1 rest
          refine ⟨by rw [g1, f1], by rw [g2, f2], by rw [g3, f3], ?_⟩
          intro e he
          simp only [List.mem_cons] at he
          rcases he with rfl | he
          · rfl
          · exact sample_scans _ _ e he
    · exact ⟨rfl, rfl, rfl, by simp⟩

theorem scanned_frame (s : St) :
    (scanned s).dr = s.dr ∧ (scanned s).regions = s.regions ∧ (scanned s).log = s.log ∧
    (∀ e ∈ (updateProgress s).2, e.isScan = true) := by
  obtain ⟨i2, i3, i4, i5⟩ := updateLoop_frame (s.regions.length + 2) s
  obtain ⟨e1, e2, e3, _, _, _⟩ := estimate_frame (updateProgress s).1
  unfold scanned
  refine ⟨?_, ?_, ?_, i5⟩
  · rw [e1]; exact i2
  · rw [e2]; exact i3
  · rw [e3]; exact i4

/-! ### the invariant through switches and phases -/

theorem served_eq (s : St) (st : DrState) (id : Nat) (h : s.served = (st, id)) : s.dr.state = st ∧ s.dr.id = id := by
  simp only [St.served, Prod.mk.injEq] at h; exact h

theorem inv_switchTo (s : St) (tgt : DrState) (x : SwitchIn) (h : Inv s) : Inv (switchTo s tgt x).1 := by
  obtain ⟨f1, f2, _⟩ := switchTo_frame s tgt x
  rcases switchTo_cases s tgt x with ⟨_, c1, c2, c3, c4⟩ | ⟨id, _, _, _, hs, hc⟩
  · exact ⟨by rw [c4, c2]; exact h.count, by rw [c2, c3]; exact h.chain, by rw [c2, c1]; exact h.ok,
      by rw [c2, f2]; exact h.plog, by rw [f1, f2]; exact h.rlog⟩
  · obtain ⟨hst, _⟩ := served_eq _ _ _ hs
    rcases hc with ⟨_, c2, c3, c4⟩ | ⟨hne, c2, c3, c4⟩
    · refine ⟨by rw [c4, c2]; rfl, by rw [c2, c3]; rfl, by rw [c2]; simp, by rw [c2]; simp, by rw [f1, f2]; exact h.rlog⟩
    · refine ⟨by rw [c4, c2]; exact h.count, by rw [c2, c3]; exact h.chain, ?_, by rw [c2, f2]; exact h.plog,
        by rw [f1, f2]; exact h.rlog⟩
      intro r _ hsr; rw [hst] at hsr; exact absurd hsr hne

theorem attempt_frame (s : St) (tgt : DrState) (xs : List SwitchIn) :
    (attempt s tgt xs).1.regions = s.regions ∧ (attempt s tgt xs).1.log = s.log ∧ (attempt s tgt xs).1.cfg = s.cfg ∧
    (attempt s tgt xs).1.mgr = s.mgr := by
  obtain ⟨f1, f2, f3, _, f5, _⟩ := switchTo_frame s tgt (xs.headD {})
  exact ⟨f1, f2, f3, f5⟩

theorem asyncPhase_spec (s : St) (xs : List SwitchIn) :
    (Inv s → Inv (asyncPhase s xs).1) ∧ (asyncPhase s xs).1.regions = s.regions ∧ (asyncPhase s xs).1.log = s.log := by
  unfold asyncPhase
  split
  · obtain ⟨f1, f2, _⟩ := attempt_frame s .async xs
    exact ⟨fun h => inv_switchTo _ _ _ h, f1, f2⟩
  · exact ⟨id, rfl, rfl⟩

theorem recoverSwitchPhase_spec (cs : Bool) (s : St) (xs : List SwitchIn) :
    (Inv s → Inv (recoverSwitchPhase cs s xs).1) ∧ (recoverSwitchPhase cs s xs).1.regions = s.regions ∧
    (recoverSwitchPhase cs s xs).1.log = s.log := by
  unfold recoverSwitchPhase
  split
  · obtain ⟨f1, f2, _⟩ := attempt_frame s .syncRecover xs
    exact ⟨fun h => inv_switchTo _ _ _ h, f1, f2⟩
  · exact ⟨id, rfl, rfl⟩

/-- the state of a tick just before the recovery part -/
def beforeScan (s : St) (xs : List SwitchIn) : St :=
  (recoverSwitchPhase (canSyncNow s) (asyncPhase s xs).1 (asyncPhase s xs).2.2).1

/-- the state on which the tick decides whether to declare `sync` -/
def decision (s : St) (xs : List SwitchIn) : St := scanned (beforeScan s xs)

theorem beforeScan_spec (s : St) (xs : List SwitchIn) :
    (Inv s → Inv (beforeScan s xs)) ∧ (beforeScan s xs).regions = s.regions ∧ (beforeScan s xs).log = s.log := by
  obtain ⟨a1, a2, a3⟩ := asyncPhase_spec s xs
  obtain ⟨b1, b2, b3⟩ := recoverSwitchPhase_spec (canSyncNow s) (asyncPhase s xs).1 (asyncPhase s xs).2.2
  unfold beforeScan
  exact ⟨fun h => b1 (a1 h), by rw [b2, a2], by rw [b3, a3]⟩

theorem decision_spec (s : St) (xs : List SwitchIn) :
    (Inv s → Inv (decision s xs)) ∧ (decision s xs).regions = s.regions ∧ (decision s xs).log = s.log ∧
    (decision s xs).dr = (beforeScan s xs).dr := by
  obtain ⟨b1, b2, b3⟩ := beforeScan_spec s xs
  obtain ⟨c2, c3, c4, _⟩ := scanned_frame (beforeScan s xs)
  unfold decision
  exact ⟨fun h => (scanned_spec _ (b1 h)).1, by rw [c3, b2], by rw [c4, b3], c2⟩

theorem inv_updateRecoverProgress (s : St) (p : F32) (h : Inv s) : Inv (updateRecoverProgress s p) := by
  exact ⟨h.count, h.chain, h.ok, h.plog, h.rlog⟩

theorem recoverPhase_eq (s : St) (xs : List SwitchIn) :
    recoverPhase s xs =
      if s.dr.state == .syncRecover then
        if finished (scanned s) then
          ((attempt (scanned s) .sync xs).1, (updateProgress s).2 ++ (attempt (scanned s) .sync xs).2.1)
        else (updateRecoverProgress (scanned s) (estimate (updateProgress s).1).2, (updateProgress s).2)
      else (s, []) := by
  unfold recoverPhase scanned; rfl

theorem recoverPhase_spec (s : St) (xs : List SwitchIn) :
    (Inv s → Inv (recoverPhase s xs).1) ∧ (recoverPhase s xs).1.regions = s.regions ∧ (recoverPhase s xs).1.log = s.log := by
  obtain ⟨c2, c3, c4, _⟩ := scanned_frame s
  rw [recoverPhase_eq]
  split
  · split
    · obtain ⟨f1, f2, _⟩ := attempt_frame (scanned s) .sync xs
      refine ⟨fun h => inv_switchTo _ _ _ (scanned_spec s h).1, ?_, ?_⟩
      · show (attempt (scanned s) .sync xs).1.regions = _; rw [f1, c3]
      · show (attempt (scanned s) .sync xs).1.log = _; rw [f2, c4]
    · refine ⟨fun h => inv_updateRecoverProgress _ _ (scanned_spec s h).1, ?_, ?_⟩
      · show (scanned s).regions = _; exact c3
      · show (scanned s).log = _; exact c4
  · exact ⟨id, rfl, rfl⟩

theorem tick_spec (s : St) (xs : List SwitchIn) :
    (Inv s → Inv (tick s xs).1) ∧ (tick s xs).1.regions = s.regions ∧ (tick s xs).1.log = s.log := by
  unfold tick
  split
  · exact ⟨id, rfl, rfl⟩
  · obtain ⟨b1, b2, b3⟩ := beforeScan_spec s xs
    obtain ⟨r1, r2, r3⟩ := recoverPhase_spec (beforeScan s xs)
      (recoverSwitchPhase (canSyncNow s) (asyncPhase s xs).1 (asyncPhase s xs).2.2).2.2
    exact ⟨fun h => r1 (b1 h), by rw [← b2]; exact r2, by rw [← b3]; exact r3⟩


/-! ### every operation is a sequence of well-formed switches (`Sw`) -/

/-- the condition under which a tick from `s` performs the switch `a → b` -/
def TickOk (s : St) (xs : List SwitchIn) (a b : Served) : Prop :=
  match b.1 with
  | .async => asyncCond s = true ∧ a = s.served
  | .syncRecover => canSyncNow s = true ∧ a.1 = .async ∧ a = s.served
  | .sync => a.1 = .syncRecover ∧ finished (decision s xs) = true ∧ a = (decision s xs).served
  | .none => False

/-- the condition under which operation `op` from `s` performs the switch `a → b` -/
def OpOk (s : St) (op : Op) (a b : Served) : Prop :=
  match op with
  | .tick xs => s.mgr = true ∧ s.cfg.dr = true ∧ TickOk s xs a b
  | .new c _ => b.1 = .sync ∧ c.dr = true ∧ s.stored = none ∧ a = (.none, 0)
  | .cfg c _ =>
    s.mgr = true ∧ a = s.served ∧
    ((b.1 = .syncRecover ∧ s.cfg.dr = false ∧ c.dr = true) ∨
     (b.1 = .async ∧ s.cfg.dr = true ∧ c.dr = true ∧ s.cfg.labelKey ≠ c.labelKey))
  | _ => False

/-- the state that is served when `op` starts (a restart serves what was persisted) -/
def startOf (s : St) (op : Op) : Served :=
  match op with
  | .new c _ => if c.dr then (match s.stored with | some v => v | none => (.none, 0)) else (.none, 0)
  | _ => s.served

theorem sw_attempt {P} (s : St) (tgt : DrState) (xs : List SwitchIn)
    (hP : ∀ id, P s.served (tgt, id)) :
    Sw P s.served (attempt s tgt xs).2.1 (attempt s tgt xs).1.served :=
  sw_switchTo s tgt (xs.headD {}) (fun id _ _ => hP id)

theorem updateRecoverProgress_served (s : St) (p : F32) : (updateRecoverProgress s p).served = s.served := rfl

theorem tick_sw (s : St) (xs : List SwitchIn) (hdr : s.cfg.dr = true) :
    Sw (TickOk s xs) s.served (tick s xs).2 (tick s xs).1.served := by
  unfold tick
  simp only [hdr, Bool.not_true, Bool.false_eq_true, if_false]
  -- phase 1
  have h1 : Sw (TickOk s xs) s.served (asyncPhase s xs).2.1 (asyncPhase s xs).1.served := by
    unfold asyncPhase
    split
    · next hc => exact sw_attempt s .async xs (fun id => ⟨hc, rfl⟩)
    · exact .done _
  -- phase 2
  have h2 : Sw (TickOk s xs) (asyncPhase s xs).1.served
      (recoverSwitchPhase (canSyncNow s) (asyncPhase s xs).1 (asyncPhase s xs).2.2).2.1 (beforeScan s xs).served := by
    unfold beforeScan recoverSwitchPhase
    split
    · next hc =>
      simp only [Bool.and_eq_true, beq_iff_eq] at hc
      have hno : asyncPhase s xs = (s, [], xs) := by
        unfold asyncPhase
        have : asyncCond s = false := by
          have h := hc.1; simp only [canSyncNow] at h
          simp [asyncCond, h]
        simp [this]
      refine sw_attempt _ .syncRecover _ (fun id => ⟨hc.1, hc.2, ?_⟩)
      rw [hno]
    · exact .done _
  -- phase 3
  have h3 : ∀ ys, Sw (TickOk s xs) (beforeScan s xs).served (recoverPhase (beforeScan s xs) ys).2
      (recoverPhase (beforeScan s xs) ys).1.served := by
    intro ys
    obtain ⟨c2, _, _, c5⟩ := scanned_frame (beforeScan s xs)
    have hserved : (scanned (beforeScan s xs)).served = (beforeScan s xs).served := by simp [St.served, c2]
    rw [recoverPhase_eq]
    split
    · next hsr =>
      simp only [beq_iff_eq] at hsr
      split
      · next hfin =>
        refine Sw.append (sw_of_scans _ _ c5) ?_
        rw [← hserved]
        refine sw_attempt _ .sync ys (fun id => ⟨?_, hfin, rfl⟩)
        simp [St.served, c2, hsr]
      · simp only [updateRecoverProgress_served, hserved]
        exact sw_of_scans _ _ c5
    · exact .done _
  exact (h1.append h2).append (h3 _)

theorem resetMgr_served (s : St) (c : Config) : (resetMgr s c).served = (.none, 0) := rfl

theorem newMgr_sw (s : St) (c : Config) (x : SwitchIn) :
    Sw (OpOk s (.new c x)) (startOf s (.new c x)) (newMgr s c x).2.1 (newMgr s c x).1.served := by
  unfold newMgr startOf
  by_cases hdr : c.dr = true
  · simp only [hdr, Bool.not_true, Bool.false_eq_true, if_false, if_true]
    cases hst : s.stored with
    | some v => exact .done _
    | none =>
      have hsw := sw_switchTo (P := OpOk s (.new c x)) (resetMgr s c) .sync x (fun id _ _ => ⟨rfl, hdr, hst, rfl⟩)
      rw [resetMgr_served] at hsw
      simp only
      split
      · exact hsw
      · exact hsw
  · simp only [hdr, Bool.not_false, if_true, Bool.false_eq_true, if_false]
    exact .done _

theorem updateConfig_sw (s : St) (c : Config) (x : SwitchIn) (hm : s.mgr = true) :
    Sw (OpOk s (.cfg c x)) s.served (updateConfig s c x).2.1 (updateConfig s c x).1.served := by
  unfold updateConfig
  split
  · next h1 =>
    simp only [Bool.and_eq_true, Bool.not_eq_true'] at h1
    have hsw := sw_switchTo (P := OpOk s (.cfg c x)) ({ s with cfg := c } : St) .syncRecover x
      (fun id _ _ => ⟨hm, rfl, Or.inl ⟨rfl, h1.1, h1.2⟩⟩)
    simp only
    split
    · exact hsw
    · exact hsw
  · split
    · next h2 =>
      simp only [Bool.and_eq_true, bne_iff_ne, ne_eq] at h2
      have hsw := sw_switchTo (P := OpOk s (.cfg c x)) ({ s with cfg := c } : St) .async x
        (fun id _ _ => ⟨hm, rfl, Or.inr ⟨rfl, h2.1.1, h2.1.2, h2.2⟩⟩)
      simp only
      split
      · exact hsw
      · exact hsw
    · exact .done _

theorem step_sw (s : St) (op : Op) :
    Sw (OpOk s op) (startOf s op) (step s op).2.evs (step s op).1.served := by
  cases op with
  | tick xs =>
    simp only [step, startOf]
    split
    · exact .done _
    · next hm =>
      have hm' : s.mgr = true := by simpa using hm
      by_cases hdr : s.cfg.dr = true
      · exact (tick_sw s xs hdr).mono (fun a b h => ⟨hm', hdr, h⟩)
      · have : tick s xs = (s, []) := by unfold tick; simp [hdr]
        rw [this]; exact .done _
  | new c x => exact newMgr_sw s c x
  | cfg c x =>
    simp only [step]
    split
    · exact .done _
    · next hm => exact updateConfig_sw s c x (by simpa using hm)
  | store st => exact .done _
  | region r => exact .done _
  | fill n st sid => exact .done _
  | rmregion id => exact .done _
  | initOld b => simp only [step, startOf]; split <;> exact .done _
  | member id b => simp only [step, startOf]; split <;> exact .done _
  | sizes b m => exact .done _


/-! ### ids -/

def allocIds (evs : List Ev) : List Nat :=
  evs.filterMap (fun e => match e with | .alloc id => some id | _ => none)

/-- the ids handed to the switches of an operation, in the order they are consumed -/
def inIds (xs : List SwitchIn) : List Nat := xs.filterMap (·.id)

def opIds : Op → List Nat
  | .new _ x => inIds [x]
  | .cfg _ x => inIds [x]
  | .tick xs => inIds xs
  | _ => []

theorem allocIds_append (a b : List Ev) : allocIds (a ++ b) = allocIds a ++ allocIds b := by
  simp [allocIds]

theorem switchTo_allocIds (s : St) (tgt : DrState) (x : SwitchIn) : allocIds (switchTo s tgt x).2 = inIds [x] := by
  unfold switchTo
  split
  · next h => simp [allocIds, inIds, h]
  · next id h => split <;> simp [allocIds, inIds, h]

theorem attempt_ids (s : St) (tgt : DrState) (xs : List SwitchIn) :
    allocIds (attempt s tgt xs).2.1 ++ inIds (attempt s tgt xs).2.2 = inIds xs := by
  unfold attempt
  simp only [switchTo_allocIds]
  cases xs with
  | nil => simp [inIds]
  | cons x xs => simp [inIds, List.filterMap_cons]; cases x.id <;> rfl

theorem scans_no_ids (evs : List Ev) (h : ∀ e ∈ evs, e.isScan = true) : allocIds evs = [] := by
  induction evs with
  | nil => rfl
  | cons e evs ih =>
    have he := h e (by simp)
    have ih' := ih (fun e' he' => h e' (by simp [he']))
    cases e with
    | scan k l n => exact ih'
    | count n => exact ih'
    | _ => simp [Ev.isScan] at he

theorem asyncPhase_ids (s : St) (xs : List SwitchIn) :
    allocIds (asyncPhase s xs).2.1 ++ inIds (asyncPhase s xs).2.2 = inIds xs := by
  unfold asyncPhase; split
  · exact attempt_ids _ _ _
  · simp [allocIds]

theorem recoverSwitchPhase_ids (cs : Bool) (s : St) (xs : List SwitchIn) :
    allocIds (recoverSwitchPhase cs s xs).2.1 ++ inIds (recoverSwitchPhase cs s xs).2.2 = inIds xs := by
  unfold recoverSwitchPhase; split
  · exact attempt_ids _ _ _
  · simp [allocIds]

theorem recoverPhase_ids (s : St) (xs : List SwitchIn) :
    ∃ rest, allocIds (recoverPhase s xs).2 ++ rest = inIds xs := by
  rw [recoverPhase_eq]
  obtain ⟨_, _, _, c5⟩ := scanned_frame s
  split
  · split
    · refine ⟨inIds (attempt (scanned s) .sync xs).2.2, ?_⟩
      simp only [allocIds_append, scans_no_ids _ c5, List.nil_append]
      exact attempt_ids _ _ _
    · exact ⟨inIds xs, by simp [scans_no_ids _ c5]⟩
  · exact ⟨inIds xs, by simp [allocIds]⟩

theorem tick_ids (s : St) (xs : List SwitchIn) : ∃ rest, allocIds (tick s xs).2 ++ rest = inIds xs := by
  unfold tick
  split
  · exact ⟨inIds xs, by simp [allocIds]⟩
  · obtain ⟨rest, hr⟩ := recoverPhase_ids (recoverSwitchPhase (canSyncNow s) (asyncPhase s xs).1 (asyncPhase s xs).2.2).1
      (recoverSwitchPhase (canSyncNow s) (asyncPhase s xs).1 (asyncPhase s xs).2.2).2.2
    refine ⟨rest, ?_⟩
    simp only [allocIds_append, List.append_assoc]
    rw [hr, recoverSwitchPhase_ids, asyncPhase_ids]

theorem newMgr_ids (s : St) (c : Config) (x : SwitchIn) : ∃ rest, allocIds (newMgr s c x).2.1 ++ rest = inIds [x] := by
  unfold newMgr
  split
  · exact ⟨inIds [x], rfl⟩
  · split
    · exact ⟨inIds [x], rfl⟩
    · refine ⟨[], ?_⟩
      rw [List.append_nil]
      have := switchTo_allocIds (resetMgr s c) .sync x
      simp only
      split <;> exact this

theorem updateConfig_ids (s : St) (c : Config) (x : SwitchIn) :
    ∃ rest, allocIds (updateConfig s c x).2.1 ++ rest = inIds [x] := by
  unfold updateConfig
  split
  · refine ⟨[], ?_⟩
    rw [List.append_nil]
    have := switchTo_allocIds ({ s with cfg := c } : St) .syncRecover x
    simp only
    split <;> exact this
  · split
    · refine ⟨[], ?_⟩
      rw [List.append_nil]
      have := switchTo_allocIds ({ s with cfg := c } : St) .async x
      simp only
      split <;> exact this
    · exact ⟨inIds [x], rfl⟩

/-- the ids an operation obtains are (a prefix of) the ids it was given -/
theorem step_ids (s : St) (op : Op) : ∃ rest, allocIds (step s op).2.evs ++ rest = opIds op := by
  cases op with
  | tick xs =>
    simp only [step, opIds]
    split
    · exact ⟨inIds xs, rfl⟩
    · exact tick_ids s xs
  | new c x => exact newMgr_ids s c x
  | cfg c x =>
    simp only [step, opIds]
    split
    · exact ⟨inIds [x], rfl⟩
    · exact updateConfig_ids s c x
  | store st => exact ⟨[], rfl⟩
  | region r => exact ⟨[], rfl⟩
  | fill n st sid => exact ⟨[], rfl⟩
  | rmregion id => exact ⟨[], rfl⟩
  | initOld b => simp only [step, opIds]; split <;> exact ⟨[], rfl⟩
  | member id b => simp only [step, opIds]; split <;> exact ⟨[], rfl⟩
  | sizes b m => exact ⟨[], rfl⟩

/-- `ids` are pairwise distinct and none of them was used before -/
def Fresh (ids used : List Nat) : Prop := ids.Nodup ∧ ∀ i ∈ ids, i ∉ used

theorem Fresh.prefix {a rest used : List Nat} (h : Fresh (a ++ rest) used) : Fresh a used :=
  ⟨(List.nodup_append.1 h.1).1, fun i hi => h.2 i (by simp [hi])⟩

/-- an `Sw` list whose ids are fresh is a `Run` of the specification -/
theorem sw_to_run {P : Served → Served → Prop} {c : C19.Cause} {rs : List C19.Report}
    (hPA : ∀ a b, P a b → C19.Allowed c rs (toSpec a) (toSpec b))
    {a b : Served} {evs : List Ev} (h : Sw P a evs b) (used : List Nat) (hf : Fresh (allocIds evs) used) :
    C19.Run c rs (toSpec a) used (specEvs evs) (toSpec b) := by
  induction h generalizing used with
  | done cur => exact .done _ _
  | scan cur k l n evs fin _ ih => exact ih used hf
  | count cur n evs fin _ ih => exact ih used hf
  | allocFail cur evs fin _ ih =>
    have := ih used (by simpa [allocIds] using hf)
    simp only [specEvs, List.filterMap_cons, specEv]
    exact .idFail _ _ _ _ this
  | failed cur st id okf evs fin _ ih =>
    have hf' : Fresh (id :: allocIds evs) used := by simpa [allocIds] using hf
    have hn : id ∉ used := hf'.2 id (by simp)
    have hrest : Fresh (allocIds evs) (id :: used) := by
      refine ⟨(List.nodup_cons.1 hf'.1).2, fun i hi => ?_⟩
      simp only [List.mem_cons, not_or]
      exact ⟨fun h => (List.nodup_cons.1 hf'.1).1 (h ▸ hi), hf'.2 i (by simp [hi])⟩
    simp only [specEvs, List.filterMap_cons, specEv]
    exact .failed _ _ _ _ _ _ hn (ih _ hrest)
  | switched cur st id okf evs fin hp _ ih =>
    have hf' : Fresh (id :: allocIds evs) used := by simpa [allocIds] using hf
    have hn : id ∉ used := hf'.2 id (by simp)
    have hrest : Fresh (allocIds evs) (id :: used) := by
      refine ⟨(List.nodup_cons.1 hf'.1).2, fun i hi => ?_⟩
      simp only [List.mem_cons, not_or]
      exact ⟨fun h => (List.nodup_cons.1 hf'.1).1 (h ▸ hi), hf'.2 i (by simp [hi])⟩
    simp only [specEvs, List.filterMap_cons, specEv]
    exact .switched _ _ _ _ _ _ hn (hPA _ _ hp) (ih _ hrest)

/-! ### the facts a tick decides on -/

def factsOf (s : St) : C19.Facts :=
  { downP := (downCounts s).1, downD := (downCounts s).2, repP := s.cfg.pRep, repD := s.cfg.dRep,
    timeout := timeoutPassed s }

theorem canSyncNow_iff (s : St) : canSyncNow s = true ↔ (factsOf s).canSync := by
  simp [canSyncNow, canSync, factsOf, C19.Facts.canSync]

theorem hasMajority_iff (s : St) :
    hasMajority s.cfg (downCounts s).1 (downCounts s).2 = true ↔ (factsOf s).hasMajority := by
  simp only [hasMajority, decide_eq_true_eq]
  simp only [upPeers, factsOf, C19.Facts.hasMajority, C19.Facts.up]
  generalize (downCounts s).1 = a
  generalize (downCounts s).2 = b
  generalize s.cfg.pRep = p
  generalize s.cfg.dRep = d
  split <;> split <;> omega

theorem asyncCond_iff (s : St) :
    asyncCond s = true ↔
      ¬ (factsOf s).canSync ∧ (factsOf s).hasMajority ∧ (factsOf s).timeout = true ∧ s.dr.state ≠ .async := by
  have h1 := canSyncNow_iff s
  have h2 := hasMajority_iff s
  simp only [canSyncNow] at h1
  simp only [asyncCond, Bool.and_eq_true, Bool.not_eq_true', bne_iff_ne, ne_eq]
  rw [h2, ← Bool.not_eq_true, h1]
  simp only [factsOf]
  constructor
  · rintro ⟨⟨⟨a, b⟩, c⟩, d⟩; exact ⟨a, b, d, c⟩
  · rintro ⟨a, b, d, c⟩; exact ⟨⟨⟨a, b⟩, c⟩, d⟩

/-- why operation `op` from `s` may change the served state, in the vocabulary of the specification -/
def causeOf (s : St) (op : Op) : C19.Cause :=
  match op with
  | .new c _ => if c.dr && s.stored.isNone then .init else .other
  | .cfg c _ =>
    if !s.mgr then .other
    else if !s.cfg.dr && c.dr then .enable
    else if s.cfg.dr && c.dr && s.cfg.labelKey != c.labelKey then .relabel
    else .other
  | .tick _ => if s.mgr && s.cfg.dr then .tick (factsOf s) else .other
  | _ => .other

theorem toSpecState_inj (a b : DrState) : toSpecState a = toSpecState b ↔ a = b := by
  cases a <;> cases b <;> simp [toSpecState]


/-! ### the invariant through every operation -/

theorem insertSorted_mem (r : Region) (l : List Region) : ∀ x ∈ insertSorted r l, x = r ∨ x ∈ l := by
  induction l with
  | nil => intro x hx; simp [insertSorted] at hx; exact Or.inl hx
  | cons y ys ih =>
    intro x hx
    simp only [insertSorted] at hx
    split at hx
    · simp only [List.mem_cons] at hx ⊢; exact hx
    · simp only [List.mem_cons] at hx ⊢
      rcases hx with rfl | hx
      · exact Or.inr (Or.inl rfl)
      · rcases ih x hx with h | h
        · exact Or.inl h
        · exact Or.inr (Or.inr h)

theorem putRegion_mem (rs : List Region) (r : Region) : ∀ x ∈ putRegion rs r, x = r ∨ x ∈ rs := by
  intro x hx
  rcases insertSorted_mem _ _ x hx with h | h
  · exact Or.inl h
  · exact Or.inr (List.mem_filter.1 h).1

theorem inv_init (b m : Nat) : Inv (init b m) := by
  constructor <;> simp [init, Chain]

theorem inv_resetMgr (s : St) (c : Config) (h : Inv s) : Inv (resetMgr s c) := by
  constructor <;> simp [resetMgr, Chain]
  exact h.rlog

theorem inv_newMgr (s : St) (c : Config) (x : SwitchIn) (h : Inv s) : Inv (newMgr s c x).1 := by
  have h0 := inv_resetMgr s c h
  unfold newMgr
  split
  · exact ⟨h0.count, h0.chain, by simp [resetMgr], h0.plog, h0.rlog⟩
  · split
    · exact ⟨h0.count, h0.chain, by simp [resetMgr], h0.plog, h0.rlog⟩
    · have h1 := inv_switchTo (resetMgr s c) .sync x h0
      simp only
      split
      · exact ⟨h1.count, h1.chain, h1.ok, h1.plog, h1.rlog⟩
      · exact h1

theorem inv_updateConfig (s : St) (c : Config) (x : SwitchIn) (h : Inv s) : Inv (updateConfig s c x).1 := by
  have h0 : Inv ({ s with cfg := c } : St) := ⟨h.count, h.chain, h.ok, h.plog, h.rlog⟩
  unfold updateConfig
  split
  · have h1 := inv_switchTo _ .syncRecover x h0
    simp only
    split
    · exact h1
    · exact ⟨h1.count, h1.chain, h1.ok, h1.plog, h1.rlog⟩
  · split
    · have h1 := inv_switchTo _ .async x h0
      simp only
      split
      · exact h1
      · exact ⟨h1.count, h1.chain, h1.ok, h1.plog, h1.rlog⟩
    · exact h0

theorem inv_step (s : St) (op : Op) (h : Inv s) : Inv (step s op).1 := by
  cases op with
  | tick xs =>
    simp only [step]; split
    · exact h
    · exact (tick_spec s xs).1 h
  | new c x => exact inv_newMgr s c x h
  | cfg c x =>
    simp only [step]; split
    · exact h
    · exact inv_updateConfig s c x h
  | store st => exact ⟨h.count, h.chain, h.ok, h.plog, h.rlog⟩
  | region r =>
    refine ⟨h.count, h.chain, h.ok, ?_, ?_⟩
    · intro x hx; simp only [step, List.mem_append]; exact Or.inl (h.plog x hx)
    · intro x hx
      simp only [step, List.mem_append, List.mem_singleton] at hx ⊢
      rcases putRegion_mem _ _ x hx with rfl | hx
      · exact Or.inr rfl
      · exact Or.inl (h.rlog x hx)
  | fill n st sid =>
    refine ⟨h.count, h.chain, h.ok, ?_, ?_⟩
    · intro x hx; simp only [step, List.mem_append]; exact Or.inl (h.plog x hx)
    · intro x hx; simp only [step, List.mem_append] at hx ⊢; exact Or.inr hx
  | rmregion id =>
    refine ⟨h.count, h.chain, h.ok, h.plog, ?_⟩
    intro x hx
    simp only [step, removeRegion] at hx
    exact h.rlog x (List.mem_filter.1 hx).1
  | initOld b => simp only [step]; split <;> exact ⟨h.count, h.chain, h.ok, h.plog, h.rlog⟩
  | member id b => simp only [step]; split <;> exact ⟨h.count, h.chain, h.ok, h.plog, h.rlog⟩
  | sizes b m => exact ⟨h.count, h.chain, h.ok, h.plog, h.rlog⟩

theorem inv_run (s : St) (ops : List Op) (h : Inv s) : Inv (run s ops) := by
  induction ops generalizing s with
  | nil => exact h
  | cons op ops ih => simp only [run, List.foldl_cons]; exact ih _ (inv_step s op h)

/-- an operation only appends to the log of region reports -/
theorem step_log (s : St) (op : Op) : ∃ more, (step s op).1.log = s.log ++ more := by
  cases op with
  | tick xs =>
    simp only [step]; split
    · exact ⟨[], by simp⟩
    · exact ⟨[], by simp [(tick_spec s xs).2.2]⟩
  | new c x =>
    refine ⟨[], ?_⟩
    simp only [step, newMgr, List.append_nil]
    split
    · rfl
    · split
      · rfl
      · have := (switchTo_frame (resetMgr s c) .sync x).2.1
        split <;> exact this
  | cfg c x =>
    refine ⟨[], ?_⟩
    simp only [step, List.append_nil]
    split
    · rfl
    · simp only [updateConfig]
      split
      · have := (switchTo_frame ({ s with cfg := c } : St) .syncRecover x).2.1
        split <;> exact this
      · split
        · have := (switchTo_frame ({ s with cfg := c } : St) .async x).2.1
          split <;> exact this
        · rfl
  | store st => exact ⟨[], by simp [step]⟩
  | region r => exact ⟨[r], rfl⟩
  | fill n st sid => exact ⟨fillRegions n st sid, rfl⟩
  | rmregion id => exact ⟨[], by simp [step]⟩
  | initOld b => simp only [step]; split <;> exact ⟨[], by simp⟩
  | member id b => simp only [step]; split <;> exact ⟨[], by simp⟩
  | sizes b m => exact ⟨[], by simp [step]⟩

/-! ### from the model's conditions to the specification's `Allowed` -/

theorem covered_mono (rs more : List C19.Report) (id : Nat) (h : C19.Covered rs id) : C19.Covered (rs ++ more) id := by
  intro k
  obtain ⟨r, hr, hc⟩ := h k
  exact ⟨r, by simp [hr], hc⟩

theorem opOk_allowed (s : St) (op : Op) (hinv : Inv s) (a b : Served) (h : OpOk s op a b) :
    C19.Allowed (causeOf s op) ((step s op).1.log.map toReport) (toSpec a) (toSpec b) := by
  obtain ⟨bs, bi⟩ := b
  cases op with
  | tick xs =>
    obtain ⟨hm, hdr, ht⟩ := h
    simp only [causeOf, hm, hdr, Bool.and_self, if_true]
    cases bs with
    | none => exact absurd ht (by simp [TickOk])
    | async =>
      simp only [TickOk] at ht
      obtain ⟨hc, rfl⟩ := ht
      have := (asyncCond_iff s).1 hc
      simp only [C19.Allowed, toSpec, toSpecState, St.served]
      refine ⟨this.1, this.2.1, this.2.2.1, ?_⟩
      intro heq; exact this.2.2.2 ((toSpecState_inj _ _).1 heq)
    | syncRecover =>
      simp only [TickOk] at ht
      simp only [C19.Allowed, toSpec, toSpecState]
      exact ⟨(canSyncNow_iff s).1 ht.1, by rw [ht.2.1]⟩
    | sync =>
      simp only [TickOk] at ht
      obtain ⟨hsr, hfin, rfl⟩ := ht
      obtain ⟨d1, _, d3, _⟩ := decision_spec s xs
      have hst : (decision s xs).dr.state = .syncRecover := hsr
      obtain ⟨_, _, _, hcov⟩ := inv_finished_covered _ (d1 hinv) hfin hst
      simp only [C19.Allowed, toSpec, toSpecState, St.served, hst, true_and]
      have hlog : (step s (.tick xs)).1.log = s.log := by
        simp only [step, hm, Bool.not_true, Bool.false_eq_true, if_false]
        exact (tick_spec s xs).2.2
      rw [hlog, ← d3]
      exact hcov
  | new c x =>
    obtain ⟨hb, hdr, hst, rfl⟩ := h
    simp only at hb
    subst hb
    simp [causeOf, hdr, hst, C19.Allowed, toSpec, toSpecState]
  | cfg c x =>
    obtain ⟨hm, rfl, hcase⟩ := h
    rcases hcase with ⟨hb, h1, h2⟩ | ⟨hb, h1, h2, h3⟩
    · simp only at hb; subst hb
      simp [causeOf, hm, h1, h2, C19.Allowed, toSpec, toSpecState]
    · simp only at hb; subst hb
      simp [causeOf, hm, h1, h2, h3, C19.Allowed, toSpec, toSpecState]
  | store st => exact absurd h (by simp [OpOk])
  | region r => exact absurd h (by simp [OpOk])
  | fill n st sid => exact absurd h (by simp [OpOk])
  | rmregion id => exact absurd h (by simp [OpOk])
  | initOld b => exact absurd h (by simp [OpOk])
  | member id b => exact absurd h (by simp [OpOk])
  | sizes b m => exact absurd h (by simp [OpOk])


/-! ### the region cache stays sorted and non-overlapping; the scan loop never runs out of fuel -/

/-- a region report is well-formed: non-empty range -/
def Region.wf (r : Region) : Prop := r.start < r.end_ ∨ r.end_ = 0

/-- `a` lies entirely before `b` -/
def Before (a b : Region) : Prop := a.end_ ≠ 0 ∧ a.end_ ≤ b.start

/-- the region cache: ordered by key, non-overlapping, non-empty ranges -/
def CacheOk (rs : List Region) : Prop := rs.Pairwise Before ∧ ∀ r ∈ rs, r.wf

theorem not_overlaps (n x : Region) (h : overlaps n x = false) : Before x n ∨ Before n x := by
  simp only [overlaps, keyBelowEnd, Bool.and_eq_false_iff, Bool.or_eq_false_iff, decide_eq_false_iff_not,
    beq_eq_false_iff_ne, ne_eq] at h
  rcases h with ⟨_, h1, h2⟩ | ⟨h1, h2⟩
  · left; exact ⟨h1, by omega⟩
  · right; exact ⟨h1, by omega⟩

theorem insertSorted_ok (r : Region) (l : List Region) (hr : r.wf) (hl : CacheOk l)
    (hd : ∀ x ∈ l, Before x r ∨ Before r x) : CacheOk (insertSorted r l) := by
  induction l with
  | nil => exact ⟨by simp [insertSorted], by simp [insertSorted, hr]⟩
  | cons x xs ih =>
    obtain ⟨hp, hwf⟩ := hl
    rw [List.pairwise_cons] at hp
    have hxs : CacheOk xs := ⟨hp.2, fun y hy => hwf y (by simp [hy])⟩
    have hwx : x.wf := hwf x (by simp)
    simp only [insertSorted]
    split
    · next hle =>
      -- r goes first: it lies before every element
      have hbefore : ∀ y ∈ x :: xs, Before r y := by
        intro y hy
        rcases hd y hy with h | h
        · exfalso
          have hwy : y.wf := hwf y hy
          simp only [List.mem_cons] at hy
          rcases hy with rfl | hy
          · unfold Region.wf at hwy; unfold Before at h; omega
          · have := hp.1 y hy
            unfold Region.wf at hwy hwx; unfold Before at h this; omega
        · exact h
      refine ⟨List.pairwise_cons.2 ⟨hbefore, List.pairwise_cons.2 hp⟩, ?_⟩
      intro y hy
      simp only [List.mem_cons] at hy
      rcases hy with rfl | hy
      · exact hr
      · exact hwf y (by simpa using hy)
    · next hlt =>
      have ih' := ih hxs (fun y hy => hd y (by simp [hy]))
      refine ⟨List.pairwise_cons.2 ⟨?_, ih'.1⟩, ?_⟩
      · intro z hz
        rcases insertSorted_mem r xs z hz with rfl | hz
        · rcases hd x (by simp) with h | h
          · exact h
          · exfalso; unfold Region.wf at hr; unfold Before at h; omega
        · exact hp.1 z hz
      · intro y hy
        simp only [List.mem_cons] at hy
        rcases hy with rfl | hy
        · exact hwx
        · exact ih'.2 y hy

theorem cacheOk_filter (p : Region → Bool) (l : List Region) (h : CacheOk l) : CacheOk (l.filter p) :=
  ⟨h.1.sublist List.filter_sublist, fun r hr => h.2 r (List.mem_filter.1 hr).1⟩

theorem cacheOk_putRegion (rs : List Region) (r : Region) (hr : r.wf) (h : CacheOk rs) : CacheOk (putRegion rs r) := by
  unfold putRegion
  apply insertSorted_ok r _ hr (cacheOk_filter _ _ h)
  intro x hx
  have := (List.mem_filter.1 hx).2
  simp only [Bool.and_eq_true, Bool.not_eq_true'] at this
  exact not_overlaps r x this.2

theorem cacheOk_fill (n : Nat) (st : RState) (sid : Nat) : CacheOk (fillRegions n st sid) := by
  unfold fillRegions
  refine ⟨List.pairwise_map.2 (List.pairwise_lt_range.imp_of_mem ?_), ?_⟩
  · intro a b ha hb hab
    simp only [List.mem_range] at ha hb
    simp only [Before, fillRegion]
    have : a + 1 ≠ n := by omega
    simp only [this, if_false]
    omega
  · intro r hr
    simp only [List.mem_map, List.mem_range] at hr
    obtain ⟨i, _, rfl⟩ := hr
    simp only [Region.wf, fillRegion]
    split <;> omega

/-- number of cached regions at or behind the cursor while the scan loop has to go on -/
def remaining (s : St) : Nat :=
  if s.recKey != 0 || s.recCount == 0 then (s.regions.filter (fun r => decide (s.recKey ≤ r.start))).length else 0

theorem filter_length_lt {α} (p q : α → Bool) (l : List α) (hpq : ∀ x, p x = true → q x = true)
    (hx : ∃ x ∈ l, q x = true ∧ p x = false) : (l.filter p).length < (l.filter q).length := by
  induction l with
  | nil => obtain ⟨x, hx, _⟩ := hx; simp at hx
  | cons y ys ih =>
    have hle : (ys.filter p).length ≤ (ys.filter q).length := by
      clear ih hx
      induction ys with
      | nil => simp
      | cons z zs ihz =>
        simp only [List.filter_cons]
        by_cases hpz : p z = true
        · simp [hpz, hpq z hpz]; exact ihz
        · simp only [hpz, Bool.false_eq_true, if_false]
          split
          · simp; omega
          · exact ihz
    obtain ⟨x, hxm, hqx, hpx⟩ := hx
    simp only [List.mem_cons] at hxm
    simp only [List.filter_cons]
    rcases hxm with rfl | hxm
    · simp [hqx, hpx]; omega
    · have := ih ⟨x, hxm, hqx, hpx⟩
      by_cases hpy : p y = true
      · simp [hpy, hpq y hpy]; exact this
      · simp only [hpy, Bool.false_eq_true, if_false]
        split
        · simp; omega
        · exact this

theorem walkBatch_exhausted (s : St) (rs : List Region) : (walkBatch s rs).1.exhausted = s.exhausted := by
  induction rs generalizing s with
  | nil => rfl
  | cons r rs ih =>
    simp only [walkBatch]
    split
    · rw [ih]
    · rfl

/-- a batch that is passed completely moves the cursor strictly forward (or to the end) -/
theorem walkBatch_all_passed (s : St) (rs : List Region) (hp : rs.Pairwise Before) (hwf : ∀ r ∈ rs, r.wf)
    (hne : rs ≠ []) (hnone : (walkBatch s rs).2 = none) :
    ((walkBatch s rs).1.recKey = 0 ∨ s.recKey < (walkBatch s rs).1.recKey) ∧ 0 < (walkBatch s rs).1.recCount ∧
    (∃ r ∈ rs, r.start = s.recKey) := by
  induction rs generalizing s with
  | nil => exact absurd rfl hne
  | cons r rest ih =>
    simp only [walkBatch] at hnone ⊢
    split at hnone
    · next hrec =>
      simp only [hrec, if_true]
      have hstart : r.start = s.recKey := by
        simp only [regionRecovered, Bool.and_eq_true, beq_iff_eq] at hrec; exact hrec.1.1.symm
      have hwr : r.wf := hwf r (by simp)
      cases rest with
      | nil =>
        simp only [walkBatch]
        refine ⟨?_, by omega, r, by simp, hstart⟩
        unfold Region.wf at hwr; omega
      | cons x xs =>
        rw [List.pairwise_cons] at hp
        have hb := hp.1 x (by simp)
        obtain ⟨h1, h2, _⟩ := ih { s with recKey := r.end_, recCount := s.recCount + 1, passed := s.passed ++ [r] }
          hp.2 (fun y hy => hwf y (by simp [hy])) (by simp) hnone
        refine ⟨?_, h2, r, by simp, hstart⟩
        simp only at h1
        unfold Region.wf at hwr; unfold Before at hb
        rcases h1 with h1 | h1
        · exact Or.inl h1
        · right; omega
    · simp at hnone

theorem updateLoop_fuel (fuel : Nat) (s : St) (hc : CacheOk s.regions) (hf : remaining s < fuel) :
    (updateLoop fuel s).1.exhausted = s.exhausted := by
  induction fuel generalizing s with
  | zero => omega
  | succ fuel ih =>
    simp only [updateLoop]
    split
    · next hcond =>
      split
      · rfl
      · next hne =>
        have hsub : (scan s.regions s.recKey s.batch).Sublist s.regions := by
          unfold scan; simp only
          split
          · exact (List.take_sublist _ _).trans List.filter_sublist
          · exact List.filter_sublist
        have hp := hc.1.sublist hsub
        have hwf : ∀ r ∈ scan s.regions s.recKey s.batch, r.wf := fun r hr => hc.2 r (hsub.subset hr)
        obtain ⟨_, f2, _, _, _⟩ := walkBatch_frame s (scan s.regions s.recKey s.batch)
        split
        · next hnone =>
          have hne' : scan s.regions s.recKey s.batch ≠ [] := by
            intro h; rw [h] at hne; simp at hne
          obtain ⟨h1, h2, r, hr, hrs⟩ := walkBatch_all_passed s _ hp hwf hne' hnone
          have hdec : remaining (walkBatch s (scan s.regions s.recKey s.batch)).1 < remaining s := by
            have hrem : remaining s = (s.regions.filter (fun r => decide (s.recKey ≤ r.start))).length := by
              unfold remaining; rw [if_pos hcond]
            rw [hrem]
            have hrin : r ∈ s.regions := hsub.subset hr
            unfold remaining
            split
            · next hcond1 =>
              have hk : s.recKey < (walkBatch s (scan s.regions s.recKey s.batch)).1.recKey := by
                rcases h1 with h1 | h1
                · simp [h1] at hcond1; omega
                · exact h1
              rw [f2]
              apply filter_length_lt
              · intro x hx; simp only [decide_eq_true_eq] at hx ⊢; omega
              · exact ⟨r, hrin, by simp [hrs], by simp; omega⟩
            · have : 0 < (s.regions.filter (fun r => decide (s.recKey ≤ r.start))).length :=
                List.length_pos_of_mem (List.mem_filter.2 ⟨hrin, by simp [hrs]⟩)
              exact this
          have := ih (walkBatch s (scan s.regions s.recKey s.batch)).1 (by rw [f2]; exact hc) (by omega)
          simp only
          rw [this, walkBatch_exhausted]
        · simp only [sample]
          rw [walkBatch_exhausted]
    · rfl

theorem remaining_le (s : St) : remaining s ≤ s.regions.length := by
  unfold remaining; split
  · exact List.length_filter_le _ _
  · omega

/-- the scan loop of the model is never cut short on a well-formed region cache -/
theorem updateProgress_exhausted (s : St) (hc : CacheOk s.regions) : (updateProgress s).1.exhausted = s.exhausted :=
  updateLoop_fuel _ s hc (by have := remaining_le s; omega)


/-! ### reachable states: well-formed cache, the fuel is never exhausted -/

def Op.wf : Op → Prop
  | .region r => r.wf
  | _ => True

structure Good (s : St) : Prop where
  cache : CacheOk s.regions
  fuel  : s.exhausted = false

theorem switchTo_exhausted (s : St) (tgt : DrState) (x : SwitchIn) : (switchTo s tgt x).1.exhausted = s.exhausted := by
  unfold switchTo
  split
  · rfl
  · split
    · split <;> rfl
    · split <;> rfl

theorem good_switchTo (s : St) (tgt : DrState) (x : SwitchIn) (h : Good s) : Good (switchTo s tgt x).1 :=
  ⟨by rw [(switchTo_frame s tgt x).1]; exact h.cache, by rw [switchTo_exhausted]; exact h.fuel⟩

theorem good_attempt (s : St) (tgt : DrState) (xs : List SwitchIn) (h : Good s) : Good (attempt s tgt xs).1 :=
  good_switchTo s tgt _ h

theorem estimate_exhausted (s : St) : (estimate s).1.exhausted = s.exhausted := by
  unfold estimate; split <;> rfl

theorem good_scanned (s : St) (h : Good s) : Good (scanned s) := by
  obtain ⟨_, c3, _, _⟩ := scanned_frame s
  refine ⟨by rw [c3]; exact h.cache, ?_⟩
  unfold scanned
  rw [estimate_exhausted, updateProgress_exhausted s h.cache]
  exact h.fuel

theorem good_tick (s : St) (xs : List SwitchIn) (h : Good s) : Good (tick s xs).1 := by
  unfold tick
  split
  · exact h
  · have h1 : Good (asyncPhase s xs).1 := by
      unfold asyncPhase; split
      · exact good_attempt _ _ _ h
      · exact h
    have h2 : Good (recoverSwitchPhase (canSyncNow s) (asyncPhase s xs).1 (asyncPhase s xs).2.2).1 := by
      unfold recoverSwitchPhase; split
      · exact good_attempt _ _ _ h1
      · exact h1
    simp only
    rw [recoverPhase_eq]
    split
    · split
      · exact good_attempt _ _ _ (good_scanned _ h2)
      · have := good_scanned _ h2
        exact ⟨this.cache, this.fuel⟩
    · exact h2

theorem good_step (s : St) (op : Op) (hop : op.wf) (h : Good s) : Good (step s op).1 := by
  cases op with
  | tick xs =>
    simp only [step]; split
    · exact h
    · exact good_tick s xs h
  | new c x =>
    have h0 : Good (resetMgr s c) := ⟨h.cache, rfl⟩
    simp only [step, newMgr]
    split
    · exact ⟨h0.cache, h0.fuel⟩
    · split
      · exact ⟨h0.cache, h0.fuel⟩
      · have h1 := good_switchTo (resetMgr s c) .sync x h0
        split
        · exact ⟨h1.cache, h1.fuel⟩
        · exact h1
  | cfg c x =>
    have h0 : Good ({ s with cfg := c } : St) := ⟨h.cache, h.fuel⟩
    simp only [step]
    split
    · exact h
    · simp only [updateConfig]
      split
      · have h1 := good_switchTo _ .syncRecover x h0
        split
        · exact h1
        · exact ⟨h1.cache, h1.fuel⟩
      · split
        · have h1 := good_switchTo _ .async x h0
          split
          · exact h1
          · exact ⟨h1.cache, h1.fuel⟩
        · exact h0
  | store st => exact ⟨h.cache, h.fuel⟩
  | region r => exact ⟨cacheOk_putRegion _ r hop h.cache, h.fuel⟩
  | fill n st sid => exact ⟨cacheOk_fill n st sid, h.fuel⟩
  | rmregion id => exact ⟨cacheOk_filter _ _ h.cache, h.fuel⟩
  | initOld b => simp only [step]; split <;> exact ⟨h.cache, h.fuel⟩
  | member id b => simp only [step]; split <;> exact ⟨h.cache, h.fuel⟩
  | sizes b m => exact ⟨h.cache, h.fuel⟩

theorem good_run (s : St) (ops : List Op) (hops : ∀ op ∈ ops, op.wf) (h : Good s) : Good (run s ops) := by
  induction ops generalizing s with
  | nil => exact h
  | cons op ops ih =>
    simp only [run, List.foldl_cons]
    exact ih _ (fun o ho => hops o (by simp [ho])) (good_step s op (hops op (by simp)) h)


/-! ### completeness of the scan: when every region has reported, one `updateProgress` finishes -/

theorem chain_split (a : Nat) (l1 l2 : List Region) (e : Nat) :
    Chain a (l1 ++ l2) e ↔ ∃ m, Chain a l1 m ∧ Chain m l2 e := by
  induction l1 generalizing a with
  | nil => simp [Chain]
  | cons x xs ih =>
    simp only [List.cons_append, Chain, ih]
    constructor
    · rintro ⟨h, m, h1, h2⟩; exact ⟨m, ⟨h, h1⟩, h2⟩
    · rintro ⟨m, ⟨h, h1⟩, h2⟩; exact ⟨h, m, h1, h2⟩

/-- a chain of recovered regions starting at the cursor is passed completely -/
theorem walkBatch_chain (s : St) (l : List Region) (m : Nat) (hch : Chain s.recKey l m)
    (hall : ∀ r ∈ l, r.st = .integrity ∧ r.sid = s.dr.id) :
    (walkBatch s l).2 = none ∧ (walkBatch s l).1.recKey = m ∧ (walkBatch s l).1.recCount = s.recCount + l.length := by
  induction l generalizing s with
  | nil => simp only [Chain] at hch; simp [walkBatch, hch]
  | cons r rs ih =>
    simp only [Chain] at hch
    have hr := hall r (by simp)
    have hrec : regionRecovered s r s.recKey = true := by
      simp [regionRecovered, hch.1, hr.1, hr.2]
    simp only [walkBatch, hrec, if_true]
    obtain ⟨h1, h2, h3⟩ := ih { s with recKey := r.end_, recCount := s.recCount + 1, passed := s.passed ++ [r] }
      hch.2 (fun x hx => hall x (by simp [hx]))
    refine ⟨h1, h2, ?_⟩
    rw [h3]; simp only [List.length_cons]; omega

theorem scan_split (pre suf : List Region) (key limit : Nat) (hl : 0 < limit)
    (hpre : ∀ r ∈ pre, r.end_ ≠ 0 ∧ r.end_ ≤ key ∧ r.start < key) (hsuf : ∀ r ∈ suf, key ≤ r.start) :
    scan (pre ++ suf) key limit = suf.take limit := by
  unfold scan
  simp only [hl, if_true, List.filter_append]
  have h1 : pre.filter (fun r => decide (key ≤ r.start) || keyBelowEnd key r.end_) = [] := by
    rw [List.filter_eq_nil_iff]
    intro r hr
    obtain ⟨a, b, c⟩ := hpre r hr
    simp [keyBelowEnd, a]; omega
  have h2 : suf.filter (fun r => decide (key ≤ r.start) || keyBelowEnd key r.end_) = suf := by
    rw [List.filter_eq_self]
    intro r hr
    simp [hsuf r hr]
  rw [h1, h2]; rfl

theorem cacheOk_append_left (l1 l2 : List Region) (h : CacheOk (l1 ++ l2)) : CacheOk l2 :=
  ⟨(List.pairwise_append.1 h.1).2.1, fun r hr => h.2 r (by simp [hr])⟩

theorem finished_of_exhausted_update (s : St) : finished { s with exhausted := true } = finished s := rfl

/-- from a cursor that stands at the start of a suffix of the cache whose regions all report integrity
    under the current id and reach the end of the key space, the scan loop ends with the cursor at the end -/
theorem loop_completes (fuel : Nat) (s : St) (pre suf : List Region) (hreg : s.regions = pre ++ suf)
    (hc : CacheOk s.regions) (hsuf : suf ≠ []) (hch : Chain s.recKey suf 0)
    (hall : ∀ r ∈ suf, r.st = .integrity ∧ r.sid = s.dr.id) (hcond : s.recKey ≠ 0 ∨ s.recCount = 0)
    (hb : 0 < s.batch) (hfuel : suf.length < fuel) : finished (updateLoop fuel s).1 = true := by
  induction fuel generalizing s pre suf with
  | zero => omega
  | succ fuel ih =>
    -- the head of the suffix starts at the cursor
    obtain ⟨h0, hs⟩ := List.exists_cons_of_ne_nil hsuf
    obtain ⟨t, rfl⟩ := hs
    have hhead : h0.start = s.recKey := by simp only [Chain] at hch; exact hch.1
    rw [hreg] at hc
    have hpw := List.pairwise_append.1 hc.1
    have hpre : ∀ r ∈ pre, r.end_ ≠ 0 ∧ r.end_ ≤ s.recKey ∧ r.start < s.recKey := by
      intro r hr
      have hb := hpw.2.2 r hr h0 (by simp)
      have hw := hc.2 r (by simp [hr])
      unfold Before at hb; unfold Region.wf at hw
      rw [hhead] at hb
      exact ⟨hb.1, hb.2, by omega⟩
    have hsufkey : ∀ r ∈ h0 :: t, s.recKey ≤ r.start := by
      intro r hr
      simp only [List.mem_cons] at hr
      rcases hr with rfl | hr
      · omega
      · have hb := (List.pairwise_cons.1 hpw.2.1).1 r hr
        have hw := hc.2 h0 (by simp)
        unfold Before at hb; unfold Region.wf at hw; omega
    have hscan : scan s.regions s.recKey s.batch = (h0 :: t).take s.batch := by
      rw [hreg]; exact scan_split pre (h0 :: t) s.recKey s.batch hb hpre hsufkey
    have htake : (h0 :: t).take s.batch ≠ [] := by
      cases hbb : s.batch with
      | zero => omega
      | succ n => simp
    -- split the suffix into the batch and the rest
    have hsplit : (h0 :: t) = (h0 :: t).take s.batch ++ (h0 :: t).drop s.batch := (List.take_append_drop _ _).symm
    obtain ⟨m, hm1, hm2⟩ := (chain_split s.recKey _ _ 0).1 (by rw [← hsplit]; exact hch)
    obtain ⟨w1, w2, w3⟩ := walkBatch_chain s _ m hm1 (fun r hr => hall r (List.mem_of_mem_take hr))
    obtain ⟨f1, f2, _, _, f5⟩ := walkBatch_frame s ((h0 :: t).take s.batch)
    have hcond' : (s.recKey != 0 || s.recCount == 0) = true := by
      rcases hcond with h | h <;> simp [h]
    simp only [updateLoop, hcond', if_true, hscan]
    have hemp : ((h0 :: t).take s.batch).isEmpty = false := by
      cases hh : (h0 :: t).take s.batch with
      | nil => exact absurd hh htake
      | cons _ _ => rfl
    simp only [hemp, Bool.false_eq_true, if_false, w1]
    -- the state after the batch
    have hlen : 0 < ((h0 :: t).take s.batch).length := List.length_pos_iff.2 htake
    by_cases hrest : (h0 :: t).drop s.batch = []
    · -- the batch was the whole suffix: the cursor is at the end
      rw [hrest] at hm2
      simp only [Chain] at hm2
      have hfin : finished (walkBatch s ((h0 :: t).take s.batch)).1 = true := by
        simp only [finished, w2, w3, hm2, beq_self_eq_true, Bool.true_and, decide_eq_true_eq]; omega
      have hstop : ((walkBatch s ((h0 :: t).take s.batch)).1.recKey != 0 ||
          (walkBatch s ((h0 :: t).take s.batch)).1.recCount == 0) = false := by
        rw [w2, w3, hm2]; simp; omega
      cases fuel with
      | zero => simp only [updateLoop]; rw [finished_of_exhausted_update]; exact hfin
      | succ f => simpa [updateLoop, hstop] using hfin
    · -- go on with the rest
      obtain ⟨d0, hd⟩ := List.exists_cons_of_ne_nil hrest
      obtain ⟨dt, hdt⟩ := hd
      have hmne : m ≠ 0 := by
        -- the last region of the batch lies before the first region of the rest
        have hlastmem := List.getLast_mem htake
        have hpw2 := hpw.2.1
        rw [hsplit] at hpw2
        have hbef := (List.pairwise_append.1 hpw2).2.2 _ hlastmem d0 (by rw [hdt]; simp)
        -- m is the end of the last region of the batch
        have hmlast : ∀ (a : Nat) (l : List Region) (hl : l ≠ []) (e : Nat), Chain a l e → (l.getLast hl).end_ = e := by
          intro a l hl e hce
          induction l generalizing a with
          | nil => exact absurd rfl hl
          | cons x xs ihx =>
            cases xs with
            | nil => simp only [Chain] at hce; simpa using hce.2
            | cons y ys =>
              simp only [Chain] at hce
              rw [List.getLast_cons (by simp)]
              exact ihx _ (by simp) (by simpa [Chain] using hce.2)
        have := hmlast _ _ htake m hm1
        unfold Before at hbef; omega
      apply ih (walkBatch s ((h0 :: t).take s.batch)).1 (pre ++ (h0 :: t).take s.batch) ((h0 :: t).drop s.batch)
      · rw [f2, hreg, List.append_assoc, ← hsplit]
      · rw [f2, hreg]; exact hc
      · exact hrest
      · rw [w2]; exact hm2
      · intro r hr; rw [f1]; exact hall r (List.mem_of_mem_drop hr)
      · left; rw [w2]; exact hmne
      · rw [f5]; exact hb
      · have : ((h0 :: t).take s.batch).length + ((h0 :: t).drop s.batch).length = (h0 :: t).length := by
          rw [← List.length_append, List.take_append_drop]
        omega

end PdModel.DrAutoSync
