import PdModel.Lemmas.RegionTreeSet
set_option linter.unusedSimpArgs false
set_option linter.unusedVariables false
/-!
RemoveRegion refines `remove`; every query of RegionsInfo equals its linear-scan definition on `abs s`.
-/
namespace PdModel.RegionTree
open PdModel.Spec.C07 (WFRange WF Overlap OnStore)
open PdModel.Spec

theorem getRegion_some {s : RegionsInfo} {id : Nat} {g : Region} (h : getRegion s id = some g) :
    ∃ x, mapGet s.regions id = some x ∧ s.acc x = g := by
  unfold getRegion at h
  cases hm : mapGet s.regions id with
  | none => rw [hm] at h; cases h
  | some x => rw [hm] at h; exact ⟨x, rfl, Option.some.inj h⟩

theorem getRegion_item {s : RegionsInfo} (h : Inv s) {a : Nat} (ha : a ∈ s.tree.items) :
    getRegion s (s.acc a).id = some (s.acc a) := by
  unfold getRegion; rw [h.map.fwd a ha]; rfl

/-- **RemoveRegion refines `remove`** (called with the cached region of that id, as every caller does) -/
theorem removeRegion_refines {s : RegionsInfo} {r : Region} (h : Inv s) (hr : getRegion s r.id = some r) :
    Inv (removeRegion s r) ∧ abs (removeRegion s r) = C07.remove (abs s) r.id := by
  obtain ⟨x, hsome, hxr⟩ := getRegion_some hr
  obtain ⟨hxU, hxid⟩ := h.map.bwd _ _ hsome
  obtain ⟨sA, hsA⟩ : ∃ sA : RegionsInfo,
      sA = { s with tree := s.tree.remove s.acc r, regions := mapDel s.regions r.id } := ⟨_, rfl⟩
  have hrm : removeRegion s r = removeRegionFromSubTree sA (sA.acc x) := by
    unfold removeRegion; simp only; rw [hsA]; show _ = removeRegionFromSubTree _ (s.acc x); rw [hxr]
  have hsAacc : sA.acc = s.acc := by rw [hsA]; rfl
  have hrem := Tree.remove_is h.ord h.map.inj hxU (treeIs_main h)
  rw [hxr] at hrem
  have hrem := hrem.congr (Q := fun a => decide (a ≠ x)) (by intro a _; simp)
  obtain ⟨U, hU⟩ : ∃ U, U = s.tree.items.filter (fun a => decide (a ≠ x)) := ⟨_, rfl⟩
  unfold TreeIs at hrem
  rw [← hU] at hrem
  have hAtree : sA.tree = s.tree.remove s.acc r := by rw [hsA]
  have hsubsA : SubsOk sA s.tree.items :=
    subsOk_congr (s := s) (fun role => by rw [hsA]; cases role <;> rfl) (fun _ _ => by rw [hsAacc]) h.subs
  have hA := subsOk_removeSub (s := sA) (by rw [hsAacc]; exact h.ord) (by rw [hsAacc]; exact h.map.inj) hxU
    (by rw [hsAacc]; exact h.wf x hxU) hsubsA
  rw [← hrm, ← hU] at hA
  have hftree : (removeRegion s r).tree = s.tree.remove s.acc r := by
    rw [hrm]; unfold removeRegionFromSubTree; rw [mapFams_tree, hAtree]
  have hfacc : (removeRegion s r).acc = s.acc := by
    rw [hrm]; unfold removeRegionFromSubTree; rw [mapFams_acc, hsAacc]
  have hfreg : (removeRegion s r).regions = mapDel s.regions r.id := by
    rw [hrm]; unfold removeRegionFromSubTree; rw [mapFams_regions, hsA]
  have hfheap : (removeRegion s r).heap = s.heap := by
    rw [hrm]; unfold removeRegionFromSubTree; rw [mapFams_heap, hsA]
  have hfnil : (removeRegion s r).nilDeref = false := by
    rw [hrm]; unfold removeRegionFromSubTree; rw [mapFams_nil, hsA]; exact h.noNil
  have hUmem : ∀ a, a ∈ U ↔ a ∈ s.tree.items ∧ a ≠ x := by
    intro a; rw [hU]; simp [List.mem_filter]
  have hidne : ∀ a ∈ U, (s.acc a).id ≠ r.id := by
    intro a ha e
    obtain ⟨h1, h2⟩ := (hUmem a).1 ha
    exact h2 (h.map.inj a h1 x hxU (by rw [e, hxid]))
  refine ⟨⟨hfnil, ?_, ?_, ?_, ⟨?_, ?_, ?_, ?_⟩, ?_⟩, ?_⟩
  · rw [hfacc, hftree, hrem.1, hU]; exact h.ord.filter _ _
  · rw [hfacc, hftree, hrem.1]; intro a ha; exact h.wf a ((hUmem a).1 ha).1
  · rw [hfacc, hftree, hrem.1]; exact hrem.2
  · rw [hfreg, mapDel_keys]; exact List.Nodup.sublist List.filter_sublist h.map.keys
  · rw [hfacc, hftree, hrem.1, hfreg]; intro a ha
    rw [mapGet_mapDel]; simp [hidne a ha, h.map.fwd a ((hUmem a).1 ha).1]
  · rw [hfacc, hftree, hrem.1, hfreg]; intro id a hg
    rw [mapGet_mapDel] at hg
    split at hg
    · cases hg
    · next hne =>
      obtain ⟨g1, g2⟩ := h.map.bwd id a hg
      refine ⟨(hUmem a).2 ⟨g1, ?_⟩, g2⟩
      intro e; subst e; exact hne (by rw [← g2, hxid])
  · rw [hftree, hrem.1, hfheap]; intro a ha; exact h.map.bound a ((hUmem a).1 ha).1
  · rw [hftree, hrem.1]; exact hA
  · unfold abs C07.remove
    rw [hfacc, hftree, hrem.1, hU, abs_filter_ne h hxU, hxid]
    rfl

/-! ### RemoveRegion with an older RegionInfo of the same id -/

/-- regionTree.remove only reads the start key, the id and the size of its argument -/
theorem Tree.remove_congr (acc : Acc) (t : Tree) {g g' : Region} (h1 : g.startKey = g'.startKey)
    (h2 : g.id = g'.id) (h3 : g.size = g'.size) : t.remove acc g = t.remove acc g' := by
  unfold Tree.remove; rw [h1, h2, h3]

theorem famRemove_congr (acc : Acc) (m : List (Nat × Tree)) (st : Nat) {g g' : Region}
    (h1 : g.startKey = g'.startKey) (h2 : g.id = g'.id) (h3 : g.size = g'.size) :
    famRemove acc m st g = famRemove acc m st g' := by
  unfold famRemove
  cases mapGet m st with
  | none => rfl
  | some t => simp only [Tree.remove_congr acc t h1 h2 h3]

/-- Lemma A for an object `g` that is not the cached one but has its id, start key and size, and whose peers
    sit on (at least) the stores where the cached region is indexed -/
theorem subsOk_removeSub_stale {s : RegionsInfo} {U : List Nat} {y : Nat} {g : Region} (hU : Ordered s.acc U)
    (hinj : IdInj s.acc U) (hy : y ∈ U)
    (h1 : g.startKey = (s.acc y).startKey) (h2 : g.id = (s.acc y).id) (h3 : g.size = (s.acc y).size)
    (hnd : (g.peers.map (·.store)).Nodup)
    (hcover : ∀ role st, OnStore role st (s.acc y) → st ∈ g.peers.map (·.store)) (h : SubsOk s U) :
    SubsOk (removeRegionFromSubTree s g) (U.filter (fun a => decide (a ≠ y))) := by
  intro role st
  unfold removeRegionFromSubTree
  have hfold : ∀ (stores : List Nat) (m : List (Nat × Tree)),
      stores.foldl (fun m st' => famRemove s.acc m st' g) m =
      stores.foldl (fun m st' => famRemove s.acc m st' (s.acc y)) m := by
    intro stores
    induction stores with
    | nil => intro m; rfl
    | cons a l ih => intro m; simp only [List.foldl_cons, famRemove_congr s.acc m a h1 h2 h3, ih]
  rw [sub_eq, mapFams_fam, mapFams_acc, hfold, subOf_foldl_famRemove _ _ _ hnd, ← sub_eq]
  have h0 := h role st
  unfold TreeIs
  rw [filter_ne_filter]
  split
  · exact Tree.remove_is hU hinj hy h0
  · next hst =>
    apply h0.congr
    intro a ha
    by_cases e : a = y
    · subst e
      have : ¬ OnStore role st (s.acc a) := fun ho => hst (hcover role st ho)
      simp [this]
    · simp [e]

/-- **RemoveRegion with an older RegionInfo of a cached id** (the DropCacheRegion race: a heartbeat that moves the
    leader / changes roles or pending peers lands between GetRegion and RemoveRegion): as long as the old object
    has the start key and size of the cached region and a peer on every store where the cached region is indexed,
    the id is removed from the map, the main tree and every sub-tree, and all counters stay exact. -/
theorem removeRegion_stale_refines {s : RegionsInfo} {g c : Region} (h : Inv s)
    (hc : getRegion s g.id = some c) (h1 : g.startKey = c.startKey) (h3 : g.size = c.size)
    (hnd : (g.peers.map (·.store)).Nodup)
    (hcover : ∀ role st, OnStore role st c → st ∈ g.peers.map (·.store)) :
    Inv (removeRegion s g) ∧ abs (removeRegion s g) = C07.remove (abs s) g.id := by
  obtain ⟨x, hsome, hxc⟩ := getRegion_some hc
  obtain ⟨hxU, hxid⟩ := h.map.bwd _ _ hsome
  subst hxc
  -- the tree part and the map part are those of removing the cached object
  have htree : s.tree.remove s.acc g = s.tree.remove s.acc (s.acc x) :=
    Tree.remove_congr s.acc s.tree h1 hxid.symm h3
  obtain ⟨sA, hsA⟩ : ∃ sA : RegionsInfo,
      sA = { s with tree := s.tree.remove s.acc (s.acc x), regions := mapDel s.regions g.id } := ⟨_, rfl⟩
  have hrm : removeRegion s g = removeRegionFromSubTree sA g := by
    unfold removeRegion; simp only; rw [htree, hsA]
  have hsAacc : sA.acc = s.acc := by rw [hsA]; rfl
  have hrem := (Tree.remove_is h.ord h.map.inj hxU (treeIs_main h)).congr (Q := fun a => decide (a ≠ x))
    (by intro a _; simp)
  obtain ⟨U, hU⟩ : ∃ U, U = s.tree.items.filter (fun a => decide (a ≠ x)) := ⟨_, rfl⟩
  unfold TreeIs at hrem
  rw [← hU] at hrem
  have hAtree : sA.tree = s.tree.remove s.acc (s.acc x) := by rw [hsA]
  have hsubsA : SubsOk sA s.tree.items :=
    subsOk_congr (s := s) (fun role => by rw [hsA]; cases role <;> rfl) (fun _ _ => by rw [hsAacc]) h.subs
  have hA := subsOk_removeSub_stale (s := sA) (g := g) (by rw [hsAacc]; exact h.ord) (by rw [hsAacc]; exact h.map.inj)
    hxU (by rw [hsAacc]; exact h1) (by rw [hsAacc]; exact hxid.symm) (by rw [hsAacc]; exact h3) hnd
    (by rw [hsAacc]; exact hcover) hsubsA
  rw [← hrm, ← hU] at hA
  have hftree : (removeRegion s g).tree = s.tree.remove s.acc (s.acc x) := by
    rw [hrm]; unfold removeRegionFromSubTree; rw [mapFams_tree, hAtree]
  have hfacc : (removeRegion s g).acc = s.acc := by
    rw [hrm]; unfold removeRegionFromSubTree; rw [mapFams_acc, hsAacc]
  have hfreg : (removeRegion s g).regions = mapDel s.regions g.id := by
    rw [hrm]; unfold removeRegionFromSubTree; rw [mapFams_regions, hsA]
  have hfheap : (removeRegion s g).heap = s.heap := by
    rw [hrm]; unfold removeRegionFromSubTree; rw [mapFams_heap, hsA]
  have hfnil : (removeRegion s g).nilDeref = false := by
    rw [hrm]; unfold removeRegionFromSubTree; rw [mapFams_nil, hsA]; exact h.noNil
  have hUmem : ∀ a, a ∈ U ↔ a ∈ s.tree.items ∧ a ≠ x := by
    intro a; rw [hU]; simp [List.mem_filter]
  have hidne : ∀ a ∈ U, (s.acc a).id ≠ g.id := by
    intro a ha e
    obtain ⟨g1, g2⟩ := (hUmem a).1 ha
    exact g2 (h.map.inj a g1 x hxU (by rw [e, hxid]))
  refine ⟨⟨hfnil, ?_, ?_, ?_, ⟨?_, ?_, ?_, ?_⟩, ?_⟩, ?_⟩
  · rw [hfacc, hftree, hrem.1, hU]; exact h.ord.filter _ _
  · rw [hfacc, hftree, hrem.1]; intro a ha; exact h.wf a ((hUmem a).1 ha).1
  · rw [hfacc, hftree, hrem.1]; exact hrem.2
  · rw [hfreg, mapDel_keys]; exact List.Nodup.sublist List.filter_sublist h.map.keys
  · rw [hfacc, hftree, hrem.1, hfreg]; intro a ha
    rw [mapGet_mapDel]; simp [hidne a ha, h.map.fwd a ((hUmem a).1 ha).1]
  · rw [hfacc, hftree, hrem.1, hfreg]; intro id a hg
    rw [mapGet_mapDel] at hg
    split at hg
    · cases hg
    · next hne =>
      obtain ⟨g1, g2⟩ := h.map.bwd id a hg
      refine ⟨(hUmem a).2 ⟨g1, ?_⟩, g2⟩
      intro e; subst e; exact hne (by rw [← g2, hxid])
  · rw [hftree, hrem.1, hfheap]; intro a ha; exact h.map.bound a ((hUmem a).1 ha).1
  · rw [hftree, hrem.1]; exact hA
  · unfold abs C07.remove
    rw [hfacc, hftree, hrem.1, hU, abs_filter_ne h hxU, hxid]
    rfl

/-! ### queries -/

theorem find?_eq_some_of_unique {β : Type} {l : List β} {p : β → Bool} {b : β} (hb : b ∈ l) (hp : p b = true)
    (hu : ∀ c ∈ l, p c = true → c = b) : l.find? p = some b := by
  induction l with
  | nil => cases hb
  | cons y ys ih =>
    simp only [List.find?_cons]
    cases hy : p y with
    | true => simp only; rw [hu y (by simp) hy]
    | false =>
      simp only
      rcases List.mem_cons.1 hb with e | hb'
      · subst e; rw [hp] at hy; cases hy
      · exact ih hb' (fun c hc => hu c (by simp [hc]))

theorem getRegion_eq {s : RegionsInfo} (h : Inv s) (id : Nat) : getRegion s id = C07.get (abs s) id := by
  unfold C07.get abs
  cases hm : mapGet s.regions id with
  | some x =>
    obtain ⟨hx, hid⟩ := h.map.bwd _ _ hm
    have : getRegion s id = some (s.acc x) := by unfold getRegion; rw [hm]; rfl
    rw [this]
    symm
    apply find?_eq_some_of_unique (List.mem_map.2 ⟨x, hx, rfl⟩) (by simp [hid])
    intro c hc hp
    obtain ⟨b, hb, rfl⟩ := List.mem_map.1 hc
    simp only [decide_eq_true_eq] at hp
    rw [h.map.inj b hb x hx (by rw [hp, hid])]
  | none =>
    have : getRegion s id = none := by unfold getRegion; rw [hm]; rfl
    rw [this]
    symm
    rw [List.find?_eq_none]
    intro c hc
    obtain ⟨b, hb, rfl⟩ := List.mem_map.1 hc
    simp only [decide_eq_true_eq]
    intro e
    have := h.map.fwd b hb
    rw [e, hm] at this; cases this

/-- the item-level lookup, mapped to regions, is the linear scan -/
theorem find_map_eq {s : RegionsInfo} (h : Inv s) (k : Key) :
    (find s.acc s.tree.items k).map s.acc = C07.search (abs s) k := by
  unfold C07.search abs
  cases hf : find s.acc s.tree.items k with
  | some a =>
    obtain ⟨ha, hc⟩ := (find_eq_some_iff _ h.ord).1 hf
    simp only [Option.map_some]
    symm
    apply find?_eq_some_of_unique (List.mem_map.2 ⟨a, ha, rfl⟩) (by simp [hc])
    intro c hcm hp
    obtain ⟨b, hb, rfl⟩ := List.mem_map.1 hcm
    simp only [decide_eq_true_eq] at hp
    have := (find_eq_some_iff _ h.ord).2 ⟨hb, hp⟩
    rw [hf] at this
    rw [Option.some.inj this]
  | none =>
    simp only [Option.map_none]
    symm
    rw [List.find?_eq_none]
    intro c hc
    obtain ⟨b, hb, rfl⟩ := List.mem_map.1 hc
    simp only [decide_eq_true_eq]
    exact (find_eq_none_iff _ h.ord).1 hf b hb

theorem search_eq_aux {s : RegionsInfo} (h : Inv s) (k : Key) : searchRegion s k = C07.search (abs s) k := by
  rw [← find_map_eq h k]
  unfold searchRegion
  cases hf : find s.acc s.tree.items k with
  | none => rfl
  | some a => exact getRegion_item h ((find_eq_some_iff _ h.ord).1 hf).1

theorem find?_map_acc (acc : Acc) (l : List Nat) (p : Region → Bool) :
    (l.map acc).find? p = (l.find? (fun a => p (acc a))).map acc := by
  induction l with
  | nil => rfl
  | cons a l ih =>
    simp only [List.map_cons, List.find?_cons]
    cases p (acc a) <;> simp [ih]

theorem searchPrev_eq_aux {s : RegionsInfo} (h : Inv s) (k : Key) :
    searchPrevRegion s k = C07.searchPrev (abs s) k := by
  unfold C07.searchPrev
  rw [← find_map_eq h k]
  unfold searchPrevRegion searchPrevOf adjacentOf
  cases hf : find s.acc s.tree.items k with
  | none => rfl
  | some cur =>
    simp only [Option.map_some]
    have hp := prev_eq_find? s.acc h.ord (s.acc cur).startKey
    have hspec : (abs s).find? (fun p => decide (p.endKey ≠ [] ∧ p.endKey = (s.acc cur).startKey)) =
        (s.tree.items.find? (fun a => decide ((s.acc a).endKey ≠ [] ∧ (s.acc a).endKey = (s.acc cur).startKey))).map s.acc := by
      unfold abs; exact find?_map_acc _ _ _
    rw [hspec, ← hp]
    cases hl : (s.tree.items.filter (fun a => decide ((s.acc a).startKey < (s.acc cur).startKey))).getLast? with
    | none => rfl
    | some p =>
      simp only
      have hpm : p ∈ s.tree.items :=
        ((getLast?_filter_eq_some _ (h.ord.asc _) _).1 hl).1
      by_cases e : (s.acc p).endKey = (s.acc cur).startKey
      · simp only [e, if_true, Option.map_some]; exact getRegion_item h hpm
      · simp only [e, if_false, Option.map_none]

theorem takeLimit_map {β γ : Type} (f : β → γ) (limit : Int) (l : List β) :
    takeLimit limit (l.map f) = (C07.takeLimit limit l).map f := by
  unfold takeLimit C07.takeLimit
  split
  · rw [List.map_take]
  · rfl

theorem overlaps_eq_aux {s : RegionsInfo} (h : Inv s) (q : Region) : getOverlaps s q = C07.overlaps (abs s) q := by
  unfold getOverlaps C07.overlaps abs
  rw [overlapsOf_eq_filter _ h.ord, List.filter_map]
  rfl

theorem scanRange_eq_aux {s : RegionsInfo} (h : Inv s) (sk ek : Key) (limit : Int) :
    scanRange s sk ek limit = (C07.scan (abs s) sk ek limit).map some := by
  have hvis : (scanFrom s.acc s.tree.items sk).takeWhile
      (fun a => decide (¬ (ek ≠ [] ∧ ek ≤ (s.acc a).startKey))) =
      overlapsOf s.acc s.tree.items { startKey := sk, endKey := ek } := rfl
  unfold scanRange C07.scan
  simp only
  rw [hvis, overlapsOf_eq_filter _ h.ord]
  have hmap : (s.tree.items.filter (fun a => decide (Overlap (s.acc a) { startKey := sk, endKey := ek }))).map (regionOfItem s) =
      ((abs s).filter (fun x => decide ((x.endKey = [] ∨ sk < x.endKey) ∧ (ek = [] ∨ x.startKey < ek)))).map some := by
    unfold abs
    rw [List.filter_map, List.map_map]
    apply List.map_congr_left
    intro a ha
    exact getRegion_item h (List.mem_filter.1 ha).1
  rw [hmap, takeLimit_map]

theorem adjacent_eq_aux {s : RegionsInfo} (h : Inv s) (q : Region) :
    getAdjacentRegions s q = C07.adjacent (abs s) q := by
  unfold getAdjacentRegions C07.adjacent adjacentOf
  simp only
  congr 1
  · have hp := prev_eq_find? s.acc h.ord q.startKey
    have hspec : (abs s).find? (fun p => decide (p.endKey ≠ [] ∧ p.endKey = q.startKey)) =
        (s.tree.items.find? (fun a => decide ((s.acc a).endKey ≠ [] ∧ (s.acc a).endKey = q.startKey))).map s.acc := by
      unfold abs; exact find?_map_acc _ _ _
    rw [hspec, ← hp]
    cases hl : (s.tree.items.filter (fun a => decide ((s.acc a).startKey < q.startKey))).getLast? with
    | none => rfl
    | some p =>
      simp only
      have hpm : p ∈ s.tree.items := ((getLast?_filter_eq_some _ (h.ord.asc _) _).1 hl).1
      by_cases e : (s.acc p).endKey = q.startKey
      · simp only [e, if_true, Option.map_some]; exact getRegion_item h hpm
      · simp only [e, if_false, Option.map_none]
  · rw [List.head?_filter]
    have hspec : (abs s).find? (fun n => decide (q.startKey < n.startKey)) =
        (s.tree.items.find? (fun a => decide (q.startKey < (s.acc a).startKey))).map s.acc := by
      unfold abs; exact find?_map_acc _ _ _
    rw [hspec]
    cases hl : s.tree.items.find? (fun a => decide (q.startKey < (s.acc a).startKey)) with
    | none => rfl
    | some n =>
      simp only [Option.map_some]
      have hnm : n ∈ s.tree.items := List.mem_of_find?_eq_some hl
      by_cases e : q.endKey = (s.acc n).startKey
      · simp only [e, if_true]; exact getRegion_item h hnm
      · have e' : ¬ (s.acc n).startKey = q.endKey := fun h' => e h'.symm
        simp only [e, e', if_false]

/-! ### counters -/

theorem nodup_map_of_inj_on {β γ : Type} (f : β → γ) {l : List β} (hn : l.Nodup)
    (hinj : ∀ a ∈ l, ∀ b ∈ l, f a = f b → a = b) : (l.map f).Nodup := by
  induction l with
  | nil => simp
  | cons a l ih =>
    have hc := List.nodup_cons.1 hn
    rw [List.map_cons, List.nodup_cons]
    refine ⟨?_, ih hc.2 (fun x hx y hy => hinj x (by simp [hx]) y (by simp [hy]))⟩
    intro hm
    obtain ⟨b, hb, e⟩ := List.mem_map.1 hm
    have := hinj b (by simp [hb]) a (by simp) e
    exact hc.1 (this ▸ hb)

/-- the number of indexed regions equals the number of cached regions -/
theorem tree_len_eq_map_len_aux {s : RegionsInfo} (h : Inv s) : treeLen s = regionCount s := by
  unfold treeLen regionCount Tree.length
  have h1 : (s.tree.items.map (fun a => (s.acc a).id)).Nodup :=
    nodup_map_of_inj_on _ ((h.ord.asc _).nodup _) h.map.inj
  have hperm : (s.tree.items.map (fun a => (s.acc a).id)).Perm (s.regions.map (·.1)) := by
    rw [List.perm_ext_iff_of_nodup h1 h.map.keys]
    intro id
    constructor
    · intro hm
      obtain ⟨a, ha, rfl⟩ := List.mem_map.1 hm
      have := mapGet_mem (h.map.fwd a ha)
      exact List.mem_map.2 ⟨_, this, rfl⟩
    · intro hm
      cases hg : mapGet s.regions id with
      | none => exact absurd hm (mapGet_none_iff.1 hg)
      | some a =>
        obtain ⟨g1, g2⟩ := h.map.bwd id a hg
        exact List.mem_map.2 ⟨a, g1, g2⟩
  have := hperm.length_eq
  simpa using this

theorem regionCount_eq {s : RegionsInfo} (h : Inv s) : regionCount s = (abs s).length := by
  rw [← tree_len_eq_map_len_aux h]; unfold treeLen Tree.length abs; simp

theorem storeItems_eq {s : RegionsInfo} (h : Inv s) (role : Role) (st : Nat) :
    (s.sub role st).items.map s.acc = C07.storeRegions (abs s) role st := by
  unfold C07.storeRegions abs
  rw [(h.subs role st).1, List.filter_map]
  rfl

theorem storeCount_eq {s : RegionsInfo} (h : Inv s) (role : Role) (st : Nat) :
    storeCount s role st = C07.storeCount (abs s) role st := by
  unfold storeCount C07.storeCount Tree.length
  rw [← storeItems_eq h, List.length_map]

theorem storeSize_eq {s : RegionsInfo} (h : Inv s) (role : Role) (st : Nat) :
    storeSize s role st = C07.storeSize (abs s) role st := by
  unfold storeSize C07.storeSize Tree.total
  rw [← storeItems_eq h, ← sumOf_eq_spec]
  split
  · next h0 =>
    rw [List.length_eq_zero_iff.1 h0]; rfl
  · have := (h.subs role st)
    rw [this.2, ← this.1]

theorem totalSize_eq_aux {s : RegionsInfo} (h : Inv s) : totalSize s = C07.sumSize (abs s) := by
  unfold totalSize Tree.total abs
  rw [← sumOf_eq_spec]
  split
  · next h0 => rw [List.length_eq_zero_iff.1 h0]; rfl
  · exact h.total

theorem storeRegions_eq_aux {s : RegionsInfo} (h : Inv s) (st : Nat) :
    storeRegions s st = C07.storeRegions (abs s) .leader st ++ C07.storeRegions (abs s) .follower st ++
      C07.storeRegions (abs s) .learner st := by
  unfold storeRegions
  rw [List.map_append, List.map_append, storeItems_eq h, storeItems_eq h, storeItems_eq h]

/-! ### random picks -/

/-- the regions a random pick can return are exactly the regions of that store and kind that lie inside
    one of the key ranges -/
theorem randRegionCands_eq {s : RegionsInfo} (h : Inv s) (role : Role) (st : Nat) (ranges : List (Key × Key)) :
    randRegionCands s role st ranges = C07.randCands (abs s) role st ranges := by
  unfold randRegionCands C07.randCands randCands
  have hsubO : Ordered s.acc (s.sub role st).items := by
    rw [(h.subs role st).1]; exact h.ord.filter _ _
  have hnorm : normRanges ranges = C07.normRanges ranges := rfl
  have hflat : ((normRanges ranges).flatMap (fun rg => randCands1 s.acc (s.sub role st).items rg.1 rg.2)).map s.acc =
      (C07.normRanges ranges).flatMap (fun rg => (C07.storeRegions (abs s) role st).filter (fun x => decide (Involved x rg.1 rg.2))) := by
    rw [hnorm, List.map_flatMap]
    congr 1
    funext rg
    rw [randCands1_eq_filter _ hsubO, ← storeItems_eq h, List.filter_map]
    rfl
  split
  · next he =>
    have : (s.sub role st).items = [] := by simpa using he
    rw [← hflat, this]
    simp [randCands1, randWindow]
  · exact hflat

end PdModel.RegionTree
