import PdModel.Model.OpCtl
import PdModel.Spec.C09
set_option linter.unusedSimpArgs false
set_option linter.unusedVariables false
/-! Lemmas for C09: every controller function only moves operator statuses along `validTrans`,
    never touches an operator's identity, never touches the cached regions. -/
namespace PdModel.OpCtl
open PdModel.Steps PdModel.Spec

theorem canMove_eq_allowed (a b : Status) : canMove a b = C09.allowed a b := by
  cases a <;> cases b <;> decide

/-- reflexive-transitive closure of the allowed moves -/
inductive Reach : Status → Status → Prop where
  | refl (a : Status) : Reach a a
  | step {a b c : Status} (h : C09.allowed a b = true) (r : Reach b c) : Reach a c

theorem Reach.trans {a b c : Status} (h1 : Reach a b) (h2 : Reach b c) : Reach a c := by
  induction h1 with
  | refl => exact h2
  | step h _ ih => exact Reach.step h (ih h2)

theorem Reach.single {a b : Status} (h : C09.allowed a b = true) : Reach a b := Reach.step h (Reach.refl b)

/-- what never changes of an operator, and how its status may have moved -/
structure Rel (o o' : Op) : Prop where
  id : o'.id = o.id
  desc : o'.desc = o.desc
  region : o'.region = o.region
  confVer : o'.confVer = o.confVer
  version : o'.version = o.version
  level : o'.level = o.level
  kindMerge : o'.kindMerge = o.kindMerge
  range0 : o'.range0 = o.range0
  steps : o'.steps = o.steps
  status : Reach o.status o'.status

theorem Rel.refl (o : Op) : Rel o o := ⟨rfl, rfl, rfl, rfl, rfl, rfl, rfl, rfl, rfl, Reach.refl _⟩

theorem Rel.trans {a b c : Op} (h1 : Rel a b) (h2 : Rel b c) : Rel a c :=
  ⟨h2.id.trans h1.id, h2.desc.trans h1.desc, h2.region.trans h1.region, h2.confVer.trans h1.confVer,
   h2.version.trans h1.version, h2.level.trans h1.level, h2.kindMerge.trans h1.kindMerge,
   h2.range0.trans h1.range0, h2.steps.trans h1.steps, h1.status.trans h2.status⟩

/-! ### operator-level functions -/

theorem rel_to (o : Op) (dst : Status) : Rel o (o.to dst).1 := by
  unfold Op.to
  split
  · next h =>
    refine ⟨rfl, rfl, rfl, rfl, rfl, rfl, rfl, rfl, rfl, ?_⟩
    exact Reach.single (by rw [← canMove_eq_allowed]; exact h)
  · exact Rel.refl o

theorem rel_checkSuccess (o : Op) : Rel o o.checkSuccess.1 := by
  unfold Op.checkSuccess
  split
  · exact rel_to o .success
  · exact Rel.refl o

theorem rel_checkExpired (o : Op) : Rel o o.checkExpired.1 := by
  unfold Op.checkExpired
  split
  · split
    · exact rel_to o .expired
    · exact Rel.refl o
  · exact Rel.refl o

theorem rel_checkTimeout (o : Op) : Rel o o.checkTimeout.1 := by
  unfold Op.checkTimeout
  have h1 := rel_checkSuccess o
  generalize o.checkSuccess = r at h1
  obtain ⟨o1, ok⟩ := r
  simp only
  split
  · exact h1
  · split
    · split
      · exact Rel.trans h1 (rel_to o1 .timeout)
      · exact h1
    · exact h1

theorem rel_check (o : Op) (v : View) : Rel o (o.check v).1 := by
  unfold Op.check
  split
  · exact Rel.refl o
  · have h1 : Rel o { o with cur := advance v o.range0 (o.steps.drop o.cur) o.cur } :=
      ⟨rfl, rfl, rfl, rfl, rfl, rfl, rfl, rfl, rfl, Reach.refl _⟩
    exact Rel.trans h1 (rel_checkTimeout _)

/-! ### controller state -/

theorem getOp_some {c : Ctl} {k : Nat} {o : Op} (h : c.getOp k = some o) : o.id = k := by
  unfold Ctl.getOp at h
  simpa using List.find?_some h

theorem getOp_setOp (c : Ctl) (o' : Op) (k : Nat) :
    (c.setOp o').getOp k = (c.getOp k).map (fun x => if x.id == o'.id then o' else x) := by
  unfold Ctl.setOp Ctl.getOp
  simp only
  rw [List.find?_map]
  congr 2
  funext x
  simp only [Function.comp]
  by_cases h : x.id = o'.id
  · simp [h]
  · simp [h]

/-- one controller state evolved into another: the same operators, statuses moved along the allowed
    transitions, same cached regions, same configuration -/
structure Le (c c' : Ctl) : Prop where
  some : ∀ k o, c.getOp k = some o → ∃ o', c'.getOp k = some o' ∧ Rel o o'
  none : ∀ k, c.getOp k = none → c'.getOp k = none
  views : c'.views = c.views
  maxWaiting : c'.maxWaiting = c.maxWaiting

theorem Le.refl (c : Ctl) : Le c c := ⟨fun k o h => ⟨o, h, Rel.refl o⟩, fun k h => h, rfl, rfl⟩

theorem Le.trans {a b c : Ctl} (h1 : Le a b) (h2 : Le b c) : Le a c := by
  refine ⟨?_, fun k h => h2.none k (h1.none k h), h2.views.trans h1.views, h2.maxWaiting.trans h1.maxWaiting⟩
  intro k o h
  obtain ⟨o1, g1, r1⟩ := h1.some k o h
  obtain ⟨o2, g2, r2⟩ := h2.some k o1 g1
  exact ⟨o2, g2, Rel.trans r1 r2⟩

/-- states that differ only outside `ops`, `views`, `maxWaiting` -/
theorem Le.of_eq {c c' : Ctl} (h1 : c'.ops = c.ops) (h2 : c'.views = c.views)
    (h3 : c'.maxWaiting = c.maxWaiting) : Le c c' := by
  have hg : ∀ k, c'.getOp k = c.getOp k := fun k => by unfold Ctl.getOp; rw [h1]
  exact ⟨fun k o h => ⟨o, (hg k).trans h, Rel.refl o⟩, fun k h => (hg k).trans h, h2, h3⟩

theorem le_setOp (c : Ctl) (o o' : Op) (h : c.getOp o.id = some o) (hr : Rel o o') : Le c (c.setOp o') := by
  refine ⟨?_, ?_, rfl, rfl⟩
  · intro k x hx
    rw [getOp_setOp, hx]
    simp only [Option.map_some]
    by_cases e : x.id = o'.id
    · have : x = o := by
        have hk := getOp_some hx
        rw [hr.id] at e
        rw [← hk, e, h] at hx
        cases hx; rfl
      subst this
      exact ⟨o', by simp [e], hr⟩
    · exact ⟨x, by simp [e], Rel.refl x⟩
  · intro k hk
    rw [getOp_setOp, hk]; rfl

/-- `setOp` of an operator obtained from a lookup by the same key -/
theorem le_setOp' (c : Ctl) (k : Nat) (o o' : Op) (h : c.getOp k = some o) (hr : Rel o o') :
    Le c (c.setOp o') := le_setOp c o o' (by rw [getOp_some h]; exact h) hr

theorem le_bury (c : Ctl) (id : Nat) : Le c (bury c id) := by
  unfold bury
  split
  · exact Le.refl c
  · next o ho =>
    have hr : Rel o (if !o.status.isEnd then (o.to .canceled).1 else o) := by
      split
      · exact rel_to o .canceled
      · exact Rel.refl o
    exact Le.trans (le_setOp' c id o _ ho hr) (Le.of_eq rfl rfl rfl)

theorem le_removeLocked (c : Ctl) (o : Op) : Le c (removeLocked c o).1 := by
  unfold removeLocked
  split
  · exact Le.of_eq rfl rfl rfl
  · exact Le.refl c

theorem removeLocked_ops (c : Ctl) (o : Op) : (removeLocked c o).1.ops = c.ops := by
  unfold removeLocked; split <;> rfl

theorem getOp_removeLocked (c : Ctl) (o : Op) (k : Nat) : (removeLocked c o).1.getOp k = c.getOp k := by
  unfold Ctl.getOp; rw [removeLocked_ops]

theorem le_removeOperator (c : Ctl) (id : Nat) : Le c (removeOperator c id).1 := by
  unfold removeOperator
  split
  · exact Le.refl c
  · next o ho =>
    generalize hr : removeLocked c o = r
    obtain ⟨c1, removed⟩ := r
    have h1 : Le c c1 := by have := le_removeLocked c o; rw [hr] at this; exact this
    have hg : c1.getOp id = some o := by
      have := getOp_removeLocked c o id; rw [hr] at this; exact this.trans ho
    simp only
    split
    · exact Le.trans h1 (Le.trans (le_setOp' c1 id o _ hg (rel_to o .canceled)) (le_bury _ id))
    · exact h1

theorem le_rejectAll (c : Ctl) (ids : List Nat) : Le c (rejectAll c ids) := by
  unfold rejectAll
  induction ids generalizing c with
  | nil => exact Le.refl c
  | cons id rest ih =>
    simp only [List.foldl_cons]
    refine Le.trans ?_ (ih _)
    split
    · exact Le.refl c
    · next o ho => exact Le.trans (le_setOp' c id o _ ho (rel_to o .canceled)) (le_bury _ id)

theorem le_expireAll (c : Ctl) (ids : List Nat) : Le c (expireAll c ids).1 := by
  unfold expireAll
  suffices H : ∀ (l : List Nat) (acc : Ctl × Bool), Le c acc.1 →
      Le c (l.foldl (fun (acc : Ctl × Bool) id =>
        match acc.1.getOp id with
        | none => acc
        | some o => ((acc.1.setOp o.checkExpired.1), acc.2 || o.checkExpired.2)) acc).1 from
    H ids (c, false) (Le.refl c)
  intro l
  induction l with
  | nil => intro acc h; exact h
  | cons id rest ih =>
    intro acc h
    simp only [List.foldl_cons]
    apply ih
    split
    · exact h
    · next o ho => exact Le.trans h (le_setOp' acc.1 id o _ ho (rel_checkExpired o))

theorem le_checkAdd (c : Ctl) (ids : List Nat) : Le c (checkAdd c ids).1 := by
  unfold checkAdd
  split
  · exact Le.refl c
  · exact le_expireAll c ids

theorem le_replaceOld (c : Ctl) (region : Nat) : Le c (replaceOld c region) := by
  unfold replaceOld
  split
  · next oldId _ =>
    split
    · next old hold =>
      have hg : (removeLocked c old).1.getOp oldId = some old := (getOp_removeLocked c old oldId).trans hold
      exact Le.trans (le_removeLocked c old)
        (Le.trans (le_setOp' _ oldId old _ hg (rel_to old .replaced)) (le_bury _ oldId))
    · exact Le.refl c
  · exact Le.refl c

/-- `startLocked` on an operator that is a legal evolution of the stored one -/
theorem le_startLocked (c : Ctl) (k : Nat) (o0 o : Op) (h : c.getOp k = some o0) (hr : Rel o0 o) :
    Le c (startLocked c o).1 := by
  unfold startLocked
  simp only
  have h1 : Le c ({ c.setOp o with running := c.running.filter (fun x => x.1 != o.region) ++ [(o.region, o.id)] } : Ctl) :=
    Le.trans (le_setOp' c k o0 o h hr) (Le.of_eq rfl rfl rfl)
  split
  · next v hv =>
    have hg : ({ c.setOp o with running := c.running.filter (fun x => x.1 != o.region) ++ [(o.region, o.id)] } : Ctl).getOp k = some o := by
      show (c.setOp o).getOp k = some o
      rw [getOp_setOp, h]
      have : o0.id = o.id := hr.id.symm
      simp [this]
    exact Le.trans h1 (Le.trans (le_setOp' _ k o _ hg (rel_check o v)) (Le.of_eq rfl rfl rfl))
  · exact Le.trans h1 (Le.of_eq rfl rfl rfl)

theorem le_addLocked (c : Ctl) (id : Nat) : Le c (addLocked c id).1 := by
  unfold addLocked
  split
  · exact Le.refl c
  · next o0 _ =>
    have h1 := le_replaceOld c o0.region
    simp only
    split
    · exact h1
    · next o ho =>
      split
      · exact h1
      · exact Le.trans h1 (le_startLocked _ id o _ ho (rel_to o .started))

theorem le_addAll (c : Ctl) (ids : List Nat) : Le c (addAll c ids).1 := by
  induction ids generalizing c with
  | nil => exact Le.refl c
  | cons id rest ih =>
    simp only [addAll]
    have h1 := le_addLocked c id
    generalize addLocked c id = r at h1
    obtain ⟨c1, m, ok⟩ := r
    simp only
    split
    · exact h1
    · have h2 := ih c1
      generalize addAll c1 rest = r2 at h2
      obtain ⟨c2, m2, ok2⟩ := r2
      exact Le.trans h1 h2

theorem le_addOperator (c : Ctl) (ids : List Nat) : Le c (addOperator c ids).1 := by
  unfold addOperator
  have h1 := le_checkAdd c ids
  generalize checkAdd c ids = r at h1
  obtain ⟨c1, ok⟩ := r
  simp only
  split
  · exact Le.trans h1 (le_rejectAll c1 ids)
  · exact Le.trans h1 (le_addAll c1 ids)

theorem takeFrom_le (c : Ctl) (i : Nat) : Le c (takeFrom c i).1 := by
  apply Le.of_eq <;> (unfold takeFrom; repeat' split) <;> rfl

theorem le_promote (c : Ctl) (rs : List Nat) : Le c (promote c rs).1 := by
  induction rs generalizing c with
  | nil => exact Le.refl c
  | cons r rest ih =>
    simp only [promote]
    split
    · unfold bumpUnlessEmpty; split
      · exact Le.refl c
      · exact Le.of_eq rfl rfl rfl
    · next i _ =>
      have h1 := Le.trans (Le.of_eq (c := c) (c' := bump c) rfl rfl rfl) (takeFrom_le (bump c) i)
      generalize takeFrom (bump c) i = t at h1
      obtain ⟨c1, ids⟩ := t
      simp only
      split
      · exact h1
      · next first tl =>
        have h2 := le_checkAdd c1 (first :: tl)
        generalize checkAdd c1 (first :: tl) = q at h2
        obtain ⟨c2, ok⟩ := q
        simp only
        have h3 : Le c2 (decWaiting c2 first) := Le.of_eq rfl rfl rfl
        split
        · exact Le.trans h1 (Le.trans h2 (Le.trans h3 (Le.trans (le_rejectAll _ _) (ih _))))
        · have h4 := le_addAll (decWaiting c2 first) (first :: tl)
          generalize addAll (decWaiting c2 first) (first :: tl) = q2 at h4
          obtain ⟨c3, m, ok3⟩ := q2
          exact Le.trans h1 (Le.trans h2 (Le.trans h3 h4))

theorem le_putWaiting (c : Ctl) (id : Nat) : Le c (putWaiting c id) := Le.of_eq rfl rfl rfl
theorem le_incWaiting (c : Ctl) (id : Nat) : Le c (incWaiting c id) := Le.of_eq rfl rfl rfl

theorem le_addWaitingLoop (c : Ctl) (ids : List Nat) (added : Nat) : Le c (addWaitingLoop c ids added).1 := by
  induction c, ids, added using addWaitingLoop.induct with
  | case1 c added => simp [addWaitingLoop, Le.refl]
  | case2 c id added hm => simp [addWaitingLoop, hm, Le.refl]
  | case3 c id added hm c1 ok hca hok =>
    simp only [addWaitingLoop, hm, hca, hok]
    have := le_checkAdd c [id]; rw [hca] at this
    exact Le.trans this (le_rejectAll _ _)
  | case4 c id added hm c1 ok hca hok =>
    simp only [addWaitingLoop, hm, hca, hok]
    have := le_checkAdd c [id]; rw [hca] at this
    exact Le.trans this (Le.trans (le_putWaiting _ _) (le_incWaiting _ _))
  | case5 c id nxt rest added hm hn => simp [addWaitingLoop, hm, hn, Le.refl]
  | case6 c id nxt rest added hm hn c1 ok hca hok =>
    simp only [addWaitingLoop, hm, hn, hca, hok]
    have := le_checkAdd c [id]; rw [hca] at this
    exact Le.trans this (le_rejectAll _ _)
  | case7 c id nxt rest added hm hn c1 ok hca hok ih =>
    simp only [addWaitingLoop, hm, hn, hca, hok]
    have := le_checkAdd c [id]; rw [hca] at this
    exact Le.trans this (Le.trans (Le.trans (Le.trans (le_putWaiting _ _) (le_putWaiting _ _)) (le_incWaiting _ _)) ih)
  | case8 c id nxt rest added hm c1 ok hca hok =>
    simp only [addWaitingLoop, hm, hca, hok]
    have := le_checkAdd c [id]; rw [hca] at this
    exact Le.trans this (le_rejectAll _ _)
  | case9 c id nxt rest added hm c1 ok hca hok ih =>
    simp only [addWaitingLoop, hm, hca, hok]
    have := le_checkAdd c [id]; rw [hca] at this
    exact Le.trans this (Le.trans (Le.trans (le_putWaiting _ _) (le_incWaiting _ _)) ih)

theorem le_addWaiting (c : Ctl) (ids rs : List Nat) : Le c (addWaiting c ids rs).1 := by
  unfold addWaiting
  have h1 := le_addWaitingLoop c ids 0
  generalize addWaitingLoop c ids 0 = r at h1
  obtain ⟨c1, added, completed⟩ := r
  simp only
  split
  · have h2 := le_promote c1 rs
    generalize promote c1 rs = q at h2
    obtain ⟨c2, m⟩ := q
    exact Le.trans h1 h2
  · exact h1

theorem le_checkStale (c : Ctl) (o : Op) (s : Step) (v : View) : Le c (checkStale c o s v).1 := by
  unfold checkStale
  split
  · have := le_removeOperator c o.id
    generalize removeOperator c o.id = r at this
    obtain ⟨c1, b⟩ := r; exact this
  · split
    · have := le_removeOperator c o.id
      generalize removeOperator c o.id = r at this
      obtain ⟨c1, b⟩ := r; exact this
    · exact Le.refl c

theorem le_dispatch (c : Ctl) (v : View) (hb : Bool) (rs : List Nat) : Le c (dispatch c v hb rs).1 := by
  unfold dispatch
  split
  · exact Le.refl c
  · next id _ =>
    split
    · exact Le.refl c
    · next o ho =>
      have h1 : Le c (c.setOp (o.check v).1) := le_setOp' c id o _ ho (rel_check o v)
      generalize hch : o.check v = ch at h1
      obtain ⟨o1, step⟩ := ch
      simp only at h1 ⊢
      have hg : (c.setOp o1).getOp id = some o1 := by
        rw [getOp_setOp, ho]
        have : o.id = o1.id := by have := (rel_check o v).id; rw [hch] at this; exact this.symm
        simp [this]
      split
      · -- started
        split
        · next s =>
          split
          · have h2 := le_checkStale (c.setOp o1) o1 s v
            generalize checkStale (c.setOp o1) o1 s v = q at h2
            obtain ⟨c2, stale⟩ := q
            simp only
            split
            · have h3 := le_promote c2 rs
              generalize promote c2 rs = q3 at h3
              obtain ⟨c3, m⟩ := q3
              exact Le.trans h1 (Le.trans h2 h3)
            · exact Le.trans h1 h2
          · exact h1
        · exact h1
      all_goals first
        | (have h2 := le_removeOperator (c.setOp o1) id
           generalize removeOperator (c.setOp o1) id = q at h2
           obtain ⟨c2, removed⟩ := q
           simp only
           split
           · exact Le.trans h1 (Le.trans h2 (le_promote c2 rs))
           · exact Le.trans h1 h2)
        | (have h2 := le_removeLocked (c.setOp o1) o1
           have hg2 := getOp_removeLocked (c.setOp o1) o1 id
           generalize removeLocked (c.setOp o1) o1 = q at h2 hg2
           obtain ⟨c2, removed⟩ := q
           simp only at hg2 ⊢
           split
           · exact Le.trans h1 (Le.trans h2 (Le.trans
               (Le.trans (le_setOp' c2 id o1 _ (hg2.trans hg) (rel_to o1 .canceled)) (le_bury _ id))
               (le_promote _ rs)))
           · exact Le.trans h1 h2)

theorem polledOp_some {c : Ctl} {item : QItem} {o : Op} (h : polledOp c item = some o) :
    c.getOp o.id = some o := by
  have h1 : (c.runningOn (match c.getOp item.op with | some o => o.region | none => 0)).bind c.getOp = some o := h
  cases hr : c.runningOn (match c.getOp item.op with | some o => o.region | none => 0) with
  | none => rw [hr] at h1; cases h1
  | some k =>
    rw [hr] at h1
    have h' : c.getOp k = some o := h1
    rw [getOp_some h']; exact h'

theorem le_pushLoop (c : Ctl) (rs : List Nat) (fuel : Nat) : Le c (pushLoop c rs fuel).1 := by
  induction fuel generalizing c rs with
  | zero => exact Le.refl c
  | succ n ih =>
    simp only [pushLoop]
    split
    · exact Le.refl c
    · next item _ _ =>
      have h0 : Le c (dropItem c item.seq) := Le.of_eq rfl rfl rfl
      split
      · exact Le.trans h0 (ih _ _)
      · next o ho =>
        have hoid := polledOp_some ho
        split
        · -- region disappeared
          have hg2 := getOp_removeLocked (dropItem c item.seq) o o.id
          exact Le.trans h0 (Le.trans (le_removeLocked _ o) (Le.trans
            (Le.trans (le_setOp' _ o.id o _ (hg2.trans hoid) (rel_to o .canceled)) (le_bury _ _)) (ih _ _)))
        · next v _ =>
          have h1 : Le (dropItem c item.seq) ((dropItem c item.seq).setOp (o.check v).1) :=
            le_setOp' _ o.id o _ hoid (rel_check o v)
          split
          · have h2 := le_dispatch ((dropItem c item.seq).setOp (o.check v).1) v false rs
            generalize dispatch ((dropItem c item.seq).setOp (o.check v).1) v false rs = q at h2
            obtain ⟨c3, m⟩ := q
            simp only
            show Le c (pushLoop c3 _ n).1
            exact Le.trans h0 (Le.trans h1 (Le.trans h2 (ih _ _)))
          · next s _ =>
            split
            · exact Le.trans h0 (Le.trans h1 (Le.of_eq rfl rfl rfl))
            · generalize hc2 : ({ (dropItem c item.seq).setOp (o.check v).1 with
                  queue := ((dropItem c item.seq).setOp (o.check v).1).queue ++
                    [⟨item.op, notifyAfter (some s), ((dropItem c item.seq).setOp (o.check v).1).seq⟩],
                  seq := ((dropItem c item.seq).setOp (o.check v).1).seq + 1 } : Ctl) = c2'
              have h1' : Le ((dropItem c item.seq).setOp (o.check v).1) c2' := by
                subst hc2; exact Le.of_eq rfl rfl rfl
              have h2 := le_dispatch c2' v false rs
              generalize dispatch c2' v false rs = q at h2
              obtain ⟨c3, m⟩ := q
              simp only
              show Le c (pushLoop c3 _ n).1
              exact Le.trans h0 (Le.trans h1 (Le.trans h1' (Le.trans h2 (ih _ _))))

theorem le_touchRunning (c : Ctl) : Le c (touchRunning c) := by
  unfold touchRunning
  suffices H : ∀ (l : List (Nat × Nat)) (acc : Ctl), Le c acc →
      Le c (l.foldl (fun c x => match c.getOp x.2 with | some o => c.setOp o.checkTimeout.1 | none => c) acc) from
    H c.running c (Le.refl c)
  intro l
  induction l with
  | nil => intro acc h; exact h
  | cons x rest ih =>
    intro acc h
    simp only [List.foldl_cons]
    apply ih
    split
    · next o ho => exact Le.trans h (le_setOp' acc x.2 o _ ho (rel_checkTimeout o))
    · exact h

theorem le_pushOperators (c : Ctl) (rs : List Nat) : Le c (pushOperators c rs).1 :=
  le_pushLoop c rs _

end PdModel.OpCtl
