import PdModel.Lemmas.BuilderCalls
set_option linter.unusedSimpArgs false
set_option linter.unusedVariables false
/-! The `exec*` functions of the builder keep "current peers/leader = simulation of the emitted steps"
    and emit safe steps, under the obvious preconditions.  Used for the non-joint builder. -/
namespace PdModel.Builder
open PdModel.Steps PdModel.Spec PdModel.Spec.C08

/-- the builder's bookkeeping is the faithful execution of the steps emitted so far, and they are safe -/
structure SInv (r0 : Region) (m : Nat) (b : B) : Prop where
  safe   : StepsSafe m r0 b.steps
  runEq  : run r0 b.steps = b.cur
  nodup  : (stores b.cur.peers).Nodup
  plain  : plainRoles b.cur.peers
  leader : ∃ p ∈ b.cur.peers, p.store = b.cur.leader ∧ p.role = .voter
  voters : m ≤ votersOf b.cur.peers

theorem run_append_one (r : Region) (steps : List Step) (s : Step) :
    run r (steps ++ [s]) = apply (run r steps) s := by simp [run, List.foldl_append]

theorem stepsSafe_snoc (m : Nat) (r : Region) (steps : List Step) (s : Step) :
    StepsSafe m r (steps ++ [s]) ↔ StepsSafe m r steps ∧ StepOk m (run r steps) s := by
  rw [stepsSafe_append]; simp [StepsSafe]

theorem fullVoter_of_voter {r : Region} {p : Peer} (hn : (stores r.peers).Nodup) (hp : p ∈ r.peers)
    (hr : p.role = .voter) : isFullVoter r p.store = true := by
  unfold isFullVoter
  rw [storePeer_eq_pmGet, pmGet_of_mem hn hp]; simp [hr]

/-- execTransferLeader -/
theorem sinv_transfer {r0 : Region} {m : Nat} {b : B} (h : SInv r0 m b) (id : Nat)
    (hv : ∃ p ∈ b.cur.peers, p.store = id ∧ p.role = .voter) :
    SInv r0 m (execTransferLeader b id) ∧ (execTransferLeader b id).cur = ⟨b.cur.peers, id⟩ := by
  obtain ⟨p, hp, hps, hpr⟩ := hv
  refine ⟨⟨?_, ?_, h.nodup, h.plain, ⟨p, hp, hps, hpr⟩, h.voters⟩, rfl⟩
  · show StepsSafe m r0 (b.steps ++ [.transferLeader b.cur.leader id])
    rw [stepsSafe_snoc, h.runEq]
    refine ⟨h.safe, transfer_ok _ _ ?_ h.nodup ?_⟩
    · rw [← hps]; exact fullVoter_of_voter h.nodup hp hpr
    · rw [plain_voterCount h.plain]; exact h.voters
  · show run r0 (b.steps ++ [.transferLeader b.cur.leader id]) = ⟨b.cur.peers, id⟩
    rw [run_append_one, h.runEq]; rfl

theorem votersOf_append (l l' : List Peer) : votersOf (l ++ l') = votersOf l + votersOf l' := by
  simp [votersOf, List.countP_append]

theorem setRole_fresh (l : List Peer) (s : Nat) (role : Role) (h : s ∉ stores l) : setRole l s role = l := by
  unfold setRole
  conv => rhs; rw [← List.map_id l]
  apply List.map_congr_left
  intro p hp
  have : p.store ≠ s := fun e => h (mem_stores.2 ⟨p, hp, e⟩)
  simp [this]

/-- execAddPeer (AddLearner, and PromoteLearner for a voter) -/
theorem sinv_add {r0 : Region} {m : Nat} {b : B} (h : SInv r0 m b) (a : Peer)
    (hfresh : a.store ∉ stores b.cur.peers) (hrole : a.role = .voter ∨ a.role = .learner) :
    SInv r0 m (execAddPeer b a) ∧ (execAddPeer b a).cur = ⟨b.cur.peers ++ [a], b.cur.leader⟩ := by
  have hcur : (execAddPeer b a).cur = ⟨b.cur.peers ++ [a], b.cur.leader⟩ := by
    simp [execAddPeer, pmSet_fresh hfresh]
  have hn' : (stores (b.cur.peers ++ [a])).Nodup := by
    simp only [stores, List.map_append, List.map_cons, List.map_nil]
    rw [List.nodup_append]
    refine ⟨h.nodup, by simp, ?_⟩
    intro x hx y hy e
    simp only [List.mem_singleton] at hy
    subst hy; subst e; exact hfresh hx
  have hplain' : plainRoles (b.cur.peers ++ [a]) := by
    intro p hp
    rcases List.mem_append.1 hp with hp | hp
    · exact h.plain p hp
    · simp only [List.mem_singleton] at hp; subst hp; exact hrole
  obtain ⟨pl, hpl, hpls, hplr⟩ := h.leader
  have hlead' : ∃ p ∈ b.cur.peers ++ [a], p.store = b.cur.leader ∧ p.role = .voter :=
    ⟨pl, List.mem_append.2 (Or.inl hpl), hpls, hplr⟩
  have hv' : m ≤ votersOf (b.cur.peers ++ [a]) := by rw [votersOf_append]; have := h.voters; omega
  -- the learner step
  have hnL : (stores (b.cur.peers ++ [asLearner a])).Nodup := by
    have : stores (b.cur.peers ++ [asLearner a]) = stores (b.cur.peers ++ [a]) := by simp [stores, asLearner]
    rw [this]; exact hn'
  have hplainL : plainRoles (b.cur.peers ++ [asLearner a]) := by
    intro p hp
    rcases List.mem_append.1 hp with hp | hp
    · exact h.plain p hp
    · simp only [List.mem_singleton] at hp; subst hp; right; rfl
  have hvL : m ≤ votersOf (b.cur.peers ++ [asLearner a]) := by
    rw [votersOf_append]; have := h.voters; omega
  have stepL : StepOk m b.cur (addStep b.lightWeight a) := by
    refine ⟨?_, ?_, ?_, ?_, ?_⟩
    · have hnone : storePeer b.cur a.store = none := pmGet_none.2 hfresh
      unfold addStep; split <;> simp [checkSafety, hnone]
    · unfold addStep; split <;> rfl
    · unfold addStep; split <;> rfl
    · rw [apply_addStep]; exact hnL
    · rw [apply_addStep, plain_voterCount hplainL]; exact hvL
  refine ⟨⟨?_, ?_, by rw [hcur]; exact hn', by rw [hcur]; exact hplain', by rw [hcur]; exact hlead',
    by rw [hcur]; exact hv'⟩, hcur⟩
  · -- safety of the emitted steps
    rcases hrole with hr | hr
    · have hl : isLearner a = false := by simp [isLearner, hr]
      have hs : (execAddPeer b a).steps = (b.steps ++ [addStep b.lightWeight a]) ++ [.promoteLearner a.store a.id] := by
        simp [execAddPeer, hl]
      rw [hs, stepsSafe_snoc, stepsSafe_snoc, run_append_one, h.runEq, apply_addStep]
      refine ⟨⟨h.safe, stepL⟩, ?_⟩
      have hap : apply ⟨b.cur.peers ++ [asLearner a], b.cur.leader⟩ (.promoteLearner a.store a.id) =
          ⟨b.cur.peers ++ [a], b.cur.leader⟩ := by
        simp only [apply, setRole, List.map_append, List.map_cons, List.map_nil]
        have e1 : b.cur.peers.map (fun p => if p.store == a.store then { p with role := Role.voter } else p) = b.cur.peers :=
          setRole_fresh _ _ _ hfresh
        rw [e1]
        cases a; simp_all [asLearner]
      refine ⟨?_, rfl, rfl, by rw [hap]; exact hn', by rw [hap, plain_voterCount hplain']; exact hv'⟩
      have : pmGet (b.cur.peers ++ [asLearner a]) a.store = some (asLearner a) := by
        have := pmGet_of_mem hnL (p := asLearner a) (List.mem_append.2 (Or.inr (List.mem_singleton.2 rfl)))
        simpa [asLearner] using this
      show (idOf (pmGet (b.cur.peers ++ [asLearner a]) a.store) == a.id) = true
      rw [this]; simp [idOf, asLearner]
    · have hl : isLearner a = true := by simp [isLearner, hr]
      have hs : (execAddPeer b a).steps = b.steps ++ [addStep b.lightWeight a] := by simp [execAddPeer, hl]
      rw [hs, stepsSafe_snoc, h.runEq]
      exact ⟨h.safe, stepL⟩
  · rw [hcur]
    rcases hrole with hr | hr
    · have hl : isLearner a = false := by simp [isLearner, hr]
      have hs : (execAddPeer b a).steps = (b.steps ++ [addStep b.lightWeight a]) ++ [.promoteLearner a.store a.id] := by
        simp [execAddPeer, hl]
      rw [hs, run_append_one, run_append_one, h.runEq, apply_addStep]
      simp only [apply, setRole, List.map_append, List.map_cons, List.map_nil]
      have e1 : b.cur.peers.map (fun p => if p.store == a.store then { p with role := Role.voter } else p) = b.cur.peers :=
        setRole_fresh _ _ _ hfresh
      rw [e1]
      cases a; simp_all [asLearner]
    · have hl : isLearner a = true := by simp [isLearner, hr]
      have hs : (execAddPeer b a).steps = b.steps ++ [addStep b.lightWeight a] := by simp [execAddPeer, hl]
      rw [hs, run_append_one, h.runEq, apply_addStep]
      have : asLearner a = a := by cases a; simp_all [asLearner]
      rw [this]

theorem stores_setRole (l : List Peer) (s : Nat) (role : Role) : stores (setRole l s role) = stores l := by
  unfold setRole
  apply stores_map
  intro p; split <;> rfl

theorem mem_setRole {l : List Peer} {s : Nat} {role : Role} {q : Peer} (h : q ∈ setRole l s role) :
    ∃ p ∈ l, q = (if p.store == s then { p with role := role } else p) := by
  unfold setRole at h
  obtain ⟨p, hp, e⟩ := List.mem_map.1 h
  exact ⟨p, hp, e.symm⟩

/-- replacing the peer of a store by a peer with the same store and id = changing its role -/
theorem pmSet_eq_setRole {l : List Peer} (hn : (stores l).Nodup) {p n : Peer} (hp : p ∈ l)
    (hs : n.store = p.store) (hid : n.id = p.id) : pmSet l n = setRole l n.store n.role := by
  have hhas : pmHas l n.store = true := pmHas_iff.2 (mem_stores.2 ⟨p, hp, hs.symm⟩)
  unfold pmSet setRole
  simp only [hhas, if_true]
  apply List.map_congr_left
  intro q hq
  by_cases e : q.store = n.store
  · have : q = p := by
      have h1 := pmGet_of_mem hn hq
      have h2 := pmGet_of_mem hn hp
      rw [e, hs, h2] at h1; cases h1; rfl
    subst this
    simp only [e, beq_self_eq_true, if_true]
    cases n; cases q; simp_all
  · have : (q.store == n.store) = false := by simpa using e
    simp [this]

theorem votersOf_setRole_voter (l : List Peer) (s : Nat) : votersOf l ≤ votersOf (setRole l s .voter) := by
  unfold votersOf setRole
  rw [List.countP_map]
  apply List.countP_mono_left
  intro p _ hp
  simp only [Function.comp]
  split <;> simp_all

theorem votersOf_setRole_learner (l : List Peer) (s : Nat) (hn : (stores l).Nodup) :
    votersOf l ≤ votersOf (setRole l s .learner) + 1 := by
  induction l with
  | nil => simp [votersOf, setRole]
  | cons p rest ih =>
    simp only [stores, List.map_cons, List.nodup_cons] at hn
    by_cases e : p.store = s
    · have hrest : setRole rest s .learner = rest := setRole_fresh rest s .learner (by rw [← e]; exact hn.1)
      have : setRole (p :: rest) s .learner = { p with role := .learner } :: rest := by
        simp only [setRole, List.map_cons, e, beq_self_eq_true, if_true] at hrest ⊢
        rw [hrest]
      rw [this]
      simp only [votersOf, List.countP_cons]
      split <;> simp <;> omega
    · have : setRole (p :: rest) s .learner = p :: setRole rest s .learner := by
        simp [setRole, e]
      rw [this]
      have := ih hn.2
      simp only [votersOf, List.countP_cons] at this ⊢
      omega

theorem votersOf_filter_store (l : List Peer) (s : Nat) (hn : (stores l).Nodup) :
    votersOf l ≤ votersOf (l.filter (fun p => p.store != s)) + 1 := by
  induction l with
  | nil => simp [votersOf]
  | cons p rest ih =>
    simp only [stores, List.map_cons, List.nodup_cons] at hn
    by_cases e : p.store = s
    · have hrest : rest.filter (fun q => q.store != s) = rest := by
        apply List.filter_eq_self.2
        intro q hq
        have : q.store ≠ s := fun e' => hn.1 (e ▸ e' ▸ List.mem_map.2 ⟨q, hq, rfl⟩)
        simpa using this
      have : (p :: rest).filter (fun q => q.store != s) = rest := by
        simp [List.filter_cons, e, hrest]
      rw [this]
      simp only [votersOf, List.countP_cons]
      split <;> omega
    · have : (p :: rest).filter (fun q => q.store != s) = p :: rest.filter (fun q => q.store != s) := by
        simp [List.filter_cons, e]
      rw [this]
      have := ih hn.2
      simp only [votersOf, List.countP_cons] at this ⊢
      omega

/-- a role change of a non-leader peer (PromoteLearner / DemoteFollower), as the builder books it -/
theorem sinv_setRole {r0 : Region} {m : Nat} {b : B} (h : SInv r0 m b) (n : Peer) (step : Step)
    (hstep : step = .promoteLearner n.store n.id ∧ n.role = .voter ∨
             step = .demoteFollower n.store n.id ∧ n.role = .learner ∧ n.store ≠ b.cur.leader ∧
               n.id ≠ leaderPeerId b.cur)
    (hp : ∃ p ∈ b.cur.peers, p.store = n.store ∧ p.id = n.id)
    (hm : m ≤ votersOf (setRole b.cur.peers n.store n.role)) :
    SInv r0 m { b with steps := b.steps ++ [step], cur := { b.cur with peers := pmSet b.cur.peers n } } ∧
    pmSet b.cur.peers n = setRole b.cur.peers n.store n.role := by
  obtain ⟨p, hpm, hps, hpid⟩ := hp
  have hset := pmSet_eq_setRole h.nodup hpm hps.symm hpid.symm
  have happly : apply b.cur step = ⟨setRole b.cur.peers n.store n.role, b.cur.leader⟩ := by
    rcases hstep with ⟨e, hr⟩ | ⟨e, hr, _, _⟩ <;> subst e <;> simp [apply, hr]
  have hn' : (stores (setRole b.cur.peers n.store n.role)).Nodup := by rw [stores_setRole]; exact h.nodup
  have hrole : n.role = .voter ∨ n.role = .learner := by
    rcases hstep with ⟨_, hr⟩ | ⟨_, hr, _, _⟩ <;> simp [hr]
  have hplain' : plainRoles (setRole b.cur.peers n.store n.role) := by
    intro q hq
    obtain ⟨x, hx, rfl⟩ := mem_setRole hq
    split
    · exact hrole
    · exact h.plain x hx
  obtain ⟨pl, hpl, hpls, hplr⟩ := h.leader
  have hlead' : ∃ q ∈ setRole b.cur.peers n.store n.role, q.store = b.cur.leader ∧ q.role = .voter := by
    refine ⟨if pl.store == n.store then { pl with role := n.role } else pl, ?_, ?_, ?_⟩
    · unfold setRole; exact List.mem_map.2 ⟨pl, hpl, rfl⟩
    · split <;> exact hpls
    · rcases hstep with ⟨_, hr⟩ | ⟨_, _, hne, _⟩
      · split
        · exact hr
        · exact hplr
      · have : (pl.store == n.store) = false := by
          have : pl.store ≠ n.store := by rw [hpls]; exact Ne.symm hne
          simpa using this
        simp [this, hplr]
  refine ⟨⟨?_, ?_, ?_, ?_, ?_, ?_⟩, hset⟩
  · show StepsSafe m r0 (b.steps ++ [step])
    rw [stepsSafe_snoc, h.runEq]
    refine ⟨h.safe, ?_, ?_, ?_, by rw [happly]; exact hn', by rw [happly, plain_voterCount hplain']; exact hm⟩
    · have hg : storePeer b.cur n.store = some p := by
        rw [storePeer_eq_pmGet, ← hps]; exact pmGet_of_mem h.nodup hpm
      rcases hstep with ⟨e, _⟩ | ⟨e, _, hne, hlid⟩ <;> subst e
      · simp [checkSafety, hg, idOf, hpid]
      · simp only [checkSafety, hg, idOf, hpid, beq_self_eq_true, Bool.true_and, bne_iff_ne, ne_eq]
        exact hlid
    · rcases hstep with ⟨e, _⟩ | ⟨e, _, hne, _⟩ <;> subst e
      · rfl
      · simpa [leaderKept] using hne
    · rcases hstep with ⟨e, _⟩ | ⟨e, _, _, _⟩ <;> subst e <;> rfl
  · show run r0 (b.steps ++ [step]) = ⟨pmSet b.cur.peers n, b.cur.leader⟩
    rw [run_append_one, h.runEq, happly, hset]
  · show (stores (pmSet b.cur.peers n)).Nodup
    rw [hset]; exact hn'
  · show plainRoles (pmSet b.cur.peers n)
    rw [hset]; exact hplain'
  · show ∃ q ∈ pmSet b.cur.peers n, q.store = b.cur.leader ∧ q.role = .voter
    rw [hset]; exact hlead'
  · show m ≤ votersOf (pmSet b.cur.peers n)
    rw [hset]; exact hm

/-- execRemovePeer -/
theorem sinv_remove {r0 : Region} {m : Nat} {b : B} (h : SInv r0 m b) (x : Peer)
    (hne : x.store ≠ b.cur.leader)
    (hm : m ≤ votersOf (b.cur.peers.filter (fun p => p.store != x.store))) :
    SInv r0 m (execRemovePeer b x) ∧
    (execRemovePeer b x).cur = ⟨b.cur.peers.filter (fun p => p.store != x.store), b.cur.leader⟩ := by
  have hcur : (execRemovePeer b x).cur = ⟨b.cur.peers.filter (fun p => p.store != x.store), b.cur.leader⟩ := rfl
  have hn' : (stores (b.cur.peers.filter (fun p => p.store != x.store))).Nodup :=
    List.Nodup.sublist (List.Sublist.map _ List.filter_sublist) h.nodup
  have hplain' : plainRoles (b.cur.peers.filter (fun p => p.store != x.store)) :=
    fun p hp => h.plain p (List.mem_filter.1 hp).1
  obtain ⟨pl, hpl, hpls, hplr⟩ := h.leader
  refine ⟨⟨?_, ?_, hn', hplain', ⟨pl, ?_, hpls, hplr⟩, hm⟩, hcur⟩
  · show StepsSafe m r0 (b.steps ++ [.removePeer x.store x.id])
    rw [stepsSafe_snoc, h.runEq]
    refine ⟨h.safe, ?_, ?_, rfl, hn', ?_⟩
    · simpa [checkSafety] using hne
    · simpa [leaderKept] using hne
    · show m ≤ voterCount ⟨b.cur.peers.filter (fun p => p.store != x.store), b.cur.leader⟩
      rw [plain_voterCount hplain']; exact hm
  · show run r0 (b.steps ++ [.removePeer x.store x.id]) = _
    rw [run_append_one, h.runEq]; rfl
  · refine List.mem_filter.2 ⟨hpl, ?_⟩
    have : pl.store ≠ x.store := by rw [hpls]; exact Ne.symm hne
    simpa using this

end PdModel.Builder
