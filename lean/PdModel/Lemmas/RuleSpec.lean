import PdModel.Lemmas.RuleIndex
import PdModel.Lemmas.RuleOverride
import PdModel.Lemmas.RuleMgr
set_option linter.unusedSimpArgs false
set_option linter.unusedVariables false
/-! The functions of `Spec.C13` (what the monitor computes from the implementation's report) are the
    model-level characterisations used in the theorems. -/
namespace PdModel.Rules
open PdModel.Spec.C13

instance : DecidableRel RLt := fun a b => by unfold RLt; exact inferInstance

/-- pair a rule with the configuration of its group -/
def mkG (gs : List Group) (r : Rule) : GRule := ⟨r, groupOf gs r.group⟩

theorem groupOf_eq_getGroup (c : Config) (id : Nat) : groupOf c.groups id = c.getGroup id := by
  unfold groupOf Config.getGroup getG mapGet defaultGroup
  congr 1
  induction c.groups with
  | nil => rfl
  | cons g gs ih =>
    simp only [List.find?_cons, gKey, Prod.mk.injEq, and_true] at ih ⊢
    by_cases h : g.id = id
    · simp [h]
    · have h' : (g.id == id) = false := by simpa using h
      simp only [h', h, decide_false]
      exact ih

theorem grules_eq_map (c : Config) : c.grules = c.rules.map (mkG c.groups) := by
  unfold Config.grules mkG
  apply List.map_congr_left
  intro r _
  rw [groupOf_eq_getGroup]

theorem before_iff (gs : List Group) (a b : Rule) : before gs a b = true ↔ RLt (mkG gs a) (mkG gs b) := by
  unfold before RLt mkG
  simp only [Bool.or_eq_true, decide_eq_true_eq, Bool.and_eq_true, beq_iff_eq]

theorem insert_map (gs : List Group) (r : Rule) (l : List Rule) :
    insertRule (mkG gs r) (l.map (mkG gs)) = (insertBy (before gs) r l).map (mkG gs) := by
  induction l with
  | nil => rfl
  | cons x xs ih =>
    simp only [List.map_cons, insertRule, insertBy]
    by_cases h : before gs r x = true
    · have : compareRule (mkG gs x) (mkG gs r) > 0 := (compareRule_pos _ _).2 ((before_iff gs r x).1 h)
      simp [h, this]
    · have : ¬ compareRule (mkG gs x) (mkG gs r) > 0 := fun h' => h ((before_iff gs r x).2 ((compareRule_pos _ _).1 h'))
      simp [h, this, ih]

theorem sort_map (gs : List Group) (l : List Rule) :
    sortRules (l.map (mkG gs)) = (sortBy (before gs) l).map (mkG gs) := by
  induction l with
  | nil => rfl
  | cons x xs ih =>
    simp only [List.map_cons, sortRules, sortBy, List.foldr_cons] at ih ⊢
    rw [insertSorted_eq_insertRule] at ih ⊢
    rw [ih, insert_map]

/-- **the monitor's `rulesAt`** is the rule part of the model's cover list -/
theorem coverList_rulesAt (c : Config) (k : Nat) :
    (coverList c.grules k).map (·.rule) = rulesAt ⟨c.rules, c.groups⟩ k := by
  unfold coverList rulesAt
  rw [grules_eq_map, List.filter_map, sort_map, List.map_map]
  have : ((fun x : GRule => x.rule) ∘ mkG c.groups) = id := by funext r; rfl
  rw [this, List.map_id]
  rfl

theorem coverList_spec' (rules : List GRule) (hw : RulesWF rules) (k : Nat) :
    (∀ r, r ∈ coverList rules k ↔ (r ∈ rules ∧ covers r.rule k = true)) ∧ (coverList rules k).Pairwise RLt := by
  refine ⟨fun r => ?_, sortRules_sorted _ (hw.sublist List.filter_sublist)⟩
  unfold coverList
  rw [mem_sortRules, List.mem_filter]

/-- positional "disabled by a later rule" = "disabled by a rule that is applied later", on a list in apply order -/
theorem applyPos_eq_filter (pre : List GRule) : ∀ (l : List GRule), (pre ++ l).Pairwise RLt →
    applyPos l = l.filter (fun r => !(pre ++ l).any (fun y => decide (RLt r y) && ovG y r)) := by
  intro l
  induction l generalizing pre with
  | nil => intro _; rfl
  | cons x rest ih =>
    intro hs
    have hs' : ((pre ++ [x]) ++ rest).Pairwise RLt := by rw [List.append_assoc]; exact hs
    have ih' := ih (pre ++ [x]) hs'
    rw [List.append_assoc] at ih'
    simp only [List.singleton_append] at ih'
    rw [List.pairwise_append] at hs
    have hx := List.pairwise_cons.1 hs.2.1
    have hany : (pre ++ x :: rest).any (fun y => decide (RLt x y) && ovG y x) = rest.any (fun y => ovG y x) := by
      rw [List.any_append, List.any_cons]
      have h1 : pre.any (fun y => decide (RLt x y) && ovG y x) = false := by
        rw [List.any_eq_false]; intro y hy
        have := hs.2.2 y hy x List.mem_cons_self
        have hn : ¬ RLt x y := fun h => RLt.irrefl _ (RLt.trans _ _ _ h this)
        simp [hn]
      have h2 : (decide (RLt x x) && ovG x x) = false := by simp [RLt.irrefl]
      rw [h1, h2]
      simp only [Bool.false_or]
      rw [Bool.eq_iff_iff, List.any_eq_true, List.any_eq_true]
      constructor
      · rintro ⟨y, hy, h⟩; exact ⟨y, hy, by simp at h; exact h.2⟩
      · rintro ⟨y, hy, h⟩; exact ⟨y, hy, by simp [hx.1 y hy, h]⟩
    simp only [applyPos, List.filter_cons, hany, ih']
    cases rest.any (fun y => ovG y x) <;> rfl

theorem overrides_iff (gs : List Group) (later r : Rule) :
    overrides gs later r = (decide (RLt (mkG gs r) (mkG gs later)) && ovG (mkG gs later) (mkG gs r)) := by
  unfold overrides ovG
  have h : before gs r later = decide (RLt (mkG gs r) (mkG gs later)) := by
    rw [Bool.eq_iff_iff, before_iff]; simp
  rw [h]
  rfl

/-- **the monitor's `applyOf`** is the rule part of prepareRulesForApply, on the cover list of a key -/
theorem prepare_applyOf (c : Config) (hk : KeysNodup Rule.key c.rules) (hv : ∀ r ∈ c.rules, ruleOK r = true) (k : Nat) :
    (prepareRulesForApply (coverList c.grules k)).map (·.rule) =
      applyOf c.groups (rulesAt ⟨c.rules, c.groups⟩ k) := by
  have hw := (grules_wf c.rules c.getGroup hk hv).1
  have hw' : RulesWF c.grules := hw
  have hs := (coverList_spec' c.grules hw' k).2
  have hm := (coverList_spec' c.grules hw' k).1
  rw [prepareRulesForApply_eq _ hs (fun a ha b hb => hw'.grp a ((hm a).1 ha).1 b ((hm b).1 hb).1)]
  rw [applyPos_eq_filter [] _ (by simpa using hs), List.nil_append]
  -- every element of the cover list is `mkG` of its rule
  have hmk : ∀ x ∈ coverList c.grules k, x = mkG c.groups x.rule := by
    intro x hx
    have := ((hm x).1 hx).1
    rw [grules_eq_map, List.mem_map] at this
    obtain ⟨r, _, rfl⟩ := this
    rfl
  have hL : coverList c.grules k = (rulesAt ⟨c.rules, c.groups⟩ k).map (mkG c.groups) := by
    rw [← coverList_rulesAt, List.map_map]
    conv => lhs; rw [← List.map_id (coverList c.grules k)]
    apply List.map_congr_left
    intro x hx
    exact hmk x hx
  rw [hL]
  unfold applyOf
  rw [List.filter_map, List.map_map]
  have : ((fun x : GRule => x.rule) ∘ mkG c.groups) = id := by funext r; rfl
  rw [this, List.map_id]
  apply List.filter_congr
  intro r _
  simp only [Function.comp, List.any_map]
  congr 2
  funext later
  simp only [Function.comp]
  rw [overrides_iff]

theorem boundaries_mem (c : Config) (x : Nat) :
    x ∈ boundaries ⟨c.rules, c.groups⟩ ↔ x ∈ bkeys c.grules := by
  rw [mem_bkeys, grules_eq_map]
  unfold boundaries
  simp only [List.mem_append, List.mem_map, List.mem_filter, bne_iff_ne, ne_eq]
  constructor
  · rintro (⟨r, hr, rfl⟩ | ⟨r, ⟨hr, he⟩, rfl⟩)
    · exact ⟨mkG c.groups r, ⟨r, hr, rfl⟩, Or.inl rfl⟩
    · exact ⟨mkG c.groups r, ⟨r, hr, rfl⟩, Or.inr ⟨he, rfl⟩⟩
  · rintro ⟨g, ⟨r, hr, rfl⟩, h | ⟨he, h⟩⟩
    · exact Or.inl ⟨r, hr, h.symm⟩
    · exact Or.inr ⟨r, ⟨hr, he⟩, h.symm⟩

/-- **the monitor's `splitKeys`** -/
theorem bkeys_splitKeys (c : Config) (s e : Nat) :
    (bkeys c.grules).filter (inside s e) = splitKeys ⟨c.rules, c.groups⟩ s e := by
  unfold splitKeys
  apply sorted_ext (· < ·) (fun a => Nat.lt_irrefl a) (fun a b c => Nat.lt_trans) _ _
    ((bkeys_sorted _).filter _) (foldr_insertNat _).1
  intro x
  rw [(foldr_insertNat _).2, List.mem_filter, List.mem_filter, boundaries_mem]

/-- **the monitor's `applyFor`**, for a configuration whose index was accepted -/
theorem region_applyFor (c : Config) (hk : KeysNodup Rule.key c.rules) (hv : ∀ r ∈ c.rules, ruleOK r = true)
    (rl : RuleList) (h : buildRuleList c.grules = .ok rl) (s e : Nat) :
    (getRulesForApplyRegion rl s e).map (·.map (·.rule)) = applyFor ⟨c.rules, c.groups⟩ s e := by
  have hw := grules_wf c.rules c.getGroup hk hv
  have hb := built_of_ok (rules := c.grules) hw.1 hw.2 h
  rw [getRulesForApplyRegion_built hb]
  unfold applyFor
  have e1 : (bkeys c.grules).any (inside s e) = (boundaries ⟨c.rules, c.groups⟩).any (inside s e) := by
    rw [Bool.eq_iff_iff, List.any_eq_true, List.any_eq_true]
    constructor
    · rintro ⟨x, hx, h⟩; exact ⟨x, (boundaries_mem c x).2 hx, h⟩
    · rintro ⟨x, hx, h⟩; exact ⟨x, (boundaries_mem c x).1 hx, h⟩
  rw [e1]
  by_cases hin : (boundaries ⟨c.rules, c.groups⟩).any (inside s e) = true
  · simp [hin]
  · obtain ⟨r, hr, h0⟩ := hb.zero
    have hle : (boundaries ⟨c.rules, c.groups⟩).any (fun b => decide (b ≤ s)) = true := by
      rw [List.any_eq_true]
      exact ⟨0, (boundaries_mem c 0).2 ((mem_bkeys _ 0).2 ⟨r, hr, Or.inl h0.symm⟩), by simp⟩
    simp only [hin, Bool.false_eq_true, ↓reduceIte, hle, Bool.not_true, Option.map_some]
    rw [prepare_applyOf c hk hv s]

end PdModel.Rules

namespace PdModel.Rules
open PdModel.Spec.C13

theorem validApply_map (L : List GRule) :
    validApply (L.map (·.rule)) = (decide (leaderSum L ≤ 1) && decide (leaderSum L + voterSum L ≥ 1)) := by
  unfold validApply leaderSum voterSum
  simp only [List.filter_map, List.foldl_map]
  have h1 : L.filter ((fun r : Rule => r.role == Role.leader) ∘ fun x : GRule => x.rule) =
      L.filter (fun r => decide (r.rule.role = Role.leader)) := by
    apply List.filter_congr; intro x _; simp only [Function.comp]; cases x.rule.role <;> rfl
  have h2 : L.filter ((fun r : Rule => r.role == Role.voter) ∘ fun x : GRule => x.rule) =
      L.filter (fun r => decide (r.rule.role = Role.voter)) := by
    apply List.filter_congr; intro x _; simp only [Function.comp]; cases x.rule.role <;> rfl
  rw [h1, h2]

/-- **the monitor's `keyOK`** holds for every key of an accepted configuration -/
theorem keyOK_built (c : Config) (hk : KeysNodup Rule.key c.rules) (hv : ∀ r ∈ c.rules, ruleOK r = true)
    (rl : RuleList) (h : buildRuleList c.grules = .ok rl) (k : Nat) : keyOK ⟨c.rules, c.groups⟩ k = true := by
  have hw := grules_wf c.rules c.getGroup hk hv
  have hb := built_of_ok (rules := c.grules) hw.1 hw.2 h
  have hok := checkApplyRules_ok _ (built_key_ok hb k).2
  unfold keyOK
  simp only
  rw [← prepare_applyOf c hk hv k, validApply_map]
  simp [hok.1, hok.2]

end PdModel.Rules
