import PdModel.Model.Scatter
set_option linter.unusedSimpArgs false
set_option linter.unusedVariables false
/-! Helper lemmas for C11: candidates, `selectStore`, the invariant of the scatter peer loop. -/
namespace PdModel.Scatter
open PdModel.Spec.C10 PdModel.Filters

theorem mem_candidates {ex : Bool} {o : Opts} {stores : List Store} {r : Region} {src : Nat} {sel : List Nat}
    {ctx : Ctx} {sp : Bool} {g : Nat → Nat → Bool} {t : Nat} (h : t ∈ candidates ex o stores r src sel ctx sp g) :
    ∃ s ∈ stores, s.id = t ∧ t ∉ sel ∧ (ex = true → t ∈ r.stores → t = src) ∧
      (if sp then engineIs "tiflash" s else ordinaryEngine s) = true ∧ scatterSSF.target o s = true ∧ g src t = true := by
  unfold candidates at h
  split at h
  · cases h
  · simp only [List.mem_map, List.mem_filter, Bool.and_eq_true, Bool.or_eq_true, Bool.not_eq_true'] at h
    obtain ⟨s, ⟨hs, ⟨⟨⟨⟨⟨_, h2⟩, h3⟩, h4⟩, h5⟩, h6⟩⟩, rfl⟩ := h
    refine ⟨s, hs, rfl, ?_, ?_, h4, h5, h6⟩
    · simpa [excludedTarget] using h2
    · intro he hm
      rcases h3 with h3 | h3
      · simp [he] at h3
      · have : ¬s.id ∈ r.stores ∨ s.id = src := by simpa [excludedTarget] using h3
        rcases this with h | h
        · exact absurd hm h
        · exact h

/-- the running minimum of `bestOf`: an element of the list, with its own count -/
theorem bestOf_fold (get : Nat → Nat) (l : List Nat) (acc : Option (Nat × Nat)) (S : List Nat)
    (hacc : ∀ st m, acc = some (st, m) → st ∈ S ∧ m = get st) (hl : ∀ x ∈ l, x ∈ S) :
    ∀ st m, l.foldl (fun acc st =>
      match acc with
      | none => some (st, get st)
      | some (_, m) => if get st < m then some (st, get st) else acc) acc = some (st, m) → st ∈ S ∧ m = get st := by
  induction l generalizing acc with
  | nil => simpa using hacc
  | cons a t ih =>
    simp only [List.foldl_cons]
    apply ih
    · intro st m h
      cases acc with
      | none => simp at h; obtain ⟨rfl, rfl⟩ := h; exact ⟨hl _ (List.mem_cons_self ..), rfl⟩
      | some v =>
        obtain ⟨s0, m0⟩ := v
        simp only at h
        split at h
        · simp at h; obtain ⟨rfl, rfl⟩ := h; exact ⟨hl _ (List.mem_cons_self ..), rfl⟩
        · exact hacc st m h
    · intro x hx; exact hl x (List.mem_cons_of_mem _ hx)

theorem bestOf_mem {get : Nat → Nat} {l : List Nat} {st m : Nat} (h : bestOf get l = some (st, m)) :
    st ∈ l ∧ m = get st :=
  bestOf_fold get l none l (by intro _ _ h; cases h) (fun _ h => h) st m h

/-- the peer stays, or goes – with its role – to a candidate other than its own store -/
theorem selectStore_cases (group : String) (p : Peer) (cands : List Nat) (ctx : Ctx) :
    selectStore group p cands ctx = p ∨
    ∃ st ∈ cands, st ≠ p.store ∧ selectStore group p cands ctx = { id := 0, store := st, role := p.role } := by
  unfold selectStore
  split
  · left; rfl
  · split
    · left; rfl
    · next st m hb =>
      have hbest := bestOf_mem hb
      split
      · left; rfl
      · next hstay =>
        right
        refine ⟨st, hbest.1, ?_, rfl⟩
        intro he
        apply hstay
        simp only [Bool.and_eq_true, decide_eq_true_eq]
        rw [← he]
        exact ⟨by simpa using hbest.1, by rw [hbest.2]; exact Nat.le_refl _⟩

theorem setTarget_fresh {tp : List (Nat × Peer)} {p : Peer} (h : p.store ∉ tp.map (·.1)) :
    setTarget tp p = tp ++ [(p.store, p)] := by
  unfold setTarget
  have : tp.any (·.1 == p.store) = false := by
    simp only [List.any_eq_false, beq_iff_eq]
    intro e he heq; exact h (List.mem_map.2 ⟨e, he, heq⟩)
  simp [this]

/-- what is known about the target map while the peer loops run -/
structure Inv (r : Region) (tp : List (Nat × Peer)) (sel : List Nat) (todo : List Peer) : Prop where
  keyed  : ∀ e ∈ tp, e.2.store = e.1
  nodup  : (tp.map (·.1)).Nodup
  selEq  : ∀ s, s ∈ sel ↔ s ∈ tp.map (·.1)
  /-- no peer that is still to be placed sits on a chosen store -/
  apart  : ∀ p ∈ todo, p.store ∉ tp.map (·.1)

/-- each target entry is a peer that stayed, or a new peer on a store outside the region that passed
    the scatter filters -/
def EntryOK (o : Opts) (stores : List Store) (r : Region) (e : Nat × Peer) : Prop :=
  e.2 ∈ r.peers ∨
  (e.1 ∉ r.stores ∧ e.2.id = 0 ∧ ∃ s ∈ stores, s.id = e.1 ∧ scatterSSF.target o s = true)

theorem scatterGroup_inv (o : Opts) (stores : List Store) (r : Region) (group : String) (ctx : Ctx) (sp : Bool)
    (g : Nat → Nat → Bool) (ps later : List Peer) (tp : List (Nat × Peer)) (sel : List Nat)
    (hnd : ((ps ++ later).map (·.store)).Nodup) (hsub : ∀ p ∈ ps ++ later, p ∈ r.peers)
    (inv : Inv r tp sel (ps ++ later)) (hok : ∀ e ∈ tp, EntryOK o stores r e) :
    Inv r (scatterGroup true o stores r group ctx sp g ps (tp, sel)).1
          (scatterGroup true o stores r group ctx sp g ps (tp, sel)).2 later ∧
    (scatterGroup true o stores r group ctx sp g ps (tp, sel)).1.map (·.2.role) = tp.map (·.2.role) ++ ps.map (·.role) ∧
    (∀ e ∈ (scatterGroup true o stores r group ctx sp g ps (tp, sel)).1, EntryOK o stores r e) := by
  induction ps generalizing tp sel with
  | nil => exact ⟨by simpa [scatterGroup] using inv, by simp [scatterGroup], by simpa [scatterGroup] using hok⟩
  | cons p rest ih =>
    simp only [scatterGroup]
    have hp : p ∈ p :: rest ++ later := by simp
    have hpfresh : p.store ∉ tp.map (·.1) := inv.apart p hp
    simp only [List.cons_append, List.map_cons, List.nodup_cons] at hnd
    -- where the peer goes
    have hnp : ∀ np, np = selectStore group p (candidates true o stores r p.store sel ctx sp g) ctx →
        np.role = p.role ∧ np.store ∉ tp.map (·.1) ∧ (∀ q ∈ rest ++ later, q.store ≠ np.store) ∧
        EntryOK o stores r (np.store, np) := by
      intro np hnp
      rcases selectStore_cases group p (candidates true o stores r p.store sel ctx sp g) ctx with h | ⟨st, hst, hne, h⟩
      · rw [h] at hnp; rw [hnp]
        refine ⟨rfl, hpfresh, ?_, Or.inl (hsub p hp)⟩
        intro q hq heq
        exact hnd.1 (List.mem_map.2 ⟨q, hq, heq⟩)
      · rw [h] at hnp; rw [hnp]
        obtain ⟨s, hs, hid, hsel, hothers, _, hssf, _⟩ := mem_candidates hst
        have hout : st ∉ r.stores := fun hm => hne (hothers rfl hm)
        refine ⟨rfl, ?_, ?_, Or.inr ⟨hout, rfl, s, hs, hid, hssf⟩⟩
        · intro hm; exact hsel ((inv.selEq st).2 hm)
        · intro q hq heq
          apply hout
          simp only at heq
          rw [← heq]
          exact List.mem_map.2 ⟨q, hsub q (List.mem_cons_of_mem _ hq), rfl⟩
    obtain ⟨hrole, hfresh, hapart, hentry⟩ := hnp _ rfl
    rw [setTarget_fresh hfresh]
    have inv' : Inv r (tp ++ [((selectStore group p (candidates true o stores r p.store sel ctx sp g) ctx).store,
        selectStore group p (candidates true o stores r p.store sel ctx sp g) ctx)])
        (sel ++ [(selectStore group p (candidates true o stores r p.store sel ctx sp g) ctx).store]) (rest ++ later) := by
      refine ⟨?_, ?_, ?_, ?_⟩
      · intro e he
        rcases List.mem_append.1 he with he | he
        · exact inv.keyed e he
        · simp at he; subst he; rfl
      · simp only [List.map_append, List.map_cons, List.map_nil]
        rw [List.nodup_append]
        refine ⟨inv.nodup, by simp, ?_⟩
        intro a ha b hb
        simp at hb; subst hb
        intro he; exact hfresh (he ▸ ha)
      · intro s
        simp only [List.mem_append, List.mem_singleton, List.map_append, List.map_cons, List.map_nil]
        rw [inv.selEq s]
      · intro q hq
        simp only [List.map_append, List.map_cons, List.map_nil, List.mem_append, List.mem_singleton]
        rintro (h | h)
        · exact inv.apart q (List.mem_cons_of_mem _ hq) h
        · exact hapart q hq h
    have hok' : ∀ e ∈ tp ++ [((selectStore group p (candidates true o stores r p.store sel ctx sp g) ctx).store,
        selectStore group p (candidates true o stores r p.store sel ctx sp g) ctx)], EntryOK o stores r e := by
      intro e he
      rcases List.mem_append.1 he with he | he
      · exact hok e he
      · simp at he; subst he; exact hentry
    obtain ⟨i1, i2, i3⟩ := ih (tp := _) (sel := _) hnd.2 (fun q hq => hsub q (List.mem_cons_of_mem _ hq)) inv' hok'
    refine ⟨i1, ?_, i3⟩
    rw [i2]
    simp [hrole]

end PdModel.Scatter
