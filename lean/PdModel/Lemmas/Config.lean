import PdModel.Model.Config
import PdModel.Spec.C18
set_option linter.unusedSimpArgs false
set_option linter.unusedVariables false
/-!
Per-setter lemmas for the configuration model (C18): what `persist` / `swapPersist` do to the state,
what the validators guarantee, and the combined `step_spec`.
-/
namespace PdModel.Config
open PdModel.Spec.C18

/-! ### fixed-point comparisons -/

theorem fix_nonneg (a : Fix) (hf : a.isFinite = true) (h : a.lt zero = false) : zero.le a = true := by
  cases a <;> simp_all [Fix.isFinite, Fix.lt, Fix.le, zero]
  all_goals omega

theorem fix_le_one (a : Fix) (hf : a.isFinite = true) (h : one.lt a = false) : a.le one = true := by
  cases a <;> simp_all [Fix.isFinite, Fix.lt, Fix.le, one]
  all_goals omega

theorem fix_lt_of_not_le (a b : Fix) (ha : a.isFinite = true) (hb : b.isFinite = true) (h : a.le b = false) :
    b.lt a = true := by
  cases a <;> cases b <;> simp_all [Fix.isFinite, Fix.lt, Fix.le]
  all_goals omega

/-! ### validation -/

theorem validateSched_ok (registered : List String) (c : Sched) (h : validateSched registered c = .ok) :
    c.tolerant.lt zero = false ∧ c.low.lt zero = false ∧ one.lt c.low = false ∧ c.high.lt zero = false ∧
    one.lt c.high = false ∧ c.low.le c.high = false ∧
    c.schedulers.all (fun x => registered.contains x.type) = true ∧
    c.disable.all (fun b => !b) = true ∧ c.rate = zero := by
  unfold validateSched at h
  split at h; · cases h
  next h1 =>
  split at h; · cases h
  next h2 =>
  split at h; · cases h
  next h3 =>
  split at h; · cases h
  next h4 =>
  split at h; · cases h
  next h5 =>
  split at h; · cases h
  next h6 =>
  split at h; · cases h
  next h7 =>
  simp only [Bool.or_eq_true, not_or, Bool.not_eq_true] at h1 h2 h3 h4
  refine ⟨h1, h2.1, h2.2, h3.1, h3.2, h4, ?_, ?_, ?_⟩
  · simp only [List.any_eq_true, not_exists, not_and, Bool.not_eq_true', Bool.not_eq_false] at h5
    simp only [List.all_eq_true]
    intro x hx
    have := h5 x hx
    simpa using this
  · simp only [List.any_eq_true, not_exists, not_and] at h6
    simp only [List.all_eq_true, Bool.not_eq_true']
    intro b hb
    cases b with
    | false => rfl
    | true => exact absurd rfl (h6 true hb)
  · simpa using h7

theorem schedDomain_of_valid (registered : List String) (c : Sched) (h : validateSched registered c = .ok)
    (hj : schedJsonOK c = true) : schedDomain registered c = true := by
  obtain ⟨h1, h2, h3, h4, h5, h6, h7, _, _⟩ := validateSched_ok registered c h
  simp only [schedJsonOK, Bool.and_eq_true] at hj
  obtain ⟨⟨⟨⟨ft, fl⟩, fh⟩, _⟩, _⟩ := hj
  simp only [schedDomain, Bool.and_eq_true]
  exact ⟨⟨⟨⟨⟨⟨⟨⟨⟨ft, fix_nonneg _ ft h1⟩, fl⟩, fix_nonneg _ fl h2⟩, fix_le_one _ fl h3⟩, fh⟩,
    fix_nonneg _ fh h4⟩, fix_le_one _ fh h5⟩, fix_lt_of_not_le _ _ fl fh h6⟩, h7⟩

theorem migratePairs_off : ∀ (ds es : List Bool), ds.all (fun b => !b) = true →
    migratePairs ds es = (ds, es) := by
  intro ds
  induction ds with
  | nil => intro es _; cases es <;> simp [migratePairs]
  | cons d ds ih =>
    intro es h
    simp only [List.all_cons, Bool.and_eq_true, Bool.not_eq_true'] at h
    obtain ⟨hd, hds⟩ := h
    subst hd
    cases es with
    | nil =>
      simp only [migratePairs, List.map_cons, Prod.mk.injEq, List.cons.injEq, true_and, and_true]
      clear ih
      induction ds with
      | nil => rfl
      | cons x xs ih2 =>
        simp only [List.all_cons, Bool.and_eq_true, Bool.not_eq_true'] at hds
        simp [hds.1, ih2 hds.2]
    | cons e es =>
      simp only [migratePairs, Bool.false_eq_true, if_false]
      rw [ih es (by simpa using hds)]

theorem normSched_of_valid (defaults registered : List String) (c : Sched)
    (h : validateSched registered c = .ok) :
    normSched defaults c = { c with schedulers := addDefaults defaults c.schedulers } := by
  obtain ⟨_, _, _, _, _, _, _, hd, hr⟩ := validateSched_ok registered c h
  unfold normSched
  have hdrop : (c.disable.drop 1).all (fun b => !b) = true := by
    simp only [List.all_eq_true] at hd ⊢
    intro b hb; exact hd b (List.mem_of_mem_drop hb)
  rw [migratePairs_off _ _ hdrop]
  have htake : (c.disable.take 1).map (fun _ => false) ++ c.disable.drop 1 = c.disable := by
    cases hc : c.disable with
    | nil => rfl
    | cons b bs =>
      rw [hc] at hd
      simp only [List.all_cons, Bool.and_eq_true, Bool.not_eq_true'] at hd
      simp [hd.1]
  simp only [htake, hr]

theorem replDomain_of_valid (c : Repl) (h : validateRepl c = .ok) : replDomain c = true := by
  unfold validateRepl at h
  split at h; · cases h
  split at h; · cases h
  next h2 =>
  unfold replDomain
  simp only [Bool.and_eq_true, bne_iff_ne, ne_eq, Bool.not_eq_true', not_and, Bool.not_eq_false] at h2
  simp only [Bool.or_eq_true, beq_iff_eq]
  by_cases hi : c.isolation = ""
  · left; exact hi
  · right; exact h2 hi

/-! ### persist -/

theorem persist_ok (s : St) (mask n : Nat) (h : (persist s mask n).res = .ok) :
    jsonOK s.served = true ∧ (persist s mask n).st = { s with stored := some s.served } := by
  unfold persist at h ⊢
  by_cases hj : jsonOK s.served = true
  · by_cases hf : failBit mask n = true
    · simp [hj, hf] at h
    · simp [hj, hf]
  · simp [hj] at h

theorem persist_err (s : St) (mask n : Nat) (h : (persist s mask n).res ≠ .ok) : (persist s mask n).st = s := by
  unfold persist at h ⊢
  by_cases hj : jsonOK s.served = true
  · by_cases hf : failBit mask n = true
    · simp [hj, hf]
    · simp [hj, hf] at h
  · simp [hj]

theorem persist_defaults (s : St) (mask n : Nat) : (persist s mask n).st.defaults = s.defaults := by
  unfold persist
  split
  · rfl
  · split <;> rfl

/-- what every setter's outcome looks like -/
structure Outcome (s : St) (o : Out) : Prop where
  rejected : o.res ≠ .ok → o.st.served = s.served
  stored : o.res = .ok → o.st.stored = some o.st.served
  json : o.res = .ok → jsonOK o.st.served = true
  registered : o.st.registered = s.registered

theorem outcome_reject (s : St) (r : Res) (ws : List Write) (hr : r ≠ .ok) :
    Outcome s { st := s, res := r, writes := ws } :=
  ⟨fun _ => rfl, fun h => absurd h hr, fun h => absurd h hr, rfl⟩

theorem swapPersist_outcome (s : St) (new : Cfg) (mask : Nat) : Outcome s (swapPersist s new mask) := by
  unfold swapPersist
  by_cases h : (persist { s with served := new } mask 0).res = .ok
  · obtain ⟨hj, hst⟩ := persist_ok _ mask 0 h
    simp only [h, if_true]
    refine ⟨fun hr => absurd h hr, fun _ => by rw [hst], fun _ => by rw [hst]; exact hj, by rw [hst]⟩
  · simp only [h, if_false]
    exact ⟨fun _ => rfl, fun hr => absurd hr h, fun hr => absurd hr h, by rw [persist_err _ mask 0 h]⟩

theorem swapPersist_served (s : St) (new : Cfg) (mask : Nat) (h : (swapPersist s new mask).res = .ok) :
    (swapPersist s new mask).st.served = new := by
  unfold swapPersist at h ⊢
  by_cases h' : (persist { s with served := new } mask 0).res = .ok
  · simp only [h', if_true]
    first | done | rw [(persist_ok _ mask 0 h').2]
  · rw [if_neg h'] at h; exact absurd h h'

/-! ### the setters -/

/-- the served configuration differs from the old one at most in the named section -/
def onlySched (a b : Cfg) : Prop := b.repl = a.repl ∧ b.pd = a.pd
def onlyRepl (a b : Cfg) : Prop := b.sched = a.sched ∧ b.pd = a.pd
def onlyPd (a b : Cfg) : Prop := b.sched = a.sched ∧ b.repl = a.repl
def sameThree (a b : Cfg) : Prop := b.sched = a.sched ∧ b.repl = a.repl ∧ b.pd = a.pd

theorem setSched_spec (s : St) (c : Sched) (mask : Nat) :
    Outcome s (setSched s c mask) ∧
    ((setSched s c mask).res = .ok → (setSched s c mask).st.served = { s.served with sched := c } ∧
      schedDomain s.registered c = true) := by
  unfold setSched
  by_cases hv : validateSched s.registered c = .ok
  · have hvb : (validateSched s.registered c != .ok) = false := by simp [hv]
    simp only [hvb, Bool.false_eq_true, if_false]
    refine ⟨swapPersist_outcome s _ mask, fun hok => ?_⟩
    have hs := swapPersist_served s _ mask hok
    refine ⟨hs, ?_⟩
    have hj := (swapPersist_outcome s { s.served with sched := c } mask).json hok
    rw [hs] at hj
    exact schedDomain_of_valid _ c hv hj
  · have hvb : (validateSched s.registered c != .ok) = true := by simpa using hv
    simp only [hvb, if_true]
    exact ⟨outcome_reject s _ [] hv, fun h => absurd h hv⟩

theorem setPd_spec (s : St) (c : PdSrv) (mask : Nat) :
    Outcome s (setPd s c mask) ∧
    ((setPd s c mask).res = .ok → onlyPd s.served (setPd s c mask).st.served ∧
      pdDomain (setPd s c mask).st.served.pd = true) := by
  unfold setPd
  dsimp only
  generalize (if (c.dashboard == "selfhost") = true then "self" else c.dashboard) = d
  split
  · exact ⟨outcome_reject s _ [] (by decide), (fun h => nomatch h)⟩
  · split
    · exact ⟨outcome_reject s _ [] (by decide), (fun h => nomatch h)⟩
    · next hd =>
      refine ⟨swapPersist_outcome s _ mask, fun hok => ?_⟩
      rw [swapPersist_served s _ mask hok]
      refine ⟨⟨rfl, rfl⟩, ?_⟩
      simp only [pdDomain, decide_eq_true_eq]
      omega

theorem setLabels_spec (s : St) (m : List LabelProp) (mask : Nat) :
    Outcome s (setLabels s m mask) ∧
    ((setLabels s m mask).res = .ok → sameThree s.served (setLabels s m mask).st.served) := by
  unfold setLabels
  refine ⟨swapPersist_outcome s _ mask, fun hok => ?_⟩
  rw [swapPersist_served s _ mask hok]
  exact ⟨rfl, rfl, rfl⟩

theorem setVersion_spec (s : St) (v : Option (Nat × Nat × Nat)) (mask : Nat) :
    Outcome s (setVersion s v mask) ∧
    ((setVersion s v mask).res = .ok → sameThree s.served (setVersion s v mask).st.served) := by
  unfold setVersion
  cases v with
  | none => exact ⟨outcome_reject s _ [] (by decide), (fun h => nomatch h)⟩
  | some v =>
    refine ⟨swapPersist_outcome s _ mask, fun hok => ?_⟩
    rw [swapPersist_served s _ mask hok]
    exact ⟨rfl, rfl, rfl⟩

theorem setRepl_spec (s : St) (c : Repl) (mask : Nat) :
    Outcome s (setRepl s c mask) ∧
    ((setRepl s c mask).res = .ok → onlyRepl s.served (setRepl s c mask).st.served ∧
      replDomain (setRepl s c mask).st.served.repl = true) := by
  unfold setRepl
  by_cases hv : validateRepl c = .ok
  · have hvb : (validateRepl c != .ok) = false := by simp [hv]
    simp only [hvb, Bool.false_eq_true, if_false]
    split
    · exact ⟨outcome_reject s _ [] (by decide), (fun h => nomatch h)⟩
    · split
      · exact ⟨outcome_reject s _ [] (by decide), (fun h => nomatch h)⟩
      · generalize hs1 : (if touchesRule s c = true then { s with rule := some ⟨c.maxReplicas, c.location⟩ } else s) = s1
        have hs1reg : s1.registered = s.registered := by
          rw [← hs1]; split <;> rfl
        by_cases hp : (persist { s1 with served := { s.served with repl := c } } mask 0).res = .ok
        · obtain ⟨hj, hst⟩ := persist_ok _ mask 0 hp
          rw [if_pos hp]
          refine ⟨⟨fun hr => absurd hp hr, fun _ => by rw [hst], fun _ => by rw [hst]; exact hj,
            by rw [hst]; exact hs1reg⟩, fun _ => ?_⟩
          rw [hst]
          exact ⟨⟨rfl, rfl⟩, replDomain_of_valid c hv⟩
        · rw [if_neg hp]
          refine ⟨⟨fun _ => rfl, fun hr => absurd hr hp, fun hr => absurd hr hp, ?_⟩, fun hr => absurd hr hp⟩
          rw [persist_err _ mask 0 hp]; exact hs1reg
  · have hvb : (validateRepl c != .ok) = true := by simpa using hv
    simp only [hvb, if_true]
    exact ⟨outcome_reject s _ [] hv, fun h => absurd h hv⟩

theorem setRMode_spec (s : St) (c : RMode) (mask : Nat) :
    Outcome s (setRMode s c mask) ∧
    ((setRMode s c mask).res = .ok → sameThree s.served (setRMode s c mask).st.served) := by
  unfold setRMode
  split
  · exact ⟨outcome_reject s _ [] (by decide), (fun h => nomatch h)⟩
  · dsimp only
    by_cases hp : (persist { s with served := { s.served with rmode := c } } mask 0).res = .ok
    · obtain ⟨hj, hst⟩ := persist_ok _ mask 0 hp
      have hpb : ((persist { s with served := { s.served with rmode := c } } mask 0).res != .ok) = false := by
        simp [hp]
      simp only [hpb, Bool.false_eq_true, if_false]
      split
      · -- UpdateConfig failed: reverted in memory, whatever the second persist does
        refine ⟨⟨fun _ => ?_, (fun h => nomatch h), (fun h => nomatch h), ?_⟩, (fun h => nomatch h)⟩
        · by_cases hb : (persist { (persist { s with served := { s.served with rmode := c } } mask 0).st with served := s.served } mask 2).res = .ok
          · rw [(persist_ok _ mask 2 hb).2]
          · rw [persist_err _ mask 2 hb]
        · by_cases hb : (persist { (persist { s with served := { s.served with rmode := c } } mask 0).st with served := s.served } mask 2).res = .ok
          · rw [(persist_ok _ mask 2 hb).2, hst]
          · rw [persist_err _ mask 2 hb, hst]
      · refine ⟨⟨fun h => absurd rfl h, fun _ => by rw [hst], fun _ => by rw [hst]; exact hj, by rw [hst]⟩, fun _ => ?_⟩
        rw [hst]; exact ⟨rfl, rfl, rfl⟩
    · have hpb : ((persist { s with served := { s.served with rmode := c } } mask 0).res != .ok) = true := by
        simpa using hp
      simp only [hpb, if_true]
      refine ⟨⟨fun _ => rfl, fun hr => absurd hr hp, fun hr => absurd hr hp, ?_⟩, fun hr => absurd hr hp⟩
      rw [persist_err _ mask 0 hp]

/-- the default-scheduler list is a constant of the state -/
theorem step_defaults (s : St) (op : Op) : (step s op).st.defaults = s.defaults := by
  cases op <;>
    simp only [step, setSched, setRepl, setPd, setLabels, setVersion, setRMode, swapPersist, foreignWrite, reloadSame] <;>
    (repeat' split) <;> simp [persist_defaults]

/-- everything `Props/C18.lean` needs about one step -/
structure StepSpec (s : St) (op : Op) : Prop where
  rejected : (step s op).res ≠ .ok → (step s op).st.served = s.served
  stored : op.isSetter = true → (step s op).res = .ok → (step s op).st.stored = some (step s op).st.served
  registered : (step s op).st.registered = s.registered
  /-- another member's write leaves what this member serves alone -/
  foreignKept : ∀ x, op = .foreign x → (step s op).st.served = s.served
  /-- a reload succeeds, leaves the storage alone and serves its (normalised) content -/
  reloadIs : op = .reload → (step s op).res = .ok ∧ (step s op).st.stored = s.stored ∧
    ∀ c, s.stored = some c → (step s op).st.served = normalise s.defaults c
  domain : (step s op).res = .ok →
    (kindOf op = .sched → schedDomain s.registered (step s op).st.served.sched = true) ∧
    (kindOf op = .repl → replDomain (step s op).st.served.repl = true) ∧
    (kindOf op = .pd → pdDomain (step s op).st.served.pd = true)
  schedIs : (step s op).res = .ok → ∀ c mask, op = .sched c mask → (step s op).st.served.sched = c
  domainKept : op.isSetter = true → (schedDomain s.registered s.served.sched = true ∧ replDomain s.served.repl = true ∧
      pdDomain s.served.pd = true) →
    (schedDomain s.registered (step s op).st.served.sched = true ∧ replDomain (step s op).st.served.repl = true ∧
      pdDomain (step s op).st.served.pd = true)

/-- a setter that keeps the three validated sections (or fails) satisfies `StepSpec` when its kind is
    none of the three -/
theorem spec_of_same (s : St) (op : Op) (o : Out) (he : step s op = o) (ho : Outcome s o)
    (hs : o.res = .ok → sameThree s.served o.st.served)
    (hk1 : kindOf op ≠ .sched) (hk2 : kindOf op ≠ .repl) (hk3 : kindOf op ≠ .pd)
    (hns : ∀ c mask, op ≠ .sched c mask)
    (hnf : ∀ x, op = .foreign x → (step s op).st.served = s.served)
    (hnr : op = .reload → (step s op).res = .ok ∧ (step s op).st.stored = s.stored ∧
      ∀ c, s.stored = some c → (step s op).st.served = normalise s.defaults c) : StepSpec s op := by
  subst he
  refine ⟨ho.rejected, fun _ => ho.stored, ho.registered, hnf, hnr, fun _ => ⟨fun h => absurd h hk1, fun h => absurd h hk2, fun h => absurd h hk3⟩,
    fun _ c m hc => absurd hc (hns c m), fun _ h => ?_⟩
  by_cases hok : (step s op).res = .ok
  · obtain ⟨h1, h2, h3⟩ := hs hok
    rw [h1, h2, h3]; exact h
  · rw [ho.rejected hok]; exact h

theorem step_spec (s : St) (op : Op) : StepSpec s op := by
  cases op with
  | sched c mask =>
    obtain ⟨ho, hd⟩ := setSched_spec s c mask
    show StepSpec s (.sched c mask)
    refine ⟨ho.rejected, fun _ => ho.stored, ho.registered, (fun _ h => nomatch h), (fun h => nomatch h),
      fun hok => ⟨fun _ => ?_, (fun h => nomatch h), (fun h => nomatch h)⟩,
      fun hok c' m' he => ?_, fun _ h => ?_⟩
    · show schedDomain s.registered (setSched s c mask).st.served.sched = true
      rw [(hd hok).1]; exact (hd hok).2
    · cases he; show (setSched s c mask).st.served.sched = c; rw [(hd hok).1]
    · show schedDomain s.registered (setSched s c mask).st.served.sched = true ∧
        replDomain (setSched s c mask).st.served.repl = true ∧ pdDomain (setSched s c mask).st.served.pd = true
      by_cases hok : (setSched s c mask).res = .ok
      · rw [(hd hok).1]; exact ⟨(hd hok).2, h.2.1, h.2.2⟩
      · rw [ho.rejected hok]; exact h
  | repl c mask =>
    obtain ⟨ho, hd⟩ := setRepl_spec s c mask
    refine ⟨ho.rejected, fun _ => ho.stored, ho.registered, (fun _ h => nomatch h), (fun h => nomatch h),
      fun hok => ⟨(fun h => nomatch h), fun _ => (hd hok).2, (fun h => nomatch h)⟩,
      (fun _ c' m' he => nomatch he), fun _ h => ?_⟩
    show schedDomain s.registered (setRepl s c mask).st.served.sched = true ∧
      replDomain (setRepl s c mask).st.served.repl = true ∧ pdDomain (setRepl s c mask).st.served.pd = true
    by_cases hok : (setRepl s c mask).res = .ok
    · obtain ⟨⟨h1, h2⟩, h3⟩ := hd hok
      rw [h1, h2]; exact ⟨h.1, h3, h.2.2⟩
    · rw [ho.rejected hok]; exact h
  | pd c mask =>
    obtain ⟨ho, hd⟩ := setPd_spec s c mask
    refine ⟨ho.rejected, fun _ => ho.stored, ho.registered, (fun _ h => nomatch h), (fun h => nomatch h),
      fun hok => ⟨(fun h => nomatch h), (fun h => nomatch h), fun _ => (hd hok).2⟩,
      (fun _ c' m' he => nomatch he), fun _ h => ?_⟩
    show schedDomain s.registered (setPd s c mask).st.served.sched = true ∧
      replDomain (setPd s c mask).st.served.repl = true ∧ pdDomain (setPd s c mask).st.served.pd = true
    by_cases hok : (setPd s c mask).res = .ok
    · obtain ⟨⟨h1, h2⟩, h3⟩ := hd hok
      rw [h1, h2]; exact ⟨h.1, h.2.1, h3⟩
    · rw [ho.rejected hok]; exact h
  | lpset t k v mask =>
    obtain ⟨ho, hd⟩ := setLabels_spec s (lpSet s.served.labels t k v) mask
    exact spec_of_same s _ _ rfl ho hd (by simp [kindOf]) (by simp [kindOf]) (by simp [kindOf]) (fun _ _ h => nomatch h) (fun _ h => nomatch h) (fun h => nomatch h)
  | lpdel t k v mask =>
    obtain ⟨ho, hd⟩ := setLabels_spec s (lpDel s.served.labels t k v) mask
    exact spec_of_same s _ _ rfl ho hd (by simp [kindOf]) (by simp [kindOf]) (by simp [kindOf]) (fun _ _ h => nomatch h) (fun _ h => nomatch h) (fun h => nomatch h)
  | lpcfg m mask =>
    obtain ⟨ho, hd⟩ := setLabels_spec s m mask
    exact spec_of_same s _ _ rfl ho hd (by simp [kindOf]) (by simp [kindOf]) (by simp [kindOf]) (fun _ _ h => nomatch h) (fun _ h => nomatch h) (fun h => nomatch h)
  | cver v mask =>
    obtain ⟨ho, hd⟩ := setVersion_spec s v mask
    exact spec_of_same s _ _ rfl ho hd (by simp [kindOf]) (by simp [kindOf]) (by simp [kindOf]) (fun _ _ h => nomatch h) (fun _ h => nomatch h) (fun h => nomatch h)
  | rmode c mask =>
    obtain ⟨ho, hd⟩ := setRMode_spec s c mask
    exact spec_of_same s _ _ rfl ho hd (by simp [kindOf]) (by simp [kindOf]) (by simp [kindOf]) (fun _ _ h => nomatch h) (fun _ h => nomatch h) (fun h => nomatch h)
  | foreign x =>
    have hserved : (step s (.foreign x)).st.served = s.served := by
      simp only [step, foreignWrite]; repeat' split
      all_goals rfl
    have hreg : (step s (.foreign x)).st.registered = s.registered := by
      simp only [step, foreignWrite]; repeat' split
      all_goals rfl
    exact ⟨fun _ => hserved, (fun h => nomatch h), hreg, fun _ _ => hserved, (fun h => nomatch h),
      fun _ => ⟨(fun h => nomatch h), (fun h => nomatch h), (fun h => nomatch h)⟩,
      (fun _ _ _ h => nomatch h), (fun h => nomatch h)⟩
  | reload =>
    have hres : (step s .reload).res = .ok := by
      simp only [step, reloadSame]; split <;> rfl
    have hstored : (step s .reload).st.stored = s.stored := by
      simp only [step, reloadSame]; split <;> rfl
    have hreg : (step s .reload).st.registered = s.registered := by
      simp only [step, reloadSame]; split <;> rfl
    have hserved : ∀ c, s.stored = some c → (step s .reload).st.served = normalise s.defaults c := by
      intro c hc
      simp only [step, reloadSame, hc]
    exact ⟨fun h => absurd hres h, (fun h => nomatch h), hreg, (fun _ h => nomatch h),
      fun _ => ⟨hres, hstored, hserved⟩,
      fun _ => ⟨(fun h => nomatch h), (fun h => nomatch h), (fun h => nomatch h)⟩,
      (fun _ _ _ h => nomatch h), (fun h => nomatch h)⟩

end PdModel.Config
