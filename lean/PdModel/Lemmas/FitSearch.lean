import PdModel.Model.Fit
import PdModel.Lemmas.FitOrder
import PdModel.Lemmas.FitBasic
set_option linter.unusedSimpArgs false
set_option linter.unusedVariables false
/-! The backtracking search of fit.go: loop invariant of `enumPeers`, then the generalised statement
    about `fitRule` (completions of a prefix), by induction over the remaining rules. -/
namespace PdModel.Fit
open PdModel.Spec.C12

/-- Loop invariant of `enumPeers`, for any leaf that (1) never makes the state worse, (2) leaves it
    dominating everything reachable through the chosen peers, (3) reports `false` only if nothing
    changed and `true` only with a realised state. -/
theorem enumPeers_spec
    (leaf : List Nat → Best → List Nat → Res) (n : Nat)
    (le : Best → Best → Prop) (Dom : List Nat → Best → Prop) (Real : List Nat → Best → List Nat → Prop)
    (le_refl : ∀ b, le b b)
    (le_trans : ∀ a b c, a.length = n → b.length = n → c.length = n → le a b → le b c → le a c)
    (dom_mono : ∀ s b b', b.length = n → b'.length = n → Dom s b → le b b' → Dom s b')
    (hleaf : ∀ sel b o, b.length = n →
       (leaf sel b o).best.length = n ∧ le b (leaf sel b o).best ∧ Dom sel (leaf sel b o).best ∧
       ((leaf sel b o).better = false → (leaf sel b o).best = b ∧ (leaf sel b o).orphans = o) ∧
       ((leaf sel b o).better = true → Real sel (leaf sel b o).best (leaf sel b o).orphans)) :
    ∀ (cands : List Nat) (need : Nat) (sel : List Nat) (b : Best) (o : List Nat), b.length = n →
       (enumPeers leaf cands need sel b o).best.length = n ∧ le b (enumPeers leaf cands need sel b o).best ∧
       (∀ a, a.Sublist cands → a.length = need → Dom (sel ++ a) (enumPeers leaf cands need sel b o).best) ∧
       ((enumPeers leaf cands need sel b o).better = false →
          (enumPeers leaf cands need sel b o).best = b ∧ (enumPeers leaf cands need sel b o).orphans = o) ∧
       ((enumPeers leaf cands need sel b o).better = true → ∃ a, a.Sublist cands ∧ a.length = need ∧
          Real (sel ++ a) (enumPeers leaf cands need sel b o).best (enumPeers leaf cands need sel b o).orphans) := by
  intro cands
  induction cands with
  | nil =>
    intro need sel b o hb
    cases need with
    | zero =>
      simp only [enumPeers]
      obtain ⟨h1, h2, h3, h4, h5⟩ := hleaf sel b o hb
      refine ⟨h1, h2, ?_, h4, ?_⟩
      · intro a ha _
        have : a = [] := by simpa using ha
        subst this; simpa using h3
      · intro ht; exact ⟨[], List.Sublist.refl _, rfl, by simpa using h5 ht⟩
    | succ k =>
      simp only [enumPeers]
      refine ⟨hb, le_refl b, ?_, fun _ => by simp, by simp⟩
      intro a ha hl
      have : a = [] := by simpa using ha
      subst this; simp at hl
  | cons p rest ih =>
    intro need sel b o hb
    cases need with
    | zero =>
      simp only [enumPeers]
      obtain ⟨h1, h2, h3, h4, h5⟩ := hleaf sel b o hb
      refine ⟨h1, h2, ?_, h4, ?_⟩
      · intro a _ hl
        have : a = [] := List.eq_nil_of_length_eq_zero hl
        subst this; simpa using h3
      · intro ht; exact ⟨[], List.nil_sublist _, rfl, by simpa using h5 ht⟩
    | succ k =>
      simp only [enumPeers]
      obtain ⟨a1, a2, a3, a4, a5⟩ := ih k (sel ++ [p]) b o hb
      generalize enumPeers leaf rest k (sel ++ [p]) b o = r1 at a1 a2 a3 a4 a5
      obtain ⟨b1, b2, b3, b4, b5⟩ := ih (k + 1) sel r1.best r1.orphans a1
      generalize enumPeers leaf rest (k + 1) sel r1.best r1.orphans = r2 at b1 b2 b3 b4 b5
      refine ⟨b1, le_trans _ _ _ hb a1 b1 a2 b2, ?_, ?_, ?_⟩
      · intro a ha hl
        rcases List.sublist_cons_iff.1 ha with h | ⟨a', rfl, h⟩
        · exact b3 a h hl
        · have := a3 a' h (by simpa using hl)
          rw [List.append_assoc] at this
          exact dom_mono _ _ _ a1 b1 this b2
      · intro hf
        simp only [Bool.or_eq_false_iff] at hf
        obtain ⟨e1, e2⟩ := a4 hf.1
        obtain ⟨e3, e4⟩ := b4 hf.2
        exact ⟨e3.trans e1, e4.trans e2⟩
      · intro ht
        cases h2 : r2.better with
        | true =>
          obtain ⟨a, s1, s2, s3⟩ := b5 h2
          exact ⟨a, s1.cons p, s2, s3⟩
        | false =>
          have h1 : r1.better = true := by simpa [h2] using ht
          obtain ⟨a, s1, s2, s3⟩ := a5 h1
          obtain ⟨e3, e4⟩ := b4 h2
          refine ⟨p :: a, s1.cons_cons p, by simp [s2], ?_⟩
          rw [e3, e4]
          rw [List.append_assoc] at s3
          exact s3

end PdModel.Fit

namespace PdModel.Fit
open PdModel.Spec.C12

/-! ## candidates -/

/-- the store a peer was resolved to is one of the stores of the store set -/
def Ctx.WF (c : Ctx) : Prop := ∀ p ∈ c.peers, ∀ s, p.store = some s → s ∈ c.stores

theorem eligible_eq (p : PeerInfo) (r : Rule) :
    (matchLabelConstraints p.store r.constraints && matchRoleLoose p r.role) = eligible p r := by
  unfold eligible
  cases h : p.store with
  | none => simp [matchLabelConstraints]
  | some s => simp [matchLabelConstraints_eq, matchRoleLoose_eq]

theorem mem_candidates (c : Ctx) (hwf : c.WF) (r : Rule) (used : List Nat) (i : Nat) :
    i ∈ candidates c r used ↔ i < c.peers.length ∧ elig c.peers r i = true ∧ i ∉ used := by
  unfold candidates elig
  by_cases hck : checkRule r c.stores = true
  · simp only [hck, ↓reduceIte, List.mem_filter, List.mem_range]
    cases hp : c.peers[i]? with
    | none => simp
    | some p =>
      simp only [← eligible_eq, Bool.and_eq_true, Bool.not_eq_true', List.contains_eq_mem,
        decide_eq_false_iff_not, and_assoc]
  · simp only [hck, Bool.false_eq_true, ↓reduceIte, List.not_mem_nil, false_iff, not_and]
    intro hlt
    cases hp : c.peers[i]? with
    | none => simp
    | some p =>
      simp only
      intro he
      exfalso
      apply hck
      unfold eligible at he
      cases hs : p.store with
      | none => simp [hs] at he
      | some s =>
        simp only [hs, Bool.and_eq_true] at he
        have hm : s ∈ c.stores := hwf p (List.mem_of_getElem? hp) s hs
        unfold checkRule
        rw [List.any_eq_true]
        exact ⟨s, hm, by rw [matchLabelConstraints_eq]; exact he.1⟩

theorem candidates_pairwise (c : Ctx) (r : Rule) (used : List Nat) :
    (candidates c r used).Pairwise (· < ·) := by
  unfold candidates
  split
  · exact List.Pairwise.filter _ List.pairwise_lt_range
  · exact List.Pairwise.nil

/-! ## keys -/

theorem strictAtM_eq (c : Ctx) (r : Rule) (i : Nat) : strictAtM c r i = strictAt c.peers r i := by
  unfold strictAtM strictAt
  cases c.peers[i]? <;> simp [matchRoleStrict_eq]

theorem newRuleFit_score (c : Ctx) (r : Rule) (sel : List Nat) :
    (newRuleFit c r sel).score = isoScore r.locationLabels (storesOf c.peers sel) := by
  simp only [newRuleFit, isolationScore_eq, Ctx.get, storesOf, List.filterMap_filterMap]

theorem newRuleFit_mismatch (c : Ctx) (r : Rule) (sel : List Nat) :
    (newRuleFit c r sel).mismatch = sel.filter (fun i => !strictAt c.peers r i) := by
  simp only [newRuleFit, strictAtM_eq]

theorem newRuleFit_key (c : Ctx) (r : Rule) (sel : List Nat) :
    (newRuleFit c r sel).key = keyOf c.peers r sel := by
  simp only [RuleFit.key, keyOf, newRuleFit_score, newRuleFit_mismatch]
  rfl

theorem compareRuleFit_eq (a b : RuleFit) : compareRuleFit a b = Key.cmp a.key b.key := rfl

/-- key of an entry of `bestFit.RuleFits`; nil is worse than every rule fit -/
def okey : Option RuleFit → Key
  | none => ⟨0, 0, 0⟩
  | some f => f.key.up

def bkeys (b : Best) : List Key := b.map okey

def ckeys (c : Ctx) (rules : List Rule) (A : List (List Nat)) : List Key :=
  (keysOf c.peers rules A).map Key.up

def fitsM (c : Ctx) : List Rule → List (List Nat) → List RuleFit
  | r :: rs, a :: as => newRuleFit c r a :: fitsM c rs as
  | _, _ => []

theorem cmp_up (a b : Key) : Key.cmp a.up b.up = Key.cmp a b := by
  unfold Key.cmp Key.up
  simp only
  repeat' split
  all_goals omega

/-- the value `cmp` of compareBest, as a comparison of keys -/
theorem compareBest_cmp (rf : RuleFit) (b : Option RuleFit) :
    cmpBest rf b = Key.cmp rf.key.up (okey b) := by
  cases b with
  | none => simp only [cmpBest, okey, Key.cmp, Key.up]; simp
  | some old => simp only [cmpBest, okey, cmp_up, compareRuleFit_eq]

theorem validFrom_length (peers : List PeerInfo) : ∀ (rules : List Rule) (used : List Nat) (A : List (List Nat)),
    ValidFrom peers rules used A → A.length = rules.length := by
  intro rules
  induction rules with
  | nil => intro used A h; cases A <;> simp_all [ValidFrom]
  | cons r rs ih =>
    intro used A h
    cases A with
    | nil => simp [ValidFrom] at h
    | cons a as => simp only [ValidFrom] at h; simp [ih _ _ h.2.2.2]

theorem keysOf_length (peers : List PeerInfo) : ∀ (rules : List Rule) (A : List (List Nat)),
    A.length = rules.length → (keysOf peers rules A).length = rules.length := by
  intro rules
  induction rules with
  | nil => intro A _; cases A <;> simp [keysOf]
  | cons r rs ih =>
    intro A h
    cases A with
    | nil => simp at h
    | cons a as => simp only [keysOf, List.length_cons]; rw [ih as (by simpa using h)]

/-- the assignment that leaves every rule empty is valid -/
theorem validFrom_empty (peers : List PeerInfo) : ∀ (rules : List Rule) (used : List Nat),
    ValidFrom peers rules used (rules.map (fun _ => [])) := by
  intro rules
  induction rules with
  | nil => intro _; trivial
  | cons r rs ih =>
    intro used
    simp only [List.map_cons, ValidFrom, List.Pairwise.nil, List.not_mem_nil, false_imp_iff,
      implies_true, List.length_nil, Nat.zero_le, true_and, List.append_nil]
    exact ih used

end PdModel.Fit

namespace PdModel.Fit
open PdModel.Spec.C12

/-! ## the search -/

theorem enumPeers_better (leaf : List Nat → Best → List Nat → Res)
    (hleaf : ∀ sel bs o, (leaf sel (none :: bs) o).better = true) :
    ∀ (cands : List Nat) (need : Nat) (sel : List Nat) (bs : Best) (o : List Nat), need ≤ cands.length →
      (enumPeers leaf cands need sel (none :: bs) o).better = true := by
  intro cands
  induction cands with
  | nil =>
    intro need sel bs o h
    have : need = 0 := by simpa using h
    subst this; simp [enumPeers, hleaf]
  | cons p rest ih =>
    intro need sel bs o h
    cases need with
    | zero => simp [enumPeers, hleaf]
    | succ k =>
      simp only [enumPeers, Bool.or_eq_true]
      left
      exact ih k _ bs o (by simpa using h)

theorem compareBest_none (c : Ctx) (r : Rule) (isLast : Bool) (used : List Nat)
    (rest : List Nat → Best → List Nat → Res) (sel : List Nat) (bs : Best) (o : List Nat) :
    (compareBest c r isLast used rest sel (none :: bs) o).better = true := by
  simp [compareBest, cmpBest]

/-- starting from "no fit yet" a non-empty rule list always produces a fit -/
theorem fitRule_better_none (c : Ctx) (r : Rule) (rs : List Rule) (used : List Nat) (bs : Best) (o : List Nat) :
    (fitRule c (r :: rs) used (none :: bs) o).better = true := by
  simp only [fitRule]
  apply enumPeers_better
  · intro sel bs o; exact compareBest_none _ _ _ _ _ _ _ _
  · split <;> omega

structure FitRuleSpec (c : Ctx) (rules : List Rule) (used : List Nat) (best : Best) (orph : List Nat)
    (res : Res) : Prop where
  len : res.best.length = best.length
  mono : LexLE (bkeys best) (bkeys res.best)
  unchanged : res.better = false → res.best = best ∧ res.orphans = orph
  real : res.better = true → ∃ A, ValidFrom c.peers rules used A ∧ res.best = (fitsM c rules A).map some ∧
            res.orphans = orphanPeers c (used ++ A.flatten)
  dom : ∀ A, ValidFrom c.peers rules used A → LexLE (ckeys c rules A) (bkeys res.best)

theorem bkeys_length (b : Best) : (bkeys b).length = b.length := by simp [bkeys]

theorem ckeys_length (c : Ctx) (rules : List Rule) (used : List Nat) (A : List (List Nat))
    (h : ValidFrom c.peers rules used A) : (ckeys c rules A).length = rules.length := by
  simp only [ckeys, List.length_map]
  exact keysOf_length _ _ _ (validFrom_length _ _ _ _ h)

/-- what one call of compareBest guarantees -/
structure LeafOK (c : Ctx) (r : Rule) (rs : List Rule) (used sel : List Nat) (b : Best) (o : List Nat)
    (res : Res) : Prop where
  len : res.best.length = rs.length + 1
  mono : LexLE (bkeys b) (bkeys res.best)
  dom : ∀ A', ValidFrom c.peers rs (used ++ sel) A' →
          LexLE ((keyOf c.peers r sel).up :: ckeys c rs A') (bkeys res.best)
  unchanged : res.better = false → res.best = b ∧ res.orphans = o
  real : res.better = true → ∃ A', ValidFrom c.peers rs (used ++ sel) A' ∧
          res.best = some (newRuleFit c r sel) :: (fitsM c rs A').map some ∧
          res.orphans = orphanPeers c ((used ++ sel) ++ A'.flatten)

theorem compareBest_spec (c : Ctx) (r : Rule) (rs : List Rule) (used : List Nat)
    (ih : ∀ used best orph, best.length = rs.length → FitRuleSpec c rs used best orph (fitRule c rs used best orph))
    (sel : List Nat) (b : Best) (o : List Nat) (hb : b.length = rs.length + 1) :
    LeafOK c r rs used sel b o
      (compareBest c r rs.isEmpty used (fun u b o => fitRule c rs u b o) sel b o) := by
  cases b with
  | nil => simp at hb
  | cons b0 bs =>
    have hbs : bs.length = rs.length := by simpa using hb
    simp only [compareBest]
    rw [compareBest_cmp]
    have hkey := newRuleFit_key c r sel
    rcases Key.cmp_range (newRuleFit c r sel).key.up (okey b0) with hc | hc | hc
    · -- worse: nothing changes
      have hlt := (Key.cmp_eq_neg_one _ _).1 hc
      simp only [hc]
      refine ⟨by simp [hbs], LexLE.refl _, ?_, fun _ => ⟨rfl, rfl⟩, by simp⟩
      intro A' _
      simp only [bkeys, List.map_cons, LexLE]
      left; rw [← hkey]; exact hlt
    · -- equal: look for a better completion
      have heq := (Key.cmp_eq_zero _ _).1 hc
      simp only [hc]
      have h := ih (used ++ sel) bs o hbs
      generalize fitRule c rs (used ++ sel) bs o = r1 at h
      have hne : ¬ ((0 : Int) = 1) := by decide
      simp only [hne, ↓reduceIte]
      cases hbt : r1.better with
      | true =>
        simp only [↓reduceIte]
        refine ⟨by simp [h.len, hbs], ?_, ?_, by simp, ?_⟩
        · simp only [bkeys, List.map_cons, LexLE]
          right; exact ⟨Key.eqv_symm heq, h.mono⟩
        · intro A' hA'
          simp only [bkeys, List.map_cons, LexLE]
          right; rw [← hkey]; exact ⟨Key.eqv_refl _, h.dom A' hA'⟩
        · intro _
          obtain ⟨A', v, e1, e2⟩ := h.real hbt
          exact ⟨A', v, by rw [e1], e2⟩
      | false =>
        simp only [Bool.false_eq_true, ↓reduceIte]
        obtain ⟨e1, e2⟩ := h.unchanged hbt
        refine ⟨by simp [h.len, hbs], ?_, ?_, fun _ => ⟨by rw [e1], e2⟩, by simp⟩
        · rw [e1]; exact LexLE.refl _
        · intro A' hA'
          simp only [bkeys, List.map_cons, LexLE]
          right; rw [← hkey]; exact ⟨heq, h.dom A' hA'⟩
    · -- better: take it, restart the deeper levels
      have hgt := (Key.cmp_eq_one _ _).1 hc
      simp only [hc, ↓reduceIte]
      have hlen0 : (bs.map (fun _ => (none : Option RuleFit))).length = rs.length := by simp [hbs]
      have h := ih (used ++ sel) (bs.map (fun _ => none)) o hlen0
      refine ⟨by simp [h.len, hbs], ?_, ?_, by simp, ?_⟩
      · simp only [bkeys, List.map_cons, LexLE]
        left; exact hgt
      · intro A' hA'
        simp only [bkeys, List.map_cons, LexLE]
        right; rw [← hkey]; exact ⟨Key.eqv_refl _, h.dom A' hA'⟩
      · intro _
        cases rs with
        | nil =>
          have : bs = [] := List.eq_nil_of_length_eq_zero hbs
          subst this
          refine ⟨[], trivial, ?_, ?_⟩
          · simp [fitRule, fitsM]
          · simp
        | cons r' rs' =>
          cases bs with
          | nil => simp at hbs
          | cons x xs =>
            have hbt : (fitRule c (r' :: rs') (used ++ sel) (List.map (fun _ => none) (x :: xs)) o).better = true := by
              simp only [List.map_cons]; exact fitRule_better_none _ _ _ _ _ _
            obtain ⟨A', v, e1, e2⟩ := h.real hbt
            exact ⟨A', v, by rw [e1], by simpa using e2⟩

end PdModel.Fit

namespace PdModel.Fit
open PdModel.Spec.C12

/-- **Generalised statement about `fitRule`**: from any prefix (`used`) and any current best, the result is
    never worse than the old best, dominates every valid completion of the prefix, is unchanged when
    `false` is returned and is itself a valid completion when `true` is returned. -/
theorem fitRule_spec (c : Ctx) (hwf : c.WF) : ∀ (rules : List Rule) (used : List Nat) (best : Best) (orph : List Nat),
    best.length = rules.length → FitRuleSpec c rules used best orph (fitRule c rules used best orph) := by
  intro rules
  induction rules with
  | nil =>
    intro used best orph hb
    simp only [fitRule]
    refine ⟨rfl, LexLE.refl _, fun _ => ⟨rfl, rfl⟩, by simp, ?_⟩
    intro A hA
    cases A with
    | nil => simp [ckeys, keysOf, LexLE]
    | cons a as => simp [ValidFrom] at hA
  | cons r rs ih =>
    intro used best orph hb
    simp only [fitRule]
    generalize hcount : (if (candidates c r used).length < r.count then (candidates c r used).length else r.count) = count
    have hcount1 : count ≤ (candidates c r used).length := by subst hcount; split <;> omega
    have hcount2 : count ≤ r.count := by subst hcount; split <;> omega
    have hcount3 : count = (candidates c r used).length ∨ count = r.count := by subst hcount; split <;> omega
    -- loop invariant of enumPeers, instantiated with compareBest
    have key := enumPeers_spec
      (compareBest c r rs.isEmpty used (fun u b o => fitRule c rs u b o)) (rs.length + 1)
      (fun b b' => LexLE (bkeys b) (bkeys b'))
      (fun sel b => ∀ A', ValidFrom c.peers rs (used ++ sel) A' →
          LexLE ((keyOf c.peers r sel).up :: ckeys c rs A') (bkeys b))
      (fun sel b o => ∃ A', ValidFrom c.peers rs (used ++ sel) A' ∧
          b = some (newRuleFit c r sel) :: (fitsM c rs A').map some ∧
          o = orphanPeers c ((used ++ sel) ++ A'.flatten))
      (fun b => LexLE.refl _)
      (fun a b d ha hb hd h1 h2 => LexLE.trans (by simp [bkeys_length, ha, hb]) (by simp [bkeys_length, hb, hd]) h1 h2)
      (fun s b b' hb hb' hd hle A' hA' =>
        LexLE.trans (by simp [bkeys_length, hb, ckeys_length c rs _ A' hA'])
          (by simp [bkeys_length, hb, hb']) (hd A' hA') hle)
      (fun sel b o hb =>
        let h := compareBest_spec c r rs used ih sel b o hb
        ⟨h.len, h.mono, h.dom, h.unchanged, h.real⟩)
      (candidates c r used) count [] best orph (by simpa using hb)
    generalize enumPeers (compareBest c r rs.isEmpty used (fun u b o => fitRule c rs u b o))
      (candidates c r used) count [] best orph = res at key
    obtain ⟨k1, k2, k3, k4, k5⟩ := key
    refine ⟨by rw [k1]; simpa using hb.symm, k2, k4, ?_, ?_⟩
    · intro ht
      obtain ⟨a, s1, s2, A', v, e1, e2⟩ := k5 ht
      simp only [List.nil_append] at v e1 e2
      refine ⟨a :: A', ?_, ?_, ?_⟩
      · simp only [ValidFrom]
        refine ⟨List.Pairwise.sublist s1 (candidates_pairwise c r used), ?_, by omega, v⟩
        intro i hi
        have := (mem_candidates c hwf r used i).1 (s1.subset hi)
        exact ⟨this.2.1, this.2.2⟩
      · simp [fitsM, e1]
      · simp [e2, List.append_assoc]
    · intro A hA
      cases A with
      | nil => simp [ValidFrom] at hA
      | cons a A' =>
        simp only [ValidFrom] at hA
        obtain ⟨hp, hm, hl, hv⟩ := hA
        have hsub : a.Sublist (candidates c r used) := by
          apply sublist_of_sorted _ _ (candidates_pairwise c r used) hp
          intro x hx
          have hx' := hm x hx
          refine (mem_candidates c hwf r used x).2 ⟨?_, hx'.1, hx'.2⟩
          have h1 := hx'.1
          unfold elig at h1
          cases hpx : c.peers[x]? with
          | none => simp [hpx] at h1
          | some p =>
            rcases Nat.lt_or_ge x c.peers.length with h | h
            · exact h
            · simp [List.getElem?_eq_none h] at hpx
        have hle : a.length ≤ count := by
          have := hsub.length_le
          omega
        simp only [ckeys, keysOf, List.map_cons]
        rcases Nat.lt_or_ge a.length count with hlt | hge
        · -- fewer peers than the search puts into this rule: worse at this rule
          let a0 := (candidates c r used).take count
          have ha0 : a0.Sublist (candidates c r used) := List.take_sublist _ _
          have ha0l : a0.length = count := by simp [a0, List.length_take]; omega
          have hd := k3 a0 ha0 ha0l (rs.map (fun _ => [])) (validFrom_empty _ _ _)
          simp only [List.nil_append] at hd
          have hres : ∃ h0 t0, bkeys res.best = h0 :: t0 := by
            have : (bkeys res.best).length = rs.length + 1 := by simp [bkeys_length, k1]
            match hbk : bkeys res.best, this with
            | h0 :: t0, _ => exact ⟨h0, t0, rfl⟩
          obtain ⟨h0, t0, hbk⟩ := hres
          rw [hbk] at hd ⊢
          simp only [LexLE] at hd ⊢
          left
          have hn : (keyOf c.peers r a).up.n < (keyOf c.peers r a0).up.n := by
            simp [keyOf, Key.up, ha0l]; exact hlt
          rcases hd with hd | ⟨hd, _⟩
          · unfold Key.lt at hd ⊢; omega
          · unfold Key.eqv at hd; unfold Key.lt; omega
        · have := k3 a hsub (by omega) A' (by simpa using hv)
          simpa [ckeys] using this

end PdModel.Fit
