import PdModel.Model.SyncRegion
set_option linter.unusedSimpArgs false
set_option linter.unusedVariables false
/-! Lemmas about the cached region set (shared by C16 and C17). -/
namespace PdModel.SyncRegion

/-- `x` (already there) and `r` (arriving later) are different regions with disjoint ranges -/
def Compat (x r : Region) : Prop := x.md.id ≠ r.md.id ∧ overlap r.md x.md = false

theorem overlap_comm (a b : Meta) : overlap a b = overlap b a := by
  unfold overlap; exact Bool.and_comm _ _

theorem compat_symm {x y : Region} (h : Compat x y) : Compat y x :=
  ⟨fun e => h.1 e.symm, by rw [overlap_comm]; exact h.2⟩

theorem pairwise_mem {α : Type} {R : α → α → Prop} (hs : ∀ {x y}, R x y → R y x) {l : List α}
    (hp : l.Pairwise R) {x y : α} (hx : x ∈ l) (hy : y ∈ l) (hne : x ≠ y) : R x y := by
  induction l with
  | nil => cases hx
  | cons a l ih =>
    rw [List.pairwise_cons] at hp
    rcases List.mem_cons.1 hx with rfl | hx' <;> rcases List.mem_cons.1 hy with rfl | hy'
    · exact absurd rfl hne
    · exact hp.1 y hy'
    · exact hs (hp.1 x hx')
    · exact ih hp.2 hx' hy'

theorem find_of_pairwise (c : Cache) (hp : c.Pairwise Compat) (r : Region) (hr : r ∈ c) :
    Cache.find c r.md.id = some r := by
  induction c with
  | nil => cases hr
  | cons a c ih =>
    rw [List.pairwise_cons] at hp
    unfold Cache.find
    rcases List.mem_cons.1 hr with rfl | hr'
    · simp
    · have hne : a.md.id ≠ r.md.id := (hp.1 r hr').1
      rw [List.find?_cons_of_neg (by simpa using hne)]
      exact ih hp.2 hr'

theorem overlap_sameRange (o r x : Meta) (h : sameRange o r = true) : overlap r x = overlap o x := by
  unfold sameRange at h
  simp only [Bool.and_eq_true, beq_iff_eq] at h
  unfold overlap; rw [h.1, h.2]

theorem find_some_mem (c : Cache) (id : Nat) (o : Region) (h : Cache.find c id = some o) :
    o ∈ c ∧ o.md.id = id := by
  unfold Cache.find at h
  exact ⟨List.mem_of_find?_eq_some h, by simpa using List.find?_some h⟩

theorem consistent_putRegion (c : Cache) (hp : c.Pairwise Compat) (r : Region) :
    (putRegion c r).Pairwise Compat := by
  unfold putRegion
  rw [List.pairwise_append]
  refine ⟨hp.filter _, by simp, ?_⟩
  intro x hx y hy
  simp only [List.mem_singleton] at hy
  subst hy
  simp only [keepOnPut, List.mem_filter, Bool.and_eq_true, bne_iff_ne, ne_eq, Bool.not_eq_true',
    Bool.and_eq_false_iff] at hx
  obtain ⟨hxc, hid, hov⟩ := hx
  refine ⟨hid, ?_⟩
  rcases hov with hrc | hov
  · -- the range did not change: `y` takes the place of the cached region of the same range
    unfold rangeChanged at hrc
    cases hf : Cache.find c y.md.id with
    | none => simp [hf] at hrc
    | some o =>
      simp only [hf, Bool.not_eq_false'] at hrc
      obtain ⟨hoc, hoid⟩ := find_some_mem c _ o hf
      have hxo : x ≠ o := by intro e; subst e; exact hid hoid
      have := pairwise_mem (fun h => compat_symm h) hp hxc hoc hxo
      rw [overlap_sameRange o.md y.md x.md hrc]
      exact this.2
  · exact hov


end PdModel.SyncRegion
