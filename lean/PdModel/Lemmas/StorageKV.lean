import PdModel.Lemmas.StorageLoad
set_option linter.unusedSimpArgs false
set_option linter.unusedVariables false
/-! Save / Remove / Load on the kv of one namespace, and the region storage's batch. -/
namespace PdModel.StorageLoad
open PdModel.SyncRegion PdModel.PadKey

variable {V : Type}

theorem lt20 (a : Nat) (h : a ≤ maxU64) : a < 10 ^ 20 := by have := maxU64_lt; omega

theorem find_cons (e : Nat × V) (kv : List (Nat × V)) (j : Nat) :
    (e :: kv).find? (fun x => x.1 == j) = if e.1 = j then some e else kv.find? (fun x => x.1 == j) := by
  by_cases h : e.1 = j <;> simp [List.find?_cons, h]

theorem filter_ne_cons (e : Nat × V) (kv : List (Nat × V)) (id : Nat) :
    (e :: kv).filter (fun x => x.1 != id) =
      if e.1 = id then kv.filter (fun x => x.1 != id) else e :: kv.filter (fun x => x.1 != id) := by
  by_cases h : e.1 = id <;> simp [List.filter_cons, h]

/-- `Load` after `Save` (ids are uint64) -/
theorem kvLoad_kvSave (kv : KV V) (hk : ∀ e ∈ kv, e.1 ≤ maxU64) (id : Nat) (hid : id ≤ maxU64) (v : V) (j : Nat) :
    kvLoad (kvSave kv id v) j = if j = id then some v else kvLoad kv j := by
  induction kv with
  | nil =>
    by_cases h : j = id
    · simp [kvSave, kvLoad, h]
    · have : ¬ id = j := fun x => h x.symm
      simp [kvSave, kvLoad, h, this]
  | cons e kv ih =>
    obtain ⟨k, x⟩ := e
    have hk1 : k ≤ maxU64 := hk (k, x) (by simp)
    have ih' := ih (fun e he => hk e (by simp [he]))
    simp only [kvSave]
    rw [keyLtId_eq id k (lt20 _ hid) (lt20 _ hk1), keyLtId_eq k id (lt20 _ hk1) (lt20 _ hid)]
    by_cases h1 : id < k
    · simp only [h1, decide_true, if_true]
      by_cases h : j = id
      · simp [kvLoad, h]
      · have : ¬ id = j := fun x => h x.symm
        simp [kvLoad, h, this]
    · simp only [h1, decide_false, Bool.false_eq_true, if_false]
      by_cases h2 : k < id
      · simp only [h2, decide_true, if_true]
        unfold kvLoad at ih' ⊢
        rw [find_cons, find_cons]
        by_cases hkj : k = j
        · have : ¬ j = id := by omega
          simp [hkj, this]
        · simp only [hkj, if_false]
          exact ih'
      · simp only [h2, decide_false, Bool.false_eq_true, if_false]
        have hkid : k = id := by omega
        subst hkid
        by_cases h : j = k
        · simp [kvLoad, h]
        · have : ¬ k = j := fun x => h x.symm
          simp [kvLoad, h, this]

theorem kvLoad_kvRemove (kv : KV V) (id j : Nat) :
    kvLoad (kvRemove kv id) j = if j = id then none else kvLoad kv j := by
  unfold kvLoad kvRemove
  induction kv with
  | nil => simp
  | cons e kv ih =>
    rw [filter_ne_cons, find_cons]
    by_cases he : e.1 = id
    · simp only [he, if_true]
      rw [ih]
      by_cases h : j = id
      · simp [h]
      · have : ¬ id = j := fun x => h x.symm
        simp [h, this]
    · simp only [he, if_false]
      rw [find_cons]
      by_cases hj : e.1 = j
      · have : ¬ j = id := by omega
        simp [hj, this]
      · simp only [hj, if_false]
        exact ih

theorem kvSave_mem (kv : KV V) (id : Nat) (v : V) : ∀ e ∈ kvSave kv id v, e ∈ kv ∨ e = (id, v) := by
  induction kv with
  | nil => intro e he; simp [kvSave] at he; exact Or.inr he
  | cons x kv ih =>
    intro e he
    simp only [kvSave] at he
    split at he
    · rcases List.mem_cons.1 he with h | h
      · exact Or.inr h
      · exact Or.inl h
    · split at he
      · rcases List.mem_cons.1 he with h | h
        · exact Or.inl (by simp [h])
        · rcases ih e h with h' | h'
          · exact Or.inl (by simp [h'])
          · exact Or.inr h'
      · rcases List.mem_cons.1 he with h | h
        · exact Or.inr h
        · exact Or.inl (by simp [h])

/-- `Save` keeps the key order -/
theorem sorted_kvSave (kv : KV V) (hs : Sorted kv) (hk : ∀ e ∈ kv, e.1 ≤ maxU64) (id : Nat) (hid : id ≤ maxU64)
    (v : V) : Sorted (kvSave kv id v) := by
  induction kv with
  | nil => simp [kvSave, Sorted]
  | cons e kv ih =>
    obtain ⟨k, x⟩ := e
    have hk1 : k ≤ maxU64 := hk (k, x) (by simp)
    rw [Sorted, List.pairwise_cons] at hs
    have ih' := ih hs.2 (fun e he => hk e (by simp [he]))
    simp only [kvSave]
    rw [keyLtId_eq id k (lt20 _ hid) (lt20 _ hk1), keyLtId_eq k id (lt20 _ hk1) (lt20 _ hid)]
    by_cases h1 : id < k
    · simp only [h1, decide_true, if_true]
      rw [Sorted, List.pairwise_cons]
      refine ⟨?_, by rw [List.pairwise_cons]; exact hs⟩
      intro a ha
      rcases List.mem_cons.1 ha with rfl | ha'
      · exact h1
      · have := hs.1 a ha'; simp at this ⊢; omega
    · simp only [h1, decide_false, Bool.false_eq_true, if_false]
      by_cases h2 : k < id
      · simp only [h2, decide_true, if_true]
        rw [Sorted, List.pairwise_cons]
        refine ⟨?_, ih'⟩
        intro a ha
        rcases kvSave_mem kv id v a ha with h | h
        · exact hs.1 a h
        · subst h; exact h2
      · simp only [h2, decide_false, Bool.false_eq_true, if_false]
        have hkid : k = id := by omega
        subst hkid
        rw [Sorted, List.pairwise_cons]
        exact ⟨hs.1, hs.2⟩

theorem sorted_kvRemove (kv : KV V) (hs : Sorted kv) (id : Nat) : Sorted (kvRemove kv id) :=
  sorted_filter kv hs _

/-- in a sorted kv an item is present iff `Load` of its id returns its value -/
theorem mem_iff_kvLoad (kv : KV V) (hs : Sorted kv) (e : Nat × V) : e ∈ kv ↔ kvLoad kv e.1 = some e.2 := by
  induction kv with
  | nil => simp [kvLoad]
  | cons x kv ih =>
    rw [Sorted, List.pairwise_cons] at hs
    unfold kvLoad at ih ⊢
    rw [find_cons]
    by_cases hx : x.1 = e.1
    · simp only [hx, if_true, Option.map_some]
      constructor
      · intro he
        rcases List.mem_cons.1 he with rfl | he'
        · rfl
        · have := hs.1 e he'; omega
      · intro h
        have h2 : x.2 = e.2 := by simpa using h
        have : x = e := Prod.ext hx h2
        simp [this]
    · simp only [hx, if_false]
      constructor
      · intro he
        rcases List.mem_cons.1 he with rfl | he'
        · exact absurd rfl hx
        · exact (ih hs.2).1 he'
      · intro h; exact List.mem_cons_of_mem _ ((ih hs.2).2 h)

/-! ### region storage -/

def batchGet (b : List (Nat × Meta)) (id : Nat) : Option Meta := (b.find? (fun e => e.1 == id)).map (·.2)

/-- what a flush would make visible -/
def viewGet (s : RS) (id : Nat) : Option Meta :=
  match batchGet s.batch id with
  | some m => some m
  | none => kvLoad s.ldb id

/-- the batch is a map: ids pairwise different -/
def BatchOk (b : List (Nat × Meta)) : Prop := b.Pairwise (fun a c => a.1 ≠ c.1)

/-- lookup in `filter (≠ id) b ++ [(id, v)]` -/
theorem find_put {β : Type} (b : List (Nat × β)) (id : Nat) (v : β) (j : Nat) :
    (b.filter (fun e => e.1 != id) ++ [(id, v)]).find? (fun e => e.1 == j) =
      if j = id then some (id, v) else b.find? (fun e => e.1 == j) := by
  rw [List.find?_append]
  have hT : List.find? (fun e : Nat × β => e.1 == j) [(id, v)] = if id = j then some (id, v) else none := by
    by_cases h : id = j <;> simp [List.find?_cons, h]
  generalize List.find? (fun e : Nat × β => e.1 == j) [(id, v)] = T at hT
  subst hT
  induction b with
  | nil =>
    by_cases h : j = id
    · simp [h]
    · have : ¬ id = j := fun x => h x.symm
      simp [h, this]
  | cons e b ih =>
    rw [filter_ne_cons, find_cons]
    by_cases he : e.1 = id
    · simp only [he, if_true]
      rw [ih]
      by_cases h : j = id
      · simp [h]
      · have : ¬ id = j := fun x => h x.symm
        simp [h, this]
    · simp only [he, if_false]
      rw [find_cons]
      by_cases hj : e.1 = j
      · have : ¬ j = id := by omega
        simp [hj, this]
      · simp only [hj, if_false]
        exact ih

theorem batchGet_put (b : List (Nat × Meta)) (id : Nat) (m : Meta) (j : Nat) :
    batchGet (batchPut b id m) j = if j = id then some m else batchGet b j := by
  unfold batchGet batchPut
  rw [find_put]
  by_cases h : j = id <;> simp [h]

theorem batchGet_filter (b : List (Nat × Meta)) (id j : Nat) :
    batchGet (b.filter (fun e => e.1 != id)) j = if j = id then none else batchGet b j := by
  have := kvLoad_kvRemove (V := Meta) b id j
  simpa [kvLoad, kvRemove, batchGet] using this

theorem batchOk_put (b : List (Nat × Meta)) (h : BatchOk b) (id : Nat) (m : Meta) : BatchOk (batchPut b id m) := by
  unfold BatchOk batchPut
  rw [List.pairwise_append]
  refine ⟨h.filter _, by simp, ?_⟩
  intro a ha c hc
  simp at hc; subst hc
  have := (List.mem_filter.1 ha).2
  simpa using this

/-- writing the batch out: later lookups see the batch entry if there is one, else the old content -/
theorem kvLoad_flush (b : List (Nat × Meta)) (hb : BatchOk b) (hbk : ∀ e ∈ b, e.1 ≤ maxU64) :
    ∀ (kv : KV Meta), (∀ e ∈ kv, e.1 ≤ maxU64) → ∀ j : Nat,
      kvLoad (b.foldl (fun kv e => kvSave kv e.1 e.2) kv) j =
        match batchGet b j with
        | some m => some m
        | none => kvLoad kv j := by
  induction b with
  | nil => intro kv _ j; simp [batchGet]
  | cons e b ih =>
    intro kv hkv j
    simp only [List.foldl_cons]
    rw [BatchOk, List.pairwise_cons] at hb
    have hek : e.1 ≤ maxU64 := hbk e (by simp)
    rw [ih hb.2 (fun x hx => hbk x (by simp [hx])) (kvSave kv e.1 e.2)
      (fun x hx => by rcases kvSave_mem kv e.1 e.2 x hx with h | h
                      · exact hkv x h
                      · rw [h]; exact hek)]
    unfold batchGet
    by_cases hj : e.1 = j
    · have hnone : b.find? (fun x => x.1 == j) = none := by
        rw [List.find?_eq_none]
        intro x hx
        have := hb.1 x hx
        simp; omega
      rw [find_cons, hnone, kvLoad_kvSave kv hkv e.1 hek e.2 j]
      rw [if_pos hj, if_pos hj.symm]
      rfl
    · rw [find_cons]
      simp only [hj, if_false]
      cases hf : (b.find? (fun x => x.1 == j)) with
      | some y => simp
      | none =>
        simp only [Option.map_none]
        rw [kvLoad_kvSave kv hkv e.1 hek e.2 j]
        have : ¬ j = e.1 := fun x => hj x.symm
        simp [this]

end PdModel.StorageLoad
