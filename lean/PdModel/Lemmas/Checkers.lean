import PdModel.Model.Checkers
set_option linter.unusedSimpArgs false
set_option linter.unusedVariables false
/-! Helper lemmas for C10: store lookup, the region simulator, the filters, outcome lists. -/
namespace PdModel.Checkers
open PdModel.Spec.C10 PdModel.Filters

/-! ### store lookup -/

theorem findStore_id {stores : List Store} {i : Nat} {s : Store} (h : findStore stores i = some s) :
    s.id = i ∧ s ∈ stores := by
  unfold findStore at h
  have h1 := List.find?_some h
  exact ⟨by simpa using h1, List.mem_of_find?_eq_some h⟩

theorem findStore_of_mem {stores : List Store} (hnd : (stores.map (·.id)).Nodup) {s : Store}
    (hs : s ∈ stores) : findStore stores s.id = some s := by
  induction stores with
  | nil => cases hs
  | cons a t ih =>
    simp only [List.map_cons, List.nodup_cons] at hnd
    unfold findStore
    rcases List.mem_cons.1 hs with rfl | hs'
    · simp [List.find?_cons]
    · have hne : (a.id == s.id) = false := by
        apply beq_eq_false_iff_ne.2
        intro he; exact hnd.1 (he ▸ List.mem_map.2 ⟨s, hs', rfl⟩)
      rw [List.find?_cons, hne]
      exact ih hnd.2 hs'

theorem mem_storesOf {stores : List Store} {ids : List Nat} {c : Store} :
    c ∈ storesOf stores ids ↔ ∃ i ∈ ids, findStore stores i = some c := by
  simp [storesOf, List.mem_filterMap]

/-! ### outcome lists -/

theorem mem_orElse {a b : List Out} {x : Out} (h : x ∈ orElse a b) :
    (x ∈ a ∧ x.isSome) ∨ x ∈ b := by
  unfold orElse at h
  rcases List.mem_flatMap.1 h with ⟨o, ho, hx⟩
  cases o with
  | none => exact Or.inr hx
  | some v => simp at hx; subst hx; exact Or.inl ⟨ho, rfl⟩

theorem forall_orElse {P : Out → Prop} {a b : List Out} (ha : ∀ x ∈ a, P x) (hb : ∀ x ∈ b, P x) :
    ∀ x ∈ orElse a b, P x := by
  intro x hx
  rcases mem_orElse hx with h | h
  · exact ha x h.1
  · exact hb x h

theorem mem_mayFail {x : String × Req} {o : Out} (h : o ∈ mayFail x) : o = some x ∨ o = none := by
  simpa [mayFail] using h

theorem mem_addAccepted {r : Region} {x : String × Req} {o : Out} (h : o ∈ addAccepted r x) :
    o = some x ∨ o = none := by
  unfold addAccepted at h
  split at h
  · simp at h; exact Or.inr h
  · split at h
    · simp at h; exact Or.inr h
    · split at h
      · simp at h; exact Or.inl h
      · simpa using h

/-! ### the region simulator -/

theorem length_filter_ne_ge (l : List Peer) (o : Nat) (hnd : (l.map (·.store)).Nodup) :
    l.length ≤ (l.filter (fun p => p.store != o)).length + 1 := by
  induction l with
  | nil => simp
  | cons a t ih =>
    simp only [List.map_cons, List.nodup_cons] at hnd
    by_cases h : a.store = o
    · -- nothing else sits on o
      have : t.filter (fun p => p.store != o) = t := by
        apply List.filter_eq_self.2
        intro p hp
        have : p.store ≠ o := by
          intro he; exact hnd.1 (List.mem_map.2 ⟨p, hp, by rw [he, h]⟩)
        simpa using this
      simp [List.filter_cons, h, this]
    · have := ih hnd.2
      simp [List.filter_cons, h]; omega

theorem length_filter_ne_lt (l : List Peer) (o : Nat) (h : o ∈ l.map (·.store)) :
    (l.filter (fun p => p.store != o)).length < l.length := by
  obtain ⟨p, hp, rfl⟩ := List.mem_map.1 h
  have := List.length_filter_lt_length_iff_exists (p := fun q : Peer => q.store != p.store) (l := l)
  exact this.2 ⟨p, hp, by simp⟩

/-- health of a peer only looks at its id and the region's down / pending lists -/
def hp (r : Region) (p : Peer) : Bool := p.fresh || (!(r.isDown p.id) && !(r.isPending p.id))

theorem healthy_eq (r : Region) : r.healthy = r.peers.filter (hp r) := rfl

theorem nodup_sublist_stores {l l' : List Peer} (h : l'.Sublist l) (hnd : (l.map (·.store)).Nodup) :
    (l'.map (·.store)).Nodup := (h.map _).nodup hnd

theorem healthy_add (r : Region) (n role : Nat) :
    (applyStep r (.add n role)).healthy = r.healthy ++ [r.newPeer n role] := by
  simp [applyStep, Region.healthy, Region.isDown, Region.isPending, List.filter_append, Region.newPeer]

theorem healthy_remove (r : Region) (o : Nat) :
    (applyStep r (.remove o)).healthy = r.healthy.filter (fun p => p.store != o) := by
  simp only [applyStep, Region.healthy, Region.isDown, Region.isPending, List.filter_filter]
  congr 1; funext a; exact Bool.and_comm _ _

theorem peers_add (r : Region) (n role : Nat) :
    (applyStep r (.add n role)).peers = r.peers ++ [r.newPeer n role] := rfl

theorem peers_remove (r : Region) (o : Nat) :
    (applyStep r (.remove o)).peers = r.peers.filter (fun p => p.store != o) := rfl

/-- add `n`, remove `o` (in either order): the same number of peers, no fewer healthy ones -/
theorem move_counts (r : Region) (o n role : Nat) (hnd : r.stores.Nodup) (ho : o ∈ r.stores) (hn : n ≠ o) :
    (applySteps r [.add n role, .remove o]).peers.length = r.peers.length ∧
    (applySteps r [.remove o, .add n role]).peers.length = r.peers.length ∧
    r.healthy.length ≤ (applySteps r [.add n role, .remove o]).healthy.length ∧
    r.healthy.length ≤ (applySteps r [.remove o, .add n role]).healthy.length := by
  have hlt := length_filter_ne_lt r.peers o ho
  have hge := length_filter_ne_ge r.peers o hnd
  have hsub : r.healthy.Sublist r.peers := List.filter_sublist
  have hge2 := length_filter_ne_ge r.healthy o (nodup_sublist_stores hsub hnd)
  have hno : (n != o) = true := by simpa using hn
  have e1 : applySteps r [.add n role, .remove o] = applyStep (applyStep r (.add n role)) (.remove o) := rfl
  have e2 : applySteps r [.remove o, .add n role] = applyStep (applyStep r (.remove o)) (.add n role) := rfl
  rw [e1, e2, healthy_remove, healthy_add, healthy_add, healthy_remove, peers_remove, peers_add, peers_add,
    peers_remove]
  simp only [List.filter_append, List.filter_cons, List.filter_nil, Region.newPeer, hno, List.length_append,
    List.length_cons, List.length_nil, if_true]
  omega

/-! ### the filters -/

/-- the strict region-target state filter (no temporary state tolerated), read off the extracted table -/
theorem regionTarget_strict (o : Opts) (s : Store)
    (h : ({ moveRegion := true } : SSF).target o s = true) :
    s.state = 0 ∧ s.downSecs < o.conf.maxDownSecs ∧ s.downSecs < o.conf.disconnectSecs ∧ s.busy = false ∧
    s.addAvail = true ∧ s.sendSnap ≤ o.maxSnap ∧ s.recvSnap ≤ o.maxSnap ∧
    (0 < o.maxPending → s.pending ≤ o.maxPending) := by
  simp [SSF.target, anyCond, PdModel.Generated.Checkers.condTable, condHolds] at h
  obtain ⟨h0, h2, h1, h4, h5, h7, h8, h9⟩ := h
  refine ⟨by omega, by omega, by omega, h5, h7, by omega, by omega, ?_⟩
  intro hp; rcases h9 with h9 | h9 <;> omega

/-- conversely: what passes the strict filter -/
theorem regionTarget_strict_of (o : Opts) (s : Store)
    (h0 : s.state = 0) (h1 : s.downSecs < o.conf.maxDownSecs) (h2 : s.downSecs < o.conf.disconnectSecs)
    (h3 : s.busy = false) (h4 : s.addAvail = true) (h5 : s.sendSnap = 0) (h6 : s.recvSnap = 0)
    (h7 : s.pending = 0) (allowTemp : Bool) :
    ({ moveRegion := true, allowTemp := allowTemp } : SSF).target o s = true := by
  simp [SSF.target, anyCond, PdModel.Generated.Checkers.condTable, condHolds, h0, h3, h4, h5, h6, h7]
  omega

structure AddGood (o : Opts) (r : Region) (s : Store) : Prop where
  up        : s.isUp = true
  notDown   : s.notDown o.conf = true
  connected : s.connected o.conf = true
  notBusy   : s.busy = false
  addAvail  : s.addAvail = true
  snaps     : s.sendSnap ≤ o.maxSnap ∧ s.recvSnap ≤ o.maxSnap
  pendingOk : 0 < o.maxPending → s.pending ≤ o.maxPending
  space     : s.lowSpace o.conf = false
  fresh     : r.stores.contains s.id = false
  ordinary  : specialUseTarget [] s = true

theorem mem_selectStoreToAdd {o : Opts} {stores : List Store} {r : Region} {st : Strategy} {co : List Store}
    {extra : Store → Bool} {s : Store} (h : s ∈ selectStoreToAdd o stores r st co extra) :
    s ∈ stores ∧ AddGood o r s ∧
    (st.labels.isEmpty = false → st.level ≠ "" → isolationTarget st.labels st.level co s = true) ∧
    extra s = true ∧ (∀ cs, st.constraints = some cs → matchConstraints cs s = true) := by
  unfold selectStoreToAdd at h
  simp only [List.mem_filter] at h
  obtain ⟨⟨⟨hmem, hf⟩, _⟩, hstrict⟩ := h
  obtain ⟨h0, h1, h2, h3, h4, h5, h6, h7⟩ := regionTarget_strict o s hstrict
  simp only [addFilters, Bool.and_eq_true] at hf
  obtain ⟨⟨⟨⟨⟨⟨hex, hsp⟩, hsu⟩, _⟩, hiso⟩, hextra⟩, hcons⟩ := hf
  refine ⟨hmem, ⟨?_, ?_, ?_, h3, h4, ⟨h5, h6⟩, h7, ?_, ?_, hsu⟩, ?_, hextra, ?_⟩
  · simp [Store.isUp, h0]
  · simp [Store.notDown, h1]
  · simp [Store.connected, h2]
  · simpa [storageTarget] using hsp
  · simpa [excludedTarget] using hex
  · intro hl hv
    simpa [hl, hv] using hiso
  · intro cs hc
    simpa [hc, constraintTarget] using hcons

theorem levelIdx_eq {labels : List String} {level : String} {n : Nat} (h : levelIdx labels level = some n) :
    isolationIdx labels level = n := by
  simp only [levelIdx] at h
  simp only [isolationIdx]
  split at h
  · next hlt => simp only [Option.some.injEq] at h; subst h; simp [hlt]
  · cases h

/-- the model's isolation filter over a larger set of stores implies the spec's demand -/
theorem isolationOK_of_target {labels : List String} {level : String} {co coSpec : List Store} {s : Store}
    (hsub : ∀ c ∈ coSpec, c ∈ co)
    (h : labels.isEmpty = false → level ≠ "" → isolationTarget labels level co s = true) :
    isolationOK labels level coSpec s = true := by
  unfold isolationOK
  by_cases hl : labels.isEmpty = true
  · simp [hl]
  · by_cases hv : level = ""
    · simp [hv]
    · have hl' : labels.isEmpty = false := by simpa using hl
      have ht := h hl' hv
      simp only [hl', Bool.false_or, beq_iff_eq, hv, if_false, Bool.false_eq_true]
      split
      · rfl
      · next n hn =>
        simp only [isolationTarget, levelIdx_eq hn, List.all_eq_true] at ht ⊢
        intro c hc; exact ht c (hsub c hc)

theorem removed_add (t role : Nat) : removedStores [Step.add t role] = [] := rfl

theorem coStores_no_remove (x : Input) (ids : List Nat) (steps : List Step) (h : removedStores steps = []) :
    coStores x ids steps = storesOf x.stores ids := by
  simp only [coStores, h, storesOf, List.contains_nil, Bool.not_false]
  congr 1
  exact List.filter_eq_self.2 (fun _ _ => rfl)

theorem mem_eraseP_of_not {α} {p : α → Bool} {l : List α} {c : α} (hc : c ∈ l) (hp : p c = false) :
    c ∈ l.eraseP p := by
  induction l with
  | nil => cases hc
  | cons a t ih =>
    rcases List.mem_cons.1 hc with rfl | hc'
    · simp [List.eraseP_cons, hp]
    · by_cases ha : p a = true
      · simp [List.eraseP_cons, ha, hc']
      · simp only [List.eraseP_cons, ha]
        exact List.mem_cons_of_mem _ (ih hc')

/-- the stores the spec compares with (those not removed by the operator) are among the model's -/
theorem coStores_sub_dropOld (x : Input) (ids : List Nat) (steps : List Step) (old : Nat)
    (hrm : old ∈ removedStores steps) (hany : (storesOf x.stores ids).any (·.id == old) = true) :
    ∀ c ∈ coStores x ids steps, c ∈ dropOld (storesOf x.stores ids) old := by
  intro c hc
  simp only [coStores, List.mem_filterMap, List.mem_filter] at hc
  obtain ⟨i, ⟨hi, hne⟩, hf⟩ := hc
  have hcid := (findStore_id hf).1
  have hio : i ≠ old := by
    intro he; subst he; simp [hrm] at hne
  unfold dropOld
  rw [if_pos hany]
  apply mem_eraseP_of_not
  · exact mem_storesOf.2 ⟨i, hi, hf⟩
  · simp [hcid, hio]

end PdModel.Checkers
