/-
C13 – "Placement rule updates are all-or-nothing and the key-range index is exact", stated over what a
client of the rule manager can observe: the served rules and groups (GetAllRules / GetRuleGroups), the
answers of GetRulesByKey / GetRulesForApplyRegion / GetSplitKeys, the result of each update (accepted,
rejected, storage error) and what a second manager started on the same storage serves.

Group ids, rule ids and keys are ranks in sorted universes of names (0 = the empty string; an end key 0
is unbounded).  Core Lean only; no implementation identifiers.
-/
namespace PdModel.Spec.C13

inductive Role where
  | voter | leader | follower | learner | invalid
  deriving Repr, DecidableEq, Inhabited

structure Rule where
  group    : Nat
  id       : Nat
  index    : Int
  override : Bool
  start    : Nat
  end_     : Nat          -- 0 = unbounded
  role     : Role
  count    : Int
  lbl      : Nat          -- label constraints / location labels / isolation level (opaque payload)
  deriving Repr, DecidableEq, Inhabited

structure Group where
  id       : Nat
  index    : Int
  override : Bool
  deriving Repr, DecidableEq, Inhabited


abbrev K := Nat × Nat

/-- (group id, rule id): the unique key of a rule -/
def Rule.key (r : Rule) : K := (r.group, r.id)

/-- a group configuration that need not be stored -/
def Group.isDefault (g : Group) : Bool := g.index == 0 && !g.override

/-- what is being served -/
structure Served where
  rules  : List Rule
  groups : List Group
  deriving Repr, DecidableEq

/-- configuration of a group; a group that was never configured has index 0 and no override -/
def groupOf (gs : List Group) (id : Nat) : Group :=
  (gs.find? (fun g => g.id == id)).getD ⟨id, 0, false⟩

/-- the documented apply order: (group index, group id, rule index, rule id) -/
def before (gs : List Group) (a b : Rule) : Bool :=
  let ga := (groupOf gs a.group).index
  let gb := (groupOf gs b.group).index
  decide (ga < gb) || (ga == gb && (decide (a.group < b.group) || (a.group == b.group &&
    (decide (a.index < b.index) || (a.index == b.index && decide (a.id < b.id))))))

/-- the key lies in the rule's range [start, end) -/
def covers (r : Rule) (k : Nat) : Bool := decide (r.start ≤ k) && (r.end_ == 0 || decide (k < r.end_))

def insertBy (lt : Rule → Rule → Bool) (r : Rule) : List Rule → List Rule
  | [] => [r]
  | x :: xs => if lt r x then r :: x :: xs else x :: insertBy lt r xs

def sortBy (lt : Rule → Rule → Bool) (l : List Rule) : List Rule := l.foldr (insertBy lt) []

/-- **the rules of a key**: the configured rules whose range contains it, in the documented order -/
def rulesAt (sv : Served) (k : Nat) : List Rule :=
  sortBy (before sv.groups) (sv.rules.filter (fun r => covers r k))

/-- `later` disables `r`: a later rule of the same group with the override flag, or a later rule of another
    group whose group has the override flag -/
def overrides (gs : List Group) (later r : Rule) : Bool :=
  before gs r later &&
    ((later.group == r.group && later.override) || (later.group != r.group && (groupOf gs later.group).override))

/-- **rule and group override**: what remains of an ordered rule list -/
def applyOf (gs : List Group) (l : List Rule) : List Rule :=
  l.filter (fun r => !l.any (fun later => overrides gs later r))

/-- the segment boundaries: every start key and every bounded end key -/
def boundaries (sv : Served) : List Nat :=
  sv.rules.map (·.start) ++ (sv.rules.filter (fun r => r.end_ != 0)).map (·.end_)

/-- a boundary strictly inside the range (start, end) (end 0 = unbounded) -/
def inside (s e : Nat) (b : Nat) : Bool := decide (s < b) && (e == 0 || decide (b < e))

/-- **rules for a region**: those of its segment after override if it lies inside one segment, none otherwise -/
def applyFor (sv : Served) (s e : Nat) : Option (List Rule) :=
  if (boundaries sv).any (inside s e) then none
  else if !(boundaries sv).any (fun b => decide (b ≤ s)) then none     -- before the first segment
  else some (applyOf sv.groups (rulesAt sv s))

def insertNat (n : Nat) : List Nat → List Nat
  | [] => [n]
  | x :: xs => if n < x then n :: x :: xs else if n = x then x :: xs else x :: insertNat n xs

/-- **split keys** of a range: the segment boundaries strictly inside it, ascending -/
def splitKeys (sv : Served) (s e : Nat) : List Nat :=
  ((boundaries sv).filter (inside s e)).foldr insertNat []

/-- a rule set is valid for a key: at least one leader or voter replica, at most one leader -/
def validApply (l : List Rule) : Bool :=
  let leaders := (l.filter (fun r => r.role == .leader)).foldl (fun n r => n + r.count) (0 : Int)
  let voters := (l.filter (fun r => r.role == .voter)).foldl (fun n r => n + r.count) (0 : Int)
  decide (leaders ≤ 1) && decide (leaders + voters ≥ 1)

/-- **every key has a valid rule set** -/
def keyOK (sv : Served) (k : Nat) : Bool := validApply (applyOf sv.groups (rulesAt sv k))

end PdModel.Spec.C13
