import PdModel.Model.Steps
import PdModel.Model.OpCtl
/-!
C09 – operator lifecycle, stated over what can be observed of a controller: after every event the
running set (region ↦ operator, current step), the status of every operator, the remembered end
statuses, and the commands that were sent; plus the inputs of the events (operators as created,
regions as put / heart-beaten).

`EventOk` is the per-event obligation; a history satisfies C09 when every event does.
-/
namespace PdModel.Spec.C09
open PdModel.Steps
open PdModel.OpCtl (Status)

/-- an operator as it was created -/
structure OpInfo where
  id      : Nat
  region  : Nat
  confVer : Nat
  version : Nat
  level   : Nat
  steps   : List Step
  deriving Repr, Inhabited

/-- a region as reported by its store / as cached by PD -/
structure RegionSeen where
  id      : Nat
  region  : Region
  confVer : Nat
  version : Nat
  pending : List Nat := []
  range   : Nat := 0
  deriving Repr, Inhabited

structure SeenMsg where
  region  : Nat
  confVer : Nat
  version : Nat
  target  : Nat
  deriving Repr, DecidableEq, Inhabited

/-- what is observed after one event -/
structure Seen where
  result  : String := ""
  msgs    : List SeenMsg := []
  running : List (Nat × Nat × Nat) := []          -- region, operator, current step
  status  : List (Nat × Status) := []
  records : List (Nat × Nat × Status) := []        -- region, operator, status
  deriving Repr, Inhabited

inductive EventKind where
  | heartbeat (region : Nat)
  | remove (op : Nat)
  | push
  | admission        -- AddOperator / AddWaitingOperator / PromoteWaitingOperator
  deriving Repr, DecidableEq, Inhabited

/-- the status moves the property allows -/
def allowed : Status → Status → Bool
  | .created, .started | .created, .canceled | .created, .expired => true
  | .started, .success | .started, .canceled | .started, .replaced | .started, .timeout => true
  | _, _ => false

/-- one event may contain several moves (created → started → success) -/
def reach (a b : Status) : Bool :=
  a == b || allowed a b || Status.all.any (fun m => allowed a m && allowed m b)

structure Mon where
  ops      : List OpInfo := []
  sims     : List RegionSeen := []      -- the regions as their stores last reported them
  views    : List RegionSeen := []      -- the regions as last put into PD's cache
  prev     : Seen := {}
  foreign  : List Nat := []             -- regions changed by something else than the running operator's commands
  msgOwner : List (Nat × Nat) := []     -- region ↦ operator that was running when the last command was sent
  deriving Repr, Inhabited

def Mon.op (m : Mon) (id : Nat) : Option OpInfo := m.ops.find? (fun o => o.id == id)
def Mon.viewOf (m : Mon) (r : Nat) : Option RegionSeen := m.views.find? (fun v => v.id == r)
def Mon.simOf (m : Mon) (r : Nat) : Option RegionSeen := m.sims.find? (fun v => v.id == r)

def setRegion (l : List RegionSeen) (x : RegionSeen) : List RegionSeen :=
  if l.any (fun y => y.id == x.id) then l.map (fun y => if y.id == x.id then x else y) else l ++ [x]

def noteOp (m : Mon) (o : OpInfo) : Mon := { m with ops := m.ops ++ [o] }

/-- `region` event: the store-side region is (re)defined and put into PD's cache -/
def noteRegionPut (m : Mon) (x : RegionSeen) : Mon :=
  { m with sims := setRegion m.sims x, views := setRegion m.views x,
           foreign := if m.foreign.contains x.id then m.foreign else x.id :: m.foreign }

def noteRegionGone (m : Mon) (r : Nat) : Mon :=
  { m with sims := m.sims.filter (fun v => v.id != r), views := m.views.filter (fun v => v.id != r) }

def runningOn (s : Seen) (r : Nat) : Option (Nat × Nat) :=
  (s.running.find? (fun x => x.1 == r)).map (·.2)

def statusOf (s : Seen) (id : Nat) : Option Status := (s.status.find? (fun x => x.1 == id)).map (·.2)

/-- a store event: `own` = it executed the last command it had received -/
def noteSim (m : Mon) (x : RegionSeen) (isExec : Bool) (harmless : Bool) : Mon :=
  let changed := match m.simOf x.id with
    | some old => old.region != x.region || old.confVer != x.confVer || old.version != x.version
    | none => true
  let ownerRuns := match (m.msgOwner.find? (fun y => y.1 == x.id)), runningOn m.prev x.id with
    | some (_, owner), some (cur, _) => owner == cur
    | _, _ => false
  let isForeign := !harmless && changed && !(isExec && ownerRuns)
  { m with sims := setRegion m.sims x,
           foreign := if isForeign && !m.foreign.contains x.id then x.id :: m.foreign else m.foreign }

/-! ### the per-event obligations (each returns the offending items) -/

/-- at most one operator per region, and it is an operator of that region -/
def badRunning (m : Mon) (s : Seen) : List Nat :=
  s.running.filterMap (fun x =>
    let (r, id, _) := x
    if (s.running.filter (fun y => y.1 == r)).length != 1 then some r
    else match m.op id with
      | some o => if o.region != r then some r else none
      | none => some r)

/-- statuses only move along the allowed transitions -/
def badMoves (m : Mon) (s : Seen) : List Nat :=
  s.status.filterMap (fun x =>
    let before := (statusOf m.prev x.1).getD .created
    if reach before x.2 then none else some x.1)

/-- operators that entered the running set: epoch equal to the cached region's -/
def badAdmissions (m : Mon) (s : Seen) : List Nat :=
  s.running.filterMap (fun x =>
    let (r, id, _) := x
    if (runningOn m.prev r).map (·.1) == some id then none
    else match m.op id, m.viewOf r with
      | some o, some v => if o.confVer == v.confVer && o.version == v.version then none else some id
      | _, _ => some id)

/-- an operator that was replaced in this event was replaced by one of higher priority: some operator of
    the same region with a higher level left the CREATED status in this event (it may already have
    finished again) -/
def badReplacements (m : Mon) (s : Seen) : List Nat :=
  m.prev.running.filterMap (fun x =>
    let (r, old, _) := x
    if statusOf s old == some .replaced && statusOf m.prev old != some .replaced then
      match m.op old with
      | some a =>
        if m.ops.any (fun b => b.id != old && b.region == r && decide (b.level > a.level) &&
             (statusOf m.prev b.id).getD .created == .created &&
             (statusOf s b.id).getD .created != .created)
        then none else some old
      | none => some old
    else none)

/-- operators that left the running set are in an end status -/
def badLeaves (m : Mon) (s : Seen) : List Nat :=
  m.prev.running.filterMap (fun x =>
    let (r, old, _) := x
    if (runningOn s r).map (·.1) == some old then none
    else match statusOf s old with
      | some st => if st.isEnd then none else some old
      | none => some old)

/-- ... and are remembered: the record of its region (kept whether or not another operator runs there now)
    names an operator that ended (this one, or one that ended in this same event) -/
def badRecords (m : Mon) (s : Seen) : List Nat :=
  m.prev.running.filterMap (fun x =>
    let (r, old, _) := x
    if (runningOn s r).map (·.1) == some old then none
    else match s.records.find? (fun y => y.1 == r) with
      | some (_, id, st) =>
        if st.isEnd && statusOf s id == some st &&
           (id == old || statusOf m.prev id != some st) then none else some old
      | none => some old)

/-- every record names an operator in an end status whose observed status is the recorded one
    (`records_always_name_ended_operators` of the model, asked of the implementation's observation) -/
def liveRecords (s : Seen) : List Nat :=
  s.records.filterMap (fun y =>
    let (_, id, st) := y
    if st.isEnd && (match statusOf s id with | some st' => st' == st | none => true) then none else some id)

/-- every command is addressed to the cached region's leader and carries its epoch -/
def badMsgs (m : Mon) (s : Seen) : List SeenMsg :=
  s.msgs.filter (fun x =>
    match m.viewOf x.region with
    | some v => !(x.target == v.region.leader && x.confVer == v.confVer && x.version == v.version)
    | none => true)

/-- the conf-version accounting of an operator at step `cur` on a region -/
def accounted (o : OpInfo) (cur : Nat) (r : Region) : Nat :=
  let current := if cur == o.steps.length then cur - 1 else cur
  ((o.steps.take (current + 1)).map (confVerChanged r)).sum

/-- after a heartbeat of region `r`: an operator that was running there before and still is, is not
    stale (one that was only admitted during this event is judged at the next heartbeat) -/
def staleButRunning (m : Mon) (s : Seen) (r : Nat) : List Nat :=
  match runningOn s r, m.viewOf r with
  | some (id, cur), some v =>
    if (runningOn m.prev r).map (·.1) != some id then [] else
    (match m.op id, statusOf s id with
     | some o, some .started =>
       (match o.steps[cur]? with
        | some step =>
          if !checkSafety v.region step then [id]
          else if v.confVer < o.confVer || v.confVer - o.confVer > accounted o cur v.region then [id]
          else []
        | none => [])
     | _, _ => [])
  | _, _ => []

/-- after a heartbeat of region `r` that was only changed by the running operator's own commands:
    the operator is not cancelled while its current step's precondition holds -/
def cancelledThoughOwn (m : Mon) (s : Seen) (r : Nat) : List Nat :=
  match runningOn m.prev r, m.viewOf r with
  | some (id, _), some v =>
    if m.foreign.contains r then []
    else if statusOf m.prev id == some .started && statusOf s id == some .canceled then
      match m.op id with
      | some o =>
        -- the step it was at, as far as the region shows (skip finished steps)
        let cur := PdModel.OpCtl.advance ⟨r, v.region, v.confVer, v.version, v.pending, v.range⟩ v.range
          (o.steps.drop ((runningOn m.prev r).map (·.2) |>.getD 0)) ((runningOn m.prev r).map (·.2) |>.getD 0)
        (match o.steps[cur]? with
         | some step => if checkSafety v.region step then [id] else []
         | none => [])
      | none => []
    else []
  | _, _ => []

/-- the stores a step changes the peer of, and whether it brings the peer up (add / promote) or down
    (demote / remove) -/
def stepTouches : Step → List (Nat × Bool)
  | .addPeer s _ | .addLightPeer s _ | .addLearner s _ | .addLightLearner s _ | .promoteLearner s _ => [(s, true)]
  | .demoteFollower s _ | .removePeer s _ => [(s, false)]
  | .enter ps ds => ps.map (fun it => (it.store, true)) ++ ds.map (fun it => (it.store, false))
  | _ => []

def isRemove : Step → Bool
  | .removePeer .. => true
  | _ => false

/-- a later step of the operator takes back what an earlier one did on the same store (add or promote,
    then demote or remove; demote, then promote or remove).  No operator built by pd has this shape. -/
def undoesOwnStep : List Step → Bool
  | [] => false
  | s :: rest =>
    (stepTouches s).any (fun x =>
      rest.any (fun t => (stepTouches t).any (fun y =>
        y.1 == x.1 &&
        (if x.2 then !y.2                       -- brought up, later taken down
         else match s with
           | .demoteFollower .. => y.2 || isRemove t   -- demoted, later promoted again or removed
           | .enter .. => y.2                          -- demoted in a joint change, later promoted again
           | _ => false)))) ||
    -- removed, later added again with the very same peer id (pd allocates a fresh id for every new peer)
    (match s with
     | .removePeer st id => rest.any (fun t => match t with
        | .addPeer st' id' | .addLightPeer st' id' | .addLearner st' id' | .addLightLearner st' id' => st' == st && id' == id
        | _ => false)
     | _ => false) || undoesOwnStep rest

structure EventOk (m : Mon) (ev : EventKind) (s : Seen) : Prop where
  onePerRegion  : badRunning m s = []
  validMoves    : badMoves m s = []
  equalEpoch    : badAdmissions m s = []
  higherReplace : badReplacements m s = []
  endOnLeave    : badLeaves m s = []
  recorded      : badRecords m s = []
  recordsEnded  : liveRecords s = []
  addressed     : badMsgs m s = []
  staleGone     : ∀ r, ev = .heartbeat r → staleButRunning m s r = []
  ownNotStale   : ∀ r, ev = .heartbeat r → cancelledThoughOwn m s r = []

/-- PD's cache after the event (a heartbeat caches the store's region first) -/
def cacheFor (m : Mon) (ev : EventKind) : Mon :=
  match ev with
  | .heartbeat r =>
    (match m.simOf r with
     | some x => { m with views := setRegion m.views x }
     | none => m)
  | _ => m

def hbComplaints (m : Mon) (ev : EventKind) (s : Seen) : List String :=
  match ev with
  | .heartbeat r =>
    (staleButRunning m s r).map (fun id => s!"sig=C09.stale-operator-still-running op={id} region={r}") ++
    (cancelledThoughOwn m s r).map (fun id =>
      let cls := match m.op id with
        | some o => if undoesOwnStep o.steps then "-undone-step" else ""
        | none => ""
      s!"sig=C09.own-steps-judged-stale{cls} op={id} region={r} steps={match m.op id with | some o => stepsText o.steps | none => "?"}")
  | _ => []

def complaints (m : Mon) (ev : EventKind) (s : Seen) : List String :=
  (badRunning m s).map (fun r => s!"sig=C09.two-operators-on-one-region region={r}") ++
  ((badMoves m s).map (fun id => s!"sig=C09.invalid-status-transition op={id} from={((statusOf m.prev id).getD .created).name} to={((statusOf s id).getD .created).name}") ++
  ((badAdmissions m s).map (fun id => s!"sig=C09.admitted-with-other-epoch op={id}") ++
  ((badReplacements m s).map (fun id => s!"sig=C09.replaced-by-not-higher-priority op={id}") ++
  ((badLeaves m s).map (fun id => s!"sig=C09.left-running-set-without-end-status op={id}") ++
  ((badRecords m s).map (fun id => s!"sig=C09.left-running-set-not-recorded op={id}") ++
  ((liveRecords s).map (fun id => s!"sig=C09.record-names-operator-not-ended op={id}") ++
  ((badMsgs m s).map (fun x => s!"sig=C09.command-not-for-current-leader-and-epoch region={x.region} target={x.target} epoch={x.confVer}.{x.version}") ++
  hbComplaints m ev s)))))))

theorem hbComplaints_nil_iff (m : Mon) (ev : EventKind) (s : Seen) :
    hbComplaints m ev s = [] ↔
      (∀ r, ev = .heartbeat r → staleButRunning m s r = []) ∧
      (∀ r, ev = .heartbeat r → cancelledThoughOwn m s r = []) := by
  cases ev with
  | heartbeat r =>
    simp only [hbComplaints, List.append_eq_nil_iff, List.map_eq_nil_iff]
    constructor
    · rintro ⟨h1, h2⟩
      exact ⟨fun r' e => by cases e; exact h1, fun r' e => by cases e; exact h2⟩
    · rintro ⟨h1, h2⟩
      exact ⟨h1 r rfl, h2 r rfl⟩
  | remove id => simp [hbComplaints]
  | push => simp [hbComplaints]
  | admission => simp [hbComplaints]

theorem complaints_nil_iff (m : Mon) (ev : EventKind) (s : Seen) :
    complaints m ev s = [] ↔ EventOk m ev s := by
  unfold complaints
  simp only [List.append_eq_nil_iff, List.map_eq_nil_iff, hbComplaints_nil_iff]
  constructor
  · rintro ⟨h1, h2, h3, h4, h5, h6, h6b, h7, h8, h9⟩
    exact ⟨h1, h2, h3, h4, h5, h6, h6b, h7, h8, h9⟩
  · intro h
    exact ⟨h.onePerRegion, h.validMoves, h.equalEpoch, h.higherReplace, h.endOnLeave, h.recorded,
      h.recordsEnded, h.addressed, h.staleGone, h.ownNotStale⟩

/-! ### competing end transitions (concurrent stream) -/

/-- what is observed of a race of end transitions on one started operator: how many participants
    reported success, the operator's status afterwards, the statuses the winners remembered -/
structure RaceSeen where
  wins   : Nat
  final  : Status
  rememb : List Status
  deriving Repr

/-- exactly one transition wins, the operator has ended, and what was remembered is its final status -/
structure RaceOk (r : RaceSeen) : Prop where
  oneWinner : r.wins = 1
  ended     : r.final.isEnd = true
  remembered : ∀ s ∈ r.rememb, s = r.final

def raceComplaints (r : RaceSeen) : List String :=
  (if r.wins != 1 then [s!"sig=C09.racing-end-transitions-winners-not-one wins={r.wins} final={r.final.name}"] else []) ++
  ((if !r.final.isEnd then [s!"sig=C09.raced-operator-not-ended final={r.final.name}"] else []) ++
   (if !(r.rememb.all (fun s => s == r.final)) then
      [s!"sig=C09.remembered-status-differs-from-final final={r.final.name} remembered={r.rememb.map Status.name}"] else []))

theorem raceComplaints_nil_iff (r : RaceSeen) : raceComplaints r = [] ↔ RaceOk r := by
  unfold raceComplaints
  simp only [List.append_eq_nil_iff]
  constructor
  · rintro ⟨h1, h2, h3⟩
    refine ⟨?_, ?_, ?_⟩
    · by_cases e : r.wins = 1
      · exact e
      · simp [e] at h1
    · cases hf : r.final.isEnd
      · simp [hf] at h2
      · rfl
    · intro s hs
      cases ha : r.rememb.all (fun s => s == r.final)
      · simp [ha] at h3
      · exact (by simpa using List.all_eq_true.1 ha s hs)
  · intro h
    have ha : r.rememb.all (fun s => s == r.final) = true := by
      simp only [List.all_eq_true, beq_iff_eq]; exact h.remembered
    simp [h.oneWinner, h.ended, ha]

/-- the monitor: judge one event and remember what was seen -/
def checkEvent (m : Mon) (ev : EventKind) (s : Seen) : Mon × List String :=
  let m1 := cacheFor m ev
  let fails := complaints m1 ev s
  -- bookkeeping: a region whose running operator changed starts a new "own steps only" period
  let fresh := s.running.filterMap (fun x =>
    if (runningOn m1.prev x.1).map (·.1) == some x.2.1 then none else some x.1)
  let owner := s.msgs.foldl (fun l x =>
    match runningOn s x.region with
    | some (id, _) => (x.region, id) :: l.filter (fun y => y.1 != x.region)
    | none => l.filter (fun y => y.1 != x.region)) m1.msgOwner
  -- ... provided PD's cache is what the store has at that moment (otherwise there are changes the new
  -- operator does not know of: they count as foreign)
  let synced (r : Nat) : Bool := match m1.viewOf r, m1.simOf r with
    | some v, some x => v.region == x.region && v.confVer == x.confVer && v.version == x.version
    | _, _ => false
  let foreign := (m1.foreign.filter (fun r => !fresh.contains r)) ++ fresh.filter (fun r => !synced r)
  ({ m1 with prev := s, foreign := foreign, msgOwner := owner }, fails)

theorem checkEvent_ok_iff (m : Mon) (ev : EventKind) (s : Seen) :
    (checkEvent m ev s).2 = [] ↔ EventOk (cacheFor m ev) ev s := by
  simp only [checkEvent]
  exact complaints_nil_iff _ _ _

end PdModel.Spec.C09
