/-
C17 – "Persisted stores and regions are loaded back completely and pruned consistently", stated over
what a client of the storage observes: the saves, deletes, flushes/closes and stops it performed, and
what a full load hands to its callback.  No implementation identifiers.
-/
namespace PdModel.Spec.C17

variable {V : Type}

/-! ### what has been saved and not deleted: a map id ↦ value, kept in ascending id order -/

def mput : List (Nat × V) → Nat → V → List (Nat × V)
  | [], id, v => [(id, v)]
  | (k, x) :: rest, id, v =>
    if id < k then (id, v) :: (k, x) :: rest
    else if id = k then (id, v) :: rest
    else (k, x) :: mput rest id v

def merase (m : List (Nat × V)) (id : Nat) : List (Nat × V) := m.filter (fun e => e.1 != id)

def mget (m : List (Nat × V)) (id : Nat) : Option V := (m.find? (fun e => e.1 == id)).map (·.2)

/-- the client's knowledge -/
structure Track (V : Type) where
  /-- saved and not deleted, latest value per id -/
  cur     : List (Nat × V) := []
  /-- the same as of the last flush/close that returned (later deletes applied) -/
  dur     : List (Nat × V) := []
  /-- values saved since that flush and not deleted since -/
  pend    : List (Nat × V) := []
  /-- a save happened since the last flush/close (region backend: loads need not see it yet) -/
  dirty   : Bool := false
  /-- the process was stopped and no load has been observed since -/
  crashed : Bool := false

def Track.save (t : Track V) (id : Nat) (v : V) : Track V :=
  { t with cur := mput t.cur id v, pend := t.pend ++ [(id, v)], dirty := true }

def Track.delete (t : Track V) (id : Nat) : Track V :=
  { t with cur := merase t.cur id, dur := merase t.dur id, pend := t.pend.filter (fun e => e.1 != id) }

def Track.flush (t : Track V) : Track V :=
  if t.crashed then t else { t with dur := t.cur, pend := [], dirty := false }

def Track.crash (t : Track V) : Track V := { t with crashed := true }

/-- after a stop the next full load fixes what survived -/
def Track.settle (_t : Track V) (loaded : List (Nat × V)) : Track V :=
  { cur := loaded, dur := loaded, pend := [], dirty := false, crashed := false }

/-! ### the property for one full load -/

/-- every item saved and not deleted is returned exactly once (ascending ids, no duplicates, nothing
    else), with the value saved last -/
def LoadExact (expected loaded : List (Nat × V)) : Prop := loaded = expected

def checkLoad [DecidableEq V] (expected loaded : List (Nat × V)) : Bool := decide (loaded = expected)

theorem checkLoad_iff [DecidableEq V] (expected loaded : List (Nat × V)) :
    checkLoad expected loaded = true ↔ LoadExact expected loaded := by
  simp [checkLoad, LoadExact]

/-- the same on the digest the harness reports for large loads: ids in order and a checksum of the
    values (`h` = per-item checksum) -/
def checkDigest (h : Nat × V → Nat) (expected : List (Nat × V)) (ids : List Nat) (sum : Nat) : Bool :=
  decide (ids = expected.map (·.1)) && decide (sum = (expected.foldl (fun a e => a + h e) 0) % 2 ^ 64)

theorem checkDigest_of_exact (h : Nat × V → Nat) (expected loaded : List (Nat × V))
    (hl : LoadExact expected loaded) :
    checkDigest h expected (loaded.map (·.1)) ((loaded.foldl (fun a e => a + h e) 0) % 2 ^ 64) = true := by
  unfold LoadExact at hl; subst hl; simp [checkDigest]

def missing (expected : List (Nat × V)) (ids : List Nat) : List Nat :=
  (expected.map (·.1)).filter (fun i => !ids.contains i)

def extra (expected : List (Nat × V)) (ids : List Nat) : List Nat :=
  ids.filter (fun i => !(expected.map (·.1)).contains i)

/-! ### a load after a stop of the process (region backend) -/

/-- everything that was durable at the stop is there (with the durable value or one saved later), and
    everything else that is there was saved after the last flush and not deleted -/
def AfterStopOk [DecidableEq V] (t : Track V) (loaded : List (Nat × V)) : Prop :=
  (∀ e ∈ t.dur, ∃ x ∈ loaded, x.1 = e.1) ∧
  (∀ x ∈ loaded, x ∈ t.dur ∨ x ∈ t.pend) ∧
  (loaded.map (·.1)).Pairwise (· < ·)

def checkAfterStop [DecidableEq V] (t : Track V) (loaded : List (Nat × V)) : Bool :=
  t.dur.all (fun e => loaded.any (fun x => x.1 == e.1)) &&
  loaded.all (fun x => t.dur.contains x || t.pend.contains x) &&
  decide ((loaded.map (·.1)).Pairwise (· < ·))

theorem checkAfterStop_iff [DecidableEq V] (t : Track V) (loaded : List (Nat × V)) :
    checkAfterStop t loaded = true ↔ AfterStopOk t loaded := by
  unfold checkAfterStop AfterStopOk
  simp only [Bool.and_eq_true, List.all_eq_true, List.any_eq_true, beq_iff_eq, Bool.or_eq_true,
    List.contains_iff_mem, decide_eq_true_eq]
  constructor
  · rintro ⟨⟨h1, h2⟩, h3⟩; exact ⟨h1, h2, h3⟩
  · rintro ⟨h1, h2, h3⟩; exact ⟨⟨h1, h2⟩, h3⟩

/-! ### pruning -/

/-- key ranges (start, end) with 0 = unbounded: do they intersect? -/
def rangesOverlap (a b : Nat × Nat) : Bool :=
  (b.2 == 0 || a.1 < b.2) && (a.2 == 0 || b.1 < a.2)

/-- after loading into the cache, storage and cache describe the same set and that set is
    non-overlapping (`rng` gives the key range of a value) -/
def PruneOk (rng : V → Nat × Nat) (cache storage : List (Nat × V)) : Prop :=
  cache = storage ∧ cache.Pairwise (fun a b => rangesOverlap (rng a.2) (rng b.2) = false)

def checkPrune [DecidableEq V] (rng : V → Nat × Nat) (cache storage : List (Nat × V)) : Bool :=
  decide (cache = storage) && decide (cache.Pairwise (fun a b => rangesOverlap (rng a.2) (rng b.2) = false))

theorem checkPrune_iff [DecidableEq V] (rng : V → Nat × Nat) (cache storage : List (Nat × V)) :
    checkPrune rng cache storage = true ↔ PruneOk rng cache storage := by
  simp [checkPrune, PruneOk]

end PdModel.Spec.C17
