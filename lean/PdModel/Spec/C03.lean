/-
C03 – "Only the current leaseholder serves or persists leader-only state", stated over what can be
observed from outside: the leader records in the store, the set of live leases, what each contender
reports about itself, and the outcome of campaigns, guarded writes and service requests.
No implementation identifiers.  Executable checkers with `…_iff` theorems; the driver uses the
checkers as the monitor on the implementation's own reports.
-/
namespace PdModel.Spec.C03

/-- a leader record: the value stored under a leadership's key and the lease it is attached to -/
structure Rec where
  val   : Nat
  lease : Nat
  deriving DecidableEq, Repr

/-- what one contender reports about itself at one instant -/
structure View where
  key       : Nat        -- the leadership it contends for
  member    : Nat        -- its identity (the value it campaigns with)
  value     : Nat        -- the value its guarded writes compare the record with (0 before its first campaign)
  lease     : Nat        -- id of the lease it believes to own (0 = none)
  check     : Bool       -- "my leadership is still available" (local lease view not expired)
  cacheSelf : Bool       -- it has announced itself as leader to its RPC layer
  tsoInit   : Bool       -- its timestamp memory is initialised
  won       : Bool       -- its last campaign succeeded and it has not resigned since
  clock     : Nat        -- its last local clock reading
  deriving DecidableEq, Repr

def View.servesRpc (v : View) : Bool := v.check && v.cacheSelf
def View.servesTso (v : View) : Bool := v.check && v.tsoInit
def View.serves (v : View) : Bool := v.servesRpc || v.servesTso

/-- the world at one instant -/
structure Snap where
  recs  : List (Nat × Rec)      -- leadership ↦ record (absent leaderships are not listed)
  live  : List Nat              -- ids of the live leases
  views : List View
  deriving Repr

def Snap.recOf (s : Snap) (l : Nat) : Option Rec := (s.recs.find? (·.1 = l)).map (·.2)

/-- contender `v` is the holder of its leadership: the record carries its value and its lease -/
def Snap.holder (s : Snap) (v : View) : Bool :=
  v.lease != 0 && s.recOf v.key == some ⟨v.member, v.lease⟩

/-! ### (a) campaigns -/

/-- one completed campaign -/
structure Campaign where
  ok           : Bool            -- the campaign reported success
  faulted      : Bool            -- the store reported an error for the campaign's transaction (injected)
  revokeFailed : Bool            -- the revocation of the campaign's lease after a failure did not get through
  before       : Option Rec      -- the leadership's record before / after
  after        : Option Rec
  extraHeld    : Bool            -- the caller's extra comparisons held before
  leaseLive    : Bool            -- the campaign's lease was live when the transaction ran
  value        : Nat
  lease        : Nat
  deriving Repr

/-- a campaign succeeds iff the record is absent and the extra comparisons hold; then the record carries
    the caller's value and lease; an unsuccessful one leaves the record as it was (unless somebody else
    had attached the record to the campaign's own, fresh lease, which goes away with the campaign) -/
def Campaign.Good (c : Campaign) : Prop :=
  (c.ok = true → c.before = none ∧ c.extraHeld = true ∧ c.lease ≠ 0 ∧ c.after = some ⟨c.value, c.lease⟩) ∧
  (c.faulted = false → c.before = none → c.extraHeld = true → c.leaseLive = true → c.ok = true) ∧
  (c.ok = false → c.revokeFailed = false → c.after = c.before ∨ c.before.map (·.lease) = some c.lease)

def Campaign.good (c : Campaign) : Bool :=
  (!c.ok || (c.before == none && c.extraHeld && c.lease != 0 && c.after == some ⟨c.value, c.lease⟩)) &&
  (c.faulted || c.before != none || !c.extraHeld || !c.leaseLive || c.ok) &&
  (c.ok || c.revokeFailed || c.after == c.before || c.before.map (·.lease) == some c.lease)

theorem Campaign.good_iff (c : Campaign) : c.good = true ↔ c.Good := by
  unfold Campaign.good Campaign.Good
  simp only [Bool.and_eq_true, Bool.or_eq_true, Bool.not_eq_true', beq_iff_eq, bne_iff_ne, ne_eq]
  constructor
  · rintro ⟨⟨h1, h2⟩, h3⟩
    refine ⟨fun hok => ?_, fun hf hb he hl => ?_, fun hok hr => ?_⟩
    · rcases h1 with h1 | ⟨⟨⟨a, b⟩, c'⟩, d⟩
      · rw [hok] at h1; cases h1
      · exact ⟨a, b, c', d⟩
    · rcases h2 with (((h2 | h2) | h2) | h2) | h2
      · rw [hf] at h2; cases h2
      · exact absurd hb h2
      · rw [he] at h2; cases h2
      · rw [hl] at h2; cases h2
      · exact h2
    · rcases h3 with ((h3 | h3) | h3) | h3
      · rw [hok] at h3; cases h3
      · rw [hr] at h3; cases h3
      · exact Or.inl h3
      · exact Or.inr h3
  · rintro ⟨h1, h2, h3⟩
    refine ⟨⟨?_, ?_⟩, ?_⟩
    · cases hok : c.ok
      · left; rfl
      · right; obtain ⟨a, b, c', d⟩ := h1 hok; exact ⟨⟨⟨a, b⟩, c'⟩, d⟩
    · cases hf : c.faulted
      · by_cases hb : c.before = none
        · cases he : c.extraHeld
          · left; left; right; rfl
          · cases hl : c.leaseLive
            · left; right; rfl
            · right; exact h2 hf hb he hl
        · left; left; left; right; exact hb
      · left; left; left; left; rfl
    · cases hok : c.ok
      · cases hr : c.revokeFailed
        · rcases h3 hok hr with h | h
          · left; right; exact h
          · right; exact h
        · left; left; right; rfl
      · left; left; left; rfl

/-! ### (a') at most one holder -/

/-- at every instant every leadership has at most one holder among the contenders -/
def Snap.SingleHolder (s : Snap) : Prop :=
  ∀ l : Nat, ((s.views.filter (fun v => v.key = l && s.holder v)).length ≤ 1)

def Snap.singleHolder (s : Snap) : Bool :=
  s.views.all fun v => decide ((s.views.filter (fun w => w.key = v.key && s.holder w)).length ≤ 1)

theorem Snap.singleHolder_iff (s : Snap) : s.singleHolder = true ↔ s.SingleHolder := by
  unfold Snap.singleHolder Snap.SingleHolder
  simp only [List.all_eq_true, decide_eq_true_eq]
  constructor
  · intro h l
    by_cases hl : ∃ v ∈ s.views, v.key = l
    · obtain ⟨v, hv, rfl⟩ := hl
      exact h v hv
    · have : s.views.filter (fun v => v.key = l && s.holder v) = [] := by
        simp only [List.filter_eq_nil_iff, Bool.and_eq_true, decide_eq_true_eq, not_and]
        intro v hv hk
        exact absurd ⟨v, hv, hk⟩ hl
      simp [this]
  · intro h v _
    exact h v.key

/-! ### (c) guarded writes -/

structure Write where
  owner     : Bool      -- the record carried the writer's comparison value before the write
  faulted   : Bool      -- injected store error
  skipped   : Bool      -- the writer did not attempt the write at all (its own leadership check failed)
  ok        : Bool      -- reported success
  unchanged : Bool      -- store (all keys, all leases) identical before and after
  deriving Repr

/-- a guarded write succeeds iff the writer owns the record; a non-owner's write changes nothing -/
def Write.Good (w : Write) : Prop :=
  (w.ok = true → w.owner = true) ∧
  (w.owner = false → w.unchanged = true ∧ w.ok = false) ∧
  (w.owner = true → w.faulted = false → w.skipped = false → w.ok = true) ∧
  (w.skipped = true → w.unchanged = true ∧ w.ok = false)

def Write.good (w : Write) : Bool :=
  (!w.ok || w.owner) && (w.owner || (w.unchanged && !w.ok)) &&
  (!w.owner || w.faulted || w.skipped || w.ok) && (!w.skipped || (w.unchanged && !w.ok))

theorem Write.good_iff (w : Write) : w.good = true ↔ w.Good := by
  unfold Write.good Write.Good
  cases w.ok <;> cases w.owner <;> cases w.faulted <;> cases w.skipped <;> cases w.unchanged <;> simp

/-! ### (b) service -/

/-- A request for leader-only service (timestamp, id allocation, metadata) answered by a contender:
    it may be served only if the contender's own leadership check holds; and, as long as the
    environment assumptions hold (`faithful`), only by the holder of the record. -/
structure Serve where
  served   : Bool
  check    : Bool
  faithful : Bool
  holder   : Bool
  deriving Repr

def Serve.Good (x : Serve) : Prop :=
  (x.served = true → x.check = true) ∧ (x.faithful = true → x.served = true → x.holder = true)

def Serve.good (x : Serve) : Bool :=
  (!x.served || x.check) && (!x.faithful || !x.served || x.holder)

theorem Serve.good_iff (x : Serve) : x.good = true ↔ x.Good := by
  unfold Serve.good Serve.Good
  cases x.served <;> cases x.check <;> cases x.faithful <;> cases x.holder <;> simp

/-- the same at every instant, for what the contenders report they would do:
    under the environment assumptions, whoever would serve is the holder and its lease is live;
    whoever's check holds has a live lease or no lease at all -/
def Snap.ServingIsHolder (s : Snap) : Prop :=
  ∀ v ∈ s.views,
    (v.serves = true → s.holder v = true) ∧
    (v.check = true → v.lease ≠ 0 → v.lease ∈ s.live)

def Snap.servingIsHolder (s : Snap) : Bool :=
  s.views.all fun v => (!v.serves || s.holder v) && (!v.check || v.lease == 0 || s.live.contains v.lease)

theorem Snap.servingIsHolder_iff (s : Snap) : s.servingIsHolder = true ↔ s.ServingIsHolder := by
  unfold Snap.servingIsHolder Snap.ServingIsHolder
  simp only [List.all_eq_true, Bool.and_eq_true, Bool.or_eq_true, Bool.not_eq_true', beq_iff_eq,
    List.contains_iff_mem]
  constructor
  · intro h v hv
    obtain ⟨h1, h2⟩ := h v hv
    refine ⟨fun hs => ?_, fun hc hl => ?_⟩
    · rcases h1 with h1 | h1
      · rw [hs] at h1; cases h1
      · exact h1
    · rcases h2 with (h2 | h2) | h2
      · rw [hc] at h2; cases h2
      · exact absurd h2 hl
      · exact h2
  · intro h v hv
    obtain ⟨h1, h2⟩ := h v hv
    refine ⟨?_, ?_⟩
    · cases hs : v.serves
      · left; rfl
      · right; exact h1 hs
    · cases hc : v.check
      · left; left; rfl
      · by_cases hl : v.lease = 0
        · left; right; exact hl
        · right; exact h2 hc hl

/-- a contender that has just resigned (reset its leadership, stepped down, deleted its record) -/
def Resigned (after : View) : Prop := after.check = false ∧ after.serves = false

def resigned (after : View) : Bool := !after.check && !after.serves

theorem resigned_iff (v : View) : resigned v = true ↔ Resigned v := by
  unfold resigned Resigned; cases v.check <;> cases v.serves <;> simp

/-- a contender whose leader loop has completed its step-down: besides being resigned it has withdrawn
    its announcement and cleared its timestamp memory, so that its next campaign starts clean -/
def SteppedDown (after : View) : Prop :=
  after.check = false ∧ after.cacheSelf = false ∧ after.tsoInit = false

def steppedDown (after : View) : Bool := !after.check && !after.cacheSelf && !after.tsoInit

theorem steppedDown_iff (v : View) : steppedDown v = true ↔ SteppedDown v := by
  unfold steppedDown SteppedDown; cases v.check <;> cases v.cacheSelf <;> cases v.tsoInit <;> simp

/-! ### the environment assumptions ("faithful" executions)

The service clause needs assumptions about the environment and about the order in which a member's
leader loop calls the election layer.  They are stated here over observable things; an execution
is faithful as long as every action satisfies `Act.ok` in the snapshot it is taken in. -/

inductive Act where
  | tick (i t : Nat)              -- contender i reads its local clock
  | lose (lease : Nat)            -- the store expires / revokes a lease on its own
  | campaign (i : Nat)            -- contender i starts a campaign
  | inTerm (i : Nat)              -- leader-loop action taken only inside a term (keep-alive, enabling service, initialising timestamps)
  | outOfTerm (i : Nat)           -- leader-loop action taken only outside a term (looking for the current leader)
  | deleteOwn (i : Nat)           -- outside a term: delete the record, done only when it names the contender itself
  | join (key member : Nat)       -- a new contender appears (member ids are not 0)
  | foreign (touchesRecord : Bool) -- somebody else writes to the store directly
  | other
  deriving Repr

def Act.ok (s : Snap) : Act → Bool
  | .tick i t => match s.views[i]? with | some v => decide (v.clock ≤ t) | none => true
  | .lose id => s.views.all fun v => v.lease != id || !v.check
  | .campaign i => match s.views[i]? with | some v => !v.cacheSelf && !v.tsoInit | none => true
  | .inTerm i => match s.views[i]? with | some v => v.won | none => true
  | .outOfTerm i => match s.views[i]? with | some v => !v.won && !v.cacheSelf && !v.tsoInit | none => true
  | .deleteOwn i =>
    match s.views[i]? with
    | some v => !v.won && !v.cacheSelf && !v.tsoInit &&
        (match s.recOf v.key with | some r => r.val == v.member | none => true)
    | none => true
  | .join k m => m != 0 && s.views.all fun v => !(v.key == k && v.member == m)
  | .foreign t => !t
  | .other => true

end PdModel.Spec.C03
