/-
C15 – "GC safe points never move backwards", stated over what clients and an observer of the storage
can see.  No implementation identifiers.

Cluster safe point.  Events, in real-time order:
  `begin r`     request `r` (an update or a read of the safe point) is issued
  `resp r v`    request `r` is answered with safe point `v`
  `stored v`    the durably stored safe point is observed to be `v`
The property: the stored value never decreases, and every response reports a value at least as large as
every value acknowledged before the request began.

Service safe points.  One observation per answered registration request: what was asked, the time the
server used, the minimum it reported, and the registered records before and after.
-/
namespace PdModel.Spec.C15

inductive Ev where
  | begin (r : Nat)
  | resp (r : Nat) (v : Nat)
  | stored (v : Nat)
  deriving Repr, DecidableEq

/-- the property of the cluster safe point (positions `i < j < k` in the event list) -/
def Holds (evs : List Ev) : Prop :=
  (∀ (i j u v : Nat), i < j → evs[i]? = some (.stored u) → evs[j]? = some (.stored v) → u ≤ v) ∧
  (∀ (i j k r r' a b : Nat), i < j → j < k →
      evs[i]? = some (.resp r' a) → evs[j]? = some (.begin r) → evs[k]? = some (.resp r b) → a ≤ b)

/-- what the incremental checker remembers of the events seen so far -/
structure Sum where
  maxStored : Nat := 0
  maxResp   : Nat := 0
  /-- (request, largest response before it began) -/
  floors    : List (Nat × Nat) := []
  deriving Repr

def Sum.push (s : Sum) : Ev → Sum
  | .begin r => { s with floors := (r, s.maxResp) :: s.floors }
  | .resp _ v => { s with maxResp := max s.maxResp v }
  | .stored v => { s with maxStored := max s.maxStored v }

def summ (evs : List Ev) : Sum := evs.foldl Sum.push {}

/-- is the next event acceptable after a history with summary `s`? -/
def okNext (s : Sum) : Ev → Bool
  | .begin _ => true
  | .resp r v => s.floors.all (fun p => p.1 != r || decide (p.2 ≤ v))
  | .stored v => decide (s.maxStored ≤ v)

/-- executable checker -/
def check : List Ev → Sum → Bool
  | [], _ => true
  | e :: es, s => okNext s e && check es (s.push e)

/-! ### service safe points -/

structure Rec where
  id  : String
  sp  : Nat
  exp : Int          -- expiry (seconds); `never` = unlimited
  deriving Repr, DecidableEq

def never : Int := 9223372036854775807

structure Obs where
  gcWorker : String        -- the garbage collector's own service id
  svc      : String
  ttl      : Int
  sp       : Nat
  now      : Int
  minSp    : Nat           -- the minimum service safe point reported in the response
  before   : List Rec
  after    : List Rec
  deriving Repr

/-- a registration is live while it has not expired; the garbage collector's own registration always is -/
def live (gc : String) (now : Int) (r : Rec) : Prop := r.id = gc ∨ now ≤ r.exp

instance (gc : String) (now : Int) (r : Rec) : Decidable (live gc now r) := by unfold live; infer_instance

/-- the reported minimum is not above the safe point of any live registered service -/
def MinNotAboveLive (o : Obs) : Prop := ∀ r ∈ o.after, live o.gcWorker o.now r → o.minSp ≤ r.sp

/-- a registration below the current minimum (the smallest safe point among the live registrations
    there were) is not recorded: the record of that service, if there is one afterwards, stays above
    the refused value -/
def BelowMinNotRecorded (o : Obs) : Prop :=
  0 < o.ttl → (∃ r ∈ o.before, live o.gcWorker o.now r) →
    (∀ r ∈ o.before, live o.gcWorker o.now r → o.sp < r.sp) →
    ∀ r ∈ o.after, r.id = o.svc → o.sp < r.sp

/-- the garbage collector's own entry exists with unlimited lifetime -/
def GcWorkerPresent (o : Obs) : Prop := ∃ r ∈ o.after, r.id = o.gcWorker ∧ r.exp = never

/-- expired registrations and registrations renewed with a non-positive TTL are gone -/
def ExpiredGone (o : Obs) : Prop :=
  (∀ r ∈ o.after, o.now ≤ r.exp) ∧ (o.ttl ≤ 0 → ∀ r ∈ o.after, r.id ≠ o.svc)

/-- the garbage collector's own registration is never removed: by no request of any kind, through no interface -/
def GcWorkerKept (gc : String) (before after : List Rec) : Prop :=
  (∃ r ∈ before, r.id = gc) → ∃ r ∈ after, r.id = gc

def chkKept (gc : String) (before after : List Rec) : Bool :=
  !before.any (fun r => r.id == gc) || after.any (fun r => r.id == gc)

theorem chkKept_iff (gc : String) (before after : List Rec) :
    chkKept gc before after = true ↔ GcWorkerKept gc before after := by
  unfold chkKept GcWorkerKept
  simp only [Bool.or_eq_true, Bool.not_eq_true', List.any_eq_true, beq_iff_eq, List.any_eq_false]
  constructor
  · rintro (h | h) hb
    · obtain ⟨r, hr, hid⟩ := hb; exact absurd hid (h r hr)
    · exact h
  · intro h
    by_cases hb : ∃ r ∈ before, r.id = gc
    · exact Or.inr (h hb)
    · left; intro r hr hid; exact hb ⟨r, hr, hid⟩

def SvcHolds (o : Obs) : Prop :=
  MinNotAboveLive o ∧ BelowMinNotRecorded o ∧ GcWorkerPresent o ∧ ExpiredGone o

def chkMin (o : Obs) : Bool :=
  o.after.all (fun r => !decide (live o.gcWorker o.now r) || decide (o.minSp ≤ r.sp))
def chkBelow (o : Obs) : Bool :=
  !decide (0 < o.ttl) || !o.before.any (fun r => decide (live o.gcWorker o.now r)) ||
  !o.before.all (fun r => !decide (live o.gcWorker o.now r) || decide (o.sp < r.sp)) ||
  o.after.all (fun r => r.id != o.svc || decide (o.sp < r.sp))
def chkGc (o : Obs) : Bool := o.after.any (fun r => r.id == o.gcWorker && r.exp == never)
def chkExpired (o : Obs) : Bool :=
  o.after.all (fun r => decide (o.now ≤ r.exp)) && (!decide (o.ttl ≤ 0) || o.after.all (fun r => r.id != o.svc))

def svcCheck (o : Obs) : Bool := chkMin o && chkBelow o && chkGc o && chkExpired o

end PdModel.Spec.C15

namespace PdModel.Spec.C15
set_option linter.unusedSimpArgs false
set_option linter.unusedVariables false

/-! ### the checkers decide the properties -/

theorem fold_maxStored (p : List Ev) (s : Sum) (v : Nat) :
    (p.foldl Sum.push s).maxStored ≤ v ↔ s.maxStored ≤ v ∧ ∀ u, Ev.stored u ∈ p → u ≤ v := by
  induction p generalizing s with
  | nil => simp
  | cons e p ih =>
    simp only [List.foldl_cons, ih, List.mem_cons]
    cases e with
    | begin r => simp [Sum.push]
    | resp r a => simp [Sum.push]
    | stored w =>
      simp only [Sum.push, Nat.max_le, Ev.stored.injEq]
      constructor
      · rintro ⟨⟨h1, h2⟩, h3⟩
        refine ⟨h1, ?_⟩
        intro u h
        rcases h with rfl | h
        · exact h2
        · exact h3 u h
      · rintro ⟨h1, h2⟩
        exact ⟨⟨h1, h2 _ (Or.inl rfl)⟩, fun u h => h2 u (Or.inr h)⟩

theorem fold_maxResp (p : List Ev) (s : Sum) (v : Nat) :
    (p.foldl Sum.push s).maxResp ≤ v ↔ s.maxResp ≤ v ∧ ∀ r a, Ev.resp r a ∈ p → a ≤ v := by
  induction p generalizing s with
  | nil => simp
  | cons e p ih =>
    simp only [List.foldl_cons, ih, List.mem_cons]
    cases e with
    | begin r => simp [Sum.push]
    | stored w => simp [Sum.push]
    | resp r0 w =>
      simp only [Sum.push, Nat.max_le, Ev.resp.injEq]
      constructor
      · rintro ⟨⟨h1, h2⟩, h3⟩
        refine ⟨h1, ?_⟩
        intro r a h
        rcases h with ⟨rfl, rfl⟩ | h
        · exact h2
        · exact h3 r a h
      · rintro ⟨h1, h2⟩
        exact ⟨⟨h1, h2 _ _ (Or.inl ⟨rfl, rfl⟩)⟩, fun r a h => h2 r a (Or.inr h)⟩

theorem fold_floors (p : List Ev) (s : Sum) (r f : Nat) :
    (r, f) ∈ (p.foldl Sum.push s).floors ↔
      (r, f) ∈ s.floors ∨ ∃ j, p[j]? = some (.begin r) ∧ f = ((p.take j).foldl Sum.push s).maxResp := by
  induction p generalizing s with
  | nil => simp
  | cons e p ih =>
    simp only [List.foldl_cons, ih]
    constructor
    · rintro (h | ⟨j, h1, h2⟩)
      · cases e with
        | begin r0 =>
          simp only [Sum.push, List.mem_cons, Prod.mk.injEq] at h
          rcases h with ⟨rfl, rfl⟩ | h
          · right; exact ⟨0, by simp, by simp⟩
          · left; exact h
        | resp _ _ => left; simpa [Sum.push] using h
        | stored _ => left; simpa [Sum.push] using h
      · right; exact ⟨j + 1, by simpa using h1, by simpa using h2⟩
    · rintro (h | ⟨j, h1, h2⟩)
      · left; cases e <;> simp [Sum.push, h]
      · cases j with
        | zero =>
          simp only [List.getElem?_cons_zero, Option.some.injEq] at h1
          subst h1
          left; simp [Sum.push] at h2 ⊢; left; exact h2
        | succ j => right; exact ⟨j, by simpa using h1, by simpa using h2⟩

theorem summ_snoc (p : List Ev) (e : Ev) : summ (p ++ [e]) = (summ p).push e := by
  simp [summ, List.foldl_append]

theorem holds_prefix (l m : List Ev) (h : Holds (l ++ m)) : Holds l := by
  have key : ∀ (i : Nat) (x : Ev), l[i]? = some x → (l ++ m)[i]? = some x := by
    intro i x hx
    have : i < l.length := by
      rcases Nat.lt_or_ge i l.length with h' | h'
      · exact h'
      · simp [List.getElem?_eq_none h'] at hx
    rw [List.getElem?_append_left this]; exact hx
  refine ⟨?_, ?_⟩
  · intro i j u v hij hi hj
    exact h.1 i j u v hij (key _ _ hi) (key _ _ hj)
  · intro i j k r r' a b hij hjk hi hj hk
    exact h.2 i j k r r' a b hij hjk (key _ _ hi) (key _ _ hj) (key _ _ hk)

theorem getElem?_snoc_cases {α} (p : List α) (e x : α) (k : Nat) (h : (p ++ [e])[k]? = some x) :
    (k < p.length ∧ p[k]? = some x) ∨ (k = p.length ∧ x = e) := by
  rcases Nat.lt_or_ge k p.length with h' | h'
  · left; rw [List.getElem?_append_left h'] at h; exact ⟨h', h⟩
  · right
    rw [List.getElem?_append_right h'] at h
    have : k - p.length = 0 := by
      rcases Nat.eq_zero_or_pos (k - p.length) with h0 | h0
      · exact h0
      · have : ([e] : List α).length ≤ k - p.length := by simp; omega
        simp [List.getElem?_eq_none this] at h
    rw [this] at h
    simp at h
    exact ⟨by omega, h.symm⟩

theorem lt_length_of_getElem? {α} (p : List α) (k : Nat) (x : α) (h : p[k]? = some x) : k < p.length := by
  rcases Nat.lt_or_ge k p.length with h' | h'
  · exact h'
  · simp [List.getElem?_eq_none h'] at h

theorem mem_take_of_getElem? {α} (p : List α) (i j : Nat) (x : α) (hij : i < j) (h : p[i]? = some x) :
    x ∈ p.take j := by
  have hi := lt_length_of_getElem? p i x h
  refine List.mem_iff_getElem?.2 ⟨i, ?_⟩
  rw [List.getElem?_take_of_lt hij]; exact h

theorem getElem?_of_mem_take {α} (p : List α) (j : Nat) (x : α) (h : x ∈ p.take j) :
    ∃ i, i < j ∧ p[i]? = some x := by
  obtain ⟨i, hi⟩ := List.mem_iff_getElem?.1 h
  have hlt : i < (p.take j).length := lt_length_of_getElem? _ _ _ hi
  have hij : i < j := by simp at hlt; omega
  exact ⟨i, hij, by rw [List.getElem?_take_of_lt hij] at hi; exact hi⟩

theorem okNext_stored (p : List Ev) (v : Nat) :
    okNext (summ p) (.stored v) = true ↔ ∀ u, Ev.stored u ∈ p → u ≤ v := by
  have h := fold_maxStored p {} v
  unfold okNext
  rw [decide_eq_true_eq]
  show (List.foldl Sum.push {} p).maxStored ≤ v ↔ _
  rw [h]
  exact ⟨fun h => h.2, fun h => ⟨Nat.zero_le _, h⟩⟩

theorem okNext_resp (p : List Ev) (r b : Nat) :
    okNext (summ p) (.resp r b) = true ↔
      ∀ j, p[j]? = some (.begin r) → ∀ r' a, Ev.resp r' a ∈ p.take j → a ≤ b := by
  simp only [okNext, List.all_eq_true, Bool.or_eq_true, bne_iff_ne, ne_eq, decide_eq_true_eq]
  constructor
  · intro h j hj r' a ha
    have hf : (r, ((p.take j).foldl Sum.push {}).maxResp) ∈ (summ p).floors := by
      simp only [summ]; rw [fold_floors]; right; exact ⟨j, hj, rfl⟩
    rcases h _ hf with h | h
    · exact absurd rfl h
    · have h' := (fold_maxResp (p.take j) {} b).1 h
      exact h'.2 r' a ha
  · rintro h ⟨r0, f⟩ hf
    by_cases hr : r0 = r
    · right
      subst hr
      simp only [summ] at hf
      rw [fold_floors] at hf
      rcases hf with hf | ⟨j, hj, rfl⟩
      · simp at hf
      · exact (fold_maxResp (p.take j) {} b).2 ⟨Nat.zero_le _, h j hj⟩
    · left; exact hr

theorem holds_snoc (p : List Ev) (e : Ev) :
    Holds (p ++ [e]) ↔ Holds p ∧ okNext (summ p) e = true := by
  constructor
  · intro h
    refine ⟨holds_prefix _ _ h, ?_⟩
    have hlast : (p ++ [e])[p.length]? = some e := by simp
    have hpre : ∀ (i : Nat) (x : Ev), p[i]? = some x → (p ++ [e])[i]? = some x ∧ i < p.length := by
      intro i x hx
      have := lt_length_of_getElem? p i x hx
      exact ⟨by rw [List.getElem?_append_left this]; exact hx, this⟩
    cases e with
    | begin r => rfl
    | stored v =>
      rw [okNext_stored]
      intro u hu
      obtain ⟨i, hi⟩ := List.mem_iff_getElem?.1 hu
      obtain ⟨h1, h2⟩ := hpre i _ hi
      exact h.1 i p.length u v h2 h1 hlast
    | resp r b =>
      rw [okNext_resp]
      intro j hj r' a ha
      obtain ⟨i, hij, hi⟩ := getElem?_of_mem_take p j _ ha
      obtain ⟨h1, _⟩ := hpre i _ hi
      obtain ⟨h2, h3⟩ := hpre j _ hj
      exact h.2 i j p.length r r' a b hij h3 h1 h2 hlast
  · rintro ⟨hp, hok⟩
    refine ⟨?_, ?_⟩
    · intro i j u v hij hi hj
      rcases getElem?_snoc_cases p e _ j hj with ⟨hj1, hj2⟩ | ⟨hj1, hj2⟩
      · rcases getElem?_snoc_cases p e _ i hi with ⟨hi1, hi2⟩ | ⟨hi1, _⟩
        · exact hp.1 i j u v hij hi2 hj2
        · omega
      · subst hj2
        rcases getElem?_snoc_cases p _ _ i hi with ⟨hi1, hi2⟩ | ⟨hi1, _⟩
        · rw [okNext_stored] at hok
          exact hok u (List.mem_iff_getElem?.2 ⟨i, hi2⟩)
        · omega
    · intro i j k r r' a b hij hjk hi hj hk
      rcases getElem?_snoc_cases p e _ k hk with ⟨hk1, hk2⟩ | ⟨hk1, hk2⟩
      · rcases getElem?_snoc_cases p e _ j hj with ⟨hj1, hj2⟩ | ⟨hj1, _⟩
        · rcases getElem?_snoc_cases p e _ i hi with ⟨hi1, hi2⟩ | ⟨hi1, _⟩
          · exact hp.2 i j k r r' a b hij hjk hi2 hj2 hk2
          · omega
        · omega
      · subst hk2
        rcases getElem?_snoc_cases p _ _ j hj with ⟨hj1, hj2⟩ | ⟨hj1, _⟩
        · rcases getElem?_snoc_cases p _ _ i hi with ⟨hi1, hi2⟩ | ⟨hi1, _⟩
          · rw [okNext_resp] at hok
            exact hok j hj2 r' a (mem_take_of_getElem? p i j _ hij hi2)
          · omega
        · omega

theorem check_append (p es : List Ev) (hp : Holds p) :
    check es (summ p) = true ↔ Holds (p ++ es) := by
  induction es generalizing p with
  | nil => simp [check, hp]
  | cons e es ih =>
    simp only [check, Bool.and_eq_true]
    have hs : (summ p).push e = summ (p ++ [e]) := (summ_snoc p e).symm
    have happ : p ++ e :: es = (p ++ [e]) ++ es := by simp
    constructor
    · rintro ⟨h1, h2⟩
      have hpe : Holds (p ++ [e]) := (holds_snoc p e).2 ⟨hp, h1⟩
      rw [hs] at h2
      rw [happ]; exact (ih _ hpe).1 h2
    · intro h
      rw [happ] at h
      have hpe : Holds (p ++ [e]) := holds_prefix _ _ h
      refine ⟨((holds_snoc p e).1 hpe).2, ?_⟩
      rw [hs]; exact (ih _ hpe).2 h

theorem holds_nil : Holds [] := by
  constructor <;> intros <;> simp at *

/-- the checker decides the property -/
theorem check_iff (evs : List Ev) : check evs {} = true ↔ Holds evs := by
  have := check_append [] evs holds_nil
  simpa [summ] using this

theorem chkMin_iff (o : Obs) : chkMin o = true ↔ MinNotAboveLive o := by
  unfold chkMin MinNotAboveLive
  simp only [List.all_eq_true, Bool.or_eq_true, Bool.not_eq_true', decide_eq_false_iff_not,
    decide_eq_true_eq]
  constructor
  · intro h r hr hl
    rcases h r hr with h | h
    · exact absurd hl h
    · exact h
  · intro h r hr
    by_cases hl : live o.gcWorker o.now r
    · right; exact h r hr hl
    · left; exact hl

theorem chkBelow_iff (o : Obs) : chkBelow o = true ↔ BelowMinNotRecorded o := by
  unfold chkBelow BelowMinNotRecorded
  have e1 : (o.before.any fun r => decide (live o.gcWorker o.now r)) = true ↔
      ∃ r ∈ o.before, live o.gcWorker o.now r := by
    simp [List.any_eq_true]
  have e2 : (o.before.all fun r => !decide (live o.gcWorker o.now r) || decide (o.sp < r.sp)) = true ↔
      ∀ r ∈ o.before, live o.gcWorker o.now r → o.sp < r.sp := by
    simp only [List.all_eq_true, Bool.or_eq_true, Bool.not_eq_true', decide_eq_false_iff_not,
      decide_eq_true_eq]
    constructor
    · intro h r hr hl
      rcases h r hr with h | h
      · exact absurd hl h
      · exact h
    · intro h r hr
      by_cases hl : live o.gcWorker o.now r
      · right; exact h r hr hl
      · left; exact hl
  have e3 : (o.after.all fun r => r.id != o.svc || decide (o.sp < r.sp)) = true ↔
      ∀ r ∈ o.after, r.id = o.svc → o.sp < r.sp := by
    simp only [List.all_eq_true, Bool.or_eq_true, bne_iff_ne, ne_eq, decide_eq_true_eq]
    constructor
    · intro h r hr hid
      rcases h r hr with h | h
      · exact absurd hid h
      · exact h
    · intro h r hr
      by_cases hid : r.id = o.svc
      · right; exact h r hr hid
      · left; exact hid
  simp only [Bool.or_eq_true, Bool.not_eq_true', decide_eq_false_iff_not]
  rw [← e1, ← e2, ← e3]
  generalize (o.before.any fun r => decide (live o.gcWorker o.now r)) = b1
  generalize (o.before.all fun r => !decide (live o.gcWorker o.now r) || decide (o.sp < r.sp)) = b2
  generalize (o.after.all fun r => r.id != o.svc || decide (o.sp < r.sp)) = b3
  by_cases ht : 0 < o.ttl <;> cases b1 <;> cases b2 <;> cases b3 <;> simp [ht]

theorem chkGc_iff (o : Obs) : chkGc o = true ↔ GcWorkerPresent o := by
  unfold chkGc GcWorkerPresent
  simp [List.any_eq_true]

theorem chkExpired_iff (o : Obs) : chkExpired o = true ↔ ExpiredGone o := by
  unfold chkExpired ExpiredGone
  simp only [Bool.and_eq_true, List.all_eq_true, decide_eq_true_eq, Bool.or_eq_true,
    Bool.not_eq_true', decide_eq_false_iff_not, bne_iff_ne, ne_eq]
  constructor
  · rintro ⟨h1, h2⟩
    refine ⟨h1, fun ht => ?_⟩
    rcases h2 with h | h
    · exact absurd ht h
    · exact h
  · rintro ⟨h1, h2⟩
    refine ⟨h1, ?_⟩
    by_cases ht : o.ttl ≤ 0
    · right; exact h2 ht
    · left; exact ht

theorem svcCheck_iff (o : Obs) : svcCheck o = true ↔ SvcHolds o := by
  unfold svcCheck SvcHolds
  simp only [Bool.and_eq_true, chkMin_iff, chkBelow_iff, chkGc_iff, chkExpired_iff]
  constructor
  · rintro ⟨⟨⟨a, b⟩, c⟩, d⟩; exact ⟨a, b, c, d⟩
  · rintro ⟨a, b, c, d⟩; exact ⟨⟨⟨a, b⟩, c⟩, d⟩

end PdModel.Spec.C15
