/-
C04 – "Allocated ids are unique forever", stated over what a client can observe:
the list of successful allocations (oldest first), each with the allocator instance that
returned it, the id, and the durably stored window bound at the moment of the return.
No implementation identifiers.
-/
namespace PdModel.Spec.C04

structure Ev where
  inst  : Nat
  id    : Nat
  bound : Nat
  deriving Repr, DecidableEq

/-- the property -/
def Holds (evs : List Ev) : Prop :=
  (evs.map (·.id)).Nodup ∧
  (∀ i : Nat, ((evs.filter (·.inst = i)).map (·.id)).Pairwise (· < ·)) ∧
  (∀ e ∈ evs, e.id ≤ e.bound)

/-- instances mentioned -/
def instsOf (evs : List Ev) : List Nat := (evs.map (·.inst)).eraseDups

instance (l : List Nat) : Decidable (l.Pairwise (· < ·)) := inferInstance

/-- executable checker used as the monitor on implementation traces -/
def check (evs : List Ev) : Bool :=
  decide ((evs.map (·.id)).Nodup) &&
  (evs.map (·.inst)).all (fun i => decide (((evs.filter (·.inst = i)).map (·.id)).Pairwise (· < ·))) &&
  evs.all (fun e => decide (e.id ≤ e.bound))

theorem check_iff (evs : List Ev) : check evs = true ↔ Holds evs := by
  unfold check Holds
  simp only [Bool.and_eq_true, decide_eq_true_eq, List.all_eq_true, List.mem_map]
  constructor
  · rintro ⟨⟨h1, h2⟩, h3⟩
    refine ⟨h1, ?_, h3⟩
    intro i
    by_cases hi : ∃ e ∈ evs, e.inst = i
    · obtain ⟨e, he, rfl⟩ := hi
      exact h2 _ ⟨e, he, rfl⟩
    · have : evs.filter (·.inst = i) = [] := by
        simp only [List.filter_eq_nil_iff, decide_eq_true_eq]
        intro e he h; exact hi ⟨e, he, h⟩
      simp [this]
  · rintro ⟨h1, h2, h3⟩
    exact ⟨⟨h1, fun i _ => h2 i⟩, h3⟩

/-- incremental form used by the monitor: the new event against the ones already accepted -/
def checkNext (evs : List Ev) (e : Ev) : Bool :=
  evs.all (fun x => x.id != e.id && (x.inst != e.inst || decide (x.id < e.id))) && decide (e.id ≤ e.bound)

theorem holds_snoc (evs : List Ev) (e : Ev) :
    Holds (evs ++ [e]) ↔ Holds evs ∧ checkNext evs e = true := by
  unfold Holds checkNext
  simp only [List.map_append, List.map_cons, List.map_nil, List.filter_append, List.mem_append,
    List.mem_singleton, Bool.and_eq_true, List.all_eq_true, bne_iff_ne, ne_eq, Bool.or_eq_true,
    decide_eq_true_eq, List.nodup_append, List.pairwise_append]
  constructor
  · rintro ⟨⟨h1, _, h1c⟩, h2, h3⟩
    refine ⟨⟨h1, fun i => (h2 i).1, fun x hx => h3 x (Or.inl hx)⟩, ?_, h3 e (Or.inr rfl)⟩
    intro x hx
    refine ⟨fun h => h1c x.id (List.mem_map.2 ⟨x, hx, rfl⟩) e.id (by simp) h, ?_⟩
    by_cases hi : x.inst = e.inst
    · right
      have := (h2 e.inst).2.2 x.id (List.mem_map.2 ⟨x, by simp [hx, hi], rfl⟩) e.id (by simp)
      exact this
    · left; exact hi
  · rintro ⟨⟨h1, h2, h3⟩, h4, h5⟩
    refine ⟨⟨h1, by simp, ?_⟩, ?_, ?_⟩
    · intro a ha b hb hab
      obtain ⟨x, hx, rfl⟩ := List.mem_map.1 ha
      have hb' : b = e.id := by simpa using hb
      exact (h4 x hx).1 (hab.trans hb')
    · intro i
      refine ⟨h2 i, ?_, ?_⟩
      · by_cases hi : e.inst = i <;> simp [hi]
      · intro a ha b hb
        obtain ⟨x, hx, rfl⟩ := List.mem_map.1 ha
        simp only [List.mem_filter, decide_eq_true_eq] at hx
        by_cases hi : e.inst = i
        · simp only [hi, decide_true, List.filter_cons_of_pos, List.filter_nil, List.map_cons,
            List.map_nil, List.mem_singleton] at hb
          subst hb
          rcases (h4 x hx.1).2 with h | h
          · exact absurd (hx.2.trans hi.symm) h
          · exact h
        · simp [hi] at hb
    · rintro x (hx | rfl)
      · exact h3 x hx
      · exact h5

end PdModel.Spec.C04
