import PdModel.Model.Steps
/-!
C08 – "Generated operator steps are safe and reach the requested placement".

`SafePlan origin target steps`: execute the steps in order on the region (`Steps.apply` = what a
faithful store does); before every step
  * the step's own precondition (`CheckSafety`) holds,
  * the step does not remove or demote the peer that is leader at that moment, and a joint
    transition is only left while the leader is a voter that is not being demoted,
  * leadership is only transferred to an existing peer that is a voter and not being demoted,
and after every step
  * no store holds two peers,
  * the number of voters is at least min(voters of the origin, voters of the target)
    (inside a joint state both the outgoing and the incoming configuration are counted);
after the last step the peers and roles are exactly the requested ones, the leader is a voter (not
being demoted) and is the requested leader if one was requested.
-/
namespace PdModel.Spec.C08
open PdModel.Steps

/-- the requested placement: store ↦ role (voter / learner) and the requested leader store (0 = none) -/
structure Target where
  peers  : List (Nat × Role)
  leader : Nat
  deriving Repr, DecidableEq

/-- voters of the outgoing configuration -/
def oldVoters (r : Region) : Nat := r.peers.countP (fun p => p.role == .voter || p.role == .demoting)
/-- voters of the incoming configuration -/
def newVoters (r : Region) : Nat := r.peers.countP (fun p => p.role == .voter || p.role == .incoming)
def voterCount (r : Region) : Nat := min (oldVoters r) (newVoters r)
def targetVoters (t : Target) : Nat := t.peers.countP (fun x => x.2 != .learner)
def minVoters (o : Region) (t : Target) : Nat := min (voterCount o) (targetVoters t)

def onePerStore (r : Region) : Prop := (r.peers.map (·.store)).Nodup

instance (r : Region) : Decidable (onePerStore r) := by unfold onePerStore; infer_instance

/-- the peer on store `s` exists, is a voter of the incoming configuration and is not being demoted -/
def isFullVoter (r : Region) (s : Nat) : Bool :=
  match storePeer r s with
  | some p => p.role == .voter || p.role == .incoming
  | none => false

/-- the step does not remove / demote the current leader; leaving needs a non-demoting voter as leader -/
def leaderKept (r : Region) : Step → Bool
  | .removePeer s _ => s != r.leader
  | .demoteFollower s _ => s != r.leader
  | .leave _ _ => isFullVoter r r.leader
  | _ => true

def transferOk (r : Region) : Step → Bool
  | .transferLeader _ to => isFullVoter r to
  | _ => true

/-- a region state the property speaks about: one peer per store, no store id 0, the leader is one of
    the peers and is not a learner -/
def WellFormed (r : Region) : Prop :=
  onePerStore r ∧ (∀ p ∈ r.peers, p.store ≠ 0) ∧ ∃ p, storePeer r r.leader = some p ∧ p.role ≠ .learner

def wellFormed (r : Region) : Bool :=
  decide (onePerStore r) && r.peers.all (fun p => p.store != 0) &&
  (match storePeer r r.leader with | some p => p.role != .learner | none => false)

theorem wellFormed_iff (r : Region) : wellFormed r = true ↔ WellFormed r := by
  unfold wellFormed WellFormed
  cases h : storePeer r r.leader <;> simp [h, and_assoc]

structure StepOk (m : Nat) (r : Region) (s : Step) : Prop where
  precondition : checkSafety r s = true
  leader       : leaderKept r s = true
  transfer     : transferOk r s = true
  oneEach      : onePerStore (apply r s)
  voters       : m ≤ voterCount (apply r s)

/-- every step is fine in the state the previous steps produced -/
def StepsSafe (m : Nat) : Region → List Step → Prop
  | _, [] => True
  | r, s :: rest => StepOk m r s ∧ StepsSafe m (apply r s) rest

structure Final (t : Target) (r : Region) : Prop where
  peersRequested : ∀ p ∈ r.peers, (p.store, p.role) ∈ t.peers
  requestedPresent : ∀ x ∈ t.peers, ∃ p ∈ r.peers, p.store = x.1 ∧ p.role = x.2
  oneEach : onePerStore r
  leaderIsVoter : isFullVoter r r.leader = true
  leaderRequested : t.leader = 0 ∨ r.leader = t.leader

/-- **the property** -/
def SafePlan (origin : Region) (t : Target) (steps : List Step) : Prop :=
  StepsSafe (minVoters origin t) origin steps ∧ Final t (run origin steps)

/-! ### executable checker -/

inductive Violation where
  | precondition | leaderTouched | badTransfer | twoPeers | votersBelowMin
  | finalPeers | finalLeader
  deriving Repr, DecidableEq

def Violation.name : Violation → String
  | .precondition => "step-precondition-fails"
  | .leaderTouched => "leader-removed-or-demoted"
  | .badTransfer => "transfer-to-non-voter"
  | .twoPeers => "two-peers-on-one-store"
  | .votersBelowMin => "voters-below-min"
  | .finalPeers => "final-peers-differ"
  | .finalLeader => "final-leader-differs"

def stepViolation (m : Nat) (r : Region) (s : Step) : Option Violation :=
  if !checkSafety r s then some .precondition
  else if !leaderKept r s then some .leaderTouched
  else if !transferOk r s then some .badTransfer
  else if !decide (onePerStore (apply r s)) then some .twoPeers
  else if voterCount (apply r s) < m then some .votersBelowMin
  else none

theorem stepViolation_none (m : Nat) (r : Region) (s : Step) :
    stepViolation m r s = none ↔ StepOk m r s := by
  unfold stepViolation
  constructor
  · intro h
    split at h; · simp at h
    split at h; · simp at h
    split at h; · simp at h
    split at h; · simp at h
    split at h; · simp at h
    rename_i h1 h2 h3 h4 h5
    exact ⟨by simpa using h1, by simpa using h2, by simpa using h3, by simpa using h4, by omega⟩
  · intro h
    have h5 : ¬ voterCount (apply r s) < m := by have := h.voters; omega
    simp [h.precondition, h.leader, h.transfer, h.oneEach, h5]

def finalPeersOk (t : Target) (r : Region) : Bool :=
  r.peers.all (fun p => t.peers.contains (p.store, p.role)) &&
  t.peers.all (fun x => r.peers.any (fun p => p.store == x.1 && p.role == x.2)) &&
  decide (onePerStore r)

def finalLeaderOk (t : Target) (r : Region) : Bool :=
  isFullVoter r r.leader && (t.leader == 0 || r.leader == t.leader)

def finalViolation (t : Target) (r : Region) : Option Violation :=
  if !finalPeersOk t r then some .finalPeers
  else if !finalLeaderOk t r then some .finalLeader
  else none

theorem finalPeersOk_iff (t : Target) (r : Region) : finalPeersOk t r = true ↔
    (∀ p ∈ r.peers, (p.store, p.role) ∈ t.peers) ∧
    (∀ x ∈ t.peers, ∃ p ∈ r.peers, p.store = x.1 ∧ p.role = x.2) ∧ onePerStore r := by
  simp only [finalPeersOk, Bool.and_eq_true, List.all_eq_true, List.contains_iff_mem,
    List.any_eq_true, beq_iff_eq, decide_eq_true_eq, and_assoc]

theorem finalViolation_none (t : Target) (r : Region) : finalViolation t r = none ↔ Final t r := by
  unfold finalViolation
  constructor
  · intro h
    split at h; · simp at h
    split at h; · simp at h
    rename_i h1 h2
    simp only [Bool.not_eq_true', Bool.not_eq_false] at h1 h2
    obtain ⟨a, b, c⟩ := (finalPeersOk_iff t r).1 h1
    simp only [finalLeaderOk, Bool.and_eq_true, Bool.or_eq_true, beq_iff_eq] at h2
    exact ⟨a, b, c, h2.1, h2.2⟩
  · intro h
    have a1 := (finalPeersOk_iff t r).2 ⟨h.peersRequested, h.requestedPresent, h.oneEach⟩
    have a2 : finalLeaderOk t r = true := by
      simp only [finalLeaderOk, Bool.and_eq_true, Bool.or_eq_true, beq_iff_eq]
      exact ⟨h.leaderIsVoter, h.leaderRequested⟩
    simp [a1, a2]

/-- index of the first offending step (or `steps.length` for the final state) and what is wrong -/
def firstViolationFrom (m : Nat) (t : Target) : Nat → Region → List Step → Option (Nat × Violation)
  | i, r, [] => (finalViolation t r).map (fun v => (i, v))
  | i, r, s :: rest =>
    match stepViolation m r s with
    | some v => some (i, v)
    | none => firstViolationFrom m t (i + 1) (apply r s) rest

def firstViolation (origin : Region) (t : Target) (steps : List Step) : Option (Nat × Violation) :=
  firstViolationFrom (minVoters origin t) t 0 origin steps

def checkSafePlan (origin : Region) (t : Target) (steps : List Step) : Bool :=
  (firstViolation origin t steps).isNone

theorem firstViolationFrom_none (m : Nat) (t : Target) (i : Nat) (r : Region) (steps : List Step) :
    firstViolationFrom m t i r steps = none ↔ StepsSafe m r steps ∧ Final t (run r steps) := by
  induction steps generalizing i r with
  | nil => simp [firstViolationFrom, StepsSafe, run, finalViolation_none]
  | cons s rest ih =>
    simp only [firstViolationFrom, StepsSafe, run, List.foldl_cons]
    cases hv : stepViolation m r s with
    | some v =>
      have : ¬ StepOk m r s := fun h => by rw [(stepViolation_none m r s).2 h] at hv; cases hv
      simp [this]
    | none =>
      have := (stepViolation_none m r s).1 hv
      simp only [this, true_and]
      exact ih (i + 1) (apply r s)

theorem checkSafePlan_iff (origin : Region) (t : Target) (steps : List Step) :
    checkSafePlan origin t steps = true ↔ SafePlan origin t steps := by
  unfold checkSafePlan firstViolation SafePlan
  rw [Option.isNone_iff_eq_none]
  exact firstViolationFrom_none _ _ _ _ _

/-- `StepsSafe` distributes over concatenation (used to reason about builders that append) -/
theorem stepsSafe_append (m : Nat) (r : Region) (a b : List Step) :
    StepsSafe m r (a ++ b) ↔ StepsSafe m r a ∧ StepsSafe m (run r a) b := by
  induction a generalizing r with
  | nil => simp [StepsSafe, run]
  | cons s rest ih => simp only [List.cons_append, StepsSafe, run, List.foldl_cons, ih, and_assoc]

end PdModel.Spec.C08
