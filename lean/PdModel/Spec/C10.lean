/-
C10 – "Replica repair never targets bad stores nor shrinks healthy replication", stated over what
an operator of PD observes: the store records of the cluster view, the region (peers, leader,
down / pending lists), the replication configuration (or the placement rules the region matches,
with the peers assigned to each rule) and the *steps* of the operator a checker proposed.

The record types of this file (Store, Peer, Region, Step, the region simulator) are plain data and
are shared with the C11 spec and with the models.  A label is looked up by key case-insensitively and
location values are compared case-insensitively (`foldEq` = `strings.EqualFold` on ASCII), exactly where
the pinned code does so (`GetLabelValue`, `CompareLocation`); everything else compares exactly.
-/
namespace PdModel.Spec.C10

/-- one store of the cluster view -/
structure Store where
  id          : Nat
  /-- 0 = Up, 1 = Offline, 2 (or more) = Tombstone -/
  state       : Nat := 0
  /-- whole seconds since the last store heartbeat (the clock reading is an input; the real
      `DownTime()` is this plus a positive fraction of a second) -/
  downSecs    : Nat := 0
  busy        : Bool := false
  pauseLeader : Bool := false
  /-- store-limit bucket has tokens for adding / removing a peer -/
  addAvail    : Bool := true
  rmAvail     : Bool := true
  sendSnap    : Nat := 0
  recvSnap    : Nat := 0
  pending     : Nat := 0
  capacity    : Nat := 0
  available   : Nat := 0
  regionCount : Nat := 0
  labels      : List (String × String) := []
  deriving Repr, DecidableEq, Inhabited

/-- role: 0 = Voter, 1 = Learner, 2 = IncomingVoter, 3 = DemotingVoter -/
structure Peer where
  id    : Nat
  store : Nat
  role  : Nat := 0
  /-- created by the region simulator (an operator step added it) -/
  fresh : Bool := false
  deriving Repr, DecidableEq, Inhabited

structure Region where
  peers   : List Peer
  /-- peer id of the leader, 0 = none -/
  leader  : Nat := 0
  /-- (peer id, reported down seconds) -/
  down    : List (Nat × Nat) := []
  /-- peer ids -/
  pending : List Nat := []
  deriving Repr, DecidableEq, Inhabited

def Peer.isLearner (p : Peer) : Bool := p.role == 1
def Peer.inJoint (p : Peer) : Bool := p.role == 2 || p.role == 3
def Region.stores (r : Region) : List Nat := r.peers.map (·.store)
def Region.voters (r : Region) : List Peer := r.peers.filter (fun p => !p.isLearner)
def Region.learners (r : Region) : List Peer := r.peers.filter (·.isLearner)
def Region.storePeer (r : Region) (store : Nat) : Option Peer := r.peers.find? (·.store == store)
def Region.leaderPeer (r : Region) : Option Peer := r.peers.find? (·.id == r.leader)
def Region.leaderStore (r : Region) : Nat := (r.leaderPeer.map (·.store)).getD 0
def Region.isDown (r : Region) (pid : Nat) : Bool := r.down.any (·.1 == pid)
def Region.isPending (r : Region) (pid : Nat) : Bool := r.pending.contains pid

/-- a peer that is neither reported down nor pending; a peer an operator has just created counts
    as healthy -/
def Region.healthy (r : Region) : List Peer :=
  r.peers.filter (fun p => p.fresh || (!(r.isDown p.id) && !(r.isPending p.id)))

/-- the peer an `add` step creates: a new id (larger than all present ones) -/
def Region.newPeer (r : Region) (store role : Nat) : Peer :=
  { id := (r.peers.map (·.id)).foldl max 0 + 1, store := store, role := role, fresh := true }

def findStore (stores : List Store) (id : Nat) : Option Store := stores.find? (·.id == id)

/-- `strings.EqualFold` on ASCII strings -/
def foldEq (a b : String) : Bool := a.toList.map Char.toLower == b.toList.map Char.toLower

/-- value of a label, "" when absent: the first label whose key equals `key` up to case
    (`StoreInfo.GetLabelValue` uses `strings.EqualFold` on the keys) -/
def Store.label (s : Store) (key : String) : String :=
  match s.labels.find? (fun kv => foldEq kv.1 key) with
  | some kv => kv.2
  | none => ""

/-- label constraint; op: 0 = in, 1 = notIn, 2 = exists, 3 = notExists (anything else never matches) -/
structure Constraint where
  key    : String
  op     : Nat
  values : List String := []
  deriving Repr, DecidableEq, Inhabited

def Constraint.matches (c : Constraint) (s : Store) : Bool :=
  let v := s.label c.key
  match c.op with
  | 0 => v != "" && c.values.contains v
  | 1 => v == "" || !(c.values.contains v)
  | 2 => v != ""
  | 3 => v == ""
  | _ => false

/-- labels that make a store exclusive: it may only be used when a constraint names the label -/
def isExclusiveKey (k : String) : Bool :=
  k.toList.head? == some '$' || k == "engine" || k == "exclusive"

/-- the store satisfies a rule's label constraints (including the exclusive-label convention) -/
def matchConstraints (cs : List Constraint) (s : Store) : Bool :=
  s.labels.all (fun kv => !(isExclusiveKey kv.1) || cs.any (·.key == kv.1)) &&
  cs.all (·.matches s)

/-- replication configuration as seen by an operator of PD -/
structure Conf where
  maxReplicas    : Nat := 3
  locationLabels : List String := []
  isolationLevel : String := ""
  /-- low-space-ratio = lowNum / lowDen -/
  lowNum         : Nat := 4
  lowDen         : Nat := 5
  maxDownSecs    : Nat := 1800
  /-- a store that missed heartbeats for this long is disconnected -/
  disconnectSecs : Nat := 20
  /-- a store with fewer regions than this and more free bytes than `freeBytes` is never "low on space" -/
  fewRegions     : Nat := 30
  freeBytes      : Nat := 8589934592
  /-- the make-up-replica feature switch (max-replicas mode) -/
  makeUpEnabled  : Bool := true
  deriving Repr, DecidableEq, Inhabited

def Store.isUp (s : Store) : Bool := s.state == 0
def Store.connected (c : Conf) (s : Store) : Bool := s.downSecs < c.disconnectSecs
def Store.notDown (c : Conf) (s : Store) : Bool := s.downSecs < c.maxDownSecs

/-- free space ratio below 1 − low-space-ratio (nearly empty stores excepted, pd issue #3444) -/
def Store.lowSpace (c : Conf) (s : Store) : Bool :=
  if s.regionCount < c.fewRegions && s.available > c.freeBytes then false
  else if s.capacity == 0 then decide (c.lowNum < c.lowDen)
  else s.available * c.lowDen < s.capacity * (c.lowDen - c.lowNum)

/-- index of the isolation level among the location labels -/
def levelIdx (labels : List String) (level : String) : Option Nat :=
  let i := labels.findIdx (· == level)
  if i < labels.length then some i else none

/-- two stores carry the same values for the first `n+1` location labels -/
def sameUpTo (labels : List String) (n : Nat) (a b : Store) : Bool :=
  (labels.take (n + 1)).all (fun k => a.label k == b.label k)

/-- the candidate does not share its isolation-level location with any of the `co` stores;
    no location labels / no level / a level that is not a location label = no demand -/
def isolationOK (labels : List String) (level : String) (co : List Store) (s : Store) : Bool :=
  if labels.isEmpty || level == "" then true
  else match levelIdx labels level with
    | none => true
    | some n => co.all (fun c => !(sameUpTo labels n c s))

/-- first location label on which both stores carry a value and the values differ -/
def compareLocation (labels : List String) (a b : Store) : Option Nat :=
  let i := labels.findIdx (fun k => a.label k != "" && b.label k != "" && !(foldEq (a.label k) (b.label k)))
  if i < labels.length then some i else none

/-- how distinct the location of `s` is from the `co` stores (`core.DistinctScore`, base 100) -/
def distinctScore (labels : List String) (co : List Store) (s : Store) : Nat :=
  (co.map (fun c =>
    if c.id == s.id then 0
    else match compareLocation labels c s with
      | some i => 100 ^ (labels.length - i - 1)
      | none => 0)).sum

/-- what a matched placement rule demands, with the peers currently assigned to it -/
structure RuleView where
  constraints    : List Constraint := []
  locationLabels : List String := []
  isolationLevel : String := ""
  count          : Nat := 0
  /-- stores of the peers assigned to the rule -/
  peerStores     : List Nat := []
  /-- right number of peers, all with the demanded role -/
  satisfied      : Bool := true
  deriving Repr, DecidableEq, Inhabited

/-- operator steps, abstracted: `add` creates a peer with the given role (0 voter / 1 learner) -/
inductive Step where
  | add (store : Nat) (role : Nat)
  | promote (store : Nat)
  | demote (store : Nat)
  | remove (store : Nat)
  | transfer (store : Nat)
  | other
  deriving Repr, DecidableEq, Inhabited

/-- region simulator: effect of one step -/
def applyStep (r : Region) : Step → Region
  | .add st role => { r with peers := r.peers ++ [r.newPeer st role] }
  | .promote st => { r with peers := r.peers.map (fun p => if p.store == st then { p with role := 0 } else p) }
  | .demote st => { r with peers := r.peers.map (fun p => if p.store == st then { p with role := 1 } else p) }
  | .remove st =>
    { r with peers := r.peers.filter (fun p => p.store != st),
             leader := if r.leaderStore == st then 0 else r.leader }
  | .transfer st =>
    match r.storePeer st with
    | some p => { r with leader := p.id }
    | none => r
  | .other => r

def applySteps (r : Region) (steps : List Step) : Region := steps.foldl applyStep r

def addedStores (steps : List Step) : List Nat :=
  steps.filterMap (fun s => match s with | .add st _ => some st | _ => none)

def removedStores (steps : List Step) : List Nat :=
  steps.filterMap (fun s => match s with | .remove st => some st | _ => none)

/-- what the checker saw -/
structure Input where
  conf    : Conf
  stores  : List Store
  region  : Region
  /-- `none`: replica checker (max-replicas mode); `some rules`: placement-rule checker -/
  rules   : Option (List RuleView) := none
  /-- stores of the peers no rule wants -/
  orphans : List Nat := []
  deriving Repr, Inhabited

/-- store records of the given store ids that exist, without the stores the operator removes -/
def coStores (x : Input) (ids : List Nat) (steps : List Step) : List Store :=
  (ids.filter (fun i => !(removedStores steps).contains i)).filterMap (findStore x.stores)

/-- the candidate is allowed by the isolation level and label constraints in force -/
def placementOK (x : Input) (steps : List Step) (s : Store) : Bool :=
  match x.rules with
  | none => isolationOK x.conf.locationLabels x.conf.isolationLevel (coStores x x.region.stores steps) s
  | some rules =>
    rules.any (fun rv => matchConstraints rv.constraints s &&
      isolationOK rv.locationLabels rv.isolationLevel (coStores x rv.peerStores steps) s)

/-- a store a repair may put a new peer on -/
def goodTarget (x : Input) (steps : List Step) (t : Nat) : Bool :=
  match findStore x.stores t with
  | none => false
  | some s =>
    s.isUp && s.notDown x.conf && s.connected x.conf && !(s.lowSpace x.conf) &&
    !(x.region.stores.contains t) && placementOK x steps s

/-- when may replication shrink -/
def shrinkAllowed (x : Input) (steps : List Step) : Bool :=
  match x.rules with
  | none => x.region.voters.length > x.conf.maxReplicas
  | some rules => rules.all (·.satisfied) && (removedStores steps).all (x.orphans.contains ·)

/-- **the property** for one proposed operator -/
structure Holds (x : Input) (steps : List Step) : Prop where
  /-- peers are added only on good stores -/
  adds   : ∀ t ∈ addedStores steps, goodTarget x steps t = true
  /-- fewer peers, or fewer healthy peers, only when that is allowed -/
  shrink : ((applySteps x.region steps).peers.length < x.region.peers.length ∨
            (applySteps x.region steps).healthy.length < x.region.healthy.length) →
            shrinkAllowed x steps = true
  /-- a replacement adds before it removes: no prefix of the operator leaves the region with fewer
      peers than both its starting and its final number -/
  order  : ∀ k ∈ List.range (steps.length + 1),
            min x.region.peers.length (applySteps x.region steps).peers.length
              ≤ (applySteps x.region (steps.take k)).peers.length

def checkAdds (x : Input) (steps : List Step) : Bool := (addedStores steps).all (goodTarget x steps)

def checkShrink (x : Input) (steps : List Step) : Bool :=
  !(decide ((applySteps x.region steps).peers.length < x.region.peers.length) ||
    decide ((applySteps x.region steps).healthy.length < x.region.healthy.length)) ||
  shrinkAllowed x steps

def checkOrder (x : Input) (steps : List Step) : Bool :=
  (List.range (steps.length + 1)).all (fun k =>
    decide (min x.region.peers.length (applySteps x.region steps).peers.length
      ≤ (applySteps x.region (steps.take k)).peers.length))

/-- executable checker used as the monitor on implementation operators -/
def check (x : Input) (steps : List Step) : Bool := checkAdds x steps && checkShrink x steps && checkOrder x steps

theorem check_iff (x : Input) (steps : List Step) : check x steps = true ↔ Holds x steps := by
  unfold check checkAdds checkShrink checkOrder
  simp only [Bool.and_eq_true, List.all_eq_true, Bool.or_eq_true, Bool.not_eq_true',
    decide_eq_true_eq, Bool.or_eq_false_iff, decide_eq_false_iff_not]
  constructor
  · rintro ⟨⟨h1, h2⟩, h3⟩
    refine ⟨h1, ?_, h3⟩
    intro h
    rcases h2 with ⟨ha, hb⟩ | h2
    · rcases h with h | h
      · exact absurd h ha
      · exact absurd h hb
    · exact h2
  · rintro ⟨h1, h2, h3⟩
    refine ⟨⟨h1, ?_⟩, h3⟩
    by_cases ha : (applySteps x.region steps).peers.length < x.region.peers.length
    · exact Or.inr (h2 (Or.inl ha))
    · by_cases hb : (applySteps x.region steps).healthy.length < x.region.healthy.length
      · exact Or.inr (h2 (Or.inr hb))
      · exact Or.inl ⟨ha, hb⟩

/-! ### liveness clause -/

/-- a fresh, empty store nothing speaks against (apart from placement, judged separately) -/
def Store.fresh (c : Conf) (s : Store) : Bool :=
  s.isUp && s.notDown c && s.connected c && !s.busy && s.addAvail && s.sendSnap == 0 && s.recvSnap == 0 &&
  s.pending == 0 && s.regionCount == 0 && !(s.lowSpace c) &&
  s.labels.all (fun kv => !(foldEq kv.1 "specialUse"))

/-- the region can be operated on: it has a voter leader among its peers, is not in a joint state
    and has one peer per store -/
def Region.operable (r : Region) : Bool :=
  (match r.leaderPeer with | some p => p.role == 0 | none => false) && r.peers.all (fun p => !p.inJoint) &&
  decide r.stores.Nodup

/-- as `isolationOK`, but a level that is not one of the location labels promises nothing -/
def isolationDue (labels : List String) (level : String) (co : List Store) (s : Store) : Bool :=
  if labels.isEmpty || level == "" then true
  else match levelIdx labels level with
    | none => false
    | some n => co.all (fun c => !(sameUpTo labels n c s))

/-- fresh, not holding the region, and no store of the cluster is better isolated from `co` -/
def freshBest (x : Input) (labels : List String) (co : List Store) (s : Store) : Bool :=
  s.fresh x.conf && !(x.region.stores.contains s.id) &&
  x.stores.all (fun s' => decide (distinctScore labels co s' ≤ distinctScore labels co s))

/-- the region lacks a peer and a fresh, best-isolated store that the placement demands allow exists -/
def repairDue (x : Input) : Bool :=
  x.region.operable &&
  match x.rules with
  | none =>
    x.conf.makeUpEnabled && decide (x.region.peers.length < x.conf.maxReplicas) &&
    x.stores.any (fun s => freshBest x x.conf.locationLabels (coStores x x.region.stores []) s &&
      isolationDue x.conf.locationLabels x.conf.isolationLevel (coStores x x.region.stores []) s)
  | some rules =>
    rules.any (fun rv => decide (rv.peerStores.length < rv.count) &&
      x.stores.any (fun s => freshBest x rv.locationLabels (coStores x rv.peerStores []) s &&
        matchConstraints rv.constraints s &&
        isolationDue rv.locationLabels rv.isolationLevel (coStores x rv.peerStores []) s))

/-- **liveness**: when a repair is due, the checker proposes some operator -/
def Live (x : Input) (proposed : Bool) : Prop := repairDue x = true → proposed = true

def checkLive (x : Input) (proposed : Bool) : Bool := !(repairDue x) || proposed

theorem checkLive_iff (x : Input) (p : Bool) : checkLive x p = true ↔ Live x p := by
  unfold checkLive Live
  cases repairDue x <;> simp

end PdModel.Spec.C10
