/-
C18 – "Dynamic configuration changes are validated, atomic and durable", stated over what can be
observed from outside: before and after every update call the served configuration (`Get*Config`) and
what a fresh options object reloads from the same storage, whether the call reported success, and which
section it addressed.  The records below are plain data (fixed-point numbers, strings, lists); no
implementation identifiers.
-/
namespace PdModel.Spec.C18

/-- a float64 as the checks see it: a finite value in units of 10^-6, or one of the non-finite values -/
inductive Fix where
  | fin (v : Int) | nan | pinf | ninf
  deriving DecidableEq, Repr, Inhabited

/-- IEEE `<` -/
def Fix.lt : Fix → Fix → Bool
  | .nan, _ => false
  | _, .nan => false
  | .fin a, .fin b => a < b
  | .fin _, .pinf => true
  | .fin _, .ninf => false
  | .pinf, _ => false
  | .ninf, .ninf => false
  | .ninf, _ => true

/-- IEEE `<=` -/
def Fix.le : Fix → Fix → Bool
  | .nan, _ => false
  | _, .nan => false
  | .fin a, .fin b => a ≤ b
  | .fin _, .pinf => true
  | .fin _, .ninf => false
  | .pinf, .pinf => true
  | .pinf, _ => false
  | .ninf, _ => true

def Fix.isFinite : Fix → Bool
  | .fin _ => true
  | _ => false

def zero : Fix := .fin 0
def one : Fix := .fin 1000000

structure Scheduler where
  type    : String
  args    : String       -- canonical text of the argument list
  disable : Bool
  deriving DecidableEq, Repr, Inhabited

structure StoreLimit where
  store  : Nat
  add    : Fix
  remove : Fix
  deriving DecidableEq, Repr, Inhabited

/-- the scheduling section -/
structure Sched where
  tolerant   : Fix
  low        : Fix
  high       : Fix
  rate       : Fix                 -- deprecated store-balance-rate
  disable    : List Bool           -- deprecated disable-* flags: learner, then the five paired ones
  enable     : List Bool           -- the five enable-* flags paired with disable[1..5]
  other      : String              -- the remaining scalar items (canonical text), never interpreted
  limits     : List StoreLimit
  schedulers : List Scheduler
  deriving DecidableEq, Repr, Inhabited

/-- the replication section -/
structure Repl where
  maxReplicas : Nat
  location    : List String
  strict      : Bool
  rules       : Bool               -- enable-placement-rules
  isolation   : String
  deriving DecidableEq, Repr, Inhabited

/-- the PD-server section -/
structure PdSrv where
  dashboard : String
  trace     : Bool                 -- deprecated trace-region-flow
  digit     : Int                  -- flow-round-by-digit
  other     : String
  deriving DecidableEq, Repr, Inhabited

/-- the replication-mode section -/
structure RMode where
  mode     : String
  labelKey : String
  other    : String
  deriving DecidableEq, Repr, Inhabited

structure LabelProp where
  type   : String
  labels : List (String × String)
  deriving DecidableEq, Repr, Inhabited

/-- the whole dynamic configuration -/
structure Cfg where
  sched   : Sched
  repl    : Repl
  pd      : PdSrv
  labels  : List LabelProp         -- sorted by type, one entry per type
  version : Nat × Nat × Nat
  rmode   : RMode
  deriving DecidableEq, Repr, Inhabited

/-! ### the documented reload normalisation -/

/-- missing default schedulers are re-added (at the end, in the order of the defaults) -/
def addDefaults (defaults : List String) (l : List Scheduler) : List Scheduler :=
  defaults.foldl (fun acc d => if acc.any (fun s => s.type == d) then acc else acc ++ [⟨d, "-", false⟩]) l

/-- a set deprecated disable-flag switches itself and its enable-flag off -/
def migratePairs : List Bool → List Bool → List Bool × List Bool
  | d :: ds, e :: es =>
    let r := migratePairs ds es
    if d then (false :: r.1, false :: r.2) else (false :: r.1, e :: r.2)
  | ds, es => (ds.map (fun _ => false), es)

def normSched (defaults : List String) (s : Sched) : Sched :=
  let r := migratePairs (s.disable.drop 1) s.enable
  { s with rate := zero, disable := (s.disable.take 1).map (fun _ => false) ++ r.1, enable := r.2,
           schedulers := addDefaults defaults s.schedulers }

/-- the deprecated trace flag is cleared (its meaning is carried by the digit) -/
def normPd (p : PdSrv) : PdSrv := { p with trace := false }

def normalise (defaults : List String) (c : Cfg) : Cfg :=
  { c with sched := normSched defaults c.sched, pd := normPd c.pd }

/-! ### the domains -/

def schedDomain (registered : List String) (s : Sched) : Bool :=
  s.tolerant.isFinite && zero.le s.tolerant &&
  s.low.isFinite && zero.le s.low && s.low.le one &&
  s.high.isFinite && zero.le s.high && s.high.le one &&
  s.high.lt s.low &&
  s.schedulers.all (fun x => registered.contains x.type)

def replDomain (r : Repl) : Bool := r.isolation == "" || r.location.contains r.isolation

def pdDomain (p : PdSrv) : Bool := decide (0 ≤ p.digit)

inductive Kind where
  | sched | repl | pd | labels | version | rmode
  | reload      -- the same options object reloads from storage (a member re-elected as leader)
  | foreign     -- another member wrote a configuration to the same storage
  deriving DecidableEq, Repr, Inhabited

structure Obs where
  served   : Cfg
  reloaded : Option Cfg       -- none: nothing stored yet / reload failed
  deriving DecidableEq, Repr, Inhabited

structure Step where
  kind    : Kind
  pre     : Obs
  post    : Obs
  ok      : Bool
  crashed : Bool := false
  deriving Repr, Inhabited

/-- the property for one update call -/
structure StepOk (defaults registered : List String) (s : Step) : Prop where
  completes : s.crashed = false
  /-- a rejected change leaves the served configuration exactly as it was -/
  rejected : s.ok = false → s.post.served = s.pre.served
  /-- an accepted change is what a new leader reloads, up to the reload normalisation -/
  durable : s.kind ≠ .reload → s.kind ≠ .foreign → s.ok = true →
    s.post.reloaded = some (normalise defaults s.post.served)
  /-- after a reload the member serves, in every section, what the storage holds (what a fresh options
      object reloads) -/
  reloaded : s.kind = .reload → s.ok = true →
    (s.post.reloaded = none ∨ s.post.reloaded = some s.post.served)
  /-- somebody else's write does not change what this member serves -/
  foreignKept : s.kind = .foreign → s.post.served = s.pre.served
  /-- values outside their domains are never accepted -/
  domain : s.ok = true →
    (s.kind = .sched → schedDomain registered s.post.served.sched = true) ∧
    (s.kind = .repl → replDomain s.post.served.repl = true) ∧
    (s.kind = .pd → pdDomain s.post.served.pd = true)

def Holds (defaults registered : List String) (steps : List Step) : Prop :=
  ∀ s ∈ steps, StepOk defaults registered s

/-! ### executable checker -/

def checkRejected (s : Step) : Bool := s.ok || decide (s.post.served = s.pre.served)

def checkDurable (defaults : List String) (s : Step) : Bool :=
  s.kind == .reload || s.kind == .foreign || !s.ok ||
  decide (s.post.reloaded = some (normalise defaults s.post.served))

def checkReloaded (s : Step) : Bool :=
  s.kind != .reload || !s.ok || decide (s.post.reloaded = none ∨ s.post.reloaded = some s.post.served)

def checkForeign (s : Step) : Bool :=
  s.kind != .foreign || decide (s.post.served = s.pre.served)

def checkDomain (registered : List String) (s : Step) : Bool :=
  !s.ok ||
  ((s.kind != .sched || schedDomain registered s.post.served.sched) &&
   (s.kind != .repl || replDomain s.post.served.repl) &&
   (s.kind != .pd || pdDomain s.post.served.pd))

def checkStep (defaults registered : List String) (s : Step) : Bool :=
  !s.crashed && checkRejected s && checkDurable defaults s && checkDomain registered s &&
  checkReloaded s && checkForeign s

def violated (defaults registered : List String) (s : Step) : List String :=
  (if s.crashed then ["operation-panicked"] else []) ++
  (if checkRejected s then [] else ["rejected-change-altered-served"]) ++
  (if checkDurable defaults s then [] else ["accepted-change-not-reloaded"]) ++
  (if checkDomain registered s then [] else ["out-of-domain-value-accepted"]) ++
  (if checkReloaded s then [] else ["reload-differs-from-storage"]) ++
  (if checkForeign s then [] else ["foreign-write-altered-served"])

theorem checkDurable_iff (defaults : List String) (s : Step) :
    checkDurable defaults s = true ↔
      (s.kind ≠ .reload → s.kind ≠ .foreign → s.ok = true → s.post.reloaded = some (normalise defaults s.post.served)) := by
  unfold checkDurable
  simp only [Bool.or_eq_true, beq_iff_eq, Bool.not_eq_true', decide_eq_true_eq]
  constructor
  · intro h h1 h2 hok
    rcases h with ((h | h) | h) | h
    · exact absurd h h1
    · exact absurd h h2
    · rw [hok] at h; cases h
    · exact h
  · intro h
    by_cases h1 : s.kind = .reload
    · left; left; left; exact h1
    · by_cases h2 : s.kind = .foreign
      · left; left; right; exact h2
      · cases hok : s.ok with
        | false => left; right; rfl
        | true => right; exact h h1 h2 hok

theorem checkReloaded_iff (s : Step) :
    checkReloaded s = true ↔ (s.kind = .reload → s.ok = true →
      (s.post.reloaded = none ∨ s.post.reloaded = some s.post.served)) := by
  unfold checkReloaded
  simp only [Bool.or_eq_true, bne_iff_ne, ne_eq, Bool.not_eq_true', decide_eq_true_eq]
  constructor
  · intro h hk hok
    rcases h with (h | h) | h
    · exact absurd hk h
    · rw [hok] at h; cases h
    · exact h
  · intro h
    by_cases hk : s.kind = .reload
    · cases hok : s.ok with
      | false => left; right; rfl
      | true => right; exact h hk hok
    · left; left; exact hk

theorem checkForeign_iff (s : Step) :
    checkForeign s = true ↔ (s.kind = .foreign → s.post.served = s.pre.served) := by
  unfold checkForeign
  simp only [Bool.or_eq_true, bne_iff_ne, ne_eq, decide_eq_true_eq]
  constructor
  · intro h hk
    rcases h with h | h
    · exact absurd hk h
    · exact h
  · intro h
    by_cases hk : s.kind = .foreign
    · right; exact h hk
    · left; exact hk

theorem checkRejected_iff (s : Step) : checkRejected s = true ↔ (s.ok = false → s.post.served = s.pre.served) := by
  unfold checkRejected
  simp only [Bool.or_eq_true, decide_eq_true_eq]
  constructor
  · intro h hok
    rcases h with h | h
    · rw [hok] at h; cases h
    · exact h
  · intro h
    cases hok : s.ok with
    | true => left; rfl
    | false => right; exact h hok

theorem checkDomain_iff (registered : List String) (s : Step) :
    checkDomain registered s = true ↔
      (s.ok = true →
        (s.kind = .sched → schedDomain registered s.post.served.sched = true) ∧
        (s.kind = .repl → replDomain s.post.served.repl = true) ∧
        (s.kind = .pd → pdDomain s.post.served.pd = true)) := by
  unfold checkDomain
  simp only [Bool.or_eq_true, Bool.and_eq_true, Bool.not_eq_true', bne_iff_ne, ne_eq]
  constructor
  · intro h hok
    rcases h with h | ⟨⟨ha, hb⟩, hc⟩
    · rw [hok] at h; cases h
    · refine ⟨fun hk => ?_, fun hk => ?_, fun hk => ?_⟩
      · rcases ha with h | h
        · exact absurd hk h
        · exact h
      · rcases hb with h | h
        · exact absurd hk h
        · exact h
      · rcases hc with h | h
        · exact absurd hk h
        · exact h
  · intro h
    cases hok : s.ok with
    | false => left; rfl
    | true =>
      right
      obtain ⟨ha, hb, hc⟩ := h hok
      refine ⟨⟨?_, ?_⟩, ?_⟩
      · by_cases hk : s.kind = .sched
        · right; exact ha hk
        · left; exact hk
      · by_cases hk : s.kind = .repl
        · right; exact hb hk
        · left; exact hk
      · by_cases hk : s.kind = .pd
        · right; exact hc hk
        · left; exact hk

theorem checkStep_iff (defaults registered : List String) (s : Step) :
    checkStep defaults registered s = true ↔ StepOk defaults registered s := by
  unfold checkStep
  simp only [Bool.and_eq_true, Bool.not_eq_true', checkRejected_iff, checkDurable_iff, checkDomain_iff,
    checkReloaded_iff, checkForeign_iff]
  constructor
  · rintro ⟨⟨⟨⟨⟨h0, h1⟩, h2⟩, h3⟩, h4⟩, h5⟩; exact ⟨h0, h1, h2, h4, h5, h3⟩
  · rintro ⟨h0, h1, h2, h4, h5, h3⟩; exact ⟨⟨⟨⟨⟨h0, h1⟩, h2⟩, h3⟩, h4⟩, h5⟩

def check (defaults registered : List String) (steps : List Step) : Bool :=
  steps.all (checkStep defaults registered)

theorem check_iff (defaults registered : List String) (steps : List Step) :
    check defaults registered steps = true ↔ Holds defaults registered steps := by
  unfold check Holds
  simp only [List.all_eq_true, checkStep_iff]

end PdModel.Spec.C18
