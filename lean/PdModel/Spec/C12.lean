/-
C12 – "Rule fitting partitions peers correctly and picks the best assignment", stated over what a
caller of the fitting function can observe: the inputs (stores with labels, the region's peers in
id order, the leader, the ordered rule list) and the result (per rule the peers put into it, the
peers listed as role mismatches and the isolation score; the orphan list; the "satisfied" flag).

Peers are named by their position in the id-ordered peer list of the region.
Core Lean only; no implementation identifiers.
-/
namespace PdModel.Spec.C12

/-! ## Inputs -/

inductive Role where
  | voter | leader | follower | learner
  | invalid            -- any other string
  deriving Repr, DecidableEq, Inhabited

inductive COp where
  | isIn | notIn | exists_ | notExists
  | invalid            -- any other string
  deriving Repr, DecidableEq, Inhabited

structure Label where
  key   : String
  value : String
  deriving Repr, DecidableEq, Inhabited

structure Constraint where
  key    : String
  op     : COp
  values : List String
  deriving Repr, DecidableEq, Inhabited

structure Store where
  id     : Nat
  labels : List Label
  deriving Repr, DecidableEq, Inhabited

structure Rule where
  role   : Role
  count  : Nat
  constraints : List Constraint
  locationLabels : List String
  deriving Repr, DecidableEq, Inhabited

/-- a peer of the region together with the store it lives on (`none`: the store is unknown) -/
structure PeerInfo where
  id       : Nat
  learner  : Bool
  isLeader : Bool
  store    : Option Store
  deriving Repr, DecidableEq, Inhabited

/-! ## Documented semantics of labels, roles and isolation -/

def lowerChar (c : Char) : Char :=
  if 'A' ≤ c ∧ c ≤ 'Z' then Char.ofNat (c.toNat + 32) else c

/-- ASCII case folding (label keys are matched case-insensitively; location values too) -/
def fold (s : String) : String := String.ofList (s.toList.map lowerChar)

/-- value of a label on a store: the first label whose key matches case-insensitively; "" if none -/
def labelValue (s : Store) (key : String) : String :=
  match s.labels.find? (fun l => fold l.key == fold key) with
  | some l => l.value
  | none => ""

/-- `in`: label present and among the values; `notIn`: absent or not among the values;
    `exists` / `notExists`: label present / absent.  An empty value counts as absent. -/
def Constraint.holds (c : Constraint) (s : Store) : Bool :=
  match c.op with
  | .isIn => labelValue s c.key != "" && c.values.contains (labelValue s c.key)
  | .notIn => labelValue s c.key == "" || !c.values.contains (labelValue s c.key)
  | .exists_ => labelValue s c.key != ""
  | .notExists => labelValue s c.key == ""
  | .invalid => false

/-- a label key starting with `$`, or one of the legacy keys, is exclusive: a store carrying it can
    only be used by a rule that names the key in a constraint -/
def isExclusive (key : String) : Bool :=
  (match key.toList with | '$' :: _ => true | _ => false) || key == "engine" || key == "exclusive"

def storeOK (s : Store) (cs : List Constraint) : Bool :=
  s.labels.all (fun l => !isExclusive l.key || cs.any (fun c => c.key == l.key)) &&
  cs.all (fun c => c.holds s)

/-- the role the peer has now equals the role the rule asks for -/
def roleMatches (p : PeerInfo) : Role → Bool
  | .voter => !p.learner
  | .leader => p.isLeader
  | .follower => !p.learner && !p.isLeader
  | .learner => p.learner
  | .invalid => false

/-- the peer can still be converted to the role: everything except voter → learner -/
def canBecome (p : PeerInfo) (r : Role) : Bool := r != .learner || p.learner

/-- may peer `p` be put into rule `r`? -/
def eligible (p : PeerInfo) (r : Rule) : Bool :=
  (match p.store with | some s => storeOK s r.constraints | none => false) && canBecome p r.role

/-- index of the first location label on which two stores carry different (non-empty) values -/
def firstDiff (a b : Store) : List String → Option Nat
  | [] => none
  | k :: ks =>
    if labelValue a k != "" && labelValue b k != "" && fold (labelValue a k) != fold (labelValue b k)
    then some 0 else (firstDiff a b ks).map (· + 1)

def pairScore (labels : List String) (a b : Store) : Nat :=
  match firstDiff a b labels with
  | none => 0
  | some d => 100 ^ (labels.length - d - 1)

/-- isolation score of a set of stores: sum of `100^(L-1-d)` over all unordered pairs, `d` being the
    first location level on which the pair differs -/
def isoScore (labels : List String) : List Store → Nat
  | [] => 0
  | s :: rest => (rest.map (pairScore labels s)).sum + isoScore labels rest

/-! ## Results -/

structure RuleFit where
  peers    : List Nat      -- positions of the peers put into the rule
  mismatch : List Nat      -- those listed with a role that differs from the rule's
  score    : Nat
  deriving Repr, DecidableEq, Inhabited

structure Fit where
  fits      : List RuleFit
  orphans   : List Nat
  satisfied : Bool
  deriving Repr, DecidableEq, Inhabited

/-! ## The documented order -/

/-- per rule: number of peers, number of role mismatches, isolation score -/
structure Key where
  n     : Nat
  mis   : Nat
  score : Nat
  deriving Repr, DecidableEq, Inhabited

/-- 1 = `a` is better: more peers, then fewer mismatches, then higher score -/
def Key.cmp (a b : Key) : Int :=
  if a.n < b.n then -1 else if a.n > b.n then 1
  else if a.mis > b.mis then -1 else if a.mis < b.mis then 1
  else if a.score < b.score then -1 else if a.score > b.score then 1
  else 0

/-- rule by rule, the first difference decides -/
def lexCmp : List Key → List Key → Int
  | a :: as, b :: bs => if Key.cmp a b ≠ 0 then Key.cmp a b else lexCmp as bs
  | _, _ => 0

/-- whole fits: rule by rule, finally fewer orphans -/
def fitCmp (a b : List Key × Nat) : Int :=
  if lexCmp a.1 b.1 ≠ 0 then lexCmp a.1 b.1
  else if a.2 < b.2 then 1 else if a.2 > b.2 then -1 else 0

/-! ## Assignments -/

variable (peers : List PeerInfo)

def peerAt (i : Nat) : Option PeerInfo := peers[i]?

/-- is position `i` a peer that may be put into rule `r`? -/
def elig (r : Rule) (i : Nat) : Bool :=
  match peers[i]? with
  | some p => eligible p r
  | none => false

/-- `ValidFrom rules used A`: `A` gives every rule a set of peers (strictly increasing positions) that
    are eligible for it, not used by an earlier rule (nor in `used`), at most `count` many. -/
def ValidFrom : List Rule → List Nat → List (List Nat) → Prop
  | [], _, [] => True
  | r :: rs, used, a :: as =>
    a.Pairwise (· < ·) ∧ (∀ i ∈ a, elig peers r i = true ∧ i ∉ used) ∧ a.length ≤ r.count ∧
    ValidFrom rs (used ++ a) as
  | _, _, _ => False

def Valid (rules : List Rule) (A : List (List Nat)) : Prop := ValidFrom peers rules [] A

def storesOf (a : List Nat) : List Store :=
  a.filterMap (fun i => (peers[i]?).bind (·.store))

def strictAt (r : Rule) (i : Nat) : Bool :=
  match peers[i]? with
  | some p => roleMatches p r.role
  | none => false

/-- the comparison key of putting the peers `a` into rule `r` -/
def keyOf (r : Rule) (a : List Nat) : Key :=
  { n := a.length, mis := (a.filter (fun i => !strictAt peers r i)).length,
    score := isoScore r.locationLabels (storesOf peers a) }

def keysOf : List Rule → List (List Nat) → List Key
  | r :: rs, a :: as => keyOf peers r a :: keysOf rs as
  | _, _ => []

def orphansOf (A : List (List Nat)) : List Nat :=
  (List.range peers.length).filter (fun i => !A.flatten.contains i)

def RuleFit.key (f : RuleFit) : Key := { n := f.peers.length, mis := f.mismatch.length, score := f.score }

def countsOK : List Rule → List RuleFit → Bool
  | r :: rs, f :: fs => f.peers.length == r.count && f.mismatch.isEmpty && countsOK rs fs
  | [], [] => true
  | _, _ => false

/-- what each reported rule fit must be, given the peers it holds -/
def fitsExact : List Rule → List RuleFit → Prop
  | r :: rs, f :: fs =>
    f.mismatch = f.peers.filter (fun i => !strictAt peers r i) ∧
    f.score = isoScore r.locationLabels (storesOf peers f.peers) ∧ fitsExact rs fs
  | [], [] => True
  | _, _ => False

/-- **the property** for one fitting -/
structure Holds (rules : List Rule) (out : Fit) : Prop where
  /-- every rule holds eligible, distinct, unshared peers, never more than its count -/
  valid     : Valid peers rules (out.fits.map (·.peers))
  /-- everything else is an orphan (so every peer is in exactly one rule or in the orphan list) -/
  orphans   : out.orphans = orphansOf peers (out.fits.map (·.peers))
  /-- role mismatches and isolation scores are listed exactly -/
  exact     : fitsExact peers rules out.fits
  /-- no valid assignment is better under the documented order -/
  optimal   : ∀ A, Valid peers rules A →
                fitCmp (keysOf peers rules A, (orphansOf peers A).length)
                       (out.fits.map (·.key), out.orphans.length) ≠ 1
  /-- satisfied exactly when every rule is filled with matching roles and no orphan remains -/
  satisfied : out.satisfied = (!rules.isEmpty && countsOK rules out.fits && out.orphans.isEmpty)

/-! ## Executable checker (brute force over all valid assignments) -/

/-- all sublists with at most `k` elements -/
def subsUpTo : Nat → List Nat → List (List Nat)
  | _, [] => [[]]
  | 0, _ :: _ => [[]]
  | k + 1, x :: xs => (subsUpTo k xs).map (x :: ·) ++ subsUpTo (k + 1) xs

def cands (r : Rule) (used : List Nat) : List Nat :=
  (List.range peers.length).filter (fun i => elig peers r i && !used.contains i)

def allValid : List Rule → List Nat → List (List (List Nat))
  | [], _ => [[]]
  | r :: rs, used =>
    (subsUpTo r.count (cands peers r used)).flatMap (fun a => (allValid rs (used ++ a)).map (a :: ·))

def validFromB : List Rule → List Nat → List (List Nat) → Bool
  | [], _, [] => true
  | r :: rs, used, a :: as =>
    decide (a.Pairwise (· < ·)) && a.all (fun i => elig peers r i && !used.contains i) &&
    decide (a.length ≤ r.count) && validFromB rs (used ++ a) as
  | _, _, _ => false

def fitsExactB : List Rule → List RuleFit → Bool
  | r :: rs, f :: fs =>
    f.mismatch == f.peers.filter (fun i => !strictAt peers r i) &&
    f.score == isoScore r.locationLabels (storesOf peers f.peers) && fitsExactB rs fs
  | [], [] => true
  | _, _ => false

/-- everything but optimality (linear) -/
def checkShape (rules : List Rule) (out : Fit) : Bool :=
  validFromB peers rules [] (out.fits.map (·.peers)) &&
  out.orphans == orphansOf peers (out.fits.map (·.peers)) &&
  fitsExactB peers rules out.fits &&
  out.satisfied == (!rules.isEmpty && countsOK rules out.fits && out.orphans.isEmpty)

def checkOptimal (rules : List Rule) (out : Fit) : Bool :=
  (allValid peers rules []).all (fun A =>
    fitCmp (keysOf peers rules A, (orphansOf peers A).length)
           (out.fits.map (·.key), out.orphans.length) != 1)

def check (rules : List Rule) (out : Fit) : Bool :=
  checkShape peers rules out && checkOptimal peers rules out

/-- number of assignments `check` enumerates at most: (rules+1)^peers -/
def bruteCost (rules : List Rule) : Nat := (rules.length + 1) ^ peers.length


/-! ## `check` decides `Holds` -/

/-- a strictly increasing list all of whose members occur in a strictly increasing list is a sublist of it -/
theorem sublist_of_sorted : ∀ (l a : List Nat), l.Pairwise (· < ·) → a.Pairwise (· < ·) →
    (∀ x ∈ a, x ∈ l) → a.Sublist l := by
  intro l
  induction l with
  | nil =>
    intro a _ _ hm
    cases a with
    | nil => exact List.Sublist.refl _
    | cons x _ => exact absurd (hm x (List.mem_cons_self)) (by simp)
  | cons y l ih =>
    intro a hl ha hm
    cases a with
    | nil => exact List.nil_sublist _
    | cons x a' =>
      rw [List.pairwise_cons] at hl ha
      by_cases hxy : x = y
      · subst hxy
        refine List.Sublist.cons_cons x (ih a' hl.2 ha.2 ?_)
        intro z hz
        have h1 := hm z (List.mem_cons_of_mem _ hz)
        have h2 := ha.1 z hz
        rcases List.mem_cons.1 h1 with h | h
        · omega
        · exact h
      · refine List.Sublist.cons y (ih (x :: a') hl.2 (List.pairwise_cons.2 ha) ?_)
        intro z hz
        have h1 := hm z hz
        rcases List.mem_cons.1 h1 with h | h
        · -- z = y: impossible, x ∈ l so y < x ≤ z
          subst h
          have hx := hm x List.mem_cons_self
          rcases List.mem_cons.1 hx with h' | h'
          · exact absurd h' hxy
          · have := hl.1 x h'
            rcases List.mem_cons.1 hz with h'' | h''
            · omega
            · have := ha.1 z h''; omega
        · exact h


theorem mem_subsUpTo : ∀ (l : List Nat) (k : Nat) (a : List Nat),
    a ∈ subsUpTo k l ↔ a.Sublist l ∧ a.length ≤ k := by
  intro l
  induction l with
  | nil =>
    intro k a
    cases k <;> simp [subsUpTo] <;> intro h <;> simp [h]
  | cons x xs ih =>
    intro k a
    cases k with
    | zero =>
      simp only [subsUpTo, List.mem_singleton, Nat.le_zero_eq, List.length_eq_zero_iff]
      constructor
      · intro h; subst h; exact ⟨List.nil_sublist _, rfl⟩
      · exact fun h => h.2
    | succ k =>
      simp only [subsUpTo, List.mem_append, List.mem_map, ih, List.sublist_cons_iff]
      constructor
      · rintro (⟨a', ⟨h1, h2⟩, rfl⟩ | ⟨h1, h2⟩)
        · exact ⟨Or.inr ⟨a', rfl, h1⟩, by simpa using h2⟩
        · exact ⟨Or.inl h1, h2⟩
      · rintro ⟨h1 | ⟨a', rfl, h1⟩, h2⟩
        · exact Or.inr ⟨h1, h2⟩
        · exact Or.inl ⟨a', ⟨h1, by simpa using h2⟩, rfl⟩

theorem elig_lt (peers : List PeerInfo) (r : Rule) (i : Nat) (h : elig peers r i = true) : i < peers.length := by
  unfold elig at h
  rcases Nat.lt_or_ge i peers.length with h' | h'
  · exact h'
  · simp [List.getElem?_eq_none h'] at h

theorem sublist_cands (peers : List PeerInfo) (r : Rule) (used a : List Nat) :
    a.Sublist (cands peers r used) ↔ a.Pairwise (· < ·) ∧ ∀ i ∈ a, elig peers r i = true ∧ i ∉ used := by
  have hs : (cands peers r used).Pairwise (· < ·) := List.Pairwise.filter _ List.pairwise_lt_range
  have hm : ∀ i, i ∈ cands peers r used ↔ (elig peers r i = true ∧ i ∉ used) := by
    intro i
    simp only [cands, List.mem_filter, List.mem_range, Bool.and_eq_true, Bool.not_eq_true',
      List.contains_eq_mem, decide_eq_false_iff_not]
    exact ⟨fun h => h.2, fun h => ⟨elig_lt peers r i h.1, h⟩⟩
  constructor
  · intro h
    exact ⟨List.Pairwise.sublist h hs, fun i hi => (hm i).1 (h.subset hi)⟩
  · rintro ⟨h1, h2⟩
    exact sublist_of_sorted _ _ hs h1 (fun x hx => (hm x).2 (h2 x hx))

theorem mem_allValid (peers : List PeerInfo) : ∀ (rules : List Rule) (used : List Nat) (A : List (List Nat)),
    A ∈ allValid peers rules used ↔ ValidFrom peers rules used A := by
  intro rules
  induction rules with
  | nil => intro used A; cases A <;> simp [allValid, ValidFrom]
  | cons r rs ih =>
    intro used A
    cases A with
    | nil => simp [allValid, ValidFrom]
    | cons a as =>
      simp only [allValid, List.mem_flatMap, List.mem_map, List.cons.injEq, mem_subsUpTo, ValidFrom,
        sublist_cands]
      constructor
      · rintro ⟨a', ⟨⟨h1, h2⟩, h3⟩, A', h4, rfl, rfl⟩
        exact ⟨h1, h2, h3, (ih _ _).1 h4⟩
      · rintro ⟨h1, h2, h3, h4⟩
        exact ⟨a, ⟨⟨h1, h2⟩, h3⟩, as, (ih _ _).2 h4, rfl, rfl⟩

theorem validFromB_iff (peers : List PeerInfo) : ∀ (rules : List Rule) (used : List Nat) (A : List (List Nat)),
    validFromB peers rules used A = true ↔ ValidFrom peers rules used A := by
  intro rules
  induction rules with
  | nil => intro used A; cases A <;> simp [validFromB, ValidFrom]
  | cons r rs ih =>
    intro used A
    cases A with
    | nil => simp [validFromB, ValidFrom]
    | cons a as =>
      simp only [validFromB, ValidFrom, Bool.and_eq_true, decide_eq_true_eq, List.all_eq_true,
        Bool.not_eq_true', List.contains_eq_mem, decide_eq_false_iff_not, ih, and_assoc]

theorem fitsExactB_iff (peers : List PeerInfo) : ∀ (rules : List Rule) (fits : List RuleFit),
    fitsExactB peers rules fits = true ↔ fitsExact peers rules fits := by
  intro rules
  induction rules with
  | nil => intro fits; cases fits <;> simp [fitsExactB, fitsExact]
  | cons r rs ih =>
    intro fits
    cases fits with
    | nil => simp [fitsExactB, fitsExact]
    | cons f fs => simp only [fitsExactB, fitsExact, Bool.and_eq_true, beq_iff_eq, ih, and_assoc]

/-- the executable checker decides the property -/
theorem check_iff (peers : List PeerInfo) (rules : List Rule) (out : Fit) :
    check peers rules out = true ↔ Holds peers rules out := by
  unfold check checkShape checkOptimal
  simp only [Bool.and_eq_true, validFromB_iff, beq_iff_eq, fitsExactB_iff, List.all_eq_true, mem_allValid,
    bne_iff_ne, ne_eq]
  constructor
  · rintro ⟨⟨⟨⟨h1, h2⟩, h3⟩, h4⟩, h5⟩
    exact ⟨h1, h2, h3, h5, h4⟩
  · intro h
    exact ⟨⟨⟨⟨h.valid, h.orphans⟩, h.exact⟩, h.satisfied⟩, h.optimal⟩

end PdModel.Spec.C12
