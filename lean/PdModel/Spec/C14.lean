import PdModel.Prelude.StoreCfgMap
/-
C14 – "Store lifecycle is a one-way state machine and stays durable", stated over what can be observed
from outside: before and after every operation the served store records (`GetStores`, with weights and
the number of region peers the store holds) and the stored ones (`LoadStores` + the weight keys), the
kind of the operation, whether it reported success, and which store writes the storage refused.
No implementation identifiers.
-/
namespace PdModel.Spec.C14
open PdModel.AMap

inductive Life where
  | up | offline | tombstone
  deriving DecidableEq, Repr, Inhabited

/-- a store record as a client / an operator sees it -/
structure Rec where
  addr      : String
  state     : Life
  destroyed : Bool                 -- "declared physically destroyed"
  version   : Nat × Nat × Nat
  start     : Nat
  labels    : List (String × String)
  deriving DecidableEq, Repr, Inhabited

/-- served: record, balance weights (fixed point), region peers held -/
structure SRec where
  rec_    : Rec
  lw      : Nat
  rw      : Nat
  regions : Nat
  deriving DecidableEq, Repr, Inhabited

/-- stored: record and the weight keys (absent = none) -/
structure DRec where
  rec_ : Rec
  lw   : Option Nat
  rw   : Option Nat
  deriving DecidableEq, Repr, Inhabited

structure Obs where
  served : AMap SRec := []
  stored : AMap DRec := []
  deriving Repr, Inhabited

inductive Kind where
  | rpcPut (id : Nat)         -- registration through the RPC
  | rpcHeartbeat (id : Nat)   -- store heartbeat through the RPC
  | weight (id : Nat)         -- weight update of one store
  | sweep                     -- tombstone clean-up (several stores, stops at the first refused write)
  | directBury                -- the burying routine entered directly (by-passing the background check)
  | other
  deriving DecidableEq, Repr, Inhabited

structure Step where
  kind    : Kind
  pre     : Obs
  post    : Obs
  ok      : Bool            -- the operation reported success
  refused : Bool            -- the RPC answered "store is tombstone"
  crashed : Bool := false   -- the operation did not return (the handler panicked)
  failed  : List Nat        -- ids of the stores whose write the storage refused during the operation
  deriving Repr, Inhabited

def liveRec (r : Rec) : Bool := r.state != .tombstone && !r.destroyed

/-- allowed change of one store's record across one operation -/
def fwd (a b : Rec) : Bool :=
  (a.state != .tombstone || b.state == .tombstone) &&          -- tombstone is absorbing
  (a.state != .up || b.state != .tombstone) &&                 -- up is left through offline only
  (!(a.state == .offline && b.state == .up) || !a.destroyed) && -- back to up unless destroyed
  (!a.destroyed || b.destroyed)                                 -- the declaration is permanent

/-- same record and weights (region bookkeeping aside) -/
def sameServed (a b : Option SRec) : Bool :=
  match a, b with
  | none, none => true
  | some x, some y => x.rec_ == y.rec_ && x.lw == y.lw && x.rw == y.rw
  | _, _ => false

def targetOf : Kind → Option Nat
  | .rpcPut id => some id
  | .rpcHeartbeat id => some id
  | _ => none

/-- the state moves only forward; a record disappears only as a tombstone -/
def Forward (s : Step) : Prop :=
  ∀ (id : Nat) (a : SRec), get s.pre.served id = some a →
    match get s.post.served id with
    | some b => fwd a.rec_ b.rec_ = true
    | none => a.rec_.state = .tombstone

/-- the stored records move only forward as well: what is stored decides what a new leader serves -/
def StoredForward (s : Step) : Prop :=
  ∀ (id : Nat) (a : DRec), get s.pre.stored id = some a →
    match get s.post.stored id with
    | some b => fwd a.rec_ b.rec_ = true
    | none => a.rec_.state = .tombstone

/-- heartbeats and re-registrations of a tombstone store are refused and change nothing -/
def TombstoneRefused (s : Step) : Prop :=
  ∀ (id : Nat) (a : SRec), targetOf s.kind = some id → get s.pre.served id = some a → a.rec_.state = .tombstone →
    s.refused = true ∧ s.ok = false ∧
    (∀ j, get s.post.served j = get s.pre.served j) ∧ (∀ j, get s.post.stored j = get s.pre.stored j)

/-- a store is buried only while it holds no region peers -/
def BuryOnlyEmpty (s : Step) : Prop :=
  s.kind ≠ .directBury →
  ∀ (id : Nat) (a b : SRec), get s.pre.served id = some a → get s.post.served id = some b →
    a.rec_.state ≠ .tombstone → b.rec_.state = .tombstone → a.regions = 0

/-- stores that are neither tombstone nor destroyed have pairwise different addresses -/
def AddressesUnique (o : Obs) : Prop :=
  ∀ (i j : Nat) (a b : SRec), get o.served i = some a → get o.served j = some b → i ≠ j →
    liveRec a.rec_ = true → liveRec b.rec_ = true → a.rec_.addr ≠ b.rec_.addr

/-- after a successful operation stored = served (and the weight keys after a weight update) -/
def Durable (s : Step) : Prop :=
  s.ok = true →
    (∀ id, (get s.post.stored id).map (·.rec_) = (get s.post.served id).map (·.rec_)) ∧
    (∀ id, s.kind = .weight id → ∀ a, get s.post.served id = some a →
      ∃ d, get s.post.stored id = some d ∧ d.lw = some a.lw ∧ d.rw = some a.rw)

/-- a refused write leaves the served record of that store as it was; an operation on one store that
    reports failure leaves every served record as it was -/
def FailedUnchanged (s : Step) : Prop :=
  (∀ id ∈ s.failed, sameServed (get s.pre.served id) (get s.post.served id) = true) ∧
  (s.ok = false → s.kind ≠ .sweep → ∀ id, sameServed (get s.pre.served id) (get s.post.served id) = true)

/-- the property for one observed operation -/
structure StepOk (s : Step) : Prop where
  completes : s.crashed = false
  forward   : Forward s
  storedFwd : StoredForward s
  refused   : TombstoneRefused s
  bury      : BuryOnlyEmpty s
  addresses : AddressesUnique s.post
  durable   : Durable s
  failed    : FailedUnchanged s

/-- the property for a history -/
def Holds (steps : List Step) : Prop := ∀ s ∈ steps, StepOk s

/-! ### executable checker -/

def ids (s : Step) : List Nat :=
  keys s.pre.served ++ keys s.post.served ++ keys s.pre.stored ++ keys s.post.stored

def checkForward (s : Step) : Bool :=
  allGet s.pre.served (fun id a =>
    match get s.post.served id with
    | some b => fwd a.rec_ b.rec_
    | none => a.rec_.state == .tombstone)

def checkStoredForward (s : Step) : Bool :=
  allGet s.pre.stored (fun id a =>
    match get s.post.stored id with
    | some b => fwd a.rec_ b.rec_
    | none => a.rec_.state == .tombstone)

def refusedAt (s : Step) (id : Nat) : Bool :=
  match get s.pre.served id with
  | none => true
  | some a =>
    a.rec_.state != .tombstone ||
    (s.refused && !s.ok &&
      (ids s).all (fun j => get s.post.served j == get s.pre.served j && get s.post.stored j == get s.pre.stored j))

def checkRefused (s : Step) : Bool :=
  match targetOf s.kind with
  | none => true
  | some id => refusedAt s id

def checkBury (s : Step) : Bool :=
  s.kind == .directBury ||
  allGet s.pre.served (fun id a =>
    match get s.post.served id with
    | some b => a.rec_.state == .tombstone || b.rec_.state != .tombstone || a.regions == 0
    | none => true)

def checkAddresses (o : Obs) : Bool :=
  allGet o.served (fun i a => allGet o.served (fun j b =>
    i == j || !liveRec a.rec_ || !liveRec b.rec_ || a.rec_.addr != b.rec_.addr))

def checkDurable (s : Step) : Bool :=
  !s.ok ||
  ((ids s).all (fun id => (get s.post.stored id).map (·.rec_) == (get s.post.served id).map (·.rec_)) &&
   (match s.kind with
    | .weight id =>
      match get s.post.served id with
      | none => true
      | some a => match get s.post.stored id with
        | none => false
        | some d => d.lw == some a.lw && d.rw == some a.rw
    | _ => true))

def checkFailed (s : Step) : Bool :=
  s.failed.all (fun id => sameServed (get s.pre.served id) (get s.post.served id)) &&
  (s.ok || s.kind == .sweep || (ids s).all (fun id => sameServed (get s.pre.served id) (get s.post.served id)))

def checkStep (s : Step) : Bool :=
  !s.crashed && checkForward s && checkStoredForward s && checkRefused s && checkBury s && checkAddresses s.post && checkDurable s && checkFailed s

/-- names of the violated conjuncts (for the monitor's `sig=`) -/
def violated (s : Step) : List String :=
  (if s.crashed then ["operation-panicked"] else []) ++
  (if checkForward s then [] else ["state-moved-backwards"]) ++
  (if checkStoredForward s then [] else ["stored-state-moved-backwards"]) ++
  (if checkRefused s then [] else ["tombstone-not-refused"]) ++
  (if checkBury s then [] else ["buried-with-regions"]) ++
  (if checkAddresses s.post then [] else ["live-address-shared"]) ++
  (if checkDurable s then [] else ["stored-differs-from-served"]) ++
  (if checkFailed s then [] else ["failed-write-changed-served"])

/-! ### the checker decides the property -/

theorem not_mem_ids_served_pre (s : Step) (j : Nat) (h : j ∉ ids s) : get s.pre.served j = none := by
  apply get_none_of_not_mem_keys; intro hk; exact h (by simp [ids, hk])
theorem not_mem_ids_served_post (s : Step) (j : Nat) (h : j ∉ ids s) : get s.post.served j = none := by
  apply get_none_of_not_mem_keys; intro hk; exact h (by simp [ids, hk])
theorem not_mem_ids_stored_pre (s : Step) (j : Nat) (h : j ∉ ids s) : get s.pre.stored j = none := by
  apply get_none_of_not_mem_keys; intro hk; exact h (by simp [ids, hk])
theorem not_mem_ids_stored_post (s : Step) (j : Nat) (h : j ∉ ids s) : get s.post.stored j = none := by
  apply get_none_of_not_mem_keys; intro hk; exact h (by simp [ids, hk])

/-- a check over `ids` that is trivially true off `ids` is a check over all ids -/
theorem all_ids_iff (s : Step) (p : Nat → Bool)
    (hp : ∀ j, get s.pre.served j = none → get s.post.served j = none → get s.pre.stored j = none →
      get s.post.stored j = none → p j = true) :
    (ids s).all p = true ↔ ∀ j, p j = true := by
  simp only [List.all_eq_true]
  constructor
  · intro h j
    by_cases hj : j ∈ ids s
    · exact h j hj
    · exact hp j (not_mem_ids_served_pre s j hj) (not_mem_ids_served_post s j hj)
        (not_mem_ids_stored_pre s j hj) (not_mem_ids_stored_post s j hj)
  · intro h j _; exact h j

theorem checkForward_iff (s : Step) : checkForward s = true ↔ Forward s := by
  unfold checkForward Forward
  rw [allGet_iff]
  constructor
  · intro h id a ha
    have := h id a ha
    cases hb : get s.post.served id with
    | none => simpa [hb] using this
    | some b => simpa [hb] using this
  · intro h id a ha
    have := h id a ha
    cases hb : get s.post.served id with
    | none => simpa [hb] using this
    | some b => simpa [hb] using this

theorem checkStoredForward_iff (s : Step) : checkStoredForward s = true ↔ StoredForward s := by
  unfold checkStoredForward StoredForward
  rw [allGet_iff]
  constructor
  · intro h id a ha
    have := h id a ha
    cases hb : get s.post.stored id with
    | none => simpa [hb] using this
    | some b => simpa [hb] using this
  · intro h id a ha
    have := h id a ha
    cases hb : get s.post.stored id with
    | none => simpa [hb] using this
    | some b => simpa [hb] using this

theorem checkRefused_iff (s : Step) : checkRefused s = true ↔ TombstoneRefused s := by
  unfold checkRefused TombstoneRefused
  have key : (ids s).all (fun j => get s.post.served j == get s.pre.served j && get s.post.stored j == get s.pre.stored j) = true ↔
      ∀ j, (get s.post.served j == get s.pre.served j && get s.post.stored j == get s.pre.stored j) = true :=
    all_ids_iff s _ (by intro j h1 h2 h3 h4; simp [h1, h2, h3, h4])
  cases ht : targetOf s.kind with
  | none =>
    constructor
    · intro _ id a h; cases h
    · intro _; rfl
  | some id =>
    show refusedAt s id = true ↔ _
    unfold refusedAt
    cases ha : get s.pre.served id with
    | none =>
      constructor
      · intro _ id' a' hid ha'; cases hid; rw [ha] at ha'; cases ha'
      · intro _; rfl
    | some a =>
      simp only [Bool.or_eq_true, Bool.and_eq_true, bne_iff_ne, ne_eq, Bool.not_eq_true', key, beq_iff_eq]
      constructor
      · intro h id' a' hid ha' hst
        cases hid; rw [ha] at ha'; cases ha'
        rcases h with h | ⟨⟨hr, hok⟩, hall⟩
        · exact absurd hst h
        · exact ⟨hr, hok, fun j => (hall j).1, fun j => (hall j).2⟩
      · intro h
        by_cases hst : a.rec_.state = .tombstone
        · apply Or.inr
          obtain ⟨hr, hok, h1, h2⟩ := h id a rfl ha hst
          exact ⟨⟨hr, hok⟩, fun j => ⟨h1 j, h2 j⟩⟩
        · exact Or.inl hst

theorem checkBury_iff (s : Step) : checkBury s = true ↔ BuryOnlyEmpty s := by
  unfold checkBury BuryOnlyEmpty
  simp only [Bool.or_eq_true, beq_iff_eq, allGet_iff]
  constructor
  · intro h hk id a b ha hb h1 h2
    rcases h with h | h
    · exact absurd h hk
    · have := h id a ha
      simp only [hb, Bool.or_eq_true, beq_iff_eq, bne_iff_ne, ne_eq] at this
      rcases this with (h3 | h3) | h3
      · exact absurd h3 h1
      · exact absurd h2 h3
      · exact h3
  · intro h
    by_cases hk : s.kind = .directBury
    · left; exact hk
    · right
      intro id a ha
      cases hb : get s.post.served id with
      | none => rfl
      | some b =>
        simp only [Bool.or_eq_true, beq_iff_eq, bne_iff_ne, ne_eq]
        by_cases h1 : a.rec_.state = .tombstone
        · left; left; exact h1
        · by_cases h2 : b.rec_.state = .tombstone
          · right; exact h hk id a b ha hb h1 h2
          · left; right; exact h2

theorem checkAddresses_iff (o : Obs) : checkAddresses o = true ↔ AddressesUnique o := by
  unfold checkAddresses AddressesUnique
  simp only [allGet_iff, Bool.or_eq_true, beq_iff_eq, Bool.not_eq_true', bne_iff_ne, ne_eq]
  constructor
  · intro h i j a b ha hb hij la lb
    rcases h i a ha j b hb with ((h1 | h1) | h1) | h1
    · exact absurd h1 hij
    · rw [la] at h1; cases h1
    · rw [lb] at h1; cases h1
    · exact h1
  · intro h i a ha j b hb
    by_cases hij : i = j
    · left; left; left; exact hij
    · cases la : liveRec a.rec_ with
      | false => left; left; right; rfl
      | true =>
        cases lb : liveRec b.rec_ with
        | false => left; right; rfl
        | true => right; exact h i j a b ha hb hij la lb

theorem checkDurable_iff (s : Step) : checkDurable s = true ↔ Durable s := by
  unfold checkDurable Durable
  have key : (ids s).all (fun id => (get s.post.stored id).map (·.rec_) == (get s.post.served id).map (·.rec_)) = true ↔
      ∀ id, ((get s.post.stored id).map (·.rec_) == (get s.post.served id).map (·.rec_)) = true :=
    all_ids_iff s _ (by intro j _ h2 _ h4; simp [h2, h4])
  cases hok : s.ok with
  | false => simp
  | true =>
    simp only [Bool.not_true, Bool.false_or, Bool.and_eq_true, key, beq_iff_eq, true_implies]
    apply and_congr Iff.rfl
    cases hk : s.kind with
    | weight id =>
      simp only
      constructor
      · intro h id' hid a ha
        cases hid
        simp only [ha] at h
        cases hd : get s.post.stored id with
        | none => simp [hd] at h
        | some d =>
          simp only [hd, Bool.and_eq_true, beq_iff_eq] at h
          exact ⟨d, rfl, h.1, h.2⟩
      · intro h
        cases ha : get s.post.served id with
        | none => rfl
        | some a =>
          obtain ⟨d, hd, h1, h2⟩ := h id rfl a ha
          simp [hd, h1, h2]
    | rpcPut id => simp
    | rpcHeartbeat id => simp
    | sweep => simp
    | directBury => simp
    | other => simp

theorem checkFailed_iff (s : Step) : checkFailed s = true ↔ FailedUnchanged s := by
  unfold checkFailed FailedUnchanged
  have key : (ids s).all (fun id => sameServed (get s.pre.served id) (get s.post.served id)) = true ↔
      ∀ id, sameServed (get s.pre.served id) (get s.post.served id) = true :=
    all_ids_iff s _ (by intro j h1 h2 _ _; simp [h1, h2, sameServed])
  simp only [Bool.and_eq_true, List.all_eq_true, Bool.or_eq_true, beq_iff_eq, key]
  apply and_congr Iff.rfl
  constructor
  · intro h hok hk
    rcases h with (h | h) | h
    · rw [hok] at h; cases h
    · exact absurd h hk
    · exact h
  · intro h
    cases hok : s.ok with
    | true => left; left; rfl
    | false =>
      by_cases hk : s.kind = .sweep
      · left; right; exact hk
      · right; exact h hok hk

theorem checkStep_iff (s : Step) : checkStep s = true ↔ StepOk s := by
  unfold checkStep
  simp only [Bool.and_eq_true, checkForward_iff, checkStoredForward_iff, checkRefused_iff, checkBury_iff, checkAddresses_iff,
    checkDurable_iff, checkFailed_iff, Bool.not_eq_true']
  constructor
  · rintro ⟨⟨⟨⟨⟨⟨⟨h0, h1⟩, h1'⟩, h2⟩, h3⟩, h4⟩, h5⟩, h6⟩; exact ⟨h0, h1, h1', h2, h3, h4, h5, h6⟩
  · rintro ⟨h0, h1, h1', h2, h3, h4, h5, h6⟩; exact ⟨⟨⟨⟨⟨⟨⟨h0, h1⟩, h1'⟩, h2⟩, h3⟩, h4⟩, h5⟩, h6⟩

/-- the checker over a whole history -/
def check (steps : List Step) : Bool := steps.all checkStep

theorem check_iff (steps : List Step) : check steps = true ↔ Holds steps := by
  unfold check Holds
  simp only [List.all_eq_true, checkStep_iff]

end PdModel.Spec.C14
