import PdModel.Model.RegionTree
import PdModel.Spec.C07
/-!
C06 – "Region cache never regresses and never holds overlapping regions", over observables only:
the heartbeats that were delivered, the answer to each (ok / error), and – after each – the set of regions
PD serves (`S`, in key order) and the region metas found in storage (`M`).

The record types (`Region`, `Meta`, `Key`) and the list functions `put` / `displaced` / `Overlap` of
Spec.C07 are re-used; nothing of the cache implementation is mentioned.
-/
namespace PdModel.Spec.C06
open PdModel.RegionTree (Key Peer Region Meta metaOf)
open PdModel.Spec.C07 (Overlap put displaced)

/-- what "not going back" means between two served versions of one region id: version and
    conf-version do not decrease; the raft term does not decrease when the newer one reports a term -/
def NotBehind (o n : Region) : Prop :=
  o.version ≤ n.version ∧ o.confVer ≤ n.confVer ∧ (n.term > 0 → o.term ≤ n.term)
instance (o n : Region) : Decidable (NotBehind o n) := inferInstanceAs (Decidable (_ ∧ _ ∧ _))

/-- no two served regions intersect -/
def NoOverlap (S : List Region) : Prop := S.Pairwise (fun a b => ¬ Overlap a b)
instance (S : List Region) : Decidable (NoOverlap S) := inferInstanceAs (Decidable (List.Pairwise _ _))

/-- the heartbeat is staler than the served region of the same id, or older in version than a served
    region whose range it intersects -/
def MustReject (S : List Region) (r : Region) : Prop :=
  (∃ o ∈ S, o.id = r.id ∧ ¬ NotBehind o r) ∨ (∃ y ∈ S, Overlap y r ∧ r.version < y.version)
instance (S : List Region) (r : Region) : Decidable (MustReject S r) := inferInstanceAs (Decidable (_ ∨ _))

inductive Verdict where
  | ok | stale
  deriving DecidableEq, Repr

def lookup (M : List (Nat × Meta)) (id : Nat) : Option Meta := (M.find? (fun e => e.1 = id)).map (·.2)

/-- storage after a heartbeat that displaced `gone`: the displaced ids are deleted, the heartbeat's own
    record is the old one or the new meta, everything else is untouched -/
def StoredOk (M M' : List (Nat × Meta)) (r : Region) (gone : List Region) : Prop :=
  (∀ y ∈ gone, lookup M' y.id = none) ∧
  (lookup M' r.id = lookup M r.id ∨ lookup M' r.id = some (metaOf r)) ∧
  (∀ e ∈ M ++ M', e.1 ≠ r.id → (∀ y ∈ gone, y.id ≠ e.1) → lookup M' e.1 = lookup M e.1)
instance (M M' : List (Nat × Meta)) (r : Region) (gone : List Region) : Decidable (StoredOk M M' r gone) :=
  inferInstanceAs (Decidable (_ ∧ _ ∧ _))

/-- the last served version of every id that was ever served (ids that were displaced keep their entry) -/
abbrev History := List (Nat × Region)

def lastServed (H : History) (id : Nat) : Option Region := (H.find? (fun e => e.1 = id)).map (·.2)

def record (H : History) (S : List Region) : History :=
  S.map (fun y => (y.id, y)) ++ H.filter (fun e => ! S.any (fun y => y.id = e.1))

def NotBehindOpt : Option Region → Region → Prop
  | some o, y => NotBehind o y
  | none, _ => True
instance (o : Option Region) (y : Region) : Decidable (NotBehindOpt o y) := by
  cases o <;> unfold NotBehindOpt <;> exact inferInstance

/-- nothing served now is behind what was served for the same id before (even across a displacement) -/
def NoRegress (H : History) (S' : List Region) : Prop := ∀ y ∈ S', NotBehindOpt (lastServed H y.id) y
instance (H : History) (S' : List Region) : Decidable (NoRegress H S') :=
  inferInstanceAs (Decidable (∀ y ∈ S', _))

/-- one heartbeat handled on its own: `S`/`M` before, answer, `S'`/`M'` after -/
def StepOk (H : History) (S : List Region) (M : List (Nat × Meta)) (r : Region) (v : Verdict)
    (S' : List Region) (M' : List (Nat × Meta)) : Prop :=
  NoOverlap S' ∧ NoRegress H S' ∧
  (MustReject S r → v = .stale) ∧
  (v = .stale → S' = S ∧ M' = M) ∧
  (v = .ok → (S' = S ∧ StoredOk M M' r []) ∨ (S' = put S r ∧ StoredOk M M' r (displaced S r)))
instance (H S M r v S' M') : Decidable (StepOk H S M r v S' M') :=
  inferInstanceAs (Decidable (_ ∧ _ ∧ _ ∧ _ ∧ _))

/-- handling one heartbeat atomically, as far as the served set goes (the answer may be `stale` with
    nothing changed; `ok` needs a heartbeat that must not be rejected and serves the old set or the old set
    with the region put) -/
def SeqStep (S : List Region) (r : Region) (v : Verdict) (S' : List Region) : Prop :=
  (v = .stale ∧ S' = S) ∨ (v = .ok ∧ ¬ MustReject S r ∧ (S' = S ∨ S' = put S r))
instance (S r v S') : Decidable (SeqStep S r v S') := inferInstanceAs (Decidable (_ ∨ _))

/-- all ways to take one element out of a list -/
def picks {α : Type} : List α → List (α × List α)
  | [] => []
  | x :: xs => (x, xs) :: (picks xs).map (fun p => (p.1, x :: p.2))

/-- served sets reachable by handling the heartbeats one at a time in some order (fuel = their number) -/
def reachable : Nat → List Region → List (Region × Verdict) → List (List Region)
  | 0, S, _ => [S]
  | _, S, [] => [S]
  | n + 1, S, hbs =>
    (picks hbs).flatMap (fun p =>
      let (r, v) := p.1
      let nexts := match v with
        | .stale => [S]
        | .ok => if MustReject S r then [] else [S, put S r]
      nexts.flatMap (fun S1 => reachable n S1 p.2))

/-- a batch of concurrently handled heartbeats is explained by handling them one at a time in some order -/
def ConcOk (H : History) (S : List Region) (hbs : List (Region × Verdict)) (S' : List Region) : Prop :=
  NoOverlap S' ∧ NoRegress H S' ∧ S' ∈ reachable hbs.length S hbs
instance (H S hbs S') : Decidable (ConcOk H S hbs S') := inferInstanceAs (Decidable (_ ∧ _ ∧ _))

/-! ### batched region storage (leveldb with a write batch): what is on disk lags behind -/

/-- storage on disk after a heartbeat that displaced `gone`, when saves go through a write batch: the displaced
    ids are gone from disk at once, nothing else is deleted, and whatever appears or changes on disk (a flush of
    the batch) belongs to a region that is served -/
def StoredOkBatched (S' : List Region) (M M' : List (Nat × Meta)) (gone : List Region) : Prop :=
  (∀ y ∈ gone, lookup M' y.id = none) ∧
  (∀ e ∈ M, (∀ y ∈ gone, y.id ≠ e.1) → lookup M' e.1 ≠ none) ∧
  (∀ e ∈ M', lookup M e.1 = some e.2 ∨ ∃ y ∈ S', y.id = e.1)
instance (S' : List Region) (M M' : List (Nat × Meta)) (gone : List Region) : Decidable (StoredOkBatched S' M M' gone) :=
  inferInstanceAs (Decidable (_ ∧ _ ∧ _))

/-- one heartbeat at a time, batched storage -/
def StepOkBatched (H : History) (S : List Region) (M : List (Nat × Meta)) (r : Region) (v : Verdict)
    (S' : List Region) (M' : List (Nat × Meta)) : Prop :=
  NoOverlap S' ∧ NoRegress H S' ∧
  (MustReject S r → v = .stale) ∧
  (v = .stale → S' = S ∧ M' = M) ∧
  (v = .ok → (S' = S ∧ StoredOkBatched S' M M' []) ∨ (S' = put S r ∧ StoredOkBatched S' M M' (displaced S r)))
instance (H S M r v S' M') : Decidable (StepOkBatched H S M r v S' M') :=
  inferInstanceAs (Decidable (_ ∧ _ ∧ _ ∧ _ ∧ _))

/-- an explicit flush of the batch: nothing is deleted, what appears or changes belongs to a served region -/
def FlushOk (S : List Region) (M M' : List (Nat × Meta)) : Prop := StoredOkBatched S M M' []
instance (S M M') : Decidable (FlushOk S M M') := inferInstanceAs (Decidable (StoredOkBatched _ _ _ _))

/-! ### a heartbeat held at its first storage write while others are handled -/

inductive GateOut where
  /-- answered without a storage write -/
  | done (v : Verdict)
  /-- stopped immediately before its first storage write -/
  | parked
  deriving DecidableEq, Repr

/-- a heartbeat that runs until its first storage write (or to its answer): nothing is written; an error means
    nothing changed at all; otherwise the served set is the old one or the old one with the region put -/
def GateOk (H : History) (S : List Region) (M : List (Nat × Meta)) (r : Region) (o : GateOut)
    (S' : List Region) (M' : List (Nat × Meta)) : Prop :=
  NoOverlap S' ∧ NoRegress H S' ∧ M' = M ∧
  (MustReject S r → o = .done .stale) ∧
  (o = .done .stale → S' = S) ∧
  (o ≠ .done .stale → S' = S ∨ S' = put S r)
instance (H S M r o S' M') : Decidable (GateOk H S M r o S' M') :=
  inferInstanceAs (Decidable (_ ∧ _ ∧ _ ∧ _ ∧ _ ∧ _))

/-- the held heartbeat is let go and answers `v` (other heartbeats may have been handled in between, so its
    storage writes can be old news – that is not judged): **a heartbeat answered with an error has changed
    nothing**, neither what is served nor what is stored -/
def ReleaseOk (H : History) (S : List Region) (M : List (Nat × Meta)) (r : Region) (v : Verdict)
    (S' : List Region) (M' : List (Nat × Meta)) : Prop :=
  NoOverlap S' ∧ NoRegress H S' ∧
  (v = .stale → S' = S ∧ M' = M) ∧
  (v = .ok → S' = S ∨ S' = put S r)
instance (H S M r v S' M') : Decidable (ReleaseOk H S M r v S' M') :=
  inferInstanceAs (Decidable (_ ∧ _ ∧ _ ∧ _))

/-! ### the answer, at the server's stream interface -/

/-- a heartbeat arriving on stream `sender`; `errOn` = the streams on which an error answer was seen afterwards.
    A heartbeat that must be refused is answered with an error **on the stream it came from** and nothing changes;
    an error answer means nothing changed; without one the served set is the old one or the old one with the
    region put -/
def StreamOk (H : History) (S : List Region) (r : Region) (sender : String) (errOn : List String)
    (S' : List Region) : Prop :=
  NoOverlap S' ∧ NoRegress H S' ∧
  (MustReject S r → errOn = [sender]) ∧
  (errOn ≠ [] → S' = S ∧ errOn = [sender]) ∧
  (errOn = [] → S' = S ∨ S' = put S r)
instance (H S r sender errOn S') : Decidable (StreamOk H S r sender errOn S') :=
  inferInstanceAs (Decidable (_ ∧ _ ∧ _ ∧ _ ∧ _))

/-! ### readers that run while heartbeats are handled -/

/-- rounds of concurrent heartbeats of ONE region with ever higher versions (`r` carries the highest) while a
    client polls the region: the client never sees the version go back (`back` = the first such pair of versions),
    and afterwards the served set is the old one with the highest version put (or unchanged if that one must be
    refused) -/
def RaceOk (H : History) (S : List Region) (r : Region) (back : Option (Nat × Nat)) (S' : List Region) : Prop :=
  NoOverlap S' ∧ NoRegress H S' ∧ back = none ∧ S' = if MustReject S r then S else put S r
instance (H S r back S') : Decidable (RaceOk H S r back S') := inferInstanceAs (Decidable (_ ∧ _ ∧ _ ∧ _))

/-- (an excerpt of) one answer of a range scan that ran while heartbeats were handled: in key order and pairwise
    disjoint -/
def ScanAnswerOk (answer : List Region) : Prop :=
  NoOverlap answer ∧ answer.Pairwise (fun a b => a.startKey < b.startKey)
instance (answer : List Region) : Decidable (ScanAnswerOk answer) := inferInstanceAs (Decidable (_ ∧ _))

inductive Ev where
  /-- one heartbeat at a time -/
  | hb (r : Region) (v : Verdict) (S' : List Region) (M' : List (Nat × Meta))
  /-- a batch handled concurrently; storage is only read back, not judged -/
  | conc (hbs : List (Region × Verdict)) (S' : List Region) (M' : List (Nat × Meta))
  /-- one heartbeat at a time, region storage with a write batch (`M'` = what is on disk) -/
  | hbBatched (r : Region) (v : Verdict) (S' : List Region) (M' : List (Nat × Meta))
  | flush (M' : List (Nat × Meta))
  /-- a heartbeat run up to its first storage write -/
  | gate (r : Region) (o : GateOut) (S' : List Region) (M' : List (Nat × Meta))
  /-- … and let go later -/
  | release (r : Region) (v : Verdict) (S' : List Region) (M' : List (Nat × Meta))
  /-- a heartbeat sent on a server stream (storage is not observed here) -/
  | stream (r : Region) (sender : String) (errOn : List String) (S' : List Region)
  | race (r : Region) (back : Option (Nat × Nat)) (S' : List Region)
  /-- an answer of ScanRegions given while heartbeats were handled (what is served afterwards is `S'`) -/
  | scanned (answer : List Region) (S' : List Region)

/-- the property over a trace -/
def Holds : History → List Region → List (Nat × Meta) → List Ev → Prop
  | _, _, _, [] => True
  | H, S, M, .hb r v S' M' :: es => StepOk H S M r v S' M' ∧ Holds (record H S') S' M' es
  | H, S, _, .conc hbs S' M' :: es => ConcOk H S hbs S' ∧ Holds (record H S') S' M' es
  | H, S, M, .hbBatched r v S' M' :: es => StepOkBatched H S M r v S' M' ∧ Holds (record H S') S' M' es
  | H, S, M, .flush M' :: es => FlushOk S M M' ∧ Holds H S M' es
  | H, S, M, .gate r o S' M' :: es => GateOk H S M r o S' M' ∧ Holds (record H S') S' M' es
  | H, S, M, .release r v S' M' :: es => ReleaseOk H S M r v S' M' ∧ Holds (record H S') S' M' es
  | H, S, M, .stream r sender errOn S' :: es => StreamOk H S r sender errOn S' ∧ Holds (record H S') S' M es
  | H, S, M, .race r back S' :: es => RaceOk H S r back S' ∧ Holds (record H S') S' M es
  | H, _, M, .scanned answer S' :: es => ScanAnswerOk answer ∧ Holds (record H S') S' M es

def check : History → List Region → List (Nat × Meta) → List Ev → Bool
  | _, _, _, [] => true
  | H, S, M, .hb r v S' M' :: es => decide (StepOk H S M r v S' M') && check (record H S') S' M' es
  | H, S, _, .conc hbs S' M' :: es => decide (ConcOk H S hbs S') && check (record H S') S' M' es
  | H, S, M, .hbBatched r v S' M' :: es => decide (StepOkBatched H S M r v S' M') && check (record H S') S' M' es
  | H, S, M, .flush M' :: es => decide (FlushOk S M M') && check H S M' es
  | H, S, M, .gate r o S' M' :: es => decide (GateOk H S M r o S' M') && check (record H S') S' M' es
  | H, S, M, .release r v S' M' :: es => decide (ReleaseOk H S M r v S' M') && check (record H S') S' M' es
  | H, S, M, .stream r sender errOn S' :: es => decide (StreamOk H S r sender errOn S') && check (record H S') S' M es
  | H, S, M, .race r back S' :: es => decide (RaceOk H S r back S') && check (record H S') S' M es
  | H, _, M, .scanned answer S' :: es => decide (ScanAnswerOk answer) && check (record H S') S' M es

theorem check_iff (H : History) (S : List Region) (M : List (Nat × Meta)) (es : List Ev) :
    check H S M es = true ↔ Holds H S M es := by
  induction es generalizing H S M with
  | nil => simp [check, Holds]
  | cons e es ih =>
    cases e with
    | hb r v S' M' => simp [check, Holds, ih]
    | conc hbs S' M' => simp [check, Holds, ih]
    | hbBatched r v S' M' => simp [check, Holds, ih]
    | flush M' => simp [check, Holds, ih]
    | gate r o S' M' => simp [check, Holds, ih]
    | release r v S' M' => simp [check, Holds, ih]
    | stream r sender errOn S' => simp [check, Holds, ih]
    | race r back S' => simp [check, Holds, ih]
    | scanned answer S' => simp [check, Holds, ih]

end PdModel.Spec.C06
