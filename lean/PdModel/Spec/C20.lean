/-
C20 – "A cluster is bootstrapped exactly once and keeps one identity", stated over what clients and an
observer of the stored records can see.  No implementation identifiers.

Events, in real-time order:
  `req r p`        bootstrap request `r` is issued with payload `p`
  `resp r k`       request `r` is answered: accepted, refused, or failed with an error that leaves the
                   outcome unknown (storage error)
  `recs x`         the stored bootstrap records are observed to be `x`
-/
namespace PdModel.Spec.C20

/-- what a bootstrap request carries -/
structure Info where
  store     : Option Nat          -- id of the first store, none = no store given
  region    : Option Nat          -- id of the first region
  keysEmpty : Bool                -- the region covers the whole key space
  peers     : List (Nat × Nat)    -- (peer id, store id)
  foreign   : Bool                -- the request names another cluster id
  deriving Repr, DecidableEq

/-- a well-formed payload: a store and a region with non-zero ids, the whole key range, exactly one
    peer, with a non-zero id, on that store -/
def Info.wellFormed (p : Info) : Bool :=
  match p.store, p.region, p.peers with
  | some s, some g, [(pid, ps)] => s != 0 && g != 0 && p.keysEmpty && pid != 0 && ps == s
  | _, _, _ => false

inductive Kind where
  | accepted | refused | unknown
  deriving Repr, DecidableEq

structure Recs where
  cluster : Option Nat := none    -- cluster id in the stored cluster meta
  stores  : List Nat := []
  regions : List Nat := []
  time    : Bool := false         -- bootstrap time recorded
  deriving Repr, DecidableEq

inductive Ev where
  | req (r : Nat) (p : Info)
  | resp (r : Nat) (k : Kind)
  | recs (x : Recs)
  deriving Repr, DecidableEq

def getEv (evs : List Ev) (i : Nat) : Ev := evs.getD i (.recs {})

def isAccepted : Ev → Bool | .resp _ .accepted => true | _ => false

/-- `e` issues the request that `a` answers, with a well-formed payload for this cluster -/
def issuesGood (e a : Ev) : Bool :=
  match e, a with
  | .req r p, .resp r' _ => r == r' && p.wellFormed && !p.foreign
  | _, _ => false

def isGoodReq : Ev → Bool | .req _ p => p.wellFormed && !p.foreign | _ => false

/-- `o` is not an observation, or shows exactly the records of request `e` for cluster `cid` -/
def recordsOf (cid : Nat) (o e : Ev) : Bool :=
  match o, e with
  | .recs x, .req _ p => x == { cluster := some cid, stores := p.store.toList, regions := p.region.toList, time := true }
  | .recs _, _ => false
  | _, _ => true

def isComplete : Ev → Bool | .recs x => x != {} | _ => false

/-- `o` is not an observation, or is one equal to the observation `c` -/
def sameRecs (c o : Ev) : Bool :=
  match o with
  | .recs _ => o == c
  | _ => true

/-- `a` refuses the request issued by `e` -/
def refuses (a e : Ev) : Bool :=
  match a, e with
  | .resp r .refused, .req r' _ => r == r'
  | _, _ => false

/-- at most one request is accepted -/
def AtMostOneAccepted (evs : List Ev) : Prop :=
  ∀ i, i < evs.length → ∀ j, j < evs.length →
    isAccepted (getEv evs i) = true → isAccepted (getEv evs j) = true → i = j

/-- an accepted request was well-formed and for this cluster, and from its acceptance on the stored meta,
    store and region are exactly its own -/
def AcceptedIsSource (cid : Nat) (evs : List Ev) : Prop :=
  ∀ k, k < evs.length → isAccepted (getEv evs k) = true →
    ∃ j, j < k ∧ issuesGood (getEv evs j) (getEv evs k) = true ∧
      ∀ l, l < evs.length → k < l → recordsOf cid (getEv evs l) (getEv evs j) = true

/-- once there are records they never change -/
def RecordsStable (evs : List Ev) : Prop :=
  ∀ i, i < evs.length → ∀ j, j < evs.length → i < j →
    isComplete (getEv evs i) = true → sameRecs (getEv evs i) (getEv evs j) = true

/-- records are all-or-nothing and come from ONE well-formed request that is never refused (so a refused
    request has changed nothing) -/
def RecordsFromOneRequest (cid : Nat) (evs : List Ev) : Prop :=
  ∀ j, j < evs.length → isComplete (getEv evs j) = true →
    ∃ i, i < j ∧ isGoodReq (getEv evs i) = true ∧ recordsOf cid (getEv evs j) (getEv evs i) = true ∧
      ∀ l, l < evs.length → refuses (getEv evs l) (getEv evs i) = false

instance (evs : List Ev) : Decidable (AtMostOneAccepted evs) := by unfold AtMostOneAccepted; infer_instance
instance (cid : Nat) (evs : List Ev) : Decidable (AcceptedIsSource cid evs) := by
  unfold AcceptedIsSource; infer_instance
instance (evs : List Ev) : Decidable (RecordsStable evs) := by unfold RecordsStable; infer_instance
instance (cid : Nat) (evs : List Ev) : Decidable (RecordsFromOneRequest cid evs) := by
  unfold RecordsFromOneRequest; infer_instance

/-- the property for cluster id `cid` -/
def Holds (cid : Nat) (evs : List Ev) : Prop :=
  AtMostOneAccepted evs ∧ AcceptedIsSource cid evs ∧ RecordsStable evs ∧ RecordsFromOneRequest cid evs

instance (cid : Nat) (evs : List Ev) : Decidable (Holds cid evs) := by unfold Holds; infer_instance

/-- executable checker -/
def check (cid : Nat) (evs : List Ev) : Bool := decide (Holds cid evs)

theorem check_iff (cid : Nat) (evs : List Ev) : check cid evs = true ↔ Holds cid evs := by
  simp [check]

/-! ### cluster id -/

/-- all members that initialise the cluster id are given one and the same value -/
def IdAgree (given : List Nat) : Prop := ∀ a ∈ given, ∀ b ∈ given, a = b

def idCheck (given : List Nat) : Bool := given.all fun a => given.all fun b => a == b

theorem idCheck_iff (given : List Nat) : idCheck given = true ↔ IdAgree given := by
  simp [idCheck, IdAgree, List.all_eq_true]

end PdModel.Spec.C20
