/-
C19 – "DR auto-sync only declares 'sync' when every region is in sync", stated over what can be
observed from outside the replication-mode manager:

  * the replication state that is served (state, state id) before and after an operation,
  * during an operation, in order: the ids obtained from the id allocator, the statuses offered to all
    members, the statuses written to storage (with the outcome of the write) – each together with the
    state that was served at that very moment,
  * the facts the decision is about: failed stores / replicas per data centre, whether the wait
    time-out has passed, and the replication status every region has reported so far.

No implementation identifiers.  Keys are naturals; an end key 0 means +∞.
-/
namespace PdModel.Spec.C19

inductive DrState where
  | none | sync | async | syncRecover
  deriving Repr, DecidableEq, Inhabited

/-- served replication state: state and state id -/
abbrev Served := DrState × Nat

/-- what a region reported: its range, whether it has integrity over the label, under which state id -/
structure Report where
  start     : Nat
  end_      : Nat
  integrity : Bool
  sid       : Nat
  deriving Repr, DecidableEq

/-- key `k` lies in `r`, and `r` reported integrity under state id `id` -/
def Report.Covers (r : Report) (id k : Nat) : Prop :=
  r.integrity = true ∧ r.sid = id ∧ r.start ≤ k ∧ (r.end_ = 0 ∨ k < r.end_)

/-- every key of the whole key space lies in a region that has reported integrity under `id` -/
def Covered (rs : List Report) (id : Nat) : Prop :=
  ∀ k : Nat, ∃ r ∈ rs, r.Covers id k

def coversB (r : Report) (id k : Nat) : Bool :=
  r.integrity && r.sid == id && decide (r.start ≤ k) && (r.end_ == 0 || decide (k < r.end_))

theorem coversB_iff (r : Report) (id k : Nat) : coversB r id k = true ↔ r.Covers id k := by
  simp [coversB, Report.Covers, and_assoc]

def pointB (rs : List Report) (id k : Nat) : Bool := rs.any (fun r => coversB r id k)

theorem pointB_iff (rs : List Report) (id k : Nat) : pointB rs id k = true ↔ ∃ r ∈ rs, r.Covers id k := by
  simp [pointB, coversB_iff]

/-- executable form: key 0 and the end key of every region that reported integrity under `id` are
    covered (that is enough: the first uncovered key would be 0 or such an end key) -/
def coveredB (rs : List Report) (id : Nat) : Bool :=
  pointB rs id 0 &&
  rs.all (fun r => !(r.integrity && r.sid == id && r.end_ != 0) || pointB rs id r.end_)

theorem coveredB_iff (rs : List Report) (id : Nat) : coveredB rs id = true ↔ Covered rs id := by
  constructor
  · intro h
    simp only [coveredB, Bool.and_eq_true, List.all_eq_true, Bool.or_eq_true, Bool.not_eq_true',
      pointB_iff] at h
    obtain ⟨h0, hall⟩ := h
    intro k
    induction k with
    | zero => exact h0
    | succ k ih =>
      obtain ⟨r, hr, hi, hs, hle, hend⟩ := ih
      by_cases hk : r.end_ = 0 ∨ k + 1 < r.end_
      · exact ⟨r, hr, hi, hs, by omega, hk⟩
      · have he : r.end_ = k + 1 := by omega
        rcases hall r hr with hf | hp
        · simp [hi, hs, he] at hf
        · rw [he] at hp; exact hp
  · intro h
    simp only [coveredB, Bool.and_eq_true, List.all_eq_true, Bool.or_eq_true, Bool.not_eq_true',
      pointB_iff]
    exact ⟨h 0, fun r _ => Or.inr (h r.end_)⟩

/-- the facts a periodic check decides on -/
structure Facts where
  downP   : Nat     -- failed stores in the primary data centre
  downD   : Nat     -- failed stores in the dr data centre
  repP    : Nat     -- replicas in the primary data centre
  repD    : Nat     -- replicas in the dr data centre
  timeout : Bool    -- the wait time-out has passed
  deriving Repr, DecidableEq

/-- both data centres have fewer failed stores than replicas -/
def Facts.canSync (f : Facts) : Prop := f.downP < f.repP ∧ f.downD < f.repD

/-- replicas that can still be up -/
def Facts.up (f : Facts) : Nat := (f.repP - f.downP) + (f.repD - f.downD)

/-- a majority of all replicas can still be up -/
def Facts.hasMajority (f : Facts) : Prop := f.up * 2 > f.repP + f.repD

instance (f : Facts) : Decidable f.canSync := by unfold Facts.canSync; infer_instance
instance (f : Facts) : Decidable f.hasMajority := by unfold Facts.hasMajority; infer_instance

/-- why an operation may change the served state -/
inductive Cause where
  | tick (f : Facts)   -- the periodic check in dr-auto-sync mode, deciding on `f`
  | enable             -- the configuration was switched from majority to dr-auto-sync
  | relabel            -- the label key was changed (documented, deliberate jump to async)
  | init               -- first start in dr-auto-sync mode, nothing persisted yet
  | other
  deriving Repr, DecidableEq

/-- is the transition of the served state from `a` to `b` allowed? -/
def Allowed (c : Cause) (rs : List Report) (a b : Served) : Prop :=
  match c, b.1 with
  | .tick f, .async       => ¬ f.canSync ∧ f.hasMajority ∧ f.timeout = true ∧ a.1 ≠ .async
  | .relabel, .async      => True
  | .tick f, .syncRecover => f.canSync ∧ a.1 = .async
  | .enable, .syncRecover => True
  | .tick _, .sync        => a.1 = .syncRecover ∧ Covered rs a.2
  | .init, .sync          => True
  | _, _                  => False

def allowedB (c : Cause) (rs : List Report) (a b : Served) : Bool :=
  match c, b.1 with
  | .tick f, .async       => decide (¬ f.canSync) && decide f.hasMajority && f.timeout && decide (a.1 ≠ .async)
  | .relabel, .async      => true
  | .tick f, .syncRecover => decide f.canSync && decide (a.1 = .async)
  | .enable, .syncRecover => true
  | .tick _, .sync        => decide (a.1 = .syncRecover) && coveredB rs a.2
  | .init, .sync          => true
  | _, _                  => false

theorem allowedB_iff (c : Cause) (rs : List Report) (a b : Served) :
    allowedB c rs a b = true ↔ Allowed c rs a b := by
  obtain ⟨bs, bi⟩ := b
  cases c <;> cases bs <;> simp [allowedB, Allowed, coveredB_iff, and_assoc]

/-- what happens, in order, while an operation runs -/
inductive Ev where
  | idFail                                                   -- the id allocator returned an error
  | id (n : Nat)                                             -- an id was obtained
  | offer (st : DrState) (id : Nat) (seen : Served)          -- a status was offered to all members
  | persist (st : DrState) (id : Nat) (ok : Bool) (seen : Served)   -- a status was written to storage
  deriving Repr, DecidableEq

/-- `Run c rs cur used evs fin`: starting with `cur` served and the ids `used` handed out before, the
    events `evs` are a sequence of attempted state switches, each

      obtain an id that was never used before ; offer ; persist – all while the *old* state is still
      served ; and only a successful persist is followed by serving the new state, which must be an
      allowed transition;

    a failed id allocation or persist leaves the served state unchanged; at the end `fin` is served. -/
inductive Run (c : Cause) (rs : List Report) : Served → List Nat → List Ev → Served → Prop where
  | done (cur used) : Run c rs cur used [] cur
  | idFail (cur used evs fin) : Run c rs cur used evs fin → Run c rs cur used (.idFail :: evs) fin
  | failed (cur used evs fin st id) :
      id ∉ used → Run c rs cur (id :: used) evs fin →
      Run c rs cur used (.id id :: .offer st id cur :: .persist st id false cur :: evs) fin
  | switched (cur used evs fin st id) :
      id ∉ used → Allowed c rs cur (st, id) → Run c rs (st, id) (id :: used) evs fin →
      Run c rs cur used (.id id :: .offer st id cur :: .persist st id true cur :: evs) fin

/-- executable checker (the monitor) -/
def runB (c : Cause) (rs : List Report) : Served → List Nat → List Ev → Served → Bool
  | cur, _, [], fin => cur == fin
  | cur, used, .idFail :: evs, fin => runB c rs cur used evs fin
  | cur, used, .id n :: .offer st i s1 :: .persist st' i' ok s2 :: evs, fin =>
    i == n && i' == n && st' == st && s1 == cur && s2 == cur && !used.contains n &&
    (if ok then allowedB c rs cur (st, n) && runB c rs (st, n) (n :: used) evs fin
     else runB c rs cur (n :: used) evs fin)
  | _, _, _, _ => false

theorem runB_sound (c : Cause) (rs : List Report) (cur : Served) (used : List Nat) (evs : List Ev)
    (fin : Served) (h : runB c rs cur used evs fin = true) : Run c rs cur used evs fin := by
  fun_induction runB c rs cur used evs fin with
  | case1 cur used fin =>
    have : cur = fin := by simpa using h
    subst this; exact .done _ _
  | case2 cur used evs fin ih => exact .idFail _ _ _ _ (ih h)
  | case3 cur used n st i s1 st' i' ok s2 evs fin ih1 ih2 =>
    simp only [Bool.and_eq_true, beq_iff_eq, Bool.not_eq_true', List.contains_eq_mem,
      decide_eq_false_iff_not] at h
    obtain ⟨⟨⟨⟨⟨⟨rfl, rfl⟩, rfl⟩, rfl⟩, rfl⟩, hn⟩, hrest⟩ := h
    cases ok with
    | true =>
      simp only [if_true, Bool.and_eq_true] at hrest
      exact .switched _ _ _ _ _ _ hn ((allowedB_iff _ _ _ _).1 hrest.1) (ih1 hrest.2)
    | false =>
      simp only [Bool.false_eq_true, if_false] at hrest
      exact .failed _ _ _ _ _ _ hn (ih2 hrest)
  | case4 => simp at h

theorem runB_iff (c : Cause) (rs : List Report) (cur : Served) (used : List Nat) (evs : List Ev)
    (fin : Served) : runB c rs cur used evs fin = true ↔ Run c rs cur used evs fin := by
  constructor
  · exact runB_sound c rs cur used evs fin
  · intro h
    induction h with
    | done cur used => simp [runB]
    | idFail cur used evs fin _ ih => simpa [runB] using ih
    | failed cur used evs fin st id hn _ ih => simp [runB, hn, ih]
    | switched cur used evs fin st id hn ha _ ih => simp [runB, hn, ih, (allowedB_iff _ _ _ _).2 ha]

/-- what is observed of one operation -/
structure Obs where
  cause   : Cause
  reports : List Report     -- everything regions have reported up to the end of the operation
  before  : Served          -- served when the operation starts
  evs     : List Ev
  after   : Served          -- served when it has returned

def idsOf (evs : List Ev) : List Nat :=
  evs.filterMap (fun e => match e with | .id n => some n | _ => none)

/-- **the property over a whole history**: every operation is a `Run`; `used` are the ids obtained before it -/
def Holds : List Nat → List Obs → Prop
  | _, [] => True
  | used, o :: os => Run o.cause o.reports o.before used o.evs o.after ∧ Holds (idsOf o.evs ++ used) os

def check : List Nat → List Obs → Bool
  | _, [] => true
  | used, o :: os => runB o.cause o.reports o.before used o.evs o.after && check (idsOf o.evs ++ used) os

theorem check_iff (used : List Nat) (os : List Obs) : check used os = true ↔ Holds used os := by
  induction os generalizing used with
  | nil => simp [check, Holds]
  | cons o os ih => simp [check, Holds, runB_iff, ih]

/-- every performed switch of a `Run` was an allowed transition from the state that was served while
    it was being persisted -/
theorem Run.persist_allowed {c rs cur used evs fin} (h : Run c rs cur used evs fin) (st : DrState) (id : Nat)
    (seen : Served) (hm : Ev.persist st id true seen ∈ evs) : Allowed c rs seen (st, id) := by
  induction h with
  | done cur used => simp at hm
  | idFail cur used evs fin _ ih => simp at hm; exact ih hm
  | failed cur used evs fin st' id' _ _ ih => simp at hm; exact ih hm
  | switched cur used evs fin st' id' _ ha _ ih =>
    simp at hm
    rcases hm with ⟨rfl, rfl, rfl⟩ | hm
    · exact ha
    · exact ih hm

end PdModel.Spec.C19
