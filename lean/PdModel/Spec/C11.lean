import PdModel.Spec.C10
/-
C11 – "Scatter and balance moves preserve a region's replica count and roles", stated over what an
operator of PD observes: the store records, the region, and the steps of an operator that region
scatter or a scheduler produced (record types and the region simulator are those of Spec/C10).

"Up store" = state Up and store heartbeats arriving: the last one is not older than the disconnect
threshold (20 s) – PD itself reports a store that missed its heartbeats as "Disconnected" and, later,
"Down", not as "Up" (server/api/store.go), and every peer-moving call site of the pinned code filters such
stores out.  Busy / throttled stores are still "up".  "Accepts leaders" = the store exists,
is Up, not down, leader transfer is not paused and it carries no reject-leader label.  Only for the
*forced* variant – grant-leader, whose target store is named by the administrator – it means: the store
exists and is not a tombstone.  Region scatter also builds its operator with a forced target leader (to
get past the leader schedule limit), but it picks that leader itself, so it is held to the full clause.
-/
namespace PdModel.Spec.C11
open PdModel.Spec.C10

structure Input where
  conf         : Conf
  stores       : List Store
  region       : Region
  /-- label property reject-leader -/
  rejectLeader : List (String × String) := []
  /-- the operator hands the leader to a store the administrator named (grant-leader) -/
  forced       : Bool := false
  deriving Repr, Inhabited

def upStore (x : Input) (id : Nat) : Bool :=
  match findStore x.stores id with
  | none => false
  | some s => s.isUp && s.notDown x.conf && s.connected x.conf

def acceptsLeader (x : Input) (id : Nat) : Bool :=
  match findStore x.stores id with
  | none => false
  | some s =>
    if x.forced then decide (s.state < 2)
    else s.isUp && s.notDown x.conf && !s.pauseLeader && !(s.labels.any (fun kv => x.rejectLeader.contains kv))

/-- one transfer step, judged in the region as it is when the step runs -/
def transferOK (x : Input) (r : Region) (t : Nat) : Bool :=
  (match r.storePeer t with
   | some p => !p.isLearner
   | none => false) &&
  acceptsLeader x t && r.leaderStore != t

/-- all transfer steps of the operator, each in the state its predecessors produce -/
def transfersOK (x : Input) : Region → List Step → Bool
  | _, [] => true
  | r, .transfer t :: rest => transferOK x r t && transfersOK x (applyStep r (.transfer t)) rest
  | r, s :: rest => transfersOK x (applyStep r s) rest

/-- **the property** for one operator -/
structure Holds (x : Input) (steps : List Step) : Prop where
  /-- same number of voters and of learners afterwards -/
  voters   : (applySteps x.region steps).voters.length = x.region.voters.length
  learners : (applySteps x.region steps).learners.length = x.region.learners.length
  /-- at most one peer per store afterwards (if that was so before) -/
  distinct : x.region.stores.Nodup → (applySteps x.region steps).stores.Nodup
  /-- peers are created only on up stores that hold no peer of the region, never on a store the
      same operator removes a peer from -/
  targets  : ∀ t ∈ addedStores steps,
              upStore x t = true ∧ x.region.stores.contains t = false ∧ (removedStores steps).contains t = false
  /-- the leader only moves to a voter on a store that accepts leaders, and never to where it is -/
  leaders  : transfersOK x x.region steps = true

def checkCounts (x : Input) (steps : List Step) : Bool :=
  decide ((applySteps x.region steps).voters.length = x.region.voters.length) &&
  decide ((applySteps x.region steps).learners.length = x.region.learners.length)

def checkDistinct (x : Input) (steps : List Step) : Bool :=
  !(decide x.region.stores.Nodup) || decide (applySteps x.region steps).stores.Nodup

def checkTargets (x : Input) (steps : List Step) : Bool :=
  (addedStores steps).all (fun t =>
    upStore x t && !(x.region.stores.contains t) && !((removedStores steps).contains t))

/-- executable checker used as the monitor -/
def check (x : Input) (steps : List Step) : Bool :=
  checkCounts x steps && checkDistinct x steps && checkTargets x steps && transfersOK x x.region steps

theorem check_iff (x : Input) (steps : List Step) : check x steps = true ↔ Holds x steps := by
  unfold check checkCounts checkDistinct checkTargets
  simp only [Bool.and_eq_true, decide_eq_true_eq, Bool.or_eq_true, Bool.not_eq_true', decide_eq_false_iff_not,
    List.all_eq_true]
  constructor
  · rintro ⟨⟨⟨⟨h1, h2⟩, h3⟩, h4⟩, h5⟩
    refine ⟨h1, h2, ?_, ?_, h5⟩
    · intro hn
      rcases h3 with h3 | h3
      · exact absurd hn h3
      · exact h3
    · intro t ht
      have := h4 t ht
      exact ⟨this.1.1, this.1.2, this.2⟩
  · rintro ⟨h1, h2, h3, h4, h5⟩
    refine ⟨⟨⟨⟨h1, h2⟩, ?_⟩, ?_⟩, h5⟩
    · by_cases hn : x.region.stores.Nodup
      · exact Or.inr (h3 hn)
      · exact Or.inl hn
    · intro t ht
      obtain ⟨a, b, c⟩ := h4 t ht
      exact ⟨⟨a, b⟩, c⟩

end PdModel.Spec.C11
