/-
C01 – "Timestamps are unique and strictly increasing in real-time order", over what clients observe.
A granted request with count n that returned (ms, logical = hi) owns the values (ms, lo+1) … (ms, hi)
with lo = hi - n.  `start`/`finish` are points of one global real-time axis (ticks of a counter).
-/
namespace PdModel.Spec.C01

structure Ev where
  start  : Nat
  finish : Nat
  ms     : Nat
  lo     : Nat
  hi     : Nat
  /-- the logical part as returned to the client (the raw value `hi` shifted by the suffix bits, plus the suffix) -/
  ret    : Nat := hi
  deriving Repr, DecidableEq

/-- every value of `a` is smaller than every value of `b` (lexicographic on (ms, logical)) -/
def valuesLt (a b : Ev) : Prop := a.ms < b.ms ∨ (a.ms = b.ms ∧ a.hi ≤ b.lo)

instance (a b : Ev) : Decidable (valuesLt a b) := by unfold valuesLt; infer_instance

def wellFormed (logicalBits : Nat) (e : Ev) : Prop :=
  e.lo < e.hi ∧ e.ret < 2 ^ logicalBits ∧ e.start ≤ e.finish

instance (k : Nat) (e : Ev) : Decidable (wellFormed k e) := by unfold wellFormed; infer_instance

/-- the property: ranges pairwise disjoint; real-time order respected; logical part fits its field -/
def Holds (logicalBits : Nat) (evs : List Ev) : Prop :=
  evs.Pairwise (fun a b => valuesLt a b ∨ valuesLt b a) ∧
  (∀ a ∈ evs, ∀ b ∈ evs, a.finish < b.start → valuesLt a b) ∧
  (∀ e ∈ evs, wellFormed logicalBits e)

def check (logicalBits : Nat) (evs : List Ev) : Bool :=
  decide (evs.Pairwise (fun a b => valuesLt a b ∨ valuesLt b a)) &&
  evs.all (fun a => evs.all (fun b => decide (a.finish < b.start → valuesLt a b))) &&
  evs.all (fun e => decide (wellFormed logicalBits e))

theorem check_iff (k : Nat) (evs : List Ev) : check k evs = true ↔ Holds k evs := by
  unfold check Holds
  simp only [Bool.and_eq_true, decide_eq_true_eq, List.all_eq_true, and_assoc]

/-- A history given in a linearisation order that extends real time (an event that finished before
    another started comes earlier in the list) and whose values increase along the list satisfies the
    property.  This is the shape the model theorem delivers (lock order of `generateTSO`). -/
theorem holds_of_linearisation (k : Nat) (evs : List Ev)
    (hinc : evs.Pairwise valuesLt)
    (hrt : evs.Pairwise (fun a b => ¬ b.finish < a.start))
    (hwf : ∀ e ∈ evs, wellFormed k e) : Holds k evs := by
  refine ⟨hinc.imp Or.inl, ?_, hwf⟩
  induction evs with
  | nil => intro a ha; cases ha
  | cons x xs ih =>
    simp only [List.pairwise_cons] at hinc hrt
    intro a ha b hb hab
    simp only [List.mem_cons] at ha hb
    rcases ha with rfl | ha <;> rcases hb with rfl | hb
    · have := (hwf _ (List.mem_cons_self ..)).2.2; omega
    · exact hinc.1 b hb
    · exact absurd hab (hrt.1 a ha)
    · exact ih hinc.2 hrt.2 (fun e he => hwf e (List.mem_cons_of_mem _ he)) a ha b hb hab

/-- the composed 64-bit timestamp `physical << 18 | logical` preserves the order -/
def compose (ms logical : Nat) : Nat := ms * 2 ^ 18 + logical

theorem compose_strict_mono (p l p' l' : Nat) (hl : l < 2 ^ 18) (hl' : l' < 2 ^ 18)
    (h : p < p' ∨ (p = p' ∧ l < l')) : compose p l < compose p' l' := by
  unfold compose
  rcases h with h | ⟨rfl, h⟩
  · have : (p + 1) * 2 ^ 18 ≤ p' * 2 ^ 18 := Nat.mul_le_mul_right _ h
    omega
  · omega

/-- `tsoutil.ComposeTS` computes on 64-bit words: `uint64(physical)<<18 | uint64(logical)&0x3FFFF`.  For
    a physical part below 2^46 ms (year 4199) and a logical part that fits its 18 bits this is exactly the
    arithmetic `compose`, so `compose_strict_mono` is a statement about the real 64-bit composition. -/
theorem composeBV_eq_compose (p l : BitVec 64) (hp : p.toNat < 2 ^ 46) (hl : l.toNat < 2 ^ 18) :
    ((p <<< 18) ||| (l &&& 0x3FFFF#64)).toNat = p.toNat * 2 ^ 18 + l.toNat := by
  have hmask : l &&& 0x3FFFF#64 = l := by
    apply BitVec.eq_of_toNat_eq
    simp only [BitVec.toNat_and, BitVec.toNat_ofNat]
    have : (0x3FFFF : Nat) % 2 ^ 64 = 2 ^ 18 - 1 := by decide
    rw [this, Nat.and_two_pow_sub_one_eq_mod, Nat.mod_eq_of_lt hl]
  rw [hmask]
  have hsh : (p <<< 18).toNat = p.toNat <<< 18 := by
    rw [BitVec.toNat_shiftLeft, Nat.mod_eq_of_lt]
    rw [Nat.shiftLeft_eq]; omega
  rw [BitVec.toNat_or, hsh, ← Nat.shiftLeft_add_eq_or_of_lt hl, Nat.shiftLeft_eq]

theorem composeBV_eq (p l : BitVec 64) (hp : p.toNat < 2 ^ 46) (hl : l.toNat < 2 ^ 18) :
    ((p <<< 18) ||| (l &&& 0x3FFFF#64)).toNat = compose p.toNat l.toNat :=
  composeBV_eq_compose p l hp hl

end PdModel.Spec.C01
