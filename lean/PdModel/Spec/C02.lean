/-
C02 – "Granted timestamps stay below the durably stored time window", over observations:
after every operation the durably stored window bound (Unix ns, `none` = never written) and, if the
operation granted a timestamp, its physical part in milliseconds.
-/
namespace PdModel.Spec.C02

structure Obs where
  stored  : Option Nat
  grantMs : Option Nat
  deriving Repr, DecidableEq

/-- `a ≤ b` on stored bounds; a bound never disappears once written -/
def optLe : Option Nat → Option Nat → Prop
  | none, _ => True
  | some _, none => False
  | some a, some b => a ≤ b

instance (a b : Option Nat) : Decidable (optLe a b) := by
  cases a <;> cases b <;> unfold optLe <;> infer_instance

theorem optLe_refl (a : Option Nat) : optLe a a := by cases a <;> simp [optLe]

theorem optLe_trans {a b c : Option Nat} (h1 : optLe a b) (h2 : optLe b c) : optLe a c := by
  cases a <;> cases b <;> cases c <;> simp_all [optLe]; omega

def grantOk (o : Obs) : Prop :=
  ∀ ms, o.grantMs = some ms → ∃ S, o.stored = some S ∧ ms * 1000000 < S

instance (o : Obs) : Decidable (grantOk o) := by
  unfold grantOk
  cases hg : o.grantMs with
  | none => exact isTrue (by intro ms h; cases h)
  | some ms =>
    cases hs : o.stored with
    | none => exact isFalse (by intro h; obtain ⟨S, hS, _⟩ := h ms rfl; cases hS)
    | some S =>
      exact if h : ms * 1000000 < S then isTrue (by intro ms' h'; cases h'; exact ⟨S, rfl, h⟩)
            else isFalse (by intro h'; obtain ⟨S', hS', hlt⟩ := h' ms rfl; cases hS'; exact h hlt)

/-- the property: the stored bound never decreases, and every grant is strictly below the bound
    stored at that moment -/
def Holds (obs : List Obs) : Prop :=
  obs.Pairwise (fun a b => optLe a.stored b.stored) ∧ ∀ o ∈ obs, grantOk o

def check (obs : List Obs) : Bool :=
  decide (obs.Pairwise (fun a b => optLe a.stored b.stored)) && obs.all (fun o => decide (grantOk o))

theorem check_iff (obs : List Obs) : check obs = true ↔ Holds obs := by
  unfold check Holds
  simp only [Bool.and_eq_true, decide_eq_true_eq, List.all_eq_true]

/-- incremental form used by the monitor -/
def checkNext (prev : Option Nat) (o : Obs) : Bool := decide (optLe prev o.stored) && decide (grantOk o)

end PdModel.Spec.C02
