/-
C16 – "Followers converge to the leader's region view through region sync", stated over what can be
observed from outside: the records handed to the change log and what it returns for an index, the
next index before and after a restart, and the region views of leader and follower.
No implementation identifiers.
-/
namespace PdModel.Spec.C16

/-! ### the change log -/

/-- what a client knows about the change log: the records it was given since the last reset or
    restart (oldest first) and the index the next record will get -/
structure Log (α : Type) where
  log  : List α
  next : Nat
  deriving Repr

variable {α : Type}

/-- number of records the log still has to hold: the `cap` newest ones (a buffer of capacity 0 is
    built with one slot) -/
def window (cap : Nat) (l : Log α) : Nat := min (max cap 1) l.log.length

/-- index of the oldest record inside the window -/
def first (cap : Nat) (l : Log α) : Nat := l.next - window cap l

/-- the answer the property demands for a requested index: inside the window exactly the records from
    that index to the newest, in order; outside nothing -/
def expected (cap : Nat) (l : Log α) (i : Nat) : List α :=
  if first cap l ≤ i ∧ i < l.next then l.log.drop (l.log.length - (l.next - i)) else []

/-- the property for one query -/
def RecordsFromOk (cap : Nat) (l : Log α) (i : Nat) (answer : List α) : Prop :=
  (first cap l ≤ i ∧ i < l.next → answer = l.log.drop (l.log.length - (l.next - i))) ∧
  (¬ (first cap l ≤ i ∧ i < l.next) → answer = [])

def checkRecordsFrom [DecidableEq α] (cap : Nat) (l : Log α) (i : Nat) (answer : List α) : Bool :=
  decide (answer = expected cap l i)

theorem checkRecordsFrom_iff [DecidableEq α] (cap : Nat) (l : Log α) (i : Nat) (answer : List α) :
    checkRecordsFrom cap l i answer = true ↔ RecordsFromOk cap l i answer := by
  unfold checkRecordsFrom RecordsFromOk expected
  by_cases h : first cap l ≤ i ∧ i < l.next <;> simp [h]

/-- an answer is a value: whatever is recorded afterwards, the answer a caller holds for index `i` still is
    the records from `i` to what was the newest when it asked -/
def HeldOk (answer laterLook : List α) : Prop := laterLook = answer

def checkHeld [DecidableEq α] (answer laterLook : List α) : Bool := decide (laterLook = answer)

theorem checkHeld_iff [DecidableEq α] (answer laterLook : List α) :
    checkHeld answer laterLook = true ↔ HeldOk answer laterLook := by
  simp [checkHeld, HeldOk]

/-- the flush interval the property speaks of -/
def flushInterval : Nat := 100

/-- the next index survives a restart without going backwards by more than the flush interval -/
def RestartLagOk (flush before after : Nat) : Prop := after ≤ before ∧ before - after ≤ flush

def checkRestartLag (flush before after : Nat) : Bool :=
  decide (after ≤ before) && decide (before - after ≤ flush)

theorem checkRestartLag_iff (flush before after : Nat) :
    checkRestartLag flush before after = true ↔ RestartLagOk flush before after := by
  simp [checkRestartLag, RestartLagOk]

/-! ### convergence -/

/-- a region view: per region id the canonical description of range, epoch, peers, leader and flow
    statistics -/
abbrev View (ρ : Type) := List (Nat × ρ)

def lookup {ρ : Type} (v : View ρ) (id : Nat) : Option ρ := (v.find? (fun e => e.1 == id)).map (·.2)

/-- for every region sent, the follower holds exactly what the leader holds -/
def Converged {ρ : Type} (sent : List Nat) (follower leader : View ρ) : Prop :=
  ∀ id ∈ sent, lookup follower id = lookup leader id

def checkConverged {ρ : Type} [DecidableEq ρ] (sent : List Nat) (follower leader : View ρ) : Bool :=
  sent.all (fun id => decide (lookup follower id = lookup leader id))

theorem checkConverged_iff {ρ : Type} [DecidableEq ρ] (sent : List Nat) (follower leader : View ρ) :
    checkConverged sent follower leader = true ↔ Converged sent follower leader := by
  simp [checkConverged, Converged]

/-- the messages a live follower is sent for a sequence of changes: every change once, in order, each region
    paired with its own leader (`(region id, leader peer id)` per position, flattened over the messages) -/
def BroadcastOk (changes sent : List (Nat × Nat)) : Prop := sent = changes

def checkBroadcast (changes sent : List (Nat × Nat)) : Bool := decide (sent = changes)

theorem checkBroadcast_iff (changes sent : List (Nat × Nat)) :
    checkBroadcast changes sent = true ↔ BroadcastOk changes sent := by
  simp [checkBroadcast, BroadcastOk]

/-- the ids on which the two views differ (for the report) -/
def diverged {ρ : Type} [DecidableEq ρ] (sent : List Nat) (follower leader : View ρ) : List Nat :=
  sent.filter (fun id => !decide (lookup follower id = lookup leader id))

end PdModel.Spec.C16
