/-
C05 – "Local and global timestamps are mutually consistent", over what clients observe:
granted timestamps (physical ms, logical as returned, i.e. already carrying the suffix), the allocator
that granted them (0 = global, d ≥ 1 = dc d), request start/finish on one real-time axis, and the
suffix table in use.
-/
namespace PdModel.Spec.C05

structure Ev where
  alloc   : Nat
  ms      : Nat
  logical : Nat
  start   : Nat
  finish  : Nat
  deriving Repr, DecidableEq

def valLt (a b : Ev) : Prop := a.ms < b.ms ∨ (a.ms = b.ms ∧ a.logical < b.logical)

instance (a b : Ev) : Decidable (valLt a b) := by unfold valLt; infer_instance

/-- (a) timestamps of different allocators differ, and two global timestamps differ and respect real time;
    (b) a global timestamp exceeds every local one whose request completed before it began;
    (c) every local timestamp requested after a global one was returned exceeds it. -/
def Holds (evs : List Ev) : Prop :=
  (∀ a ∈ evs, ∀ b ∈ evs, a.alloc ≠ b.alloc → ¬ (a.ms = b.ms ∧ a.logical = b.logical)) ∧
  (∀ g ∈ evs, g.alloc = 0 → ∀ l ∈ evs, l.alloc ≠ 0 → l.finish < g.start → valLt l g) ∧
  (∀ g ∈ evs, g.alloc = 0 → ∀ l ∈ evs, l.alloc ≠ 0 → g.finish < l.start → valLt g l) ∧
  (∀ g ∈ evs, g.alloc = 0 → ∀ g' ∈ evs, g'.alloc = 0 → g.finish < g'.start → valLt g g')

def check (evs : List Ev) : Bool :=
  evs.all (fun a => evs.all (fun b => decide (a.alloc ≠ b.alloc → ¬ (a.ms = b.ms ∧ a.logical = b.logical)))) &&
  evs.all (fun g => decide (g.alloc = 0 → ∀ l ∈ evs, l.alloc ≠ 0 → l.finish < g.start → valLt l g)) &&
  evs.all (fun g => decide (g.alloc = 0 → ∀ l ∈ evs, l.alloc ≠ 0 → g.finish < l.start → valLt g l)) &&
  evs.all (fun g => decide (g.alloc = 0 → ∀ g' ∈ evs, g'.alloc = 0 → g.finish < g'.start → valLt g g'))

theorem check_iff (evs : List Ev) : check evs = true ↔ Holds evs := by
  unfold check Holds
  simp only [Bool.and_eq_true, List.all_eq_true, decide_eq_true_eq, and_assoc]

/-- (d) the suffix table: every dc keeps one suffix ≥ 1, no two dcs share one, and the width fits -/
def SuffixOk (bits : Nat) (table : List (Nat × Nat)) : Prop :=
  (table.map (·.1)).Nodup ∧ (table.map (·.2)).Nodup ∧ ∀ p ∈ table, 1 ≤ p.2 ∧ p.2 < 2 ^ bits

instance (bits : Nat) (table : List (Nat × Nat)) : Decidable (SuffixOk bits table) := by
  unfold SuffixOk; infer_instance

/-- a returned logical value carries its allocator's suffix in its low `bits` bits -/
def carriesSuffix (bits : Nat) (table : List (Nat × Nat)) (e : Ev) : Prop :=
  e.logical % 2 ^ bits = (if e.alloc = 0 then 0 else ((table.find? (·.1 = e.alloc)).map (·.2)).getD 0)

instance (bits : Nat) (table : List (Nat × Nat)) (e : Ev) : Decidable (carriesSuffix bits table e) := by
  unfold carriesSuffix; infer_instance

end PdModel.Spec.C05
