import PdModel.Model.RegionTree
/-!
C07 – "Region lookups and per-store statistics match the cached region set", stated over observables:
the regions that were put / removed and the answers that were given.

The *current regions* after a history are a plain list `L` (kept in start-key order so that results
that are lists have a defined order): `put` drops what the new region displaces (same id, or overlapping
key range) and adds it; `remove` drops an id.  Every query is then defined as a linear scan
(`find?` / `filter` / `length` / `sum`) over `L`.  Only the record types (`Region`, `Peer`, `Key`, `Role`)
and the two range predicates `Contains` / `Involved` are shared with the model.
-/
namespace PdModel.Spec.C07
open PdModel.RegionTree (Key Peer Region Role Contains Involved)

/-! ### well-formed input -/

/-- a key range: start < end, or unbounded end -/
def WFRange (r : Region) : Prop := r.endKey = [] ∨ r.startKey < r.endKey
instance (r : Region) : Decidable (WFRange r) := inferInstanceAs (Decidable (_ ∨ _))

/-- a region as a TiKV can report it: a real key range, at most one peer per store, pending peers
    sit on stores that hold a peer (at most one pending entry per store) -/
def WF (r : Region) : Prop :=
  WFRange r ∧ (r.peers.map (·.store)).Nodup ∧ (r.pending.map (·.store)).Nodup ∧
  ∀ p ∈ r.pending, p.store ∈ r.peers.map (·.store)
instance (r : Region) : Decidable (WF r) := inferInstanceAs (Decidable (_ ∧ _ ∧ _ ∧ _))

/-! ### the current region set -/

/-- the key ranges intersect ("" as an end key = +∞) -/
def Overlap (a b : Region) : Prop :=
  (a.endKey = [] ∨ b.startKey < a.endKey) ∧ (b.endKey = [] ∨ a.startKey < b.endKey)
instance (a b : Region) : Decidable (Overlap a b) := inferInstanceAs (Decidable (_ ∧ _))

def insertByKey (r : Region) : List Region → List Region
  | [] => [r]
  | x :: xs => if r.startKey < x.startKey then r :: x :: xs else x :: insertByKey r xs

/-- the regions an insertion of `r` displaces, other than an older version of `r` itself -/
def displaced (L : List Region) (r : Region) : List Region :=
  L.filter (fun x => Overlap x r ∧ x.id ≠ r.id)

def put (L : List Region) (r : Region) : List Region :=
  insertByKey r (L.filter (fun x => ¬ Overlap x r ∧ x.id ≠ r.id))

def remove (L : List Region) (id : Nat) : List Region := L.filter (fun x => x.id ≠ id)

/-! ### queries as linear scans -/

def get (L : List Region) (id : Nat) : Option Region := L.find? (fun x => x.id = id)

/-- lookup by key -/
def search (L : List Region) (k : Key) : Option Region := L.find? (fun x => Contains x k)

/-- the region that ends exactly where the region containing `k` starts -/
def searchPrev (L : List Region) (k : Key) : Option Region :=
  match search L k with
  | none => none
  | some c => L.find? (fun p => p.endKey ≠ [] ∧ p.endKey = c.startKey)

def takeLimit {β : Type} (limit : Int) (l : List β) : List β :=
  if limit > 0 then l.take limit.toNat else l

/-- regions intersecting [s, e), in key order, at most `limit` of them (limit ≤ 0: all) -/
def scan (L : List Region) (s e : Key) (limit : Int) : List Region :=
  takeLimit limit (L.filter (fun x => (x.endKey = [] ∨ s < x.endKey) ∧ (e = [] ∨ x.startKey < e)))

/-- regions overlapping the range of `q` -/
def overlaps (L : List Region) (q : Region) : List Region := L.filter (fun x => Overlap x q)

/-- (the region ending exactly at `q`'s start key,
     the first region after `q`'s start key if it starts exactly at `q`'s end key) -/
def adjacent (L : List Region) (q : Region) : Option Region × Option Region :=
  (L.find? (fun p => p.endKey ≠ [] ∧ p.endKey = q.startKey),
   match L.find? (fun n => q.startKey < n.startKey) with
   | some n => if n.startKey = q.endKey then some n else none
   | none => none)

/-- `r` has a peer of the given kind on `store` -/
def OnStore (role : Role) (store : Nat) (r : Region) : Prop :=
  match role with
  | .leader => ∃ p ∈ r.peers, p.learner = false ∧ p.id = r.leader ∧ p.store = store
  | .follower => ∃ p ∈ r.peers, p.learner = false ∧ p.id ≠ r.leader ∧ p.store = store
  | .learner => ∃ p ∈ r.peers, p.learner = true ∧ p.store = store
  | .pending => ∃ p ∈ r.pending, p.store = store
instance (role : Role) (store : Nat) (r : Region) : Decidable (OnStore role store r) := by
  unfold OnStore; cases role <;> exact inferInstance

def storeRegions (L : List Region) (role : Role) (store : Nat) : List Region :=
  L.filter (fun r => OnStore role store r)

def sumSize (l : List Region) : Int := (l.map (·.size)).sum

def storeCount (L : List Region) (role : Role) (store : Nat) : Nat := (storeRegions L role store).length
def storeSize (L : List Region) (role : Role) (store : Nat) : Int := sumSize (storeRegions L role store)

def normRanges (ranges : List (Key × Key)) : List (Key × Key) :=
  if ranges.isEmpty then [([], [])] else ranges

/-- what a random pick of a `role` region of `store` within `ranges` may return: a region of that
    store/role that lies inside one of the ranges -/
def randCands (L : List Region) (role : Role) (store : Nat) (ranges : List (Key × Key)) : List Region :=
  (normRanges ranges).flatMap (fun rg => (storeRegions L role store).filter (fun x => Involved x rg.1 rg.2))

/-- the regions of the store/role among which one range draws before filtering: those starting in
    [s, e) plus the one that contains `s` -/
def window (R : List Region) (s e : Key) : List Region :=
  R.filter (fun x => (s ≤ x.startKey ∨ Contains x s) ∧ (e = [] ∨ x.startKey < e))

/-- a random pick may come back empty: for every range the draw can hit a region that is not inside it
    (or there is nothing to draw from) -/
def randNilPossible (L : List Region) (role : Role) (store : Nat) (ranges : List (Key × Key)) : Bool :=
  let R := storeRegions L role store
  R.isEmpty || (normRanges ranges).all (fun rg =>
    (window R rg.1 rg.2).isEmpty || (window R rg.1 rg.2).any (fun x => ! decide (Involved x rg.1 rg.2)))

/-! ### the property over a trace -/

inductive Query where
  | get (id : Nat) | search (k : Key) | searchPrev (k : Key)
  | scan (s e : Key) (limit : Int) | overlaps (q : Region) | adjacent (q : Region)
  | count | totalSize | storeCount (role : Role) (store : Nat) | storeSize (role : Role) (store : Nat)
  | storeRegions (role : Role) (store : Nat)
  deriving DecidableEq, Repr

inductive Obs where
  | region (r : Option Region) | regions (l : List Region) | pair (p n : Option Region)
  | nat (n : Nat) | int (i : Int)
  deriving DecidableEq, Repr

def expected (L : List Region) : Query → Obs
  | .get id => .region (get L id)
  | .search k => .region (search L k)
  | .searchPrev k => .region (searchPrev L k)
  | .scan s e limit => .regions (scan L s e limit)
  | .overlaps q => .regions (overlaps L q)
  | .adjacent q => .pair (adjacent L q).1 (adjacent L q).2
  | .count => .nat L.length
  | .totalSize => .int (sumSize L)
  | .storeCount role st => .nat (storeCount L role st)
  | .storeSize role st => .int (storeSize L role st)
  | .storeRegions role st => .regions (storeRegions L role st)

inductive Ev where
  /-- a region was put; `out` = the displaced regions that were reported -/
  | put (r : Region) (out : List Region)
  | remove (id : Nat)
  | ask (q : Query) (a : Obs)
  /-- a random pick returned `p` -/
  | pick (role : Role) (store : Nat) (ranges : List (Key × Key)) (p : Option Region)
  deriving Repr

def PickOk (L : List Region) (role : Role) (store : Nat) (ranges : List (Key × Key)) : Option Region → Prop
  | some r => r ∈ randCands L role store ranges
  | none => randNilPossible L role store ranges = true
instance (L role store ranges p) : Decidable (PickOk L role store ranges p) := by
  unfold PickOk; cases p <;> exact inferInstance

/-- the property: starting from region set `L`, every answer is the linear-scan answer; it speaks about
    well-formed input only (nothing is claimed after a malformed put) -/
def Holds : List Region → List Ev → Prop
  | _, [] => True
  | L, .put r out :: es => WF r → (out = displaced L r ∧ Holds (put L r) es)
  | L, .remove id :: es => Holds (remove L id) es
  | L, .ask q a :: es => a = expected L q ∧ Holds L es
  | L, .pick role st rg p :: es => PickOk L role st rg p ∧ Holds L es

/-- executable checker -/
def check : List Region → List Ev → Bool
  | _, [] => true
  | L, .put r out :: es => if WF r then decide (out = displaced L r) && check (put L r) es else true
  | L, .remove id :: es => check (remove L id) es
  | L, .ask q a :: es => decide (a = expected L q) && check L es
  | L, .pick role st rg p :: es => decide (PickOk L role st rg p) && check L es

theorem check_iff (L : List Region) (es : List Ev) : check L es = true ↔ Holds L es := by
  induction es generalizing L with
  | nil => simp [check, Holds]
  | cons e es ih =>
    cases e with
    | put r out =>
      simp only [check, Holds]
      by_cases h : WF r
      · simp [h, ih]
      · simp [h]
    | remove id => simp only [check, Holds]; exact ih _
    | ask q a => simp [check, Holds, ih]
    | pick role st rg p => simp [check, Holds, ih]

end PdModel.Spec.C07
