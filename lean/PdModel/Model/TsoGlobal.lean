/-
Model of global-timestamp generation with per-datacenter (local) allocators:
server/tso/global_allocator.go `GenerateTSO` (dc-locations configured) + the `SyncMaxTS` handler of
server/grpc_service.go + LocalTSOAllocator.WriteTSO, and of the suffix machinery
(differentiateLogical, CalSuffixBits, getOrCreateLocalTSOSuffix).  Core Lean only.

Timestamps are pairs (physical ms, raw logical) ordered lexicographically.  Each allocator's memory
is one such pair; the single-allocator behaviour (windows, leases, hand-over) is C01–C03 and is
abstracted here into "memory only moves forward" (`localAdvance`, `globalAdvance`).

One global request (serialised by the global allocator's sync mutex, fix F11) is the step sequence
  gStart c δ        – estimateMaxTS under tsoMux: logical += c, estimate = (physical + δ, logical)
  gRepeat           – the second iteration of SyncMaxTS's loop: every server is visited again
  gCheck s          – server s handles SyncMaxTS(skipCheck=false): reads the current value of every local
                      allocator it leads; if the largest is ≥ the estimate it answers it (+1 logical if
                      equal), otherwise it writes the estimate into each of them
  gCollect          – the global side takes the maximum; if it is larger than the estimate the estimate
                      becomes max + c (carry into the physical part on overflow) and a write phase starts
  gWrite s          – server s handles SyncMaxTS(skipCheck=true): WriteTSO into each allocator it leads
  gPersist          – resetUserTimestamp(ignoreSmaller) on the global memory (after the write phase, or
                      directly when every server accepted the estimate)
  gReturn           – the response (differentiated with suffix 0)
  gAbort            – any error path: the attempt is dropped (what was written stays)
interleaved arbitrarily with local requests and forward moves of every memory.
The handler invocation of one server is one atomic step (its reads and writes are not interleaved
with local requests of the same server; see DESIGN.md C05 for why this loses nothing for (b), (c)).
-/
namespace PdModel.TsoGlobal

abbrev TS := Nat × Nat

def tsLt (a b : TS) : Prop := a.1 < b.1 ∨ (a.1 = b.1 ∧ a.2 < b.2)
def tsLe (a b : TS) : Prop := a.1 < b.1 ∨ (a.1 = b.1 ∧ a.2 ≤ b.2)

instance (a b : TS) : Decidable (tsLt a b) := by unfold tsLt; infer_instance
instance (a b : TS) : Decidable (tsLe a b) := by unfold tsLe; infer_instance

def tsMax (a b : TS) : TS := if tsLe a b then b else a

/-- `differentiateLogical`: raw << suffixBits + suffix -/
def differentiate (raw bits suffix : Nat) : Nat := raw * 2 ^ bits + suffix

/-- smallest `b` with `2^b ≥ n` – the integer meaning of `Ceil(Log2(float64(n)))` for n ≥ 1 -/
def clog2 (n : Nat) : Nat := if n ≤ 1 then 0 else Nat.log2 (n - 1) + 1

/-- `CalSuffixBits(maxSuffix)` -/
def calSuffixBits (maxSuffix : Nat) : Nat := clog2 (maxSuffix + 1)

inductive Phase where
  | check | write | ret
  deriving Repr, DecidableEq

structure Req where
  count   : Nat
  orig    : TS                -- the estimate of `estimateMaxTS` (what the final comparison uses)
  est     : TS                -- the MaxTS carried by the current round of SyncMaxTS requests
  phase   : Phase
  pending : List Nat          -- servers still to be visited in this phase
  best    : TS                -- max of the estimate and the answers received so far (check phase)
  start   : Nat               -- ghost: value of the real-time counter when the request began
  before  : Nat → TS          -- ghost: every local memory when the request began


/-- observed grant: `alloc = 0` global, `alloc = d ≥ 1` the local allocator of dc d -/
structure Ev where
  alloc  : Nat
  ts     : TS
  start  : Nat
  finish : Nat
  deriving Repr, DecidableEq

structure St where
  dcs      : List Nat          -- dc ids (≥ 1) that take part in global synchronisation
  servers  : List Nat
  srvOf    : Nat → Nat         -- dc ↦ server holding its local allocator leader
  maxLog   : Nat               -- maxLogical (2^18)
  bits     : Nat               -- suffix bits in use
  glob     : TS
  loc      : Nat → TS
  req      : Option Req := none
  events   : List Ev := []     -- newest first
  clock    : Nat := 0          -- ghost real-time counter: one tick per step

inductive Op where
  | localGrant (d c : Nat)
  | localAdvance (d : Nat) (t : TS)
  | globalAdvance (t : TS)
  | gStart (c δ : Nat)
  | gCheck (s : Nat)
  | gRepeat           -- SyncMaxTS always runs its collection loop a second time (syncMaxRetryCount)
  | gCollect
  | gWrite (s : Nat)
  | gPersist
  | gReturn
  | gAbort
  | dcJoin (d s : Nat)   -- a datacenter joins (its suffix fits the current width): its allocator leader on server s is
                         -- synchronised to the largest local timestamp of the cluster before it serves
  deriving Repr, DecidableEq

def accMax (loc : Nat → TS) (acc : Option TS) (d : Nat) : Option TS :=
  match acc with
  | none => some (loc d)
  | some m => some (tsMax m (loc d))

/-- the largest local memory among the dcs led by server `s` (none if it leads nothing) -/
def maxLocal (st : St) (s : Nat) : Option TS :=
  (st.dcs.filter (fun d => st.srvOf d = s)).foldl (accMax st.loc) none

/-- the largest local memory of the cluster (`GetMaxLocalTSO`) -/
def maxAll (st : St) : Option TS := st.dcs.foldl (accMax st.loc) none

/-- "Re-add the count and check the overflow" -/
def bump (maxLog bits : Nat) (m : TS) (c : Nat) : TS :=
  if differentiate (m.2 + c) bits 0 ≥ maxLog then (m.1 + 1, c) else (m.1, m.2 + c)

def tick (st : St) : St := { st with clock := st.clock + 1 }

def step (st0 : St) (op : Op) : St :=
  let st := tick st0
  match op with
  | .localGrant d c =>
    if c = 0 ∨ d ∉ st.dcs then st else
    let t : TS := ((st.loc d).1, (st.loc d).2 + c)
    { st with loc := fun i => if i = d then t else st.loc i,
              events := ⟨d, t, st.clock, st.clock⟩ :: st.events }
  | .localAdvance d t =>
    if tsLt (st.loc d) t then { st with loc := fun i => if i = d then t else st.loc i } else st
  | .globalAdvance t =>
    if tsLt st.glob t then { st with glob := t } else st
  | .gStart c δ =>
    match st.req with
    | some _ => st
    | none =>
      if c = 0 then st else
      let g : TS := (st.glob.1, st.glob.2 + c)
      let est : TS := (g.1 + δ, g.2)
      { st with glob := g,
                req := some { count := c, orig := est, est := est, phase := .check, pending := st.servers, best := est,
                              start := st.clock, before := st.loc } }
  | .gCheck s =>
    match st.req with
    | none => st
    | some r =>
      if r.phase ≠ .check ∨ s ∉ r.pending then st else
      let r1 := { r with pending := r.pending.filter (· ≠ s) }
      match maxLocal st s with
      | none => { st with req := some r1 }
      | some m =>
        if tsLe r.est m then
          let ans : TS := if m = r.est then (m.1, m.2 + 1) else m
          { st with req := some { r1 with best := tsMax r.best ans } }
        else
          { st with loc := fun i => if i ∈ st.dcs ∧ st.srvOf i = s then r.est else st.loc i,
                    req := some r1 }
  | .gRepeat =>
    match st.req with
    | none => st
    | some r =>
      if r.phase = .ret ∨ r.pending ≠ [] then st else
      -- the second round carries the maximum collected so far as its MaxTS
      { st with req := some { r with pending := st.servers,
                                     est := if r.phase = .check then r.best else r.est } }
  | .gCollect =>
    match st.req with
    | none => st
    | some r =>
      if r.phase ≠ .check ∨ r.pending ≠ [] then st else
      if tsLt r.orig r.best then
        { st with req := some { r with est := bump st.maxLog st.bits r.best r.count, phase := .write,
                                       pending := st.servers } }
      else { st with req := some { r with phase := .write, pending := [] } }
  | .gWrite s =>
    match st.req with
    | none => st
    | some r =>
      if r.phase ≠ .write ∨ s ∉ r.pending then st else
      { st with loc := fun i => if i ∈ st.dcs ∧ st.srvOf i = s then tsMax (st.loc i) r.est else st.loc i,
                req := some { r with pending := r.pending.filter (· ≠ s) } }
  | .gPersist =>
    match st.req with
    | none => st
    | some r =>
      if r.phase ≠ .write ∨ r.pending ≠ [] then st else
      { st with glob := tsMax st.glob r.est, req := some { r with phase := .ret } }
  | .gReturn =>
    match st.req with
    | none => st
    | some r =>
      if r.phase ≠ .ret then st else
      { st with req := none, events := ⟨0, r.est, r.start, st.clock⟩ :: st.events }
  | .gAbort => { st with req := none }
  | .dcJoin d s =>
    -- not while a global request is in flight (its list of datacenters is fixed at its start; a join racing
    -- with it is outside the model), not for a known dc, and there has to be somebody to synchronise with
    match st.req, maxAll st with
    | none, some m =>
      if d = 0 ∨ d ∈ st.dcs ∨ s ∉ st.servers then st else
      { st with dcs := d :: st.dcs,
                srvOf := fun i => if i = d then s else st.srvOf i,
                loc := fun i => if i = d then tsMax (st.loc d) m else st.loc i }
    | _, _ => st

def run (st : St) (ops : List Op) : St := ops.foldl step st

/-! ### suffix assignment (`getOrCreateLocalTSOSuffix` run by `ClusterDCLocationChecker`)

`read m dc`   – member m (believing it is the PD leader) reads all suffix keys: if dc has one it is
                returned, otherwise the value `max + 1` is computed and the create transaction prepared
`commit m`    – the transaction `If CreateRevision(key(dc)) = 0 [∧ leader = m] Then Put`; the leader
                comparison is present iff `guarded` (fix F17)
`lead m`      – m wins the PD leadership (fresh term: nothing of an earlier term of m is in flight)
One checker run holds the allocator manager's mutex, so a member has at most one prepared transaction. -/

structure SfxSt where
  guarded : Bool
  table   : List (Nat × Nat) := []      -- (dc, suffix) as stored, newest first
  leader  : Nat := 0
  pend    : Nat → Option (Nat × Nat) := fun _ => none

inductive SfxOp where
  | lead (m : Nat)
  | read (m dc : Nat)
  | commit (m : Nat)
  deriving Repr, DecidableEq

def maxSfx (t : List (Nat × Nat)) : Nat := t.foldl (fun a p => max a p.2) 0

def sfxStep (s : SfxSt) : SfxOp → SfxSt
  | .lead m => { s with leader := m, pend := fun i => if i = m then none else s.pend i }
  | .read m dc =>
    if (s.table.find? (·.1 = dc)).isSome then s
    else { s with pend := fun i => if i = m then some (dc, maxSfx s.table + 1) else s.pend i }
  | .commit m =>
    match s.pend m with
    | none => s
    | some (dc, v) =>
      let s1 := { s with pend := fun i => if i = m then none else s.pend i }
      if (s.guarded → s.leader = m) ∧ (s.table.find? (·.1 = dc)).isNone then
        { s1 with table := (dc, v) :: s.table }
      else s1

def sfxRun (s : SfxSt) (ops : List SfxOp) : SfxSt := ops.foldl sfxStep s

end PdModel.TsoGlobal
