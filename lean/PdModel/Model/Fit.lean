import PdModel.Spec.C12
import PdModel.Generated.Fit
/-
Model of server/schedule/placement/fit.go (+ label_constraint.go, the parts of rule.go and
core.StoreInfo it uses).  Core Lean only.  The input data types are those of `Spec.C12`.

Go                                   model
-----------------------------------  ------------------------------------------------------------
StoreInfo.GetLabelValue              getLabelValue        (loop, EqualFold on the key)
LabelConstraint.MatchStore           matchStore
isExclusiveLabel                     isExclusiveLabel
MatchLabelConstraints                matchLabelConstraints (nil store → false)
checkRule                            checkRule
fitPeer.matchRoleStrict/Loose        matchRoleStrict / matchRoleLoose
StoreInfo.CompareLocation            compareLocation      (loop with early return)
isolationScore                       isolationScore       (guard + double loop; exact Nat, see below)
newRuleFit                           newRuleFit
compareRuleFit / CompareRegionFit    compareRuleFit / compareRegionFit
newFitWorker (sort peers by id)      sortPeers (insertion sort) + mkPeers
fitWorker.fitRule/enumPeers/
  compareBest/updateOrphanPeers      fitRule / enumPeers / compareBest / orphanPeers
FitRegion / RegionFit.IsSatisfied    fitRegion / isSatisfied

Worker state.  `bestFit.RuleFits` is an array indexed by rule position; `fitRule(index)` reads and
writes only the entries at positions ≥ index, so the model passes the *suffix* of the array that
belongs to the remaining rules (`Best`, aligned with the list of remaining rules) through the
recursion and returns the updated suffix; `bestFit.OrphanPeers` is threaded the same way.
`fitPeer.selected` flags are set before a recursive call and cleared after it, i.e. at any moment
they mark the peers chosen on the current recursion path: the model passes that set downwards as
`used` (positions in the id-sorted peer list).

Floats.  The Go score is `Σ math.Pow(100, L-index-1)` over pairs, a sum of non-negative integers
each ≤ 100^(L-1); with ≤ 7 location labels and ≤ 2^13 pairs every partial sum is an integer below
2^53 and the float computation is exact.  The model computes the same sum in `Nat`.
-/
namespace PdModel.Fit
open PdModel.Spec.C12

/-! ## labels -/

/-- `strings.EqualFold` on ASCII -/
def equalFold (a b : String) : Bool := fold a == fold b

/-- StoreInfo.GetLabelValue -/
def getLabelValue : List Label → String → String
  | [], _ => ""
  | l :: ls, key => if equalFold l.key key then l.value else getLabelValue ls key

/-- LabelConstraint.MatchStore -/
def matchStore (c : Constraint) (s : Store) : Bool :=
  match c.op with
  | .isIn =>
    let label := getLabelValue s.labels c.key
    label != "" && c.values.any (fun v => v == label)
  | .notIn =>
    let label := getLabelValue s.labels c.key
    label == "" || c.values.all (fun v => !(v == label))
  | .exists_ => getLabelValue s.labels c.key != ""
  | .notExists => getLabelValue s.labels c.key == ""
  | .invalid => false

def hasDollarPrefix (key : String) : Bool :=
  match key.toList with
  | '$' :: _ => true
  | _ => false

/-- regenerated from label_constraint.go -/
def legacyExclusiveLabels : List String := PdModel.Generated.Fit.legacyExclusiveLabels

/-- isExclusiveLabel -/
def isExclusiveLabel (key : String) : Bool :=
  hasDollarPrefix key || legacyExclusiveLabels.any (fun k => key == k)

/-- MatchLabelConstraints -/
def matchLabelConstraints (store : Option Store) (cs : List Constraint) : Bool :=
  match store with
  | none => false
  | some s =>
    if s.labels.any (fun l => isExclusiveLabel l.key && cs.all (fun c => !(c.key == l.key))) then false
    else cs.all (fun c => matchStore c s)

/-- checkRule -/
def checkRule (r : Rule) (stores : List Store) : Bool :=
  stores.any (fun s => matchLabelConstraints (some s) r.constraints)

/-! ## roles -/

def matchRoleStrict (p : PeerInfo) : Role → Bool
  | .voter => !p.learner
  | .leader => p.isLeader
  | .follower => !p.learner && !p.isLeader
  | .learner => p.learner
  | .invalid => false

def matchRoleLoose (p : PeerInfo) (role : Role) : Bool :=
  role != .learner || p.learner

/-! ## isolation score -/

/-- StoreInfo.CompareLocation: index of the first differing label, `none` for -1 -/
def compareLocationAux (a b : Store) : List String → Nat → Option Nat
  | [], _ => none
  | key :: keys, i =>
    let v1 := getLabelValue a.labels key
    let v2 := getLabelValue b.labels key
    if v1 != "" && v2 != "" && !equalFold v1 v2 then some i else compareLocationAux a b keys (i + 1)

def compareLocation (a b : Option Store) (labels : List String) : Option Nat :=
  match a, b with
  | some a, some b => compareLocationAux a b labels 0
  | _, _ => none     -- unreachable for fitted peers (their store matched the constraints)

/-- regenerated from fit.go (`const replicaBaseScore` inside isolationScore) -/
def replicaBaseScore : Nat := PdModel.Generated.Fit.replicaBaseScore

/-- inner loop: `for _, p2 := range peers[i+1:]` -/
def scoreInner (p1 : PeerInfo) (labels : List String) : List PeerInfo → Nat → Nat
  | [], score => score
  | p2 :: rest, score =>
    match compareLocation p1.store p2.store labels with
    | some index => scoreInner p1 labels rest (score + replicaBaseScore ^ (labels.length - index - 1))
    | none => scoreInner p1 labels rest score

/-- outer loop: `for i, p1 := range peers` -/
def scoreOuter (labels : List String) : List PeerInfo → Nat → Nat
  | [], score => score
  | p1 :: rest, score => scoreOuter labels rest (scoreInner p1 labels rest score)

def isolationScore (peers : List PeerInfo) (labels : List String) : Nat :=
  if labels.length == 0 || peers.length ≤ 1 then 0 else scoreOuter labels peers 0

/-! ## rule fits -/

/-- the immutable part of `fitWorker` -/
structure Ctx where
  stores : List Store
  peers  : List PeerInfo      -- sorted by id
  deriving Repr

def Ctx.get (c : Ctx) (sel : List Nat) : List PeerInfo := sel.filterMap (fun i => c.peers[i]?)

def strictAtM (c : Ctx) (r : Rule) (i : Nat) : Bool :=
  match c.peers[i]? with
  | some p => matchRoleStrict p r.role
  | none => false

/-- newRuleFit -/
def newRuleFit (c : Ctx) (r : Rule) (sel : List Nat) : RuleFit :=
  { peers := sel,
    mismatch := sel.filter (fun i => !strictAtM c r i),
    score := isolationScore (c.get sel) r.locationLabels }

/-- compareRuleFit -/
def compareRuleFit (a b : RuleFit) : Int :=
  if a.peers.length < b.peers.length then -1
  else if a.peers.length > b.peers.length then 1
  else if a.mismatch.length > b.mismatch.length then -1
  else if a.mismatch.length < b.mismatch.length then 1
  else if a.score < b.score then -1
  else if a.score > b.score then 1
  else 0

/-! ## the search -/

/-- `bestFit.RuleFits[index:]`, aligned with the remaining rules (`none` = nil) -/
abbrev Best := List (Option RuleFit)

structure Res where
  best    : Best
  orphans : List Nat
  better  : Bool
  deriving Repr

/-- updateOrphanPeers (when it is effective): the unselected peers -/
def orphanPeers (c : Ctx) (used : List Nat) : List Nat :=
  (List.range c.peers.length).filter (fun i => !used.contains i)

/-- candidate loop of fitRule -/
def candidates (c : Ctx) (r : Rule) (used : List Nat) : List Nat :=
  if checkRule r c.stores then
    (List.range c.peers.length).filter (fun i =>
      match c.peers[i]? with
      | some p => matchLabelConstraints p.store r.constraints && matchRoleLoose p r.role && !used.contains i
      | none => false)
  else []

/-- enumPeers: `need = count - len(selected)`.  `leaf selected best orphans` is compareBest. -/
def enumPeers (leaf : List Nat → Best → List Nat → Res) :
    List Nat → Nat → List Nat → Best → List Nat → Res
  | _, 0, selected, best, orph => leaf selected best orph
  | [], _ + 1, _, best, orph => ⟨best, orph, false⟩
  | p :: rest, need + 1, selected, best, orph =>
    -- iteration for p (p.selected = true … = false), then the remaining iterations of the loop
    let r1 := enumPeers leaf rest need (selected ++ [p]) best orph
    let r2 := enumPeers leaf rest (need + 1) selected r1.best r1.orphans
    ⟨r2.best, r2.orphans, r1.better || r2.better⟩

/-- `cmp := 1; if best := w.bestFit.RuleFits[index]; best != nil { cmp = compareRuleFit(rf, best) }` -/
def cmpBest (rf : RuleFit) : Option RuleFit → Int
  | none => 1
  | some old => compareRuleFit rf old

/-- compareBest for rule `r` (the head of the remaining rules); `rest` = fitRule(index+1) with the
    flags of the current path, `isLast` = (index+1 == len(rules)) -/
def compareBest (c : Ctx) (r : Rule) (isLast : Bool) (used : List Nat)
    (rest : List Nat → Best → List Nat → Res)
    (selected : List Nat) (best : Best) (orph : List Nat) : Res :=
  match best with
  | [] => ⟨best, orph, false⟩          -- never: `best` is as long as the remaining rules
  | b :: bs =>
    let rf := newRuleFit c r selected
    let cmp : Int := cmpBest rf b
    if cmp = 1 then
      let r1 := rest (used ++ selected) (bs.map (fun _ => none)) orph
      let orph' := if isLast then orphanPeers c (used ++ selected) else r1.orphans
      ⟨some rf :: r1.best, orph', true⟩
    else if cmp = 0 then
      let r1 := rest (used ++ selected) bs orph
      if r1.better then ⟨some rf :: r1.best, r1.orphans, true⟩
      else ⟨b :: r1.best, r1.orphans, false⟩
    else ⟨best, orph, false⟩

/-- fitRule over the remaining rules -/
def fitRule (c : Ctx) : List Rule → List Nat → Best → List Nat → Res
  | [], _, best, orph => ⟨best, orph, false⟩
  | r :: rs, used, best, orph =>
    let cand := candidates c r used
    let count := if cand.length < r.count then cand.length else r.count
    enumPeers (compareBest c r rs.isEmpty used (fun u b o => fitRule c rs u b o)) cand count [] best orph

/-- fitWorker.run -/
def run (c : Ctx) (rules : List Rule) : Best × List Nat :=
  let r := fitRule c rules [] (rules.map (fun _ => none)) []
  (r.best, if rules.isEmpty then orphanPeers c [] else r.orphans)

/-! ## the same search with the `selected` flags as threaded, mutated and restored state

`flags` is the set of positions whose `fitPeer.selected` is true; `p.selected = true` = `mark`,
`p.selected = false` = `unmark`.  Every function returns the flags it leaves behind.  `Props/C12.lean`
(`fitRuleS_eq`) proves that the flags are always restored and that this version computes exactly `fitRule`. -/

def mark (p : Nat) (flags : List Nat) : List Nat := flags ++ [p]
def unmark (p : Nat) (flags : List Nat) : List Nat := flags.filter (fun q => q != p)

/-- enumPeers with `p.selected = true; …; p.selected = false` around the recursive call -/
def enumPeersS (leaf : List Nat → List Nat → Best → List Nat → Res × List Nat) :
    List Nat → Nat → List Nat → List Nat → Best → List Nat → Res × List Nat
  | _, 0, selected, flags, best, orph => leaf selected flags best orph
  | [], _ + 1, _, flags, best, orph => (⟨best, orph, false⟩, flags)
  | p :: rest, need + 1, selected, flags, best, orph =>
    let a := enumPeersS leaf rest need (selected ++ [p]) (mark p flags) best orph
    let b := enumPeersS leaf rest (need + 1) selected (unmark p a.2) a.1.best a.1.orphans
    (⟨b.1.best, b.1.orphans, a.1.better || b.1.better⟩, b.2)

/-- compareBest reading the flags: fitRule(index+1) filters by them, updateOrphanPeers lists the unflagged -/
def compareBestS (c : Ctx) (r : Rule) (isLast : Bool)
    (rest : List Nat → Best → List Nat → Res × List Nat)
    (selected flags : List Nat) (best : Best) (orph : List Nat) : Res × List Nat :=
  match best with
  | [] => (⟨best, orph, false⟩, flags)
  | b :: bs =>
    let rf := newRuleFit c r selected
    let cmp : Int := cmpBest rf b
    if cmp = 1 then
      let r1 := rest flags (bs.map (fun _ => none)) orph
      let orph' := if isLast then orphanPeers c r1.2 else r1.1.orphans
      (⟨some rf :: r1.1.best, orph', true⟩, r1.2)
    else if cmp = 0 then
      let r1 := rest flags bs orph
      if r1.1.better then (⟨some rf :: r1.1.best, r1.1.orphans, true⟩, r1.2)
      else (⟨b :: r1.1.best, r1.1.orphans, false⟩, r1.2)
    else (⟨best, orph, false⟩, flags)

def fitRuleS (c : Ctx) : List Rule → List Nat → Best → List Nat → Res × List Nat
  | [], flags, best, orph => (⟨best, orph, false⟩, flags)
  | r :: rs, flags, best, orph =>
    let cand := candidates c r flags
    let count := if cand.length < r.count then cand.length else r.count
    enumPeersS (compareBestS c r rs.isEmpty (fun fl b o => fitRuleS c rs fl b o)) cand count [] flags best orph

/-- fitWorker.run on the stateful version (all flags false at the start) -/
def runS (c : Ctx) (rules : List Rule) : Best × List Nat :=
  let r := fitRuleS c rules [] (rules.map (fun _ => none)) []
  (r.1.best, if rules.isEmpty then orphanPeers c r.2 else r.1.orphans)

/-! ## entry point -/

def insertPeer (p : PeerInfo) : List PeerInfo → List PeerInfo
  | [] => [p]
  | q :: qs => if p.id < q.id then p :: q :: qs else q :: insertPeer p qs

/-- `sort.Slice(peers, id <)` – ids are distinct in a region -/
def sortPeers : List PeerInfo → List PeerInfo
  | [] => []
  | p :: ps => insertPeer p (sortPeers ps)

/-- a peer as the region describes it -/
structure RawPeer where
  id      : Nat
  storeId : Nat
  learner : Bool
  deriving Repr, DecidableEq, Inhabited

/-- newFitWorker: resolve stores, mark the leader, sort by id -/
def mkCtx (stores : List Store) (peers : List RawPeer) (leader : Nat) : Ctx :=
  { stores := stores,
    peers := sortPeers (peers.map (fun p =>
      { id := p.id, learner := p.learner, isLeader := leader == p.id,
        store := stores.find? (fun s => s.id == p.storeId) })) }

/-- RuleFit.IsSatisfied / RegionFit.IsSatisfied on a result without nil entries -/
def ruleSatisfied (r : Rule) (f : RuleFit) : Bool :=
  f.peers.length == r.count && f.mismatch.length == 0

def allSatisfied : List Rule → List RuleFit → Bool
  | r :: rs, f :: fs => if !ruleSatisfied r f then false else allSatisfied rs fs
  | _, _ => true

def isSatisfied (rules : List Rule) (fits : List RuleFit) (orphans : List Nat) : Bool :=
  if fits.length == 0 then false
  else if !allSatisfied rules fits then false
  else orphans.length == 0

/-- FitRegion (position level).  `none` entries cannot occur (theorem `run_all_some`);
    `Option.get!`-free: they are dropped. -/
def fitCtx (c : Ctx) (rules : List Rule) : Fit :=
  let (best, orph) := run c rules
  let fits := best.filterMap id
  { fits := fits, orphans := orph, satisfied := isSatisfied rules fits orph }

/-- FitRegion computed by the stateful search (what the driver runs; `fitCtxS_eq`: the same function) -/
def fitCtxS (c : Ctx) (rules : List Rule) : Fit :=
  let (best, orph) := runS c rules
  let fits := best.filterMap id
  { fits := fits, orphans := orph, satisfied := isSatisfied rules fits orph }

/-- CompareRegionFit -/
def compareRegionFit (a b : Fit) : Int :=
  let rec go : List RuleFit → List RuleFit → Int
    | x :: xs, y :: ys => if compareRuleFit x y ≠ 0 then compareRuleFit x y else go xs ys
    | _, _ => 0
  let c := go a.fits b.fits
  if c ≠ 0 then c
  else if a.orphans.length < b.orphans.length then 1
  else if a.orphans.length > b.orphans.length then -1
  else 0

end PdModel.Fit
