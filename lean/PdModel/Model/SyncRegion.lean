/-
Regions as the region syncer and the region storage see them, and the part of
core.BasicCluster.CheckAndPutRegion that both use as their apply/prune callback
(server/core/basic_cluster.go PreCheckPutRegion + RegionsInfo.SetRegion, as far as the set of cached
regions is concerned).  Core Lean only.  Shared by the areas Syncer (C16) and StorageLoad (C17).

Keys are numbers: start key 0 = "", end key 0 = "" = +inf (the harness maps n > 0 to a fixed-width
decimal string, so numeric order = byte order).
-/
namespace PdModel.SyncRegion

structure Peer where
  id    : Nat
  store : Nat
  role  : Nat := 0
  deriving Repr, DecidableEq, Inhabited

/-- metapb.Region -/
structure Meta where
  id       : Nat
  startKey : Nat
  endKey   : Nat
  confVer  : Nat
  version  : Nat
  peers    : List Peer
  deriving Repr, DecidableEq, Inhabited

/-- pdpb.RegionStat -/
structure Stat where
  bytesWritten : Nat := 0
  bytesRead    : Nat := 0
  keysWritten  : Nat := 0
  keysRead     : Nat := 0
  deriving Repr, DecidableEq, Inhabited

/-- the part of core.RegionInfo the syncer transports -/
structure Region where
  md     : Meta
  leader : Option Peer := none
  stat   : Stat := {}
  deriving Repr, DecidableEq, Inhabited

def Region.id (r : Region) : Nat := r.md.id

/-- `key < end` where end 0 is +inf -/
def ltEnd (k e : Nat) : Bool := e == 0 || k < e

/-- the key ranges intersect -/
def overlap (a b : Meta) : Bool := ltEnd a.startKey b.endKey && ltEnd b.startKey a.endKey

def sameRange (a b : Meta) : Bool := a.startKey == b.startKey && a.endKey == b.endKey

abbrev Cache := List Region

def Cache.find (c : Cache) (id : Nat) : Option Region := List.find? (fun r => r.md.id == id) c

/-- `getRelevantRegions`: overlaps are only computed when the id is new or its range changed
    (they then include the origin itself if it intersects the new range) -/
def relevantOverlaps (c : Cache) (r : Region) : List Region :=
  match c.find r.md.id with
  | some o => if sameRange o.md r.md then [] else c.filter (fun x => overlap r.md x.md)
  | none => c.filter (fun x => overlap r.md x.md)

/-- `PreCheckPutRegion` returns an error (region is stale); regions built by the syncer/storage carry
    no term, so `isTermBehind` is false -/
def isStale (c : Cache) (r : Region) : Bool :=
  (relevantOverlaps c r).any (fun x => r.md.version < x.md.version) ||
  (match c.find r.md.id with
   | some o => r.md.version < o.md.version || r.md.confVer < o.md.confVer
   | none => false)

/-- `SetRegion`: the id is new or its range differs from the cached one -/
def rangeChanged (c : Cache) (r : Region) : Bool :=
  match c.find r.md.id with
  | some o => !sameRange o.md r.md
  | none => true

/-- `SetRegion`: the overlapped regions that are removed (never the region of the same id: it is taken
    out of the tree before the overlaps are computed) -/
def putOverlaps (c : Cache) (r : Region) : List Region :=
  if rangeChanged c r then c.filter (fun x => x.md.id != r.md.id && overlap r.md x.md) else []

/-- `PutRegion`: new cache -/
def keepOnPut (rc : Bool) (r x : Region) : Bool := x.md.id != r.md.id && !(rc && overlap r.md x.md)

def putRegion (c : Cache) (r : Region) : Cache :=
  c.filter (keepOnPut (rangeChanged c r) r) ++ [r]

/-- `CheckAndPutRegion`: new cache and the regions the caller is told to delete
    (the region itself when it is stale, else the overlapped ones) -/
def checkAndPut (c : Cache) (r : Region) : Cache × List Region :=
  if isStale c r then (c, [r]) else (putRegion c r, putOverlaps c r)

/-- accepted = not stale -/
def accepts (c : Cache) (r : Region) : Bool := !isStale c r

/-- apply without looking at the result (the follower's loop) -/
def applyRegion (c : Cache) (r : Region) : Cache := (checkAndPut c r).1

end PdModel.SyncRegion
