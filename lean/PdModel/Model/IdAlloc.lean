/-
Model of server/id/id.go (allocatorImpl) on a shared etcd key `alloc_id`,
guarded by the leader key.  Core Lean only.

One micro-step = one atomic section of the Go code:
  rd   – etcdutil.GetValue in rebaseLocked (a read, outside any transaction)
  cas  – the etcd transaction of rebaseLocked (If value/createRevision ∧ leader = member Then Put)
  bump – `alloc.base++ ; return alloc.base`
The instance mutex makes (rd ; cas ; bump) of ONE instance sequential, but steps of
different instances interleave freely; that is what `Op` sequences express.
-/
namespace PdModel.IdAlloc

inductive Fault where
  | none       -- transaction executes normally
  | errBefore  -- Commit returns an error, transaction did not execute
  | errAfter   -- Commit returns an error, transaction did execute
  deriving Repr, DecidableEq, Inhabited

inductive Kind where
  | alloc | rebase
  deriving Repr, DecidableEq, Inhabited

structure Inst where
  member  : Nat
  base    : Nat := 0
  end_    : Nat := 0
  /-- value seen by a `rd` whose transaction has not been issued yet -/
  pending : Option (Option Nat × Kind) := none
  /-- ghost: largest id this instance has returned (0 = none yet) -/
  last    : Nat := 0
  deriving Repr, DecidableEq, Inhabited

/-- ghost record of one successful allocation -/
structure Grant where
  inst   : Nat
  id     : Nat
  /-- value of the stored bound at the moment the id was returned -/
  bound  : Nat
  /-- largest id the same instance had returned before -/
  prev   : Nat
  deriving Repr, DecidableEq

structure St where
  step    : Nat
  stored  : Option Nat := none
  leader  : Nat := 0            -- value of the leader key, 0 = absent
  insts   : List Inst := []
  granted : List Grant := []    -- ghost, newest first
  deriving Repr

def St.bound (s : St) : Nat := s.stored.getD 0

inductive Out where
  | ok | id (n : Nat) | conflict | err | parked | bad
  deriving Repr, DecidableEq

def Out.toString : Out → String
  | .ok => "ok" | .id n => s!"ok {n}" | .conflict => "conflict" | .err => "err"
  | .parked => "parked" | .bad => "bad-op"

def setInst (s : St) (i : Nat) (x : Inst) : St := { s with insts := s.insts.set i x }

/-- `rd`: remember the stored value. -/
def rd (s : St) (i : Nat) (k : Kind) : St :=
  match s.insts[i]? with
  | some x => setInst s i { x with pending := some (s.stored, k) }
  | none => s

/-- does the If-part of the transaction hold?  (CreateRevision = 0 for an absent key,
    Value = v otherwise; Value(leader) = member) -/
def casHolds (s : St) (x : Inst) (v : Option Nat) : Bool :=
  s.stored == v && s.leader == x.member && x.member != 0

/-- `cas`: the transaction of rebaseLocked. -/
def cas (s : St) (i : Nat) (f : Fault) : St × Out :=
  match s.insts[i]? with
  | none => (s, .bad)
  | some x =>
    match x.pending with
    | none => (s, .bad)
    | some (v, _) =>
      let x0 := { x with pending := none }
      match f with
      | .errBefore => (setInst s i x0, .err)
      | _ =>
        if casHolds s x v then
          let e := v.getD 0 + s.step
          let s1 := { s with stored := some e }
          if f = .errAfter then (setInst s1 i x0, .err)
          else (setInst s1 i { x0 with base := v.getD 0, end_ := e }, .ok)
        else (setInst s i x0, if f = .errAfter then .err else .conflict)

/-- `bump`: base++ and return it. -/
def bump (s : St) (i : Nat) : St × Out :=
  match s.insts[i]? with
  | none => (s, .bad)
  | some x =>
    let n := x.base + 1
    let s1 := setInst s i { x with base := n, last := n }
    ({ s1 with granted := { inst := i, id := n, bound := s.bound, prev := x.last } :: s.granted }, .id n)

inductive Op where
  | new (member : Nat)
  | leader (m : Nat)
  | alloc (i : Nat) (f : Fault)      -- whole Alloc, atomically
  | rebase (i : Nat) (f : Fault)     -- whole Rebase, atomically
  | galloc (i : Nat)                 -- Alloc that parks before its transaction (if it needs one)
  | grebase (i : Nat)                -- Rebase that parks before its transaction
  | finish (i : Nat) (f : Fault)     -- release a parked call
  | stored                           -- observe the key
  deriving Repr, DecidableEq

def needsRebase (x : Inst) : Bool := x.base == x.end_

def finishStep (s : St) (i : Nat) (k : Kind) (f : Fault) : St × Out :=
  let (s1, o) := cas s i f
  match o, k with
  | .ok, .alloc => bump s1 i
  | _, _ => (s1, o)

def step (s : St) : Op → St × Out
  | .new m => ({ s with insts := s.insts ++ [{ member := m }] }, .ok)
  | .leader m => ({ s with leader := m }, .ok)
  | .alloc i f =>
    match s.insts[i]? with
    | none => (s, .bad)
    | some x =>
      if x.pending.isSome then (s, .bad)
      else if needsRebase x then finishStep (rd s i .alloc) i .alloc f
      else bump s i
  | .rebase i f =>
    match s.insts[i]? with
    | none => (s, .bad)
    | some x =>
      if x.pending.isSome then (s, .bad) else finishStep (rd s i .rebase) i .rebase f
  | .galloc i =>
    match s.insts[i]? with
    | none => (s, .bad)
    | some x =>
      if x.pending.isSome then (s, .bad)
      else if needsRebase x then (rd s i .alloc, .parked)
      else bump s i
  | .grebase i =>
    match s.insts[i]? with
    | none => (s, .bad)
    | some x =>
      if x.pending.isSome then (s, .bad) else (rd s i .rebase, .parked)
  | .finish i f =>
    match s.insts[i]? with
    | none => (s, .bad)
    | some x =>
      match x.pending with
      | none => (s, .bad)
      | some (_, k) => finishStep s i k f
  | .stored =>
    (s, match s.stored with | none => .id 0 | some v => .id v)

def init (stepSize : Nat) : St := { step := stepSize }

def run (s : St) (ops : List Op) : St := ops.foldl (fun s o => (step s o).1) s

end PdModel.IdAlloc
