import PdModel.Model.HistoryBuf
import PdModel.Model.SyncRegion
/-
Model of the region syncer (server/region_syncer/server.go, client.go).  Core Lean only.

  leader side    RunServer (record a changed region, broadcast it), syncHistoryRegion
                 (nothing / incremental message from the history buffer / full synchronisation in
                 batches that build the three parallel arrays regions, stats, leaders)
  follower side  the receive loop of StartSyncWithLeader: index check + ResetWithIndex, positional
                 pairing regions[i] / leaders[i] / stats[i], CheckAndPutRegion, SaveRegion, Record;
                 LoadRegionsOnce before the first connection of a process
-/
namespace PdModel.Syncer
open PdModel.HistoryBuf PdModel.SyncRegion

/-- pdpb.SyncRegionResponse -/
structure Msg where
  start   : Nat
  regions : List Meta
  stats   : List Stat
  leaders : List Peer
  deriving Repr, DecidableEq

/-- `&metapb.Peer{}` -/
def emptyPeer : Peer := { id := 0, store := 0, role := 0 }

/-- `leader := &metapb.Peer{}; if r.GetLeader() != nil { leader = r.GetLeader() }` -/
def wireLeader (r : Region) : Peer := r.leader.getD emptyPeer

/-- The full-synchronisation loop of `syncHistoryRegion`:
    `for syncedIndex, r := range regions { append …; if len(metas) < batch && syncedIndex < len(regions)-1 { continue };
     send; lastIndex += len(metas); metas = metas[:0]; stats = stats[:0]; leaders = leaders[:0] }`.
    `keepLeaders = true` is the pinned tree before the repair of F3 (the last truncation is missing). -/
def fullSyncLoop (batch : Nat) (keepLeaders : Bool) :
    List Region → List Meta → List Stat → List Peer → Nat → List Msg
  | [], _, _, _, _ => []
  | r :: rest, metas, stats, leaders, last =>
    let metas := metas ++ [r.md]
    let stats := stats ++ [r.stat]
    let leaders := leaders ++ [wireLeader r]
    if metas.length < batch && !rest.isEmpty then
      fullSyncLoop batch keepLeaders rest metas stats leaders last
    else
      { start := last, regions := metas, stats := stats, leaders := leaders } ::
        fullSyncLoop batch keepLeaders rest [] [] (if keepLeaders then leaders else []) (last + metas.length)

def fullSync (batch : Nat) (regions : List Region) : List Msg :=
  fullSyncLoop batch false regions [] [] [] 0

/-- the incremental message built from the history records -/
def incrementalMsg (start : Nat) (recs : List (Option Region)) : Msg :=
  let rs := recs.map (fun o => o.getD default)
  { start := start, regions := rs.map (·.md), stats := rs.map (·.stat), leaders := rs.map wireLeader }

structure Leader where
  cache     : Cache := []
  hist      : Buf Region
  /-- a stream has been bound at some time (RunServer then marshals every broadcast) -/
  everBound : Bool := false
  deriving Repr

/-- `syncHistoryRegion(request, stream)`: the messages sent.  `regions` is what `GetRegions()` returns
    (the cached regions in map order – an input). -/
def syncHistoryRegion (batch : Nat) (l : Leader) (start : Nat) (regions : List Region) : List Msg :=
  let recs := recordsFrom l.hist start
  if recs.isEmpty then
    if l.hist.index = start then []
    else if start = 0 then fullSync batch regions
    else []
  else [incrementalMsg start recs]

/-- the leader processes a changed region: cache update (stale ones are dropped) and, through
    `RunServer`, one history record; returns the broadcast message -/
def leaderPut (l : Leader) (r : Region) : Leader × Option Msg :=
  if isStale l.cache r then (l, none)
  else
    ({ l with cache := putRegion l.cache r, hist := record l.hist r false },
     some { start := l.hist.index, regions := [r.md], stats := [r.stat], leaders := [wireLeader r] })

/-- `RunServer` woken up with several changes pending in its channel: they are recorded one after the other and
    sent as ONE message (`requests/stats/leaders` get one entry per change, also for a region reported twice),
    start index = the index of the first.  `ms` = the messages the changes would make one by one. -/
def mergeMsgs : List Msg → Option Msg
  | [] => none
  | m :: ms =>
    some { start := m.start, regions := (m :: ms).flatMap (·.regions), stats := (m :: ms).flatMap (·.stats),
           leaders := (m :: ms).flatMap (·.leaders) }

/-! follower -/

/-- positional pairing of the receive loop:
    `if len(regionLeaders) > i && regionLeaders[i].Id != 0 { regionLeader = regionLeaders[i] }`,
    stats only `if len(stats) == len(regions)` -/
def decodeAux (hasStats : Bool) : List Meta → List Stat → List Peer → List Region
  | [], _, _ => []
  | m :: ms, ss, ls =>
    { md := m,
      leader := match ls.head? with
                | some p => if p.id != 0 then some p else none
                | none => none,
      stat := if hasStats then ss.headD {} else {} } :: decodeAux hasStats ms ss.tail ls.tail

def decode (m : Msg) : List Region :=
  decodeAux (m.stats.length == m.regions.length) m.regions m.stats m.leaders

/-- insert/replace in the id-ordered list of stored region metas -/
def saveMeta : List Meta → Meta → List Meta
  | [], m => [m]
  | x :: xs, m =>
    if m.id < x.id then m :: x :: xs
    else if m.id = x.id then m :: xs
    else x :: saveMeta xs m

structure Follower where
  cache     : Cache := []
  hist      : Buf Region
  /-- the follower's region storage (saved metas, ascending id) -/
  store     : List Meta := []
  /-- LoadRegionsOnce has run in this process -/
  loaded    : Bool := false
  connected : Bool := false
  /-- region ids whose next `SaveRegion` on this follower fails (once) / whose saves fail until told otherwise -/
  failOnce   : List Nat := []
  failAlways : List Nat := []
  /-- the follower saves regions to its default kv (`use-region-storage = false`): writes can be made to fail -/
  plainKv   : Bool := false
  deriving Repr

/-- one region of a message when the save succeeds: `CheckAndPutRegion; SaveRegion; Record` -/
def applyOne (f : Follower) (r : Region) : Follower :=
  { f with cache := applyRegion f.cache r, store := saveMeta f.store r.md, hist := record f.hist r false }

/-- one region of a message: `CheckAndPutRegion(region); err = SaveRegion(r); if err == nil { Record(region) }` –
    the cache is updated whatever happens to the write; a failed write only keeps the region out of the storage
    and the record out of the history -/
def applyOneF (f : Follower) (r : Region) : Follower :=
  if f.failOnce.contains r.md.id then
    { f with cache := applyRegion f.cache r, failOnce := f.failOnce.erase r.md.id }
  else if f.failAlways.contains r.md.id then
    { f with cache := applyRegion f.cache r }
  else applyOne f r

/-- one received message -/
def applyMsg (f : Follower) (m : Msg) : Follower :=
  let f1 := if f.hist.index != m.start then { f with hist := resetWithIndex f.hist m.start false } else f
  (decode m).foldl applyOneF f1

/-- `LoadRegionsOnce(CheckAndPutRegion)`: every stored region in id order; what the callback returns
    is deleted from the storage -/
def loadStep (cs : Cache × List Meta) (m : Meta) : Cache × List Meta :=
  let r := checkAndPut cs.1 { md := m }
  (r.1, cs.2.filter (fun x => !(r.2.any (fun d => d.md.id == x.id))))

def loadStored (f : Follower) : Follower :=
  if f.loaded then f
  else
    let r := f.store.foldl loadStep (f.cache, f.store)
    { f with cache := r.1, store := r.2, loaded := true }

/-- a clean process restart of a follower: storage kept, everything volatile dropped -/
def restartFollower (f : Follower) (cap : Nat) : Follower :=
  { hist := restart f.hist cap, store := f.store, plainKv := f.plainKv, failOnce := f.failOnce, failAlways := f.failAlways }

end PdModel.Syncer
