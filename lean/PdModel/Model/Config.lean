import PdModel.Spec.C18
/-
Model of the dynamic-configuration setters of pd (property C18): server/server.go
(`SetScheduleConfig`, `SetReplicationConfig`, `SetPDServerConfig`, `SetLabelPropertyConfig`,
`SetLabelProperty`, `DeleteLabelProperty`, `SetClusterVersion`, `SetReplicationModeConfig`),
server/config/config.go (`ScheduleConfig.Validate/Deprecated`, `ReplicationConfig.Validate`,
`PDServerConfig.Validate`, `NormalizeReplicationMode`, label key format), server/config/persist_options.go
(`SetLabelProperty`, `DeleteLabelProperty`, `Persist`, `Reload` with `adjustScheduleCfg` and the two
`MigrateDeprecatedFlags`), server/replication `ModeManager.UpdateConfig` (which of its branches writes
the replication status).  Core Lean only; the data records are the observable ones of `Spec/C18.lean`.

Every setter is: validate → swap in memory → persist the WHOLE configuration as one value (fails when a
float is NaN/±Inf, or when the write fails) → on failure put the old section back.
Writes are numbered per operation; bit i of the operation's `mask` makes write i fail (without effect).
-/
namespace PdModel.Config
open PdModel.Spec.C18

inductive Res where
  | ok | kverr | json | tolerant | lowrange | highrange | lowhigh | scheduler | deprecated
  | label | isolation | rule | rulecontent | dashboard | digit | version | mode
  deriving DecidableEq, Repr, Inhabited

inductive WKind where
  | config | status
  deriving DecidableEq, Repr, Inhabited

structure Write where
  kind   : WKind
  failed : Bool
  deriving DecidableEq, Repr, Inhabited

/-- the served default placement rule, as far as `SetReplicationConfig` looks at it -/
structure Rule where
  count  : Nat
  labels : List String
  deriving DecidableEq, Repr, Inhabited

structure St where
  served     : Cfg
  stored     : Option Cfg := none          -- the value under the storage key `config`
  rule       : Option Rule := none         -- rule pd/default of the rule manager
  mmMode     : String := "majority"        -- the replication-mode manager's own copy of the config
  mmKey      : String := ""
  registered : List String := []           -- registered scheduler types (extracted from the source)
  defaults   : List String := []           -- default scheduler types (extracted from the source)
  deriving Repr, Inhabited

/-- one section with a value, as another member's write carries it -/
inductive Section where
  | sched (c : Sched) | repl (c : Repl) | pd (c : PdSrv) | labels (c : List LabelProp)
  | version (v : Nat × Nat × Nat) | rmode (c : RMode)
  deriving Repr, Inhabited

def Section.apply (c : Cfg) : Section → Cfg
  | .sched x => { c with sched := x }
  | .repl x => { c with repl := x }
  | .pd x => { c with pd := x }
  | .labels x => { c with labels := x }
  | .version x => { c with version := x }
  | .rmode x => { c with rmode := x }

inductive Op where
  | sched (c : Sched) (mask : Nat)
  | repl (c : Repl) (mask : Nat)
  | pd (c : PdSrv) (mask : Nat)
  | lpset (type key value : String) (mask : Nat)
  | lpdel (type key value : String) (mask : Nat)
  | lpcfg (c : List LabelProp) (mask : Nat)
  | cver (v : Option (Nat × Nat × Nat)) (mask : Nat)     -- none: the string does not parse
  | rmode (c : RMode) (mask : Nat)
  /- another member was leader meanwhile: it reloaded the stored configuration into its own options object,
     changed one section and persisted (its writes do not fail here) -/
  | foreign (x : Section)
  /- this member is re-elected: `reloadConfigFromKV`, i.e. `Reload` on the SAME options object -/
  | reload
  deriving Repr, Inhabited

structure Out where
  st     : St
  res    : Res
  writes : List Write := []
  deriving Repr, Inhabited

def failBit (mask i : Nat) : Bool := mask.testBit i

/-! ### JSON: identity on the record, except that non-finite floats cannot be marshalled -/

def schedJsonOK (s : Sched) : Bool :=
  s.tolerant.isFinite && s.low.isFinite && s.high.isFinite && s.rate.isFinite &&
  s.limits.all (fun l => l.add.isFinite && l.remove.isFinite)

def jsonOK (c : Cfg) : Bool := schedJsonOK c.sched

/-- `PersistOptions.Persist` with write number `n` of the operation -/
def persist (s : St) (mask n : Nat) : Out :=
  if !jsonOK s.served then { st := s, res := .json }
  else if failBit mask n then { st := s, res := .kverr, writes := [⟨.config, true⟩] }
  else { st := { s with stored := some s.served }, res := .ok, writes := [⟨.config, false⟩] }

/-- `PersistOptions.Reload` on a fresh options object: the stored record after the normalisation -/
def reload (defaults : List String) (s : St) : Option Cfg := s.stored.map (normalise defaults)

/-- swap in a new configuration, persist, roll back to `old` on failure -/
def swapPersist (s : St) (new : Cfg) (mask : Nat) : Out :=
  let o := persist { s with served := new } mask 0
  if o.res = .ok then o else { o with st := { o.st with served := s.served } }

/-! ### validation -/

/-- `ScheduleConfig.Validate` then `Deprecated` -/
def validateSched (registered : List String) (c : Sched) : Res :=
  if c.tolerant.lt zero then .tolerant
  else if c.low.lt zero || one.lt c.low then .lowrange
  else if c.high.lt zero || one.lt c.high then .highrange
  else if c.low.le c.high then .lowhigh
  else if c.schedulers.any (fun x => !registered.contains x.type) then .scheduler
  else if c.disable.any (fun b => b) then .deprecated
  else if c.rate != zero then .deprecated
  else .ok

def isAlnum (c : Char) : Bool := c.isAlphanum

def isKeyChar (c : Char) : Bool := c.isAlphanum || c == '-' || c == '_' || c == '.' || c == '/'

/-- `^[$]?[A-Za-z0-9]([-A-Za-z0-9_./]*[A-Za-z0-9])?$` -/
def validKey (s : String) : Bool :=
  let cs := match s.toList with
    | '$' :: rest => rest
    | l => l
  match cs with
  | [] => false
  | first :: rest =>
    isAlnum first && rest.all isKeyChar &&
    (match rest.getLast? with | none => true | some l => isAlnum l)

/-- `ReplicationConfig.Validate` -/
def validateRepl (c : Repl) : Res :=
  if c.location.any (fun l => !validKey l) then .label
  else if c.isolation != "" && !c.location.contains c.isolation then .isolation
  else .ok

/-- `NormalizeReplicationMode` -/
def normMode (m : String) : String :=
  let s := String.ofList (m.toList.map (fun c => if c == '_' then '-' else c.toLower))
  if s == "majority" || s == "dr-auto-sync" then s else ""

/-! ### label properties (a map type → list; kept sorted by type) -/

def lpGet : List LabelProp → String → List (String × String)
  | [], _ => []
  | p :: ps, t => if p.type = t then p.labels else lpGet ps t

def lpErase : List LabelProp → String → List LabelProp
  | [], _ => []
  | p :: ps, t => if p.type = t then lpErase ps t else p :: lpErase ps t

def lpInsert : List LabelProp → LabelProp → List LabelProp
  | [], x => [x]
  | p :: ps, x => if x.type < p.type then x :: p :: ps else p :: lpInsert ps x

def lpPut (m : List LabelProp) (t : String) (ls : List (String × String)) : List LabelProp :=
  lpInsert (lpErase m t) ⟨t, ls⟩

/-- `PersistOptions.SetLabelProperty` -/
def lpSet (m : List LabelProp) (t k v : String) : List LabelProp :=
  if (lpGet m t).contains (k, v) then m else lpPut m t (lpGet m t ++ [(k, v)])

/-- `PersistOptions.DeleteLabelProperty` -/
def lpDel (m : List LabelProp) (t k v : String) : List LabelProp :=
  let rest := (lpGet m t).filter (fun l => l != (k, v))
  if rest.isEmpty then lpErase m t else lpPut m t rest

/-! ### the setters -/

def setSched (s : St) (c : Sched) (mask : Nat) : Out :=
  if validateSched s.registered c != .ok then { st := s, res := validateSched s.registered c }
  else swapPersist s { s.served with sched := c } mask

/-- is the served default rule what the replication section says (count and location labels)? -/
def ruleConsistent (s : St) : Bool :=
  match s.rule with
  | none => false
  | some ru => ru.count == s.served.repl.maxReplicas && ru.labels == s.served.repl.location

/-- with placement rules on, a change of max-replicas / location-labels goes through the default rule -/
def touchesRule (s : St) (c : Repl) : Bool :=
  c.rules && !(c.maxReplicas == s.served.repl.maxReplicas && c.location == s.served.repl.location)

/-- `Server.SetReplicationConfig` (the rule manager is initialised; no TiFlash stores) -/
def setRepl (s : St) (c : Repl) (mask : Nat) : Out :=
  if validateRepl c != .ok then { st := s, res := validateRepl c }
  else if touchesRule s c && !ruleConsistent s then { st := s, res := .rule }
  else if touchesRule s c && c.maxReplicas == 0 then
    -- SetRule rejects a rule with count 0; GetRule handed out a copy (fix F6c), nothing is modified
    { st := s, res := .rulecontent }
  else
    let s1 : St := if touchesRule s c then { s with rule := some ⟨c.maxReplicas, c.location⟩ } else s
    let o := persist { s1 with served := { s.served with repl := c } } mask 0
    if o.res = .ok then o
    else
      -- roll back the section; of the rule only the count is put back
      { o with st := { o.st with served := s.served,
                                 rule := if touchesRule s c then some ⟨s.served.repl.maxReplicas, c.location⟩ else s.rule } }

/-- `Server.SetPDServerConfig`; the dashboard address is a token: auto, none, self (this member's client
    url), selfhost (the same without scheme), anything else is not a member url -/
def setPd (s : St) (c : PdSrv) (mask : Nat) : Out :=
  let d := if c.dashboard == "selfhost" then "self" else c.dashboard
  if !(d == "auto" || d == "none" || d == "self") then { st := s, res := .dashboard }
  else if c.digit < 0 then { st := s, res := .digit }
  else swapPersist s { s.served with pd := { c with dashboard := d } } mask

def setLabels (s : St) (m : List LabelProp) (mask : Nat) : Out :=
  swapPersist s { s.served with labels := m } mask

def setVersion (s : St) (v : Option (Nat × Nat × Nat)) (mask : Nat) : Out :=
  match v with
  | none => { st := s, res := .version }
  | some v => swapPersist s { s.served with version := v } mask

/-- does `ModeManager.UpdateConfig` have to write the replication status for this change? -/
def needsStatusWrite (s : St) (c : RMode) : Bool :=
  (s.mmMode == "majority" && c.mode == "dr-auto-sync") ||
  (s.mmMode == "dr-auto-sync" && c.mode == "dr-auto-sync" && s.mmKey != c.labelKey)

/-- `Server.SetReplicationModeConfig` on a bootstrapped server -/
def setRMode (s : St) (c : RMode) (mask : Nat) : Out :=
  if normMode c.mode == "" then { st := s, res := .mode } else
  let o := persist { s with served := { s.served with rmode := c } } mask 0
  if o.res != .ok then { o with st := { o.st with served := s.served } }
  else if needsStatusWrite s c && failBit mask 1 then
    -- UpdateConfig failed: put the old section back and try to persist that (failure only logged)
    let back := persist { o.st with served := s.served } mask 2
    { st := back.st, res := .kverr, writes := o.writes ++ [⟨.status, true⟩] ++ back.writes }
  else
    { st := { o.st with mmMode := c.mode, mmKey := c.labelKey }, res := .ok,
      writes := o.writes ++ (if needsStatusWrite s c then [⟨.status, false⟩] else []) }

/-- another member's update: reload (normalised), replace the section, persist the whole -/
def foreignWrite (s : St) (x : Section) : Out :=
  match s.stored with
  | none => { st := s, res := .ok }
  | some c =>
    let c' := x.apply (normalise s.defaults c)
    if jsonOK c' then { st := { s with stored := some c' }, res := .ok } else { st := s, res := .json }

/-- `PersistOptions.Reload` on the serving object: every section is replaced by what the storage holds -/
def reloadSame (s : St) : Out :=
  match s.stored with
  | none => { st := s, res := .ok }
  | some c => { st := { s with served := normalise s.defaults c }, res := .ok }

def step (s : St) : Op → Out
  | .sched c mask => setSched s c mask
  | .repl c mask => setRepl s c mask
  | .pd c mask => setPd s c mask
  | .lpset t k v mask => setLabels s (lpSet s.served.labels t k v) mask
  | .lpdel t k v mask => setLabels s (lpDel s.served.labels t k v) mask
  | .lpcfg m mask => setLabels s m mask
  | .cver v mask => setVersion s v mask
  | .rmode c mask => setRMode s c mask
  | .foreign x => foreignWrite s x
  | .reload => reloadSame s

def Op.isSetter : Op → Bool
  | .foreign _ => false
  | .reload => false
  | _ => true

def kindOf : Op → Kind
  | .sched _ _ => .sched
  | .repl _ _ => .repl
  | .pd _ _ => .pd
  | .lpset _ _ _ _ => .labels
  | .lpdel _ _ _ _ => .labels
  | .lpcfg _ _ => .labels
  | .cver _ _ => .version
  | .rmode _ _ => .rmode
  | .foreign _ => .foreign
  | .reload => .reload

def run (s : St) (ops : List Op) : St := ops.foldl (fun s o => (step s o).st) s

end PdModel.Config
