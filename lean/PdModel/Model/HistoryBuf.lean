/-
Model of server/region_syncer/history_buffer.go (historyBuffer).  Core Lean only.

The ring buffer exactly as the Go code keeps it: `size = capacity + 1` slots (one slot is always
empty), `head`, `tail`, the next index, the flush counter and the persisted index in the kv.
`kv = none` stands for "key absent" (Load returns "").  A failing `kv.Save` is an input flag of the
operation that persists.
-/
namespace PdModel.HistoryBuf

structure Buf (α : Type) where
  index      : Nat
  records    : List (Option α)
  head       : Nat
  tail       : Nat
  size       : Nat
  kv         : Option Nat
  flushCount : Nat
  /-- `defaultFlushCount` (a parameter so that the theorems hold for every value) -/
  flush      : Nat
  deriving Repr

variable {α : Type}

/-- `newHistoryBuffer(size, kv)`: `size++ ; if size < 2 { size = 2 }`, all slots nil, then `reload`. -/
def new (cap : Nat) (kv : Option Nat) (flush : Nat) : Buf α :=
  let size := if cap + 1 < 2 then 2 else cap + 1
  { index := kv.getD 0, records := List.replicate size none, head := 0, tail := 0, size := size,
    kv := kv, flushCount := flush, flush := flush }

/-- `distanceToTail(pos)` -/
def distanceToTail (b : Buf α) (pos : Nat) : Nat :=
  if b.tail < pos then b.tail + b.size - pos else b.tail - pos

/-- `len()` -/
def len (b : Buf α) : Nat := distanceToTail b b.head

def nextIndex (b : Buf α) : Nat := b.index

/-- `firstIndex()`  (uint64 subtraction; `len ≤ index` is an invariant, see Lemmas) -/
def firstIndex (b : Buf α) : Nat := b.index - len b

/-- `persist()`: `kv.Save(historyKey, nextIndex)`, an error is only logged -/
def persist (b : Buf α) (fails : Bool) : Buf α :=
  if fails then b else { b with kv := some b.index }

/-- `Record(r)` -/
def record (b : Buf α) (r : α) (fails : Bool) : Buf α :=
  let records := b.records.set b.tail (some r)
  let tail := (b.tail + 1) % b.size
  let head := if tail = b.head then (b.head + 1) % b.size else b.head
  let b1 := { b with records := records, tail := tail, head := head, index := b.index + 1 }
  let fc := b.flushCount - 1
  if fc = 0 then { persist b1 fails with flushCount := b.flush }
  else { b1 with flushCount := fc }

/-- the loop `for i := pos; i != h.tail; i = (i+1) % h.size { append(records[i]) }`, with fuel -/
def collect (b : Buf α) : Nat → Nat → List (Option α)
  | 0, _ => []
  | fuel + 1, i =>
    if i = b.tail then [] else (b.records.getD i none) :: collect b fuel ((i + 1) % b.size)

/-- `RecordsFrom(index)` -/
def recordsFrom (b : Buf α) (index : Nat) : List (Option α) :=
  if index < nextIndex b ∧ index ≥ firstIndex b then
    let pos := (b.head + (index - firstIndex b)) % b.size
    collect b b.size pos
  else []

/-- `get(index)` -/
def get (b : Buf α) (index : Nat) : Option α :=
  if index < nextIndex b ∧ index ≥ firstIndex b then
    b.records.getD ((b.head + (index - firstIndex b)) % b.size) none
  else none

/-- `ResetWithIndex(index)` as in the repaired tree (fix F12): the new index is persisted. -/
def resetWithIndex (b : Buf α) (index : Nat) (fails : Bool) : Buf α :=
  { persist { b with index := index, head := 0, tail := 0 } fails with flushCount := b.flush }

/-- `ResetWithIndex(index)` of the pinned tree before the repair: nothing is persisted. -/
def resetWithIndexUnfixed (b : Buf α) (index : Nat) : Buf α :=
  { b with index := index, head := 0, tail := 0, flushCount := b.flush }

/-- a process restart: `newHistoryBuffer(cap, kv)` on the kv the old buffer persisted into -/
def restart (b : Buf α) (cap : Nat) : Buf α := new cap b.kv b.flush

end PdModel.HistoryBuf
