/-
Operator steps (server/schedule/operator/step.go) over a region = list of peers + leader store.
Every function follows the Go method of the same name; `apply` is what a faithful TiKV does
when it executes the step.  Core Lean only.  Used by C08 (builder) and C09 (controller).
-/
namespace PdModel.Steps

/-- metapb.PeerRole -/
inductive Role where
  | voter | learner | incoming | demoting
  deriving Repr, DecidableEq, Inhabited

structure Peer where
  store : Nat
  id    : Nat
  role  : Role
  deriving Repr, DecidableEq, Inhabited

/-- what the steps read of a core.RegionInfo: `meta.Peers` in order and the leader's store (0 = none) -/
structure Region where
  peers  : List Peer
  leader : Nat
  deriving Repr, DecidableEq, Inhabited

/-- a `PromoteLearner` / `DemoteVoter` item of a ChangePeerV2 step: store and peer id -/
structure Item where
  store : Nat
  id    : Nat
  deriving Repr, DecidableEq, Inhabited

inductive Step where
  | transferLeader (fromStore toStore : Nat)
  | addPeer (store id : Nat)
  | addLightPeer (store id : Nat)
  | addLearner (store id : Nat)
  | addLightLearner (store id : Nat)
  | promoteLearner (store id : Nat)
  | demoteFollower (store id : Nat)
  | removePeer (store id : Nat)
  | enter (promotes demotes : List Item)
  | leave (promotes demotes : List Item)
  | merge (passive : Bool)
  | split
  deriving Repr, DecidableEq, Inhabited

/-! ### region accessors (server/core/region.go) -/

/-- GetStorePeer: first peer on the store -/
def storePeer (r : Region) (s : Nat) : Option Peer := r.peers.find? (fun p => p.store == s)

/-- GetStoreVoter: first non-learner peer on the store (`r.voters` = every non-learner) -/
def storeVoter (r : Region) (s : Nat) : Option Peer :=
  r.peers.find? (fun p => p.store == s && p.role != .learner)

/-- GetStoreLearner -/
def storeLearner (r : Region) (s : Nat) : Option Peer :=
  r.peers.find? (fun p => p.store == s && p.role == .learner)

/-- `peer.GetId()` on a possibly nil peer -/
def idOf : Option Peer → Nat
  | some p => p.id
  | none => 0

/-- `peer.GetRole()` on a possibly nil peer (the zero value is Voter) -/
def roleOf : Option Peer → Role
  | some p => p.role
  | none => .voter

def isJointRole : Role → Bool
  | .incoming | .demoting => true
  | _ => false

/-- core.CountInJointState -/
def countJoint (r : Region) : Nat := r.peers.countP (fun p => isJointRole p.role)

/-- core.IsInJointState -/
def inJoint (r : Region) : Bool := r.peers.any (fun p => isJointRole p.role)

/-- `region.GetLeader().GetId()` -/
def leaderPeerId (r : Region) : Nat := idOf (storePeer r r.leader)

/-! ### CheckSafety -/

/-- the two loops of ChangePeerV2Enter.CheckSafety; `none` = an error was returned inside a loop,
    `some (inJoint, notInJoint)` otherwise -/
def enterScan (r : Region) : List Item → List Item → Option (Bool × Bool)
  | [], [] => some (false, false)
  | [], d :: ds =>
    let peer := storePeer r d.store
    if idOf peer != d.id then none else
    match roleOf peer with
    | .voter => (enterScan r [] ds).map (fun x => (x.1, true))
    | .demoting => (enterScan r [] ds).map (fun x => (true, x.2))
    | _ => none
  | p :: ps, ds =>
    let peer := storePeer r p.store
    if idOf peer != p.id then none else
    match roleOf peer with
    | .learner => (enterScan r ps ds).map (fun x => (x.1, true))
    | .incoming => (enterScan r ps ds).map (fun x => (true, x.2))
    | _ => none

/-- the two loops of ChangePeerV2Leave.CheckSafety: `some (inJoint, notInJoint, demoteLeader)` -/
def leaveScan (r : Region) : List Item → List Item → Option (Bool × Bool × Bool)
  | [], [] => some (false, false, false)
  | [], d :: ds =>
    let peer := storePeer r d.store
    if idOf peer != d.id then none else
    match roleOf peer with
    | .learner => (leaveScan r [] ds).map (fun x => (x.1, true, x.2.2))
    | .demoting =>
      (leaveScan r [] ds).map (fun x => (true, x.2.1, x.2.2 || (d.store == r.leader)))
    | _ => none
  | p :: ps, ds =>
    let peer := storePeer r p.store
    if idOf peer != p.id then none else
    match roleOf peer with
    | .voter => (leaveScan r ps ds).map (fun x => (x.1, true, x.2.2))
    | .incoming => (leaveScan r ps ds).map (fun x => (true, x.2.1, x.2.2))
    | _ => none

/-- `step.CheckSafety(region) == nil` -/
def checkSafety (r : Region) : Step → Bool
  | .transferLeader _ to =>
    match storePeer r to with
    | none => false
    | some p => p.role != .learner
  | .addPeer s id | .addLightPeer s id =>
    match storePeer r s with
    | none => true
    | some p => p.id == id
  | .addLearner s id | .addLightLearner s id =>
    match storePeer r s with
    | none => true
    | some p => p.id == id && p.role == .learner
  | .promoteLearner s id => idOf (storePeer r s) == id
  | .demoteFollower s id =>
    let pid := idOf (storePeer r s)
    pid == id && pid != leaderPeerId r
  | .removePeer s _ => s != r.leader
  | .enter ps ds =>
    match enterScan r ps ds with
    | none => false
    | some (inJ, notJ) =>
      let count := countJoint r
      if notJ && inJ then false
      else if notJ && count != 0 then false
      else if inJ && count != ps.length + ds.length then false
      else true
  | .leave ps ds =>
    match leaveScan r ps ds with
    | none => false
    | some (inJ, notJ, demoteLeader) =>
      let count := countJoint r
      if notJ && inJ then false
      else if notJ && count != 0 then false
      else if inJ && count != ps.length + ds.length then false
      else if demoteLeader then false
      else true
  | .merge _ => true
  | .split => true

/-! ### effect of a step executed by a faithful store -/

def setRole (peers : List Peer) (s : Nat) (role : Role) : List Peer :=
  peers.map (fun p => if p.store == s then { p with role := role } else p)

def setRoles (peers : List Peer) (items : List Item) (role : Role) : List Peer :=
  peers.map (fun p => if items.any (fun it => it.store == p.store) then { p with role := role } else p)

def leaveRole : Role → Role
  | .incoming => .voter
  | .demoting => .learner
  | r => r

def apply (r : Region) : Step → Region
  | .transferLeader _ to => { r with leader := to }
  | .addPeer s id | .addLightPeer s id => { r with peers := r.peers ++ [⟨s, id, .voter⟩] }
  | .addLearner s id | .addLightLearner s id => { r with peers := r.peers ++ [⟨s, id, .learner⟩] }
  | .promoteLearner s _ => { r with peers := setRole r.peers s .voter }
  | .demoteFollower s _ => { r with peers := setRole r.peers s .learner }
  | .removePeer s _ => { r with peers := r.peers.filter (fun p => p.store != s) }
  | .enter ps ds => { r with peers := setRoles (setRoles r.peers ps .incoming) ds .demoting }
  | .leave _ _ => { r with peers := r.peers.map (fun p => { p with role := leaveRole p.role }) }
  | .merge _ => r
  | .split => r

def run (r : Region) (steps : List Step) : Region := steps.foldl apply r

/-! ### ConfVerChanged / IsFinish (used by the operator controller, C09) -/

def b2n (b : Bool) : Nat := if b then 1 else 0

def confVerChanged (r : Region) : Step → Nat
  | .transferLeader _ _ => 0
  | .addPeer s id | .addLightPeer s id => b2n (idOf (storeVoter r s) == id)
  | .addLearner s id | .addLightLearner s id => b2n (idOf (storePeer r s) == id)
  | .promoteLearner s id => b2n (idOf (storeVoter r s) == id)
  | .demoteFollower s id => b2n (idOf (storeLearner r s) == id)
  | .removePeer s id =>
    let pid := idOf (storePeer r s)
    b2n (pid == 0 || (id != 0 && pid != id))
  | .enter ps ds =>
    if ps.all (fun p =>
        let v := storeVoter r p.store
        idOf v == p.id && v.isSome && (roleOf v == .incoming || roleOf v == .voter)) &&
       ds.all (fun d =>
        let v := storeVoter r d.store
        v.isNone || (idOf v == d.id && (roleOf v == .demoting || roleOf v == .learner)))
    then ps.length + ds.length else 0
  | .leave ps ds =>
    if ps.all (fun p =>
        let v := storeVoter r p.store
        idOf v == p.id && roleOf v == .voter) &&
       -- the Go code looks the store up by the *peer id* here (step.go, `GetStorePeer(dv.PeerID)`)
       ds.all (fun d => (storePeer r d.id).isNone || idOf (storeLearner r d.store) == d.id)
    then ps.length + ds.length else 0
  | .merge _ => 0
  | .split => 0

/-- IsFinish; `pending` = ids of the pending peers, `rangeChanged` = the region's key range differs
    from the one recorded in a merge/split step -/
def isFinish (r : Region) (pending : List Nat) (rangeChanged : Bool) : Step → Bool
  | .transferLeader _ to => r.leader == to
  | .addPeer s id | .addLightPeer s id =>
    match storeVoter r s with
    | some p => p.id == id && !pending.contains p.id
    | none => false
  | .addLearner s id | .addLightLearner s id =>
    match storeLearner r s with
    | some p => p.id == id && !pending.contains p.id
    | none => false
  | .promoteLearner s id =>
    match storeVoter r s with
    | some p => p.id == id
    | none => false
  | .demoteFollower s id =>
    match storeLearner r s with
    | some p => p.id == id
    | none => false
  | .removePeer s _ => (storePeer r s).isNone
  | .enter ps ds =>
    ps.all (fun p => let v := storeVoter r p.store; idOf v == p.id && roleOf v == .incoming) &&
    ds.all (fun d => let v := storeVoter r d.store; idOf v == d.id && roleOf v == .demoting)
  | .leave ps ds =>
    ps.all (fun p => let v := storeVoter r p.store; idOf v == p.id && roleOf v == .voter) &&
    ds.all (fun d => match storeLearner r d.store with | some p => p.id == d.id | none => false) &&
    !inJoint r
  | .merge passive => passive && rangeChanged
  | .split => rangeChanged

/-! ### text form shared with the Go harness -/

def Role.letter : Role → String
  | .voter => "v" | .learner => "l" | .incoming => "i" | .demoting => "d"

def Item.text (i : Item) : String := s!"{i.store}#{i.id}"

def itemsText (l : List Item) : String := "+".intercalate (l.map Item.text)

def Step.text : Step → String
  | .transferLeader f t => s!"tl:{f}>{t}"
  | .addPeer s id => s!"ap:{s}#{id}"
  | .addLightPeer s id => s!"alp:{s}#{id}"
  | .addLearner s id => s!"al:{s}#{id}"
  | .addLightLearner s id => s!"all:{s}#{id}"
  | .promoteLearner s id => s!"pl:{s}#{id}"
  | .demoteFollower s id => s!"df:{s}#{id}"
  | .removePeer s id => s!"rm:{s}#{id}"
  | .enter ps ds => s!"en:{itemsText ps}/{itemsText ds}"
  | .leave ps ds => s!"lv:{itemsText ps}/{itemsText ds}"
  | .merge p => if p then "mg:1" else "mg:0"
  | .split => "split"

def stepsText (l : List Step) : String := ",".intercalate (l.map Step.text)

def Peer.text (p : Peer) : String := s!"{p.store}{p.role.letter}{p.id}"

def peersText (l : List Peer) : String := ",".intercalate (l.map Peer.text)

end PdModel.Steps
