/-
Model of one TSO allocator (server/tso/tso.go `timestampOracle`, driven through
GlobalTSOAllocator without dc-locations / LocalTSOAllocator) shared by any number of PD members
on one etcd key `<root>/timestamp`, guarded by the leader record.  Core Lean only.

Times are Unix nanoseconds (`Nat`); the physical part of a timestamp is `ns / 10^6`.
Every clock reading is an input of the step that reads it.

Atomic steps (one per mutex region / etcd transaction of the Go code):
  getTS          – generateTSO under tsoMux, then the overflow / leadership checks of getTS
  U1 ; U2 ; U3   – UpdateTimestamp: decide (getTSO, lastSavedTime) ; saveTimestamp txn ; setTSOPhysical
  S1 ; S2 ; S3   – SyncTimestamp:   loadTimestamp ; saveTimestamp txn ; setTSOPhysical
  R              – resetUserTimestamp (whole body under tsoMux, contains at most one txn)
  resetMem       – ResetTimestamp
The window mutex (`windowMux`, fix F1) serialises U / S / R of ONE member: while a member has a
pending U or S, no other window writer of that member can start (`blocked`).
Leadership: `lead m` = m wins the campaign (a new term: the member's allocator was reset at the end
of its previous term and nothing of an earlier term is in flight; local expiry precedes server-side
expiry, so every other member's lease check is already false); `expire m` = m's local lease check
turns false (the etcd record may still be there); `resign` = the leader record disappears.
-/
namespace PdModel.Tso

structure Cfg where
  guard         : Nat   -- UpdateTimestampGuard, ns
  saveInterval  : Nat   -- ns
  maxLogical    : Nat
  maxResetGapMs : Nat
  maxRetry      : Nat
  bits          : Nat := 0   -- suffix bits in use (0: no dc-locations / the global allocator in normal mode)
  suffix        : Nat := 0   -- this allocator's suffix (< 2^bits)
  deriving Repr, DecidableEq

def msOf (ns : Nat) : Nat := ns / 1000000

inductive Pend where
  | upd (next : Nat) (save : Option Nat)
  | sync (last : Option Nat) (now : Nat)
  deriving Repr, DecidableEq

structure Mem where
  phys      : Option Nat := none     -- none = typeutil.ZeroTime
  logical   : Nat := 0
  lastSaved : Option Nat := none
  pend      : Option Pend := none
  lease     : Bool := false          -- what leadership.Check() answers now
  deriving Repr, DecidableEq

/-- ghost record of one granted range: values (ms, lo+1 … hi) -/
structure Grant where
  mem    : Nat
  ms     : Nat
  lo     : Nat
  hi     : Nat
  ns     : Nat          -- physical time in ns at the grant
  bound  : Option Nat   -- stored window at the grant
  deriving Repr, DecidableEq

structure St where
  cfg    : Cfg
  stored : Option Nat := none
  /-- the largest window persisted under the same root by *other* allocators (the dc-location allocators'
      windows, for the global allocator): `loadTimestamp` takes the maximum over all of them -/
  ext    : Option Nat := none
  leader : Nat := 0                  -- member id in the leader record, 0 = none
  mems   : Nat → Mem := fun _ => {}
  grants : List Grant := []          -- ghost, newest first

def St.setMem (s : St) (m : Nat) (x : Mem) : St :=
  { s with mems := fun i => if i = m then x else s.mems i }

def optMax (a b : Option Nat) : Option Nat :=
  match a, b with
  | none, b => b
  | a, none => a
  | some x, some y => some (max x y)

inductive Fault where
  | none | errBefore | errAfter
  deriving Repr, DecidableEq

inductive Out where
  | ok | skip | blocked | parked
  | ts (ms : Nat) (logical : Nat)
  | errUninit | errNotLeader | errExceeded | errZeroCount
  | errSave | errConflict
  | errSmall | errSmallCounter | errLarge | errLease
  | bad
  deriving Repr, DecidableEq

/-- `setTSOPhysical`: only forward in milliseconds, then the counter restarts -/
def setPhys (x : Mem) (next : Nat) : Mem :=
  match x.phys with
  | none => { x with phys := some next, logical := 0 }
  | some p => if msOf next > msOf p then { x with phys := some next, logical := 0 } else x

/-- the guarded transaction `If leader = me Then Put(timestamp, save)`; returns (state, committed?, reported ok?) -/
def saveTxn (s : St) (m : Nat) (save : Nat) (f : Fault) : St × Bool × Out :=
  match f with
  | .errBefore => (s, false, .errSave)
  | _ =>
    if s.leader = m ∧ m ≠ 0 then
      let s1 := { s with stored := some save }
      if f = .errAfter then (s1, true, .errSave)
      else (s1.setMem m { s1.mems m with lastSaved := some save }, true, .ok)
    else (s, false, if f = .errAfter then .errSave else .errConflict)

/-- one `generateTSO` + the checks of `getTS`, repeated like the retry loop does (fuel = maxRetryCount).
    The raw counter is what the memory holds; the response carries `raw << bits | suffix`. -/
def getTSLoop (s : St) (m : Nat) (count : Nat) : Nat → St × Out
  | 0 => (s, .errExceeded)
  | fuel + 1 =>
    let x := s.mems m
    match x.phys with
    | none => if x.lease then getTSLoop s m count fuel else (s, .errUninit)
    | some p =>
      let l := x.logical + count
      let s1 := s.setMem m { x with logical := l }
      -- `differentiateLogical`: the returned logical part carries the suffix in its low bits
      if l * 2 ^ s.cfg.bits + s.cfg.suffix ≥ s.cfg.maxLogical then getTSLoop s1 m count fuel
      else if !x.lease then (s1, .errNotLeader)
      else ({ s1 with grants := ⟨m, msOf p, x.logical, l, p, s.stored⟩ :: s.grants },
            .ts (msOf p) (l * 2 ^ s.cfg.bits + s.cfg.suffix))

/-- `GenerateTSO`: leadership pre-check, then `getTS` -/
def getTS (s : St) (m : Nat) (count : Nat) : St × Out :=
  if !(s.mems m).lease then (s, .errNotLeader)
  else if count = 0 then (s, .errZeroCount) else getTSLoop s m count s.cfg.maxRetry

/-- what the callers do when UpdateTSO / Initialize returns an error: `ResetAllocatorGroup`
    (allocator reset, leadership reset = the member's lease is revoked, which deletes the leader
    record if it is this member's) -/
def stepDown (s : St) (m : Nat) : St :=
  let x := s.mems m
  let s1 := s.setMem m { x with phys := none, logical := 0, pend := none, lease := false }
  { s1 with leader := if s.leader = m then 0 else s.leader }

/-- `SubRealTimeByWallClock(lastSavedTime, x) <= UpdateTimestampGuard`, with `bound = x + guard` -/
def needSave (ls : Option Nat) (bound : Nat) : Bool :=
  match ls with
  | none => true
  | some l => decide (l ≤ bound)

/-- U1: what UpdateTimestamp decides from (physical, logical), `now` and lastSavedTime -/
def updDecide (c : Cfg) (x : Mem) (now : Nat) : Option (Nat × Option Nat) :=
  match x.phys with
  | none => none          -- the updater daemon filters uninitialised allocators
  | some p =>
    let next? : Option Nat :=
      if now > p + c.guard then some now
      else if x.logical > c.maxLogical / 2 then some (p + 1000000)
      else none
    match next? with
    | none => none
    | some next =>
      some (next, if needSave x.lastSaved (next + c.guard) then some (next + c.saveInterval) else none)

/-- U2 ; U3 -/
def updFinish (s : St) (m : Nat) (next : Nat) (save : Option Nat) (f : Fault) : St × Out :=
  match save with
  | none =>
    let x := s.mems m
    (s.setMem m (setPhys { x with pend := none } next), .ok)
  | some sv =>
    let (s1, _, o) := saveTxn s m sv f
    let x := s1.mems m
    if o = .ok then (s1.setMem m (setPhys { x with pend := none } next), .ok)
    else (stepDown s1 m, o)

/-- the physical time SyncTimestamp starts from: the clock, but at least `guard` after the loaded window -/
def syncNext (c : Cfg) (last : Option Nat) (now : Nat) : Nat :=
  match last with
  | none => now
  | some l => if now < l + c.guard then l + c.guard else now

/-- S2 ; S3 with the clock reading `now` taken after the load -/
def syncFinish (s : St) (m : Nat) (last : Option Nat) (now : Nat) (f : Fault) : St × Out :=
  let next := syncNext s.cfg last now
  let (s1, _, o) := saveTxn s m (next + s.cfg.saveInterval) f
  let x := s1.mems m
  if o = .ok then (s1.setMem m (setPhys { x with pend := none } next), .ok)
  else (stepDown s1 m, o)

/-- R: resetUserTimestamp(tso = (ms, logical), ignoreSmaller) -/
def resetUser (s : St) (m : Nat) (tms tlog : Nat) (ignoreSmaller : Bool) (f : Fault) : St × Out :=
  let x := s.mems m
  if !x.lease then (s, .errLease) else
  match x.phys with
  | none => (s, .errLarge)   -- the difference to the zero time exceeds any configured gap
  | some p =>
    if tms < msOf p then (s, if ignoreSmaller then .ok else .errSmall)
    else if tms = msOf p ∧ tlog ≤ x.logical then (s, if ignoreSmaller then .ok else .errSmallCounter)
    else if tms - msOf p ≥ s.cfg.maxResetGapMs then (s, .errLarge)
    else
      let nextNs := tms * 1000000
      if needSave x.lastSaved (nextNs + s.cfg.guard) then
        let (s1, _, o) := saveTxn s m (nextNs + s.cfg.saveInterval) f
        if o = .ok then
          let y := s1.mems m
          (s1.setMem m { y with phys := some nextNs, logical := tlog }, .ok)
        else (s1, o)
      else (s.setMem m { x with phys := some nextNs, logical := tlog }, .ok)

inductive Op where
  | lead (m : Nat)                      -- m wins the campaign: new term
  | expire (m : Nat)                    -- m's local lease check turns false
  | resign                              -- the leader record disappears
  | dropKey                             -- the leader record disappears although its owner still believes in its lease
  | getTS (m : Nat) (count : Nat)
  | tryTS (m : Nat) (count : Nat)                      -- one iteration of getTS's retry loop (between two of them
                                                       -- the caller sleeps and anything else may happen)
  | update (m : Nat) (now : Nat) (f : Fault)           -- whole UpdateTSO
  | gupdate (m : Nat) (now : Nat)                      -- UpdateTSO parked before its transaction
  | sync (m : Nat) (now : Nat) (f : Fault)             -- whole Initialize / SyncTimestamp
  | gsync (m : Nat) (now : Nat)                        -- SyncTimestamp parked before its transaction
  | finish (m : Nat) (f : Fault)                       -- release the parked call
  | setTS (m : Nat) (ms logical : Nat) (ignoreSmaller : Bool) (f : Fault)
  | resetMem (m : Nat)
  | extWin (v : Nat)                                   -- another allocator under the same root persists window v
  deriving Repr, DecidableEq

def step (s : St) : Op → St × Out
  | .lead m =>
    if m = 0 then (s, .bad) else
    let cleared : Nat → Mem := fun i => { s.mems i with lease := false }
    ({ s with leader := m,
              mems := fun i => if i = m then { cleared i with lease := true, phys := none, logical := 0, pend := none }
                               else cleared i }, .ok)
  | .expire m => (s.setMem m { s.mems m with lease := false }, .ok)
  | .resign => ({ s with leader := 0, mems := fun i => { s.mems i with lease := false } }, .ok)
  | .dropKey => ({ s with leader := 0 }, .ok)
  | .getTS m count => getTS s m count
  | .tryTS m count => if count = 0 then (s, .bad) else getTSLoop s m count 1
  | .update m now f =>
    let x := s.mems m
    -- the updater daemon skips allocators without leadership or uninitialised
    if !x.lease then (s, .skip) else
    if x.phys.isNone then (s, .skip) else
    if x.pend.isSome then (s, .blocked) else
    match updDecide s.cfg x now with
    | none => (s, .skip)
    | some (next, save) => updFinish s m next save f
  | .gupdate m now =>
    let x := s.mems m
    if !x.lease then (s, .skip) else
    if x.phys.isNone then (s, .skip) else
    if x.pend.isSome then (s, .blocked) else
    match updDecide s.cfg x now with
    | none => (s, .skip)
    | some (next, none) => updFinish s m next none .none
    | some (next, some sv) => (s.setMem m { x with pend := some (.upd next (some sv)) }, .parked)
  | .sync m now f =>
    let x := s.mems m
    if x.pend.isSome then (s, .blocked) else syncFinish s m (optMax s.stored s.ext) now f
  | .gsync m now =>
    let x := s.mems m
    if x.pend.isSome then (s, .blocked) else
    (s.setMem m { x with pend := some (.sync (optMax s.stored s.ext) now) }, .parked)
  | .finish m f =>
    match (s.mems m).pend with
    | none => (s, .bad)
    | some (.upd next save) => updFinish s m next save f
    | some (.sync last now) => syncFinish s m last now f
  | .setTS m ms logical ig f =>
    let x := s.mems m
    if x.pend.isSome then (s, .blocked) else resetUser s m ms logical ig f
  | .resetMem m =>
    let x := s.mems m
    (s.setMem m { x with phys := none, logical := 0 }, .ok)
  | .extWin v => ({ s with ext := some v }, .ok)

def init (c : Cfg) : St := { cfg := c }

def run (s : St) (ops : List Op) : St := ops.foldl (fun s o => (step s o).1) s

/-! ### client side (client/client.go): a response with `count` carries the highest logical value;
the batch is handed out as `first + i << suffixBits` (`addLogical`), `first = logical - (count-1) << bits` -/

def addLogical (logical : Int) (count : Int) (bits : Nat) : Int := logical + count * 2 ^ bits

def clientSplit (logical count bits : Nat) : List Nat :=
  (List.range count).map (fun (i : Nat) =>
    (addLogical (addLogical (logical : Int) (-(count : Int) + 1) bits) (i : Int) bits).toNat)

/-- the client's fallback detector -/
def tsLessEqual (p l tp tl : Nat) : Bool := if p = tp then decide (l ≤ tl) else decide (p < tp)

end PdModel.Tso
