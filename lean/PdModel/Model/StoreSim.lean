import PdModel.Model.OpCtl
/-!
A faithful store for the operator controller (C09): how the leader of a region reacts to the
commands PD sends in heartbeat responses (the Go twin is harness/internal/opsim/sim.go; the two are
compared line by line through the `exec` / `f*` events of the opctl trace).
*Modelled rather than verified*: this is TiKV, not pd.
-/
namespace PdModel.StoreSim
open PdModel.Steps PdModel.OpCtl

/-- the region as its leader knows it -/
structure Sim where
  id      : Nat
  region  : Region
  confVer : Nat
  version : Nat
  pending : List Nat := []
  range   : Nat := 0
  deriving Repr, DecidableEq, Inhabited

def Sim.view (s : Sim) : View := ⟨s.id, s.region, s.confVer, s.version, s.pending, s.range⟩

def peerById (r : Region) (id : Nat) : Option Peer := r.peers.find? (fun p => p.id == id)

/-- a configuration change: refused unless the command carries the region's current epoch -/
def confChange (s : Sim) (m : Msg) (peers : List Peer) (k : Nat) (pend : List Nat) : Sim :=
  if m.confVer != s.confVer || m.version != s.version then s
  else { s with region := { s.region with peers := peers }, confVer := s.confVer + k, pending := pend }

/-- execute one command.  A command is ignored when it is not addressed to the current leader, when
    a configuration change carries another epoch than the region has, or when raft would refuse it
    (remove / demote the leader, transfer to a non-voter, second peer on a store, leave a joint
    state while the leader is being demoted). -/
def exec (s : Sim) (m : Msg) : Sim :=
  let r := s.region
  if m.region != s.id || m.target != r.leader || r.leader == 0 then s
  else
    match m.cmd with
    | .transferLeader store id =>
      (match peerById r id with
       | some p =>
         if p.store == store && (p.role == .voter || p.role == .incoming) then
           { s with region := { r with leader := store } } else s
       | none => s)
    | .addNode store id =>
      (match peerById r id with
       | some p =>
         if p.store == store && p.role == .learner && !inJoint r then
           confChange s m (setRole r.peers store .voter) 1 s.pending else s
       | none =>
         if (storePeer r store).isSome || inJoint r then s
         else confChange s m (r.peers ++ [⟨store, id, .voter⟩]) 1 (s.pending ++ [id]))
    | .addLearnerNode store id =>
      (match peerById r id with
       | some p =>
         if p.store == store && p.role == .voter && store != r.leader && !inJoint r then
           confChange s m (setRole r.peers store .learner) 1 s.pending else s
       | none =>
         if (storePeer r store).isSome || inJoint r then s
         else confChange s m (r.peers ++ [⟨store, id, .learner⟩]) 1 (s.pending ++ [id]))
    | .removeNode store id =>
      (match peerById r id with
       | some p =>
         if p.store == store && store != r.leader && !inJoint r then
           confChange s m (r.peers.filter (fun q => q.store != store)) 1 (s.pending.filter (· != id)) else s
       | none => s)
    | .changeV2 ps ds =>
      if ps.isEmpty && ds.isEmpty then leave s m
      else if inJoint r then s
      else if ps.all (fun it => match storePeer r it.store with
                                | some p => p.id == it.id && p.role == .learner | none => false) &&
              ds.all (fun it => match storePeer r it.store with
                                | some p => p.id == it.id && p.role == .voter | none => false) then
        confChange s m (setRoles (setRoles r.peers ps .incoming) ds .demoting) (ps.length + ds.length) s.pending
      else s
    | .leaveV2 => leave s m
    | .merge => s
    | .split => s
where
  leave (s : Sim) (m : Msg) : Sim :=
    let r := s.region
    if !inJoint r then s
    else match storePeer r r.leader with
      | some p =>
        if p.role == .demoting then s
        else confChange s m (r.peers.map (fun q => { q with role := leaveRole q.role })) (countJoint r) s.pending
      | none => s

/-! foreign events: changes that do not come from the operator under test -/

inductive Foreign where
  | addPeer (p : Peer)            -- another peer appears (conf version + 1)
  | removeStore (store : Nat)     -- the peer on a store disappears (conf version + 1)
  | setLeader (store : Nat)       -- leadership moves
  | caughtUp                      -- pending peers have caught up
  | rangeChange                   -- split / merge happened (version + 1)
  deriving Repr, DecidableEq, Inhabited

def foreign (s : Sim) : Foreign → Sim
  | .addPeer p =>
    if s.region.peers.any (fun q => q.store == p.store || q.id == p.id) then s
    else { s with region := { s.region with peers := s.region.peers ++ [p] }, confVer := s.confVer + 1 }
  | .removeStore st =>
    { s with region := { s.region with peers := s.region.peers.filter (fun q => q.store != st) },
             confVer := s.confVer + 1 }
  | .setLeader st => { s with region := { s.region with leader := st } }
  | .caughtUp => { s with pending := [] }
  | .rangeChange => { s with range := s.range + 1, version := s.version + 1 }

end PdModel.StoreSim
