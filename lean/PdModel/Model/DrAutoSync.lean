/-
Model of server/replication/replication_mode.go (`ModeManager`): the DR auto-sync state machine.
Core Lean only.

What is followed, function by function:
  NewReplicationModeManager / loadDRAutoSync      → `newMgr`
  UpdateConfig                                    → `updateConfig`
  drSwitchToAsync / SyncRecover / Sync(+WithLock) → `switchTo`  (AllocID ; drPersistStatus ; SaveReplicationStatus ; publish)
  drCheckAsyncTimeout                             → `timeoutPassed`
  checkStoreStatus                                → `downCounts`
  tickDR                                          → `tick`
  updateProgress / checkRegionRecover             → `updateLoop` / `walkBatch` / `sample` / `regionRecovered`
  drRecoverFinished / estimateProgress            → `finished` / `estimate` (float32 arithmetic: `F32`)
  updateRecoverProgress                           → inside `tick`
  cluster.ScanRegions / GetRegionCount / PutRegion / RemoveRegion on the region cache
                                                  → `scan` / `regions.length` / `putRegion` / `removeRegion`

Keys are naturals: 0 is the empty key "" (smallest start key; as an end key it means +∞, exactly as in
the Go code); the harness encodes n > 0 as a fixed-width string so that the orders agree.

Clock readings are inputs: a store is `down` when its DownTime has reached WaitStoreTimeout; the
manager's start time and each member's last-sync time are `old` when they are further back than
WaitAsyncTimeout.  AllocID results and the failure flags of the file replication and of the storage
write are inputs of each state switch (`SwitchIn`).
-/
namespace PdModel.DrAutoSync

inductive DrState where
  | none | sync | async | syncRecover
  deriving Repr, DecidableEq, Inhabited

def DrState.toString : DrState → String
  | .none => "none" | .sync => "sync" | .async => "async" | .syncRecover => "sync_recover"

/-- replication state a region reports in its heartbeat -/
inductive RState where
  | unknown | majority | integrity
  deriving Repr, DecidableEq, Inhabited

structure Region where
  id    : Nat
  start : Nat
  end_  : Nat           -- 0 = +∞
  st    : RState
  sid   : Nat           -- state id the region reported
  deriving Repr, DecidableEq, Inhabited

structure Store where
  id    : Nat
  label : Nat           -- value of the label under key 1 ("zone"); 0 = no such label
  down  : Bool          -- DownTime ≥ WaitStoreTimeout
  tomb  : Bool          -- meta state Tombstone (Up and Offline are both `false`: an Offline store that is down still counts)
  deriving Repr, DecidableEq, Inhabited

structure Config where
  dr        : Bool := false   -- ReplicationMode = "dr-auto-sync" (else "majority")
  labelKey  : Nat := 1
  primary   : Nat := 1        -- label value of the primary dc (0 = "")
  drLabel   : Nat := 2        -- label value of the dr dc
  pRep      : Nat := 0        -- PrimaryReplicas
  dRep      : Nat := 0        -- DRReplicas
  waitAsync : Bool := false   -- WaitAsyncTimeout ≠ 0
  deriving Repr, DecidableEq, Inhabited

/-- `drAutoSyncStatus` without the wall-clock field -/
structure Status where
  state    : DrState := .none
  id       : Nat := 0
  total    : Nat := 0     -- TotalRegions
  synced   : Nat := 0     -- SyncedRegions
  progress : Nat := 0     -- RecoverProgress, as IEEE-754 binary32 bits
  deriving Repr, DecidableEq, Inhabited

/-- inputs of one `drSwitchTo*` call -/
structure SwitchIn where
  id     : Option Nat := none   -- result of AllocID (none = error)
  fileOk : Bool := true         -- ReplicateFileToAllMembers succeeds
  save   : Nat := 0             -- SaveReplicationStatus: 0 ok, 1 error and nothing written, ≥ 2 error but written
  deriving Repr, DecidableEq, Inhabited

abbrev Served := DrState × Nat

inductive Ev where
  | alloc (id : Nat)
  | allocFail
  | file (st : DrState) (id : Nat) (ok : Bool) (seen : Served)   -- `seen` = in-memory state at that moment
  | save (st : DrState) (id : Nat) (ok : Bool) (seen : Served)
  | publish (st : DrState) (id : Nat)                            -- ghost: `m.drAutoSync = dr`
  | scan (key limit n : Nat)
  | count (n : Nat)
  deriving Repr, DecidableEq

structure St where
  mgr         : Bool := false            -- a manager exists
  cfg         : Config := {}
  dr          : Status := {}
  stored      : Option Served := none    -- storage key replication_mode/dr-auto-sync
  recKey      : Nat := 0
  recCount    : Nat := 0
  sampleRec   : Nat := 0
  sampleTotal : Nat := 0
  total       : Nat := 0
  stores      : List Store := []
  regions     : List Region := []        -- the region cache, sorted by start key, non-overlapping
  initOld     : Bool := false
  members     : List (Nat × Bool) := []  -- member id ↦ its last-sync time is old
  batch       : Nat := 1024              -- regionScanBatchSize
  minSample   : Nat := 512               -- regionMinSampleSize
  /-- ghost: the regions the recovery cursor has passed since it was last reset, oldest first -/
  passed      : List Region := []
  /-- ghost: every region report (heartbeat) received so far, oldest first -/
  log         : List Region := []
  /-- ghost: the loop of updateProgress ran out of the model's fuel (never happens, see `Props`) -/
  exhausted   : Bool := false
  deriving Repr

def St.served (s : St) : Served := (s.dr.state, s.dr.id)

/-! ### region cache (RegionsInfo.SetRegion / RemoveRegion / ScanRange / GetRegionCount) -/

def keyBelowEnd (k e : Nat) : Bool := e == 0 || k < e

/-- `r` overlaps the range of `n` (regionTree.getOverlaps) -/
def overlaps (n r : Region) : Bool :=
  (n.start ≤ r.start || keyBelowEnd n.start r.end_) && keyBelowEnd r.start n.end_

def insertSorted (r : Region) : List Region → List Region
  | [] => [r]
  | x :: xs => if r.start ≤ x.start then r :: x :: xs else x :: insertSorted r xs

def putRegion (rs : List Region) (r : Region) : List Region :=
  insertSorted r (rs.filter (fun x => x.id != r.id && !overlaps r x))

def removeRegion (rs : List Region) (id : Nat) : List Region := rs.filter (·.id != id)

/-- ScanRange(key, nil, limit): from the region containing `key` (or the first one behind it) -/
def scan (rs : List Region) (key limit : Nat) : List Region :=
  let l := rs.filter (fun r => key ≤ r.start || keyBelowEnd key r.end_)
  if limit > 0 then l.take limit else l

/-! ### store status -/

def labelValue (cfg : Config) (s : Store) : Nat := if cfg.labelKey = 1 then s.label else 0

def failed (cfg : Config) (dc : Nat) (s : Store) : Bool :=
  !s.tomb && s.down && labelValue cfg s == dc

/-- checkStoreStatus -/
def downCounts (s : St) : Nat × Nat :=
  ((s.stores.filter (failed s.cfg s.cfg.primary)).length,
   (s.stores.filter (failed s.cfg s.cfg.drLabel)).length)

def canSync (cfg : Config) (dp dd : Nat) : Bool := dp < cfg.pRep && dd < cfg.dRep

def upPeers (cfg : Config) (dp dd : Nat) : Nat :=
  (if dp < cfg.pRep then cfg.pRep - dp else 0) + (if dd < cfg.dRep then cfg.dRep - dd else 0)

def hasMajority (cfg : Config) (dp dd : Nat) : Bool := upPeers cfg dp dd * 2 > cfg.pRep + cfg.dRep

/-- drCheckAsyncTimeout -/
def timeoutPassed (s : St) : Bool :=
  !s.cfg.waitAsync || (s.members.all (·.2) && s.initOld)

/-! ### state switches -/

/-- drSwitchTo{Async,SyncRecover,Sync}WithLock -/
def switchTo (s : St) (tgt : DrState) (x : SwitchIn) : St × List Ev :=
  match x.id with
  | none => (s, [.allocFail])
  | some id =>
    let seen := s.served
    if x.save = 0 then
      let s1 := { s with stored := some (tgt, id), dr := { state := tgt, id := id } }
      let s2 := if tgt = .syncRecover then { s1 with recKey := 0, recCount := 0, passed := [] } else s1
      (s2, [.alloc id, .file tgt id x.fileOk seen, .save tgt id true seen, .publish tgt id])
    else
      let s1 := if x.save = 1 then s else { s with stored := some (tgt, id) }
      (s1, [.alloc id, .file tgt id x.fileOk seen, .save tgt id false seen])

/-- did the switch take place? -/
def switched (evs : List Ev) : Bool := evs.any (fun e => match e with | .publish _ _ => true | _ => false)

/-! ### recovery scan -/

/-- checkRegionRecover -/
def regionRecovered (s : St) (r : Region) (key : Nat) : Bool :=
  key == r.start && r.sid == s.dr.id && r.st == .integrity

/-- the inner `for i, r := range regions` up to the first region that is not recovered:
    returns the state after passing the recovered prefix and `regions[i:]` (none = all passed) -/
def walkBatch (s : St) : List Region → St × Option (List Region)
  | [] => (s, none)
  | r :: rs =>
    if regionRecovered s r s.recKey then
      walkBatch { s with recKey := r.end_, recCount := s.recCount + 1, passed := s.passed ++ [r] } rs
    else (s, some (r :: rs))

/-- the sample loop: number of regions of the sample that are recovered and contiguous -/
def sampleCount (s : St) : Nat → List Region → Nat
  | _, [] => 0
  | key, r :: rs => (if regionRecovered s r key then 1 else 0) + sampleCount s r.end_ rs

/-- "take sample and quit iteration" -/
def sample (s : St) (rest : List Region) : St × List Ev :=
  let last := rest.getLast?.getD default
  let extra? := rest.length < s.minSample && last.end_ != 0
  let extra := if extra? then scan s.regions last.end_ s.minSample else []
  let all := rest ++ extra
  ({ s with sampleRec := sampleCount s s.recKey all, sampleTotal := all.length, total := s.regions.length },
   (if extra? then [Ev.scan last.end_ s.minSample extra.length] else []) ++ [.count s.regions.length])

/-- updateProgress (`fuel` bounds the number of batches; `regions.length + 2` is always enough) -/
def updateLoop : Nat → St → St × List Ev
  | 0, s => ({ s with exhausted := true }, [])
  | fuel + 1, s =>
    if s.recKey != 0 || s.recCount == 0 then
      let rs := scan s.regions s.recKey s.batch
      let e := Ev.scan s.recKey s.batch rs.length
      if rs.isEmpty then (s, [e])
      else
        let w := walkBatch s rs
        match w.2 with
        | none => let r := updateLoop fuel w.1; (r.1, e :: r.2)
        | some rest => let r := sample w.1 rest; (r.1, e :: r.2)
    else (s, [])

def updateProgress (s : St) : St × List Ev := updateLoop (s.regions.length + 2) s

/-- drRecoverFinished -/
def finished (s : St) : Bool := s.recKey == 0 && s.recCount > 0

/-! ### float32 (binary32, round to nearest even; no subnormals/overflow: not reachable for
    63-bit counters) -/

/-- value `m · 2^e` with `2^23 ≤ m < 2^24`, or zero (`m = 0`) -/
structure F32 where
  m : Nat
  e : Int
  deriving Repr, DecidableEq, Inhabited

def bitLen (n : Nat) : Nat := if n = 0 then 0 else Nat.log2 n + 1

def pow2 (k : Nat) : Nat := 2 ^ k

/-- `n / (d · 2^k)` as a pair numerator, denominator -/
def scaled (n d : Nat) (k : Int) : Nat × Nat :=
  if k ≥ 0 then (n, d * pow2 k.toNat) else (n * pow2 (-k).toNat, d)

/-- the binary32 value nearest to `n / d` (ties to even) -/
def roundRat (n d : Nat) : F32 :=
  if n = 0 || d = 0 then ⟨0, 0⟩ else
  let k0 : Int := (bitLen n : Int) - (bitLen d : Int) - 24
  let (n0, d0) := scaled n d k0
  let k : Int := if n0 / d0 ≥ pow2 24 then k0 + 1 else k0
  let (n1, d1) := scaled n d k
  let q := n1 / d1
  let r := n1 % d1
  let q1 := if 2 * r > d1 || (2 * r == d1 && q % 2 == 1) then q + 1 else q
  if q1 == pow2 24 then ⟨pow2 23, k + 1⟩ else ⟨q1, k⟩

def F32.toRat (x : F32) : Nat × Nat :=
  if x.e ≥ 0 then (x.m * pow2 x.e.toNat, 1) else (x.m, pow2 (-x.e).toNat)

def F32.ofNat (n : Nat) : F32 := roundRat n 1
def F32.mul (a b : F32) : F32 := let (n1, d1) := a.toRat; let (n2, d2) := b.toRat; roundRat (n1 * n2) (d1 * d2)
def F32.div (a b : F32) : F32 := let (n1, d1) := a.toRat; let (n2, d2) := b.toRat; roundRat (n1 * d2) (d1 * n2)
def F32.add (a b : F32) : F32 := let (n1, d1) := a.toRat; let (n2, d2) := b.toRat; roundRat (n1 * d2 + n2 * d1) (d1 * d2)

def F32.bits (x : F32) : Nat :=
  if x.m = 0 then 0 else (x.e + 150).toNat * pow2 23 + (x.m - pow2 23)

def F32.one : F32 := ⟨pow2 23, -23⟩

/-- the integer inputs of the estimate after `estimateProgress` adjusted them:
    (sample total, total unchecked) -/
def estimateInputs (s : St) : Nat × Nat :=
  let st := if s.sampleTotal ≤ s.sampleRec then s.sampleRec + 1 else s.sampleTotal
  let tu := if s.total < s.recCount + st then st else s.total - s.recCount
  (st, tu)

/-- the exact value of the estimate, numerator and denominator -/
def exactProgress (s : St) : Nat × Nat :=
  if finished s then (1, 1) else
  let (st, tu) := estimateInputs s
  (s.recCount * st + tu * s.sampleRec, st * (s.recCount + tu))

/-- estimateProgress as the Go code computes it in float32 -/
def estimateF32 (s : St) : F32 :=
  if finished s then F32.one else
  let (st, tu) := estimateInputs s
  let unrec := F32.div (F32.mul (F32.ofNat tu) (F32.ofNat s.sampleRec)) (F32.ofNat st)
  F32.div (F32.add (F32.ofNat s.recCount) unrec) (F32.ofNat (s.recCount + tu))

/-- estimateProgress: the value and the state (it adjusts drSampleTotalRegion) -/
def estimate (s : St) : St × F32 :=
  if finished s then (s, F32.one) else
  ({ s with sampleTotal := (estimateInputs s).1 }, estimateF32 s)

/-! ### tickDR -/

/-- one `drSwitchTo*` call made by tickDR: it consumes the inputs of the next switch
    (no inputs left: AllocID fails) -/
def attempt (s : St) (tgt : DrState) (xs : List SwitchIn) : St × List Ev × List SwitchIn :=
  let r := switchTo s tgt (xs.headD {})
  (r.1, r.2, xs.tail)

/-- updateRecoverProgress -/
def updateRecoverProgress (s : St) (p : F32) : St :=
  { s with dr := { s.dr with progress := p.bits, total := s.total, synced := s.recCount } }

/-- the state on which tickDR decides whether the recovery is complete:
    after updateProgress and estimateProgress -/
def scanned (s : St) : St := (estimate (updateProgress s).1).1

/-- the `sync_recover` part of tickDR -/
def recoverPhase (s : St) (xs : List SwitchIn) : St × List Ev :=
  if s.dr.state == .syncRecover then
    let r3 := updateProgress s
    let r4 := estimate r3.1
    if finished r4.1 then
      let r5 := attempt r4.1 .sync xs
      (r5.1, r3.2 ++ r5.2.1)
    else (updateRecoverProgress r4.1 r4.2, r3.2)
  else (s, [])

/-- the condition of the switch to async -/
def asyncCond (s : St) : Bool :=
  let d := downCounts s
  !canSync s.cfg d.1 d.2 && hasMajority s.cfg d.1 d.2 && s.dr.state != .async && timeoutPassed s

/-- `canSync` of tickDR -/
def canSyncNow (s : St) : Bool := let d := downCounts s; canSync s.cfg d.1 d.2

def asyncPhase (s : St) (xs : List SwitchIn) : St × List Ev × List SwitchIn :=
  if asyncCond s then attempt s .async xs else (s, [], xs)

/-- `cs` is canSync as computed at the beginning of the tick -/
def recoverSwitchPhase (cs : Bool) (s : St) (xs : List SwitchIn) : St × List Ev × List SwitchIn :=
  if cs && s.dr.state == .async then attempt s .syncRecover xs else (s, [], xs)

def tick (s : St) (xs : List SwitchIn) : St × List Ev :=
  if !s.cfg.dr then (s, []) else
  let r1 := asyncPhase s xs
  let r2 := recoverSwitchPhase (canSyncNow s) r1.1 r1.2.2
  let r3 := recoverPhase r2.1 r2.2.2
  (r3.1, r1.2.1 ++ r2.2.1 ++ r3.2)

/-! ### construction and configuration -/

/-- the zero value of a new `ModeManager` on the current storage and cluster -/
def resetMgr (s : St) (cfg : Config) : St :=
  { s with mgr := false, cfg := cfg, dr := {}, recKey := 0, recCount := 0, sampleRec := 0,
           sampleTotal := 0, total := 0, initOld := false, members := [], passed := [],
           exhausted := false }

/-- NewReplicationModeManager on the current storage and cluster (also: a restart) -/
def newMgr (s : St) (cfg : Config) (x : SwitchIn) : St × List Ev × Bool :=
  if !cfg.dr then ({ resetMgr s cfg with mgr := true }, [], true) else
  match s.stored with
  | some v => ({ resetMgr s cfg with mgr := true, dr := { state := v.1, id := v.2 } }, [], true)
  | none =>
    let r := switchTo (resetMgr s cfg) .sync x
    if switched r.2 then ({ r.1 with mgr := true }, r.2, true) else (r.1, r.2, false)

/-- UpdateConfig -/
def updateConfig (s : St) (cfg : Config) (x : SwitchIn) : St × List Ev × Bool :=
  if !s.cfg.dr && cfg.dr then
    let r := switchTo { s with cfg := cfg } .syncRecover x
    if switched r.2 then (r.1, r.2, true) else ({ r.1 with cfg := s.cfg }, r.2, false)
  else if s.cfg.dr && cfg.dr && s.cfg.labelKey != cfg.labelKey then
    let r := switchTo { s with cfg := cfg } .async x
    if switched r.2 then (r.1, r.2, true) else ({ r.1 with cfg := s.cfg }, r.2, false)
  else ({ s with cfg := cfg }, [], true)

/-! ### operations -/

inductive Op where
  | new (cfg : Config) (x : SwitchIn)
  | cfg (cfg : Config) (x : SwitchIn)
  | tick (xs : List SwitchIn)
  | store (st : Store)                 -- PutStore (insert or replace by id)
  | region (r : Region)                -- PutRegion (a region heartbeat)
  | fill (n : Nat) (st : RState) (sid : Nat)   -- n contiguous regions 1..n covering the key space
  | rmregion (id : Nat)
  | initOld (old : Bool)               -- the manager's start time is (not) older than the async timeout
  | member (id : Nat) (old : Bool)     -- a member's last-sync time
  | sizes (batch sample : Nat)         -- regionScanBatchSize / regionMinSampleSize (0 = keep)
  deriving Repr

def putStore (l : List Store) (x : Store) : List Store :=
  if l.any (·.id == x.id) then l.map (fun y => if y.id == x.id then x else y) else l ++ [x]

def putMember (l : List (Nat × Bool)) (id : Nat) (old : Bool) : List (Nat × Bool) :=
  if l.any (·.1 == id) then l.map (fun y => if y.1 == id then (id, old) else y) else l ++ [(id, old)]

/-- region i of `fill n` (1-based): [i-1, i) with the last one open-ended; keys are spaced by 10 -/
def fillRegion (n : Nat) (st : RState) (sid : Nat) (i : Nat) : Region :=
  { id := i, start := (i - 1) * 10, end_ := if i = n then 0 else i * 10, st := st, sid := sid }

def fillRegions (n : Nat) (st : RState) (sid : Nat) : List Region :=
  (List.range n).map (fun i => fillRegion n st sid (i + 1))

inductive Ret where
  | ok | err | nomgr
  deriving Repr, DecidableEq

structure Out where
  ret : Ret
  evs : List Ev := []
  deriving Repr

def step (s : St) : Op → St × Out
  | .new cfg x => let r := newMgr s cfg x; (r.1, { ret := if r.2.2 then .ok else .err, evs := r.2.1 })
  | .cfg cfg x =>
    if !s.mgr then (s, { ret := .nomgr }) else
    let r := updateConfig s cfg x; (r.1, { ret := if r.2.2 then .ok else .err, evs := r.2.1 })
  | .tick xs =>
    if !s.mgr then (s, { ret := .nomgr }) else
    let r := tick s xs; (r.1, { ret := .ok, evs := r.2 })
  | .store st => ({ s with stores := putStore s.stores st }, { ret := .ok })
  | .region r => ({ s with regions := putRegion s.regions r, log := s.log ++ [r] }, { ret := .ok })
  | .fill n st sid =>
    ({ s with regions := fillRegions n st sid, log := s.log ++ fillRegions n st sid }, { ret := .ok })
  | .rmregion id => ({ s with regions := removeRegion s.regions id }, { ret := .ok })
  | .initOld b => if !s.mgr then (s, { ret := .nomgr }) else ({ s with initOld := b }, { ret := .ok })
  | .member id b =>
    if !s.mgr then (s, { ret := .nomgr }) else ({ s with members := putMember s.members id b }, { ret := .ok })
  | .sizes b m =>
    ({ s with batch := if b > 0 then b else s.batch, minSample := if m > 0 then m else s.minSample }, { ret := .ok })

def init (batch minSample : Nat) : St := { batch := batch, minSample := minSample }

def run (s : St) (ops : List Op) : St := ops.foldl (fun s o => (step s o).1) s

end PdModel.DrAutoSync
