import PdModel.Model.RegionTree
/-
A small TiKV: what the stores can legitimately report to PD.  The regions partition the key space; the only
events are the ones raft allows:
  split       – both halves get version+1; one half keeps the id, the other gets the next fresh id and fresh peers
  merge       – two neighbours become one region with the target's id and version max+1; the source id dies
  conf change – conf-version+1, new peer list
  leader      – term+1, new leader
  stat        – size / flow only
Region ids are never re-used (`next` only grows).  A heartbeat is a copy of a region as it is at some moment.
MODELLED (TiKV is not in the repository).  Core Lean only.
-/
namespace PdModel.TikvSim
open PdModel.RegionTree

inductive Ev where
  /-- split region `id` at `key`; the fresh id goes to the right half unless `rightDerive` -/
  | split (id : Nat) (key : Key) (newPeers : List Peer) (newLeader : Nat) (rightDerive : Bool)
  /-- merge `source` into its neighbour `target` -/
  | merge (source target : Nat)
  | confChange (id : Nat) (peers : List Peer)
  | leader (id : Nat) (leader : Nat)
  | stat (id : Nat) (size : Int)
  deriving Repr

structure Sim where
  rs : List Region
  /-- the next region id the id allocator hands out -/
  next : Nat
  deriving Repr

def find (rs : List Region) (id : Nat) : Option Region := rs.find? (fun r => r.id = id)

def replace (rs : List Region) (id : Nat) (new : List Region) : List Region :=
  rs.flatMap (fun r => if r.id = id then new else [r])

def inside (r : Region) (k : Key) : Bool := decide (r.startKey < k) && (r.endKey.isEmpty || decide (k < r.endKey))

/-- one event; an event that raft would not allow leaves the state as it is -/
def step (s : Sim) : Ev → Sim
  | .split id key newPeers newLeader rightDerive =>
    match find s.rs id with
    | some r =>
      if inside r key then
        let l : Region := { r with endKey := key, version := r.version + 1 }
        let rr : Region := { r with startKey := key, version := r.version + 1 }
        let fresh (x : Region) : Region :=
          { x with id := s.next, peers := newPeers, leader := newLeader, pending := [], down := [], term := 5 }
        { rs := replace s.rs id (if rightDerive then [fresh l, rr] else [l, fresh rr]), next := s.next + 1 }
      else s
    | none => s
  | .merge source target =>
    match find s.rs source, find s.rs target with
    | some a, some t =>
      if source ≠ target ∧ (a.endKey = t.startKey ∧ a.endKey ≠ [] ∨ t.endKey = a.startKey ∧ t.endKey ≠ []) then
        let lo := if a.endKey = t.startKey ∧ a.endKey ≠ [] then a else t
        let hi := if a.endKey = t.startKey ∧ a.endKey ≠ [] then t else a
        let m : Region := { t with startKey := lo.startKey, endKey := hi.endKey,
                                   version := max a.version t.version + 1, size := a.size + t.size }
        { s with rs := replace (replace s.rs source []) target [m] }
      else s
    | _, _ => s
  | .confChange id peers =>
    match find s.rs id with
    | some r => { s with rs := replace s.rs id [{ r with peers := peers, confVer := r.confVer + 1 }] }
    | none => s
  | .leader id leader =>
    match find s.rs id with
    | some r => { s with rs := replace s.rs id [{ r with leader := leader, term := r.term + 1 }] }
    | none => s
  | .stat id size =>
    match find s.rs id with
    | some r => { s with rs := replace s.rs id [{ r with size := size }] }
    | none => s

/-- the states a history goes through (the first one is the bootstrap state) -/
def states (s : Sim) : List Ev → List (List Region)
  | [] => [s.rs]
  | e :: es => s.rs :: states (step s e) es

/-- `hb` is what some store can report at some moment of the history -/
def Reportable (s : Sim) (es : List Ev) (hb : Region) : Prop := ∃ st ∈ states s es, hb ∈ st
instance (s : Sim) (es : List Ev) (hb : Region) : Decidable (Reportable s es hb) :=
  inferInstanceAs (Decidable (∃ st ∈ states s es, _))

end PdModel.TikvSim
