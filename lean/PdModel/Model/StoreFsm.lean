import PdModel.Prelude.StoreCfgMap
/-
Model of the store life cycle of pd (property C14): server/cluster/cluster.go
(`putStoreImpl`, `PutStore`, `UpdateStoreLabels`, `RemoveStore`, `UpStore`, `buryStore`, `checkStores`,
`SetStoreWeight`, `RemoveTombStoneRecords`, `putStoreLocked`, `deleteStoreLocked`, `HandleStoreHeartbeat`,
`onStoreVersionChangeLocked`, the store bookkeeping of `processRegionHeartbeat`), server/core/store.go
(`MergeLabels`, `GetLabelValue`), server/grpc_service.go (`checkStore`, `PutStore`, `StoreHeartbeat`) and
server/versioninfo (`IsCompatible`).  Core Lean only.

State = served map (`core.StoresInfo`), stored records (`raft/s/<id>`), stored weights
(`schedule/store_weight/<id>/{leader,region}`), the region → stores placement, the cluster version and
the replication options the store code reads.  Every storage write of an operation takes its failure
flag from the operation's `mask` (bit i = the i-th store write of the operation fails, without effect);
the iteration order of the two loops over the store map (`checkStores`, `RemoveTombStoneRecords`) is an
input (`order`).
-/
namespace PdModel.StoreFsm
open PdModel.AMap

inductive SState where
  | up | offline | tombstone
  deriving DecidableEq, Repr, Inhabited

structure Ver where
  major : Nat
  minor : Nat
  patch : Nat
  deriving DecidableEq, Repr, Inhabited

/-- semver `LessThan` (no pre-release parts) -/
def Ver.lt (a b : Ver) : Bool :=
  a.major < b.major || (a.major == b.major && (a.minor < b.minor || (a.minor == b.minor && a.patch < b.patch)))

/-- versioninfo.IsCompatible -/
def compatible (a b : Ver) : Bool := a.lt b || (a.major == b.major && a.minor == b.minor)

abbrev Labels := List (String × String)

/-- `metapb.Store` without the id (the map key) and without the wall-clock heartbeat time -/
structure Meta where
  addr      : String
  state     : SState
  destroyed : Bool
  ver       : Ver
  start     : Nat
  labels    : Labels
  deriving DecidableEq, Repr, Inhabited

/-- `core.StoreInfo` -/
structure Served where
  md      : Meta
  lw        : Nat := 1000000     -- leader weight, fixed point x 10^6
  rw        : Nat := 1000000
  rcount    : Nat := 0           -- StoreInfo.regionCount (refreshed by region heartbeats)
  persisted : Bool := false      -- lastPersistTime is recent: the next store heartbeat does not save
  deriving DecidableEq, Repr, Inhabited

structure Config where
  strict : Bool := false          -- replication.strictly-match-label
  loc    : List String := []      -- replication.location-labels
  pr     : Bool := false          -- replication.enable-placement-rules
  deriving Repr, Inhabited

structure St where
  cfg      : Config := {}
  cv       : Ver := ⟨0, 0, 0⟩
  served   : AMap Served := []
  stored   : AMap Meta := []
  storedLW : AMap Nat := []
  storedRW : AMap Nat := []
  regions  : AMap (List Nat) := []
  deriving Repr, Inhabited

inductive Res where
  | ok | notfound | tombstone | destroyed | isup | dupaddr | badid | badver | incompat | label | tiflash | kverr
  deriving DecidableEq, Repr, Inhabited

inductive WKind where
  | record | lw | rw | del
  deriving DecidableEq, Repr, Inhabited

structure Write where
  kind   : WKind
  id     : Nat
  failed : Bool
  deriving DecidableEq, Repr, Inhabited

/-- the store in a put-store request -/
structure Req where
  id        : Nat
  addr      : String
  ver       : Option Ver     -- none: the version string does not parse
  start     : Nat
  labels    : Labels
  state     : SState := .up
  destroyed : Bool := false
  deriving Repr, Inhabited

inductive Op where
  | put (r : Req) (mask : Nat)                         -- RaftCluster.PutStore
  | gput (r : Req) (mask : Nat)                        -- gRPC PutStore
  | ghb (id : Nat) (mask : Nat)                        -- gRPC StoreHeartbeat
  | labels (id : Nat) (ls : Labels) (force : Bool) (mask : Nat)
  | remove (id : Nat) (destroyed : Bool) (mask : Nat)
  | up (id : Nat) (mask : Nat)
  | bury (id : Nat) (mask : Nat)                       -- buryStore called directly
  | check (order : List Nat) (mask : Nat)              -- checkStores
  | weight (id : Nat) (lw rw : Nat) (mask : Nat)
  | rmtomb (order : List Nat) (mask : Nat)             -- RemoveTombStoneRecords
  | region (rid : Nat) (stores : List Nat)             -- a region heartbeat placing the region on stores
  /- the locked halves of the operations that look at the cluster before they take its lock; used for
     the gated schedules, where that look happened before a concurrent operation finished -/
  | labelsFrom (r : Req) (force : Bool) (mask : Nat)   -- UpdateStoreLabels after its unlocked GetStore
  | checkOnly (ids : List Nat) (mask : Nat)            -- checkStores restricted to the stores its snapshot listed
  | restart                                            -- a new leader: fresh cache, `LoadClusterInfo` from storage
  deriving Repr, Inhabited

/-- result of a step: new state, result, the store writes attempted -/
structure Out where
  st     : St
  res    : Res
  writes : List Write := []
  deriving Repr, Inhabited

def failBit (mask i : Nat) : Bool := mask.testBit i

/-! ### labels -/

def eqFold (a b : String) : Bool := a.toLower == b.toLower

/-- one round of the `L:` loop of `MergeLabels`: overwrite the first label with the same key
    (case-insensitively) or append -/
def setFirst : Labels → String × String → Labels
  | [], nl => [nl]
  | l :: ls, nl => if eqFold l.1 nl.1 then (l.1, nl.2) :: ls else l :: setFirst ls nl

/-- `StoreInfo.MergeLabels` (on a copy of the served labels – fix F22) -/
def mergeLabels (old new : Labels) : Labels :=
  (new.foldl setFirst old).filter (fun l => l.2 ≠ "")

/-- `StoreInfo.GetLabelValue` -/
def labelValue : Labels → String → String
  | [], _ => ""
  | l :: ls, k => if eqFold l.1 k then l.2 else labelValue ls k

/-- `checkStoreLabels`: does strict matching reject these labels? -/
def labelsRejected (c : Config) (ls : Labels) : Bool :=
  c.strict && (c.loc.any (fun k => labelValue ls k == "") || ls.any (fun l => !c.loc.contains l.1))

/-- `core.IsTiFlashStore` -/
def isTiFlash (ls : Labels) : Bool := ls.any (fun l => l.1 == "engine" && l.2 == "tiflash")

/-! ### helpers -/

def live (m : Meta) : Bool := m.state != .tombstone && !m.destroyed

/-- the address loop of `putStoreImpl` -/
def addrTaken (served : AMap Served) (id : Nat) (addr : String) : Bool :=
  served.any (fun p => live p.2.md && p.1 != id && p.2.md.addr == addr)

/-- `GetStoreRegionCount`: number of cached regions with a peer on the store -/
def treeCount (regions : AMap (List Nat)) (id : Nat) : Nat :=
  (regions.filter (fun p => p.2.contains id)).length

def verMin : List Ver → Option Ver
  | [] => none
  | v :: vs => match verMin vs with
    | none => some v
    | some m => some (if v.lt m then v else m)

/-- `onStoreVersionChangeLocked`: raise the cluster version to the minimum version of the
    non-tombstone stores -/
def bumpCV (s : St) : St :=
  match verMin ((s.served.filter (fun p => p.2.md.state != .tombstone)).map (fun p => p.2.md.ver)) with
  | some m => if s.cv.lt m then { s with cv := m } else s
  | none => s

/-- `putStoreLocked`: save, then publish -/
def commit (s : St) (id : Nat) (sv : Served) (fail : Bool) : Out :=
  if fail then { st := s, res := .kverr, writes := [⟨.record, id, true⟩] }
  else { st := { s with stored := put s.stored id sv.md, served := put s.served id sv },
         res := .ok, writes := [⟨.record, id, false⟩] }

def reject (s : St) (r : Res) : Out := { st := s, res := r }

/-! ### the operations -/

/-- the store record `putStoreImpl` wants to install: a fresh `StoreInfo` for a new id, otherwise the
    served one with address, version, labels and start time replaced (state and flags are kept) -/
def newServed (s : St) (r : Req) (v : Ver) (force : Bool) : Served :=
  match get s.served r.id with
  | none => { md := { addr := r.addr, state := r.state, destroyed := r.destroyed, ver := v,
                      start := r.start, labels := r.labels } }
  | some old =>
    let ls := if force then r.labels else mergeLabels old.md.labels r.labels
    { old with md := { old.md with addr := r.addr, ver := v, labels := ls, start := r.start } }

/-- `putStoreImpl` -/
def putImpl (s : St) (r : Req) (force : Bool) (fail : Bool) : Out :=
  if r.id = 0 then reject s .badid else
  match r.ver with
  | none => reject s .badver
  | some v =>
    if !compatible s.cv v then reject s .incompat else
    if addrTaken s.served r.id r.addr then reject s .dupaddr else
    if labelsRejected s.cfg (newServed s r v force).md.labels then reject s .label else
    commit s r.id (newServed s r v force) fail

/-- `RaftCluster.PutStore` -/
def putStore (s : St) (r : Req) (mask : Nat) : Out :=
  let o := putImpl s r false (failBit mask 0)
  if o.res = .ok then { o with st := bumpCV o.st } else o

/-- gRPC `PutStore` -/
def grpcPut (s : St) (r : Req) (mask : Nat) : Out :=
  match get s.served r.id with
  | some sv =>
    if sv.md.state = .tombstone then reject s .tombstone
    else if !s.cfg.pr && isTiFlash r.labels then reject s .tiflash
    else putStore s r mask
  | none =>
    if !s.cfg.pr && isTiFlash r.labels then reject s .tiflash else putStore s r mask

/-- gRPC `StoreHeartbeat` + `HandleStoreHeartbeat` (statistics are not modelled) -/
def grpcHeartbeat (s : St) (id : Nat) (mask : Nat) : Out :=
  match get s.served id with
  | none => reject s .notfound
  | some sv =>
    if sv.md.state = .tombstone then reject s .tombstone
    else if sv.persisted then reject s .ok
    else
      -- the save may fail: only logged, the heartbeat still succeeds
      let o := commit s id { sv with persisted := true } (failBit mask 0)
      { o with res := .ok }

/-- `UpdateStoreLabels` -/
def updateLabels (s : St) (id : Nat) (ls : Labels) (force : Bool) (mask : Nat) : Out :=
  match get s.served id with
  | none => reject s .notfound
  | some sv =>
    putImpl s { id := id, addr := sv.md.addr, ver := some sv.md.ver, start := sv.md.start, labels := ls }
      force (failBit mask 0)

/-- `RemoveStore` -/
def removeStore (s : St) (id : Nat) (destroyed : Bool) (mask : Nat) : Out :=
  match get s.served id with
  | none => reject s .notfound
  | some sv =>
    if sv.md.state = .offline && sv.md.destroyed = destroyed then reject s .ok
    else if sv.md.state = .tombstone then reject s .tombstone
    else if sv.md.destroyed then reject s .destroyed
    else commit s id { sv with md := { sv.md with state := .offline, destroyed := destroyed } } (failBit mask 0)

/-- `UpStore` -/
def upStore (s : St) (id : Nat) (mask : Nat) : Out :=
  match get s.served id with
  | none => reject s .notfound
  | some sv =>
    if sv.md.state = .tombstone then reject s .tombstone
    else if sv.md.destroyed then reject s .destroyed
    else if sv.md.state = .up then reject s .ok
    else commit s id { sv with md := { sv.md with state := .up } } (failBit mask 0)

/-- `buryStore` with an explicit failure flag -/
def buryStore (s : St) (id : Nat) (fail : Bool) : Out :=
  match get s.served id with
  | none => reject s .notfound
  | some sv =>
    if sv.md.state = .tombstone then reject s .ok
    else if sv.md.state = .up then reject s .isup
    else
      let o := commit s id { sv with md := { sv.md with state := .tombstone } } fail
      { o with st := bumpCV o.st }

/-- is the store one that `checkStores` tries to bury? -/
def buriable (s : St) (id : Nat) : Bool :=
  match get s.served id with
  | some sv => sv.md.state = .offline && treeCount s.regions id == 0
  | none => false

/-- the loop of `checkStores` over the ids in the given order; `n` = store writes issued so far -/
def checkLoop (s : St) (mask : Nat) : List Nat → Nat → List Write → St × List Write
  | [], _, ws => (s, ws)
  | id :: rest, n, ws =>
    if buriable s id then
      let o := buryStore s id (failBit mask n)
      checkLoop o.st mask rest (n + 1) (ws ++ o.writes)
    else checkLoop s mask rest n ws

/-- ids of the served map, in storage order -/
def servedIds (s : St) : List Nat := keys s.served

/-- drop repeated ids, keeping first occurrences (`seen` = ids already passed) -/
def dedupAux (seen : List Nat) : List Nat → List Nat
  | [] => []
  | x :: xs => if seen.contains x then dedupAux seen xs else x :: dedupAux (x :: seen) xs

/-- the walk over the store map: first the stores in the order in which the implementation issued its
    writes (`order`, an input), then every other store; each store once -/
def walk (s : St) (order : List Nat) : List Nat := dedupAux [] (order ++ servedIds s)

/-- `checkStores`: the stores visited in `order` (the order in which the implementation issued its
    writes), then whatever else is still eligible -/
def checkStores (s : St) (order : List Nat) (mask : Nat) : Out :=
  let r := checkLoop s mask (walk s order) 0 []
  { st := r.1, res := .ok, writes := r.2 }

/-- `checkStores` whose (unlocked) snapshot of the store map listed `ids` as offline: only those are
    tried; each is re-examined under the lock -/
def checkStoresOnly (s : St) (ids : List Nat) (mask : Nat) : Out :=
  let r := checkLoop s mask (dedupAux [] ids) 0 []
  { st := r.1, res := .ok, writes := r.2 }

/-- `SetStoreWeight`: two weight keys, then the record -/
def setWeight (s : St) (id : Nat) (lw rw : Nat) (mask : Nat) : Out :=
  match get s.served id with
  | none => reject s .notfound
  | some sv =>
    if failBit mask 0 then { st := s, res := .kverr, writes := [⟨.lw, id, true⟩] } else
    let s1 := { s with storedLW := put s.storedLW id lw }
    if failBit mask 1 then { st := s1, res := .kverr, writes := [⟨.lw, id, false⟩, ⟨.rw, id, true⟩] } else
    let s2 := { s1 with storedRW := put s1.storedRW id rw }
    let o := commit s2 id { sv with lw := lw, rw := rw } (failBit mask 2)
    { o with writes := [⟨.lw, id, false⟩, ⟨.rw, id, false⟩] ++ o.writes }

/-- may `RemoveTombStoneRecords` delete the store? -/
def removable (s : St) (id : Nat) : Bool :=
  match get s.served id with
  | some sv => sv.md.state = .tombstone && sv.rcount == 0
  | none => false

/-- the loop of `RemoveTombStoneRecords`; stops at the first failing delete -/
def rmLoop (s : St) (mask : Nat) : List Nat → Nat → List Write → Out
  | [], _, ws => { st := s, res := .ok, writes := ws }
  | id :: rest, n, ws =>
    if removable s id then
      if failBit mask n then { st := s, res := .kverr, writes := ws ++ [⟨.del, id, true⟩] }
      else rmLoop { s with stored := del s.stored id, served := del s.served id } mask rest (n + 1)
             (ws ++ [⟨.del, id, false⟩])
    else rmLoop s mask rest n ws

def removeTombstones (s : St) (order : List Nat) (mask : Nat) : Out :=
  rmLoop s mask (walk s order) 0 []

/-- store bookkeeping of `processRegionHeartbeat`: the region moves to `stores`; the region counters
    of the stores of the old and of the new placement are refreshed -/
def refresh (regions : AMap (List Nat)) (served : AMap Served) : List Nat → AMap Served
  | [] => served
  | id :: rest =>
    match get served id with
    | some sv => refresh regions (put served id { sv with rcount := treeCount regions id }) rest
    | none => refresh regions served rest

def regionHeartbeat (s : St) (rid : Nat) (stores : List Nat) : Out :=
  let old := (get s.regions rid).getD []
  let regions := put s.regions rid stores
  { st := { s with regions := regions, served := refresh regions s.served (stores ++ old) }, res := .ok }

/-- `LoadClusterInfo` on a fresh cache: every stored record is served again (tombstones included), with the
    stored weights (default 1), no region bookkeeping yet and no recent save; the regions come back from
    storage as they were -/
def loaded (s : St) (id : Nat) (m : Meta) : Served :=
  { md := m, lw := (get s.storedLW id).getD 1000000, rw := (get s.storedRW id).getD 1000000,
    rcount := 0, persisted := false }

def restart (s : St) : Out :=
  { st := { s with served := mapVal (loaded s) s.stored }, res := .ok }

def step (s : St) : Op → Out
  | .put r mask => putStore s r mask
  | .gput r mask => grpcPut s r mask
  | .ghb id mask => grpcHeartbeat s id mask
  | .labels id ls force mask => updateLabels s id ls force mask
  | .remove id d mask => removeStore s id d mask
  | .up id mask => upStore s id mask
  | .bury id mask => buryStore s id (failBit mask 0)
  | .check order mask => checkStores s order mask
  | .weight id lw rw mask => setWeight s id lw rw mask
  | .rmtomb order mask => removeTombstones s order mask
  | .region rid stores => regionHeartbeat s rid stores
  | .labelsFrom r force mask => putImpl s r force (failBit mask 0)
  | .checkOnly ids mask => checkStoresOnly s ids mask
  | .restart => restart s

def init (cfg : Config) (cv : Ver) : St := { cfg := cfg, cv := cv }

def run (s : St) (ops : List Op) : St := ops.foldl (fun s o => (step s o).st) s

end PdModel.StoreFsm
