import PdModel.Model.Steps
/-!
Model of server/schedule/operator/builder.go + create_operator.go: a function-by-function
translation.  Go maps keyed by store id (`peersMap`) are lists of peers with distinct stores;
every loop of the Go code that iterates `IDs()` iterates `pmIds` (sorted) here.  Store state,
labels and the placement-rule verdict per store are inputs (`Cluster`).  Core Lean only.
-/
namespace PdModel.Builder
open PdModel.Steps

/-! ### cluster inputs -/

inductive MetaState where
  | up | offline | tombstone
  deriving Repr, DecidableEq, Inhabited

structure StoreInfo where
  id           : Nat
  state        : MetaState := .up
  down         : Bool := false   -- DownTime > max-store-down-time
  disconnected : Bool := false
  busy         : Bool := false
  pauseLeader  : Bool := false   -- evict-leader / pause leader transfer
  rejectLeader : Bool := false   -- label property reject-leader
  /-- values of the location labels, in the order of the `location-labels` option (0 = no value) -/
  labels       : List Nat := []
  /-- some rule of the region's fit with role leader/voter matches the store's labels -/
  ruleOk       : Bool := true
  deriving Repr, DecidableEq, Inhabited

structure Cluster where
  stores       : List StoreInfo
  supportJoint : Bool            -- IsFeatureSupported(JointConsensus)
  optJoint     : Bool            -- GetOpts().IsUseJointConsensus()
  rulesOn      : Bool := false   -- IsPlacementRulesEnabled()
  nRules       : Nat := 0        -- len(FitRegion(region).RuleFits)
  nLoc         : Nat := 0        -- len(GetLocationLabels())
  deriving Repr, DecidableEq, Inhabited

def Cluster.getStore (c : Cluster) (id : Nat) : Option StoreInfo := c.stores.find? (fun s => s.id == id)

/-- filter.StoreStateFilter{TransferLeader: true}.Target – the `leaderTarget` condition list -/
def leaderTargetOk (s : StoreInfo) : Bool :=
  !(s.state == .tombstone || s.state == .offline || s.down || s.pauseLeader || s.disconnected ||
    s.busy || s.rejectLeader)

def storeIsUp (c : Cluster) (id : Nat) : Bool :=
  match c.getStore id with
  | some s => s.state == .up
  | none => false

/-- placement.PeerRoleType -/
inductive PRole where
  | leader | follower | voter | learner
  deriving Repr, DecidableEq, Inhabited

/-- PeerRoleType.MetaPeerRole -/
def PRole.metaRole : PRole → Role
  | .learner => .learner
  | _ => .voter

/-! ### peersMap -/

def pmGet (m : List Peer) (s : Nat) : Option Peer := m.find? (fun p => p.store == s)
def pmHas (m : List Peer) (s : Nat) : Bool := m.any (fun p => p.store == s)
def pmSet (m : List Peer) (p : Peer) : List Peer :=
  if pmHas m p.store then m.map (fun q => if q.store == p.store then p else q) else m ++ [p]
def pmErase (m : List Peer) (s : Nat) : List Peer := m.filter (fun p => p.store != s)

def insertSorted (x : Nat) : List Nat → List Nat
  | [] => [x]
  | y :: ys => if x ≤ y then x :: y :: ys else y :: insertSorted x ys

def sortIds (l : List Nat) : List Nat := l.foldr insertSorted []

/-- peersMap.IDs -/
def pmIds (m : List Peer) : List Nat := sortIds (m.map (·.store))

/-- the peers in `IDs()` order -/
def pmSorted (m : List Peer) : List Peer := (pmIds m).filterMap (pmGet m)

def isLearner (p : Peer) : Bool := p.role == .learner

def lookupNat (m : List (Nat × Nat)) (k : Nat) : Nat :=
  match m.find? (fun x => x.1 == k) with
  | some x => x.2
  | none => 0

def lookupRole (m : List (Nat × PRole)) (k : Nat) : Option PRole :=
  (m.find? (fun x => x.1 == k)).map (·.2)

/-! ### builder state -/

inductive Err where
  | nilPeer | noLeader | noRule | jointState
  | addNil | addJoint | addExists | rmNotFound | rmTargetLeader
  | promoteNotFound | promoteNotLearner | promoteUnhealthy | demoteNotFound | demoteLearner
  | leaderNotFound | leaderNotVoter | leaderUnhealthy | setPeersMismatch | multiLeaders | needVoter
  | noVoter | allocFailed | targetLeaderNotAllowed | noValidLeader | planEmpty | noStep | notJoint
  | fuel
  deriving Repr, DecidableEq, Inhabited

def Err.name : Err → String
  | .nilPeer => "nil-peer" | .noLeader => "no-leader" | .noRule => "no-rule" | .jointState => "joint-state"
  | .addNil => "add-nil" | .addJoint => "add-joint" | .addExists => "add-exists"
  | .rmNotFound => "rm-not-found" | .rmTargetLeader => "rm-target-leader"
  | .promoteNotFound => "promote-not-found" | .promoteNotLearner => "promote-not-learner"
  | .promoteUnhealthy => "promote-unhealthy" | .demoteNotFound => "demote-not-found"
  | .demoteLearner => "demote-learner" | .leaderNotFound => "leader-not-found"
  | .leaderNotVoter => "leader-not-voter" | .leaderUnhealthy => "leader-unhealthy"
  | .setPeersMismatch => "setpeers-mismatch" | .multiLeaders => "multi-leaders" | .needVoter => "need-voter"
  | .noVoter => "no-voter" | .allocFailed => "alloc-failed" | .targetLeaderNotAllowed => "target-leader-not-allowed"
  | .noValidLeader => "no-valid-leader" | .planEmpty => "plan-empty" | .noStep => "no-step"
  | .notJoint => "not-joint" | .fuel => "model-fuel"

structure B where
  c             : Cluster
  expectedRoles : List (Nat × PRole) := []
  originPeers   : List Peer
  unhealthy     : List Nat := []       -- stores of pending / down peers
  originLeader  : Nat
  targetPeers   : List Peer
  targetLeader  : Nat := 0
  allowDemote   : Bool
  useJoint      : Bool
  lightWeight   : Bool := false
  force         : Bool := false
  cur           : Region := ⟨[], 0⟩   -- currentPeers, currentLeaderStoreID
  toAdd         : List Peer := []
  toRemove      : List Peer := []
  toPromote     : List Peer := []
  toDemote      : List Peer := []
  steps         : List Step := []
  peerAddStep   : List (Nat × Nat) := []
  kindLeader    : Bool := false
  kindRegion    : Bool := false
  deriving Repr, Inhabited

/-- NewBuilder -/
def newBuilder (c : Cluster) (region : Region) (unhealthy : List Nat) (skipJointCheck : Bool) :
    Except Err B :=
  if region.peers.any (fun p => p.store == 0) then .error .nilPeer
  else
    let originPeers := region.peers.foldl pmSet []
    if !pmHas originPeers region.leader then .error .noLeader
    else if c.rulesOn && c.nRules == 0 then .error .noRule
    else if !skipJointCheck && inJoint region then .error .jointState
    else .ok {
      c := c, originPeers := originPeers, unhealthy := unhealthy, originLeader := region.leader,
      targetPeers := originPeers, allowDemote := c.supportJoint,
      useJoint := c.supportJoint && c.optJoint }

/-! ### the recording methods -/

inductive Call where
  | addPeer (p : Peer)
  | removePeer (s : Nat)
  | promoteLearner (s : Nat)
  | demoteVoter (s : Nat)
  | setLeader (s : Nat)
  | setPeers (ps : List Peer)
  | setExpectedRoles (rs : List (Nat × PRole))
  | lightWeight
  | forceTargetLeader
  deriving Repr, DecidableEq, Inhabited

def applyCall (b : B) : Call → Except Err B
  | .addPeer p =>
    if p.store == 0 then .error .addNil
    else if isJointRole p.role then .error .addJoint
    else if pmHas b.targetPeers p.store then .error .addExists
    else .ok { b with targetPeers := pmSet b.targetPeers p }
  | .removePeer s =>
    if !pmHas b.targetPeers s then .error .rmNotFound
    else if b.targetLeader == s then .error .rmTargetLeader
    else .ok { b with targetPeers := pmErase b.targetPeers s }
  | .promoteLearner s =>
    match pmGet b.targetPeers s with
    | none => .error .promoteNotFound
    | some p =>
      if !isLearner p then .error .promoteNotLearner
      else if b.unhealthy.contains s then .error .promoteUnhealthy
      else .ok { b with targetPeers := pmSet b.targetPeers ⟨p.store, p.id, .voter⟩ }
  | .demoteVoter s =>
    match pmGet b.targetPeers s with
    | none => .error .demoteNotFound
    | some p =>
      if isLearner p then .error .demoteLearner
      else .ok { b with targetPeers := pmSet b.targetPeers ⟨p.store, p.id, .learner⟩ }
  | .setLeader s =>
    match pmGet b.targetPeers s with
    | none => .error .leaderNotFound
    | some p =>
      if isLearner p then .error .leaderNotVoter
      else if b.unhealthy.contains s then .error .leaderUnhealthy
      else .ok { b with targetLeader := s }
  | .setPeers ps =>
    -- the argument is a Go map: a later entry for the same store replaces an earlier one
    let m := ps.foldl pmSet []
    if m.any (fun p => p.store == 0 || isJointRole p.role) then .error .setPeersMismatch
    else
      .ok { b with targetLeader := if pmHas m b.targetLeader then b.targetLeader else 0, targetPeers := m }
  | .setExpectedRoles rs =>
    let leaders := rs.filter (fun x => x.2 == .leader)
    if leaders.length > 1 then .error .multiLeaders
    else
      let tl := match leaders.head? with
        | some l => l.1
        | none =>
          match lookupRole rs b.targetLeader with
          | some .follower | some .learner => 0
          | _ => b.targetLeader
      if (rs.filter (fun x => x.2 == .leader || x.2 == .voter)).length == 0 then .error .needVoter
      else .ok { b with targetLeader := tl, expectedRoles := rs }
  | .lightWeight => .ok { b with lightWeight := true }
  | .forceTargetLeader => .ok { b with force := true }

def applyCalls (b : B) : List Call → Except Err B
  | [] => .ok b
  | c :: cs =>
    match applyCall b c with
    | .error e => .error e
    | .ok b' => applyCalls b' cs

/-! ### allowLeader and the preference functions -/

/-- Builder.allowLeader -/
def allowLeader (b : B) (peer : Peer) (ignoreClusterLimit : Bool) : Bool :=
  if peer.role == .learner || peer.role == .demoting then false
  else if peer.store == b.cur.leader then true
  else
    match b.c.getStore peer.store with
    | none => false
    | some store =>
      if ignoreClusterLimit then true
      else if !leaderTargetOk store then false
      else if b.c.nRules == 0 then true
      else store.ruleOk

def allowLeaderOpt (b : B) (peer : Option Peer) : Bool :=
  match peer with
  | some p => allowLeader b p false
  | none => allowLeader b ⟨0, 0, .voter⟩ false   -- nil peer: role Voter, store 0

def b2i (x : Bool) : Int := if x then 1 else 0

/-- the five `leaderPreferFuncs` of setTargetLeaderIfNotExist -/
def leaderPrefs (b : B) (id : Nat) : List Int :=
  [ b2i (lookupRole b.expectedRoles id == some .leader),
    b2i (storeIsUp b.c id),
    b2i (id == b.cur.leader),
    b2i (!pmHas b.toPromote id),
    -(Int.ofNat (lookupNat b.peerAddStep id)) ]

/-- `for _, f := range fs { if best < next {switch; break} else if best > next {break} }` -/
def firstDiffLess : List Int → List Int → Bool
  | x :: xs, y :: ys => if x < y then true else if x > y then false else firstDiffLess xs ys
  | _, _ => false

/-- one iteration of the loop of setTargetLeaderIfNotExist -/
def pickLeaderStep (b : B) (best : Nat) (peer : Peer) : Nat :=
  if !allowLeader b peer b.force then best
  else if lookupRole b.expectedRoles peer.store == some .follower then best
  else if best == 0 then peer.store
  else if firstDiffLess (leaderPrefs b best) (leaderPrefs b peer.store) then peer.store
  else best

/-- setTargetLeaderIfNotExist -/
def setTargetLeaderIfNotExist (b : B) : B :=
  if b.targetLeader != 0 then b
  else { b with targetLeader := (pmSorted b.targetPeers).foldl (pickLeaderStep b) 0 }

/-! ### exec* -/

def execTransferLeader (b : B) (id : Nat) : B :=
  { b with steps := b.steps ++ [.transferLeader b.cur.leader id], cur := { b.cur with leader := id } }

def execPromoteLearner (b : B) (p : Peer) : B :=
  { b with steps := b.steps ++ [.promoteLearner p.store p.id],
           cur := { b.cur with peers := pmSet b.cur.peers p },
           toPromote := pmErase b.toPromote p.store }

def execDemoteFollower (b : B) (p : Peer) : B :=
  { b with steps := b.steps ++ [.demoteFollower p.store p.id],
           cur := { b.cur with peers := pmSet b.cur.peers p },
           toDemote := pmErase b.toDemote p.store }

def addStep (lightWeight : Bool) (p : Peer) : Step :=
  if lightWeight then .addLightLearner p.store p.id else .addLearner p.store p.id

def execAddPeer (b : B) (p : Peer) : B :=
  let steps := b.steps ++ [addStep b.lightWeight p] ++
    (if !isLearner p then [.promoteLearner p.store p.id] else [])
  { b with steps := steps,
           cur := { b.cur with peers := pmSet b.cur.peers p },
           peerAddStep := (p.store, steps.length) :: b.peerAddStep.filter (fun x => x.1 != p.store),
           toAdd := pmErase b.toAdd p.store }

def execRemovePeer (b : B) (p : Peer) : B :=
  { b with steps := b.steps ++ [.removePeer p.store p.id],
           cur := { b.cur with peers := pmErase b.cur.peers p.store },
           toRemove := pmErase b.toRemove p.store }

def toItems (ps : List Peer) : List Item := ps.map (fun p => ⟨p.store, p.id⟩)

/-- execChangePeerV2 -/
def execChangePeerV2 (b : B) (needEnter needTransferLeader : Bool) : B :=
  let promotes := pmSorted b.toPromote
  let demotes := pmSorted b.toDemote
  let curPeers := (promotes ++ demotes).foldl pmSet b.cur.peers
  let b1 := { b with cur := { b.cur with peers := curPeers }, toPromote := [], toDemote := [] }
  let b2 := if needEnter then { b1 with steps := b1.steps ++ [.enter (toItems promotes) (toItems demotes)] } else b1
  let b3 := if needTransferLeader && b2.originLeader != b2.targetLeader then execTransferLeader b2 b2.targetLeader else b2
  { b3 with steps := b3.steps ++ [.leave (toItems promotes) (toItems demotes)] }

/-! ### prepareBuild -/

/-- the target peer of an origin peer, carrying the origin's peer id -/
def targetOf (b : B) (o : Peer) : Option Peer :=
  (pmGet b.targetPeers o.store).map (fun n0 => if o.id != n0.id then ⟨o.store, o.id, n0.role⟩ else n0)

/-- the first loop of prepareBuild (`for _, o := range b.originPeers`): every origin store is visited
    once, so the three maps it fills are the lists of the entries it `Set`s -/
def diffOrigin (b : B) : B :=
  { b with
    toRemove := b.originPeers.filter (fun o =>
      match targetOf b o with
      | none => true
      | some n => !isLearner o && isLearner n && !b.allowDemote),
    toPromote := b.originPeers.filterMap (fun o =>
      match targetOf b o with
      | some n => if isLearner o && !isLearner n then some n else none
      | none => none),
    toDemote := b.originPeers.filterMap (fun o =>
      match targetOf b o with
      | some n => if !isLearner o && isLearner n && b.allowDemote then some n else none
      | none => none) }

/-- `old peer not exists, or target is learner while old one is voter` -/
def needAdd (b : B) (n : Peer) : Bool :=
  match pmGet b.originPeers n.store with
  | none => true
  | some o => !b.allowDemote && !isLearner o && isLearner n

/-- peer ids for the peers to add (`nid` = next id the allocator returns, 0 = it fails) -/
def allocIds : List Peer → Nat → Except Err (List Peer)
  | [], _ => .ok []
  | n :: rest, nid =>
    if n.id == 0 then
      if nid == 0 then .error .allocFailed
      else (allocIds rest (nid + 1)).map (fun l => ⟨n.store, nid, n.role⟩ :: l)
    else (allocIds rest nid).map (fun l => n :: l)

/-- the second loop (`for _, n := range b.targetPeers`); the Go loop ranges over the map, here the
    allocation order is by store id (the harness renames allocated ids accordingly) -/
def diffTarget (b : B) (nid : Nat) : Except Err B :=
  (allocIds ((pmSorted b.targetPeers).filter (needAdd b)) nid).map (fun l => { b with toAdd := l })

def pendingCount (b : B) : Nat :=
  b.toAdd.length + b.toRemove.length + b.toPromote.length + b.toDemote.length

def clearPending (b : B) : B := { b with toAdd := [], toRemove := [], toPromote := [], toDemote := [] }

/-- `If the target leader does not exist or is a Learner, the target is cancelled` -/
def cancelTargetLeader (b : B) : B :=
  match pmGet b.targetPeers b.targetLeader with
  | some p => if isLearner p then { b with targetLeader := 0 } else b
  | none => { b with targetLeader := 0 }

/-- the requested leader as far as it can be honoured: a voter of the target peers, else none (0) -/
def reqLeader (b : B) : Nat :=
  match pmGet b.targetPeers b.targetLeader with
  | some p => if isLearner p then 0 else b.targetLeader
  | none => 0

def targetLeaderAllowed (b : B) : Bool :=
  match pmGet b.targetPeers b.targetLeader with
  | some p => allowLeader b p b.force
  | none => false

/-- `If only one peer changed, joint consensus is not used` -/
def finishPrepare (b : B) : B :=
  if pendingCount b ≤ 1 then { b with useJoint := false, peerAddStep := [] } else { b with peerAddStep := [] }

def startCurrent (b : B) : B := { b with cur := ⟨b.originPeers, b.originLeader⟩ }

/-- prepareBuild -/
def prepareBuild (b : B) (nid : Nat) : Except Err B :=
  if (b.targetPeers.filter (fun p => !isLearner p)).length == 0 then .error .noVoter
  else
    match diffTarget (diffOrigin (clearPending b)) nid with
    | .error e => .error e
    | .ok b =>
      let b := startCurrent (cancelTargetLeader b)
      if b.targetLeader != 0 && !targetLeaderAllowed b then .error .targetLeaderNotAllowed
      else .ok (finishPrepare b)

/-! ### buildStepsWithJointConsensus -/

/-- body of `for _, add := range b.toAdd.IDs()`: add every peer as a learner first -/
def jointAddBody (b : B) (peer : Peer) : B :=
  let b := if !isLearner peer then
      let b := execAddPeer b ⟨peer.store, peer.id, .learner⟩
      { b with toPromote := pmSet b.toPromote peer }
    else execAddPeer b peer
  { b with kindRegion := true }

/-- body of the first `for _, remove := range b.toRemove.IDs()`: remove voter = demote + remove learner -/
def jointDemoteBody (b : B) (peer : Peer) : B :=
  if !isLearner peer then { b with toDemote := pmSet b.toDemote ⟨peer.store, peer.id, .learner⟩ } else b

/-- `targetLeaderBefore, ok := b.originPeers[b.targetLeaderStoreID]; ok && !core.IsLearner(targetLeaderBefore)` -/
def targetLeaderWasVoter (b : B) : Bool :=
  match pmGet b.originPeers b.targetLeader with
  | some p => !isLearner p
  | none => false

/-- `b.originLeaderStoreID == 0 || (ok && !core.IsLearner(originLeaderAfter))` -/
def originLeaderStaysVoter (b : B) : Bool :=
  b.originLeader == 0 ||
  (match pmGet b.targetPeers b.originLeader with
   | some p => !isLearner p
   | none => false)

/-- the three orders of leader transfer and joint transition -/
def jointMid (b : B) : B :=
  if targetLeaderWasVoter b then
    -- target leader is a voter in `originPeers`, transfer leader first
    let b := if b.originLeader != b.targetLeader then
        { execTransferLeader b b.targetLeader with kindLeader := true } else b
    execChangePeerV2 b true false
  else if originLeaderStaysVoter b then
    -- origin leader is none or a voter in `targetPeers`, change peers first
    let b := execChangePeerV2 b true false
    if b.originLeader != b.targetLeader then
      { execTransferLeader b b.targetLeader with kindLeader := true } else b
  else
    -- both demote origin leader and promote target leader, transfer leader in joint state
    { execChangePeerV2 b true true with kindLeader := true }

def jointRemoveBody (b : B) (peer : Peer) : B :=
  { execRemovePeer b peer with kindRegion := true }

def buildJoint (b : B) : Except Err B :=
  let b := (pmSorted b.toAdd).foldl jointAddBody b
  let b := setTargetLeaderIfNotExist b
  if b.targetLeader == 0 then .error .noValidLeader
  else
    let b := (pmSorted b.toRemove).foldl jointDemoteBody b
    let b := jointMid b
    .ok ((pmSorted b.toRemove).foldl jointRemoveBody b)

/-! ### buildStepsWithoutJointConsensus -/

structure Plan where
  leaderBeforeAdd    : Nat := 0
  leaderBeforeRemove : Nat := 0
  add     : Option Peer := none
  remove  : Option Peer := none
  promote : Option Peer := none
  demote  : Option Peer := none
  deriving Repr, DecidableEq, Inhabited

def Plan.isEmpty (p : Plan) : Bool :=
  p.promote.isNone && p.demote.isNone && p.add.isNone && p.remove.isNone

/-- `peer.GetStoreId()` on a possibly nil peer -/
def sid : Option Peer → Nat
  | some p => p.store
  | none => 0

/-- Builder.labelMatch -/
def labelMatchAux : Nat → List Nat → List Nat → Nat
  | 0, _, _ => 0
  | n + 1, a, b => if a.headD 0 != b.headD 0 then 0 else 1 + labelMatchAux n a.tail b.tail

def labelMatch (b : B) (x y : Nat) : Nat :=
  match b.c.getStore x, b.c.getStore y with
  | some sx, some sy => labelMatchAux b.c.nLoc sx.labels sy.labels
  | _, _ => 0

def planPreferReplaceByNearest (b : B) (p : Plan) : Int :=
  match p.add, p.remove with
  | some add, some remove =>
    let m := labelMatch b add.store remove.store
    match p.promote, p.demote with
    | some promote, _ =>
      let m2 := labelMatch b promote.store add.store
      if m2 < m then m2 else m
    | none, some demote =>
      let m2 := labelMatch b demote.store remove.store
      if m2 < m then m2 else m
    | none, none => m
  | _, _ => 0

def planPreferUpStoreAsLeader (b : B) (p : Plan) : Int :=
  if p.add.isSome then b2i (storeIsUp b.c p.leaderBeforeAdd) else 1

def planPreferOldPeerAsLeader (b : B) (p : Plan) : Int :=
  let ret : Int := -(Int.ofNat (lookupNat b.peerAddStep p.leaderBeforeAdd))
  if p.add.isSome && sid p.add == p.leaderBeforeRemove then ret - (Int.ofNat b.steps.length + 1)
  else ret - Int.ofNat (lookupNat b.peerAddStep p.leaderBeforeRemove)

def planPreferAddOrPromoteTargetLeader (b : B) (p : Plan) : Int :=
  if b.targetLeader == 0 then 0
  else
    let addTarget := match p.add with
      | some a => !isLearner a && a.store == b.targetLeader
      | none => false
    let promoteTarget := match p.promote with
      | some q => q.store == b.targetLeader
      | none => false
    b2i (addTarget || promoteTarget)

def planPreferTargetLeader (b : B) (p : Plan) : Int :=
  b2i (b.targetLeader == 0 ||
       (p.leaderBeforeRemove != 0 && p.leaderBeforeRemove == b.targetLeader) ||
       (p.leaderBeforeRemove == 0 && p.leaderBeforeAdd == b.targetLeader))

def planPreferLessLeaderTransfer (b : B) (p : Plan) : Int :=
  if p.leaderBeforeAdd == 0 || p.leaderBeforeAdd == b.cur.leader then
    2 + b2i (p.leaderBeforeRemove == 0 || p.leaderBeforeRemove == b.cur.leader)
  else b2i (p.leaderBeforeRemove == 0 || p.leaderBeforeRemove == p.leaderBeforeAdd)

/-- initStepPlanPreferFuncs, in order -/
def planScores (b : B) (p : Plan) : List Int :=
  [ planPreferReplaceByNearest b p, planPreferUpStoreAsLeader b p, planPreferOldPeerAsLeader b p,
    planPreferAddOrPromoteTargetLeader b p, planPreferTargetLeader b p, planPreferLessLeaderTransfer b p ]

/-- comparePlan -/
def comparePlan (b : B) (best next : Plan) : Plan :=
  if best.isEmpty then next
  else if firstDiffLess (planScores b best) (planScores b next) then next else best

/-- planReplaceLeaders -/
def planReplaceLeaders (b : B) (best next : Plan) : Plan :=
  let ids := pmIds b.cur.peers
  ids.foldl (fun (best : Plan) (lba : Nat) =>
    if !allowLeaderOpt b (pmGet b.cur.peers lba) then best
    else
      let next := { next with leaderBeforeAdd := lba }
      let best := ids.foldl (fun (best : Plan) (lbr : Nat) =>
        if lbr != sid next.demote && lbr != sid next.remove && allowLeaderOpt b (pmGet b.cur.peers lbr) then
          comparePlan b best { next with leaderBeforeRemove := lbr }
        else best) best
      let best := match next.promote with
        | some pr =>
          if pr.store != sid next.demote && pr.store != sid next.remove && allowLeader b pr false then
            comparePlan b best { next with leaderBeforeRemove := pr.store }
          else best
        | none => best
      match next.add with
      | some ad =>
        if ad.store != sid next.demote && ad.store != sid next.remove && allowLeader b ad false then
          comparePlan b best { next with leaderBeforeRemove := ad.store }
        else best
      | none => best) best

/-- planReplace -/
def planReplace (b : B) : Plan :=
  let toAdd := pmSorted b.toAdd
  let toRemove := pmSorted b.toRemove
  let toPromote := pmSorted b.toPromote
  let toDemote := pmSorted b.toDemote
  -- promote learner + demote voter
  let best : Plan := toDemote.foldl (fun best demote =>
    toPromote.foldl (fun best promote =>
      planReplaceLeaders b best { promote := some promote, demote := some demote }) best) {}
  -- add voter + remove voter OR add learner + remove learner
  let best := toAdd.foldl (fun best add =>
    toRemove.foldl (fun best remove =>
      if isLearner remove == isLearner add then
        planReplaceLeaders b best { add := some add, remove := some remove }
      else best) best) best
  -- add learner + promote learner + remove voter
  let best := toPromote.foldl (fun best promote =>
    toAdd.foldl (fun best add =>
      if isLearner add then
        toRemove.foldl (fun best remove =>
          if !isLearner remove && add.store != remove.store then
            planReplaceLeaders b best { promote := some promote, add := some add, remove := some remove }
          else best) best
      else best) best) best
  -- add voter + demote voter + remove learner
  toDemote.foldl (fun best demote =>
    toRemove.foldl (fun best remove =>
      if isLearner remove then
        toAdd.foldl (fun best add =>
          if !isLearner add && remove.store != add.store then
            planReplaceLeaders b best { demote := some demote, add := some add, remove := some remove }
          else best) best
      else best) best) best

def planPromotePeer (b : B) : Plan :=
  match (pmSorted b.toPromote).head? with
  | some p => { promote := some p }
  | none => {}

def planDemotePeer (b : B) : Plan :=
  (pmSorted b.toDemote).foldl (fun best d =>
    (pmIds b.cur.peers).foldl (fun best leader =>
      if allowLeaderOpt b (pmGet b.cur.peers leader) && leader != d.store then
        comparePlan b best { demote := some d, leaderBeforeRemove := leader }
      else best) best) {}

def planRemovePeer (b : B) : Plan :=
  (pmSorted b.toRemove).foldl (fun best r =>
    (pmIds b.cur.peers).foldl (fun best leader =>
      if allowLeaderOpt b (pmGet b.cur.peers leader) && leader != r.store then
        comparePlan b best { remove := some r, leaderBeforeRemove := leader }
      else best) best) {}

def planAddPeer (b : B) : Plan :=
  (pmSorted b.toAdd).foldl (fun best a =>
    (pmIds b.cur.peers).foldl (fun best leader =>
      if allowLeaderOpt b (pmGet b.cur.peers leader) then
        comparePlan b best { add := some a, leaderBeforeAdd := leader }
      else best) best) {}

/-- peerPlan -/
def peerPlan (b : B) : Plan :=
  let p := planReplace b
  if !p.isEmpty then p else
  let p := planPromotePeer b
  if !p.isEmpty then p else
  let p := planDemotePeer b
  if !p.isEmpty then p else
  let p := planRemovePeer b
  if !p.isEmpty then p else
  let p := planAddPeer b
  if !p.isEmpty then p else {}

/-- the body of the loop of buildStepsWithoutJointConsensus for one plan -/
def execPlan (b : B) (plan : Plan) : B :=
  let b := if plan.leaderBeforeAdd != 0 && plan.leaderBeforeAdd != b.cur.leader then
      { execTransferLeader b plan.leaderBeforeAdd with kindLeader := true } else b
  let b := match plan.add with
    | some p => { execAddPeer b p with kindRegion := true }
    | none => b
  let b := match plan.promote with
    | some p => execPromoteLearner b p
    | none => b
  let b := if plan.leaderBeforeRemove != 0 && plan.leaderBeforeRemove != b.cur.leader then
      { execTransferLeader b plan.leaderBeforeRemove with kindLeader := true } else b
  let b := match plan.demote with
    | some p => execDemoteFollower b p
    | none => b
  match plan.remove with
  | some p => { execRemovePeer b p with kindRegion := true }
  | none => b

/-- the loop; `fuel` bounds the number of iterations (every non-empty plan removes a pending item) -/
def planLoop : Nat → B → Except Err B
  | 0, b => if pendingCount b == 0 then .ok b else .error .fuel
  | fuel + 1, b =>
    if pendingCount b == 0 then .ok b
    else
      let plan := peerPlan b
      if plan.isEmpty then .error .planEmpty
      else planLoop fuel (execPlan b plan)

def buildNoJoint (b : B) : Except Err B :=
  match planLoop (pendingCount b) b with
  | .error e => .error e
  | .ok b =>
    let b := setTargetLeaderIfNotExist b
    let b := if b.targetLeader != 0 && b.cur.leader != b.targetLeader && pmHas b.cur.peers b.targetLeader then
        { execTransferLeader b b.targetLeader with kindLeader := true } else b
    if b.steps.length == 0 then .error .noStep else .ok b

/-- Builder.Build (after the recording calls) -/
def build (b : B) (nid : Nat) : Except Err B :=
  match prepareBuild b nid with
  | .error e => .error e
  | .ok b => if b.useJoint then buildJoint b else buildNoJoint b

/-! ### create_operator.go -/

/-- `leader == nil || !b.allowLeader(leader, true)`: allowLeader is consulted before
    currentLeaderStoreID is initialised (it is still 0 here) -/
def leaveJointFirst (b : B) : B :=
  match pmGet b.originPeers b.originLeader with
  | some leader => if allowLeader b leader true then { b with targetLeader := b.originLeader }
                   else { b with targetLeader := 0 }
  | none => { b with targetLeader := 0 }

def forceLeader (b : B) : B := { b with force := true }

/-- the target-leader choice of CreateLeaveJointStateOperator -/
def leaveJointLeader (b : B) : B :=
  let b3 := setTargetLeaderIfNotExist (startCurrent (leaveJointFirst b))
  -- `Because the demote leader will be rejected by TiKV ... we need to force a target to be found`
  if b3.targetLeader == 0 then setTargetLeaderIfNotExist (forceLeader b3) else b3

/-- CreateLeaveJointStateOperator -/
def createLeaveJoint (c : Cluster) (region : Region) (unhealthy : List Nat) : Except Err B :=
  match newBuilder c region unhealthy true with
  | .error e => .error e
  | .ok b =>
    if !inJoint region then .error .notJoint
    else
      -- `for _, o := range b.originPeers { switch o.GetRole() ... Set(o) }`: one entry per origin store
      let b := { b with toPromote := b.originPeers.filter (fun o => o.role == .incoming),
                        toDemote := b.originPeers.filter (fun o => o.role == .demoting) }
      let b := leaveJointLeader b
      let b := if b.targetLeader == 0 then { b with originLeader := 0 }
               else if b.originLeader != b.targetLeader then { b with kindLeader := true } else b
      .ok (execChangePeerV2 b false true)

/-- the `Create*Operator` helpers that are builder call chains -/
inductive Helper where
  | addPeer (p : Peer)
  | promoteLearner (s : Nat)
  | removePeer (s : Nat)
  | transferLeader (s : Nat)
  | forceTransferLeader (s : Nat)
  | moveRegion (roles : List (Nat × PRole))
  | movePeer (old : Nat) (p : Peer)
  | replaceLeaderPeer (old : Nat) (p : Peer) (leader : Nat)
  | moveLeader (old : Nat) (p : Peer)
  | scatter (ps : List Peer) (leader : Nat)
  | mergeMatch (ps : List Peer)      -- the peer-matching part of CreateMergeRegionOperator
  deriving Repr, DecidableEq, Inhabited

def Helper.skipJointCheck : Helper → Bool
  | .transferLeader _ | .forceTransferLeader _ => true
  | _ => false

def Helper.calls : Helper → List Call
  | .addPeer p => [.addPeer p]
  | .promoteLearner s => [.promoteLearner s]
  | .removePeer s => [.removePeer s]
  | .transferLeader s => [.setLeader s]
  | .forceTransferLeader s => [.setLeader s, .forceTargetLeader]
  | .moveRegion roles =>
    [.setPeers (roles.map (fun x => ⟨x.1, 0, x.2.metaRole⟩)), .setExpectedRoles roles]
  | .movePeer old p => [.removePeer old, .addPeer p]
  | .replaceLeaderPeer old p leader => [.removePeer old, .addPeer p, .setLeader leader]
  | .moveLeader old p => [.removePeer old, .addPeer p, .setLeader p.store]
  | .scatter ps leader => [.setPeers ps, .setLeader leader, .lightWeight, .forceTargetLeader]
  | .mergeMatch ps => [.setPeers (ps.map (fun p => ⟨p.store, 0, p.role⟩))]

/-- NewBuilder(...).calls.Build(kind) -/
def buildWith (c : Cluster) (region : Region) (unhealthy : List Nat) (skip : Bool)
    (calls : List Call) (nid : Nat) : Except Err B :=
  match newBuilder c region unhealthy skip with
  | .error e => .error e
  | .ok b =>
    match applyCalls b calls with
    | .error e => .error e
    | .ok b => build b nid

/-- isRegionMatch(source, target) of create_operator.go -/
def regionMatch (a : Region) (tp : List Peer) : Bool :=
  a.peers.length == tp.length &&
  a.peers.all (fun pa =>
    match tp.find? (fun pb => pb.store == pa.store) with
    | some pb => isLearner pb == isLearner pa
    | none => false)

/-- CreateMergeRegionOperator, the operator of the source region: (leader kind, region kind, steps) -/
def mergeSteps (c : Cluster) (source : Region) (unhealthy : List Nat) (tp : List Peer) (nid : Nat) :
    Except Err (Bool × Bool × List Step) :=
  if inJoint source || tp.any (fun p => isJointRole p.role) then .error .jointState
  else if regionMatch source tp then .ok (false, false, [.merge false])
  else
    match buildWith c source unhealthy false (Helper.mergeMatch tp).calls nid with
    | .error e => .error e
    | .ok b => .ok (b.kindLeader, b.kindRegion, b.steps ++ [.merge false])

end PdModel.Builder
