/-
Model of the GC safe point handlers of server/grpc_service.go and their storage functions in
server/core/storage.go.  Core Lean only.

Part 1 – cluster safe point (`UpdateGCSafePoint`, `GetGCSafePoint`).
One micro-step = one storage access of one request (`LoadGCSafePoint`, `SaveGCSafePoint`), plus the
acquisition of the handler's mutex.  `atomic = true` is the repaired handler (load-compare-save inside
one critical section), `atomic = false` the pinned one (no lock: every request may run its two
accesses whenever it likes).

Part 2 – service safe points (`UpdateServiceGCSafePoint` under `serviceSafePointLock`, one step per
request): remove on ttl ≤ 0, `LoadMinServiceGCSafePoint(now)` with expiry pruning and gc_worker repair,
reject-below-min, save, reload-if-min.  `now` (unix seconds, taken from the TSO by the handler) and the
index of a failing storage write are inputs of the step.
-/
namespace PdModel.GcSafePoint

def maxI64 : Int := 9223372036854775807

inductive Fault where
  | none     -- the storage access works
  | before   -- it returns an error without effect
  | after    -- (save only) it returns an error although the value was written
  deriving Repr, DecidableEq, Inhabited

/-! ## Part 1: cluster safe point -/

inductive Phase where
  | waiting                     -- queued on the handler's mutex
  | atLoad                      -- about to call LoadGCSafePoint
  | atSave (old : Nat)          -- has loaded `old` (< its value), about to call SaveGCSafePoint
  | done (ack : Option Nat)     -- responded; `none` = error response
  deriving Repr, DecidableEq, Inhabited

structure Req where
  val   : Nat
  phase : Phase
  /-- ghost: the largest value acknowledged before this request began -/
  floor : Nat := 0
  deriving Repr, DecidableEq, Inhabited

structure CSt where
  atomic : Bool
  stored : Nat := 0
  reqs   : List Req := []
  holder : Option Nat := none
  /-- ghost: the largest value acknowledged so far -/
  maxAck : Nat := 0
  /-- ghost: number of GetGCSafePoint requests answered -/
  gets   : Nat := 0
  deriving Repr

inductive COut where
  | parkedLoad | parkedSave | blocked | done (a : Nat) | err | bad | ok (v : Nat)
  deriving Repr, DecidableEq

/-- micro-steps; a history is any list of them -/
inductive COp where
  | begin (v : Nat)            -- a new request arrives (and tries to take the mutex)
  | acquire (r : Nat)          -- a waiting request gets the mutex (any waiting one, in any order)
  | load (r : Nat) (f : Fault)
  | save (r : Nat) (f : Fault)
  | get                        -- GetGCSafePoint: one load, answered at once
  deriving Repr, DecidableEq

def setReq (s : CSt) (r : Nat) (x : Req) : CSt := { s with reqs := s.reqs.set r x }

/-- the request responds: the mutex (if any) is released, an acknowledged value is remembered -/
def finish (s : CSt) (r : Nat) (x : Req) (ack : Option Nat) : CSt :=
  { s with reqs := s.reqs.set r { x with phase := .done ack },
           holder := if s.atomic then none else s.holder,
           maxAck := match ack with | some a => max s.maxAck a | none => s.maxAck }

def cstep (s : CSt) : COp → CSt × COut
  | .begin v =>
    if s.atomic && s.holder.isSome then
      ({ s with reqs := s.reqs ++ [{ val := v, phase := .waiting, floor := s.maxAck }] }, .blocked)
    else
      ({ s with reqs := s.reqs ++ [{ val := v, phase := .atLoad, floor := s.maxAck }],
                holder := if s.atomic then some s.reqs.length else s.holder }, .parkedLoad)
  | .acquire r =>
    match s.reqs[r]? with
    | some x =>
      if x.phase = .waiting ∧ s.holder = none then
        ({ setReq s r { x with phase := .atLoad } with holder := some r }, .parkedLoad)
      else (s, .bad)
    | none => (s, .bad)
  | .load r f =>
    match s.reqs[r]? with
    | some x =>
      if x.phase = .atLoad then
        if f ≠ .none then (finish s r x none, .err)
        else
          let old := s.stored
          if x.val > old then (setReq s r { x with phase := .atSave old }, .parkedSave)
          else
            -- `newSafePoint = oldSafePoint` when smaller; equal stays as it is
            (finish s r x (some old), .done old)
      else (s, .bad)
    | none => (s, .bad)
  | .save r f =>
    match s.reqs[r]? with
    | some x =>
      match x.phase with
      | .atSave _ =>
        match f with
        | .before => (finish s r x none, .err)
        | .after => (finish { s with stored := x.val } r x none, .err)
        | .none => (finish { s with stored := x.val } r x (some x.val), .done x.val)
      | _ => (s, .bad)
    | none => (s, .bad)
  | .get => ({ s with maxAck := max s.maxAck s.stored, gets := s.gets + 1 }, .ok s.stored)

def cinit (atomic : Bool) : CSt := { atomic := atomic }

def crun (s : CSt) (ops : List COp) : CSt := ops.foldl (fun s o => (cstep s o).1) s

/-! ## Part 2: service safe points -/

structure Entry where
  id  : String
  sp  : Nat
  exp : Int            -- unix seconds; `maxI64` = never
  deriving Repr, DecidableEq, Inhabited

/-- the stored records, in key order -/
abbrev Table := List Entry

/-- ordered insertion (keys are the service ids) -/
def tins : Table → Entry → Table
  | [], e => [e]
  | x :: xs, e => if e.id < x.id then e :: x :: xs else x :: tins xs e

def tremove (t : Table) (id : String) : Table := t.filter (fun x => x.id ≠ id)

/-- `Save`: the record replaces whatever was stored under its key -/
def tput (t : Table) (e : Entry) : Table := tins (tremove t e.id) e

/-- storage-write bookkeeping: the `failAt`-th write of the request fails (0 = none does) -/
structure W where
  n      : Nat := 0
  failAt : Nat := 0
  deriving Repr

/-- count one write; `true` = it fails -/
def W.tick (w : W) : W × Bool := ({ w with n := w.n + 1 }, w.failAt ≠ 0 ∧ w.n + 1 = w.failAt)

inductive SErr where
  | storage | removeGcWorker | gcWorkerTtl | emptyId | invalidId
  deriving Repr, DecidableEq

/-- `serviceSafePointPath`: the id must survive `path.Join` unchanged, i.e. it is a non-empty sequence of
    `/`-separated segments none of which is empty, `.` or `..` -/
def segOk (seg : List Char) : Bool := seg != [] && seg != ['.'] && seg != ['.', '.']

/-- remaining characters, current segment -/
def segsOk : List Char → List Char → Bool
  | [], cur => segOk cur
  | c :: cs, cur => if c = '/' then segOk cur && segsOk cs [] else segsOk cs (cur ++ [c])

def validId (id : String) : Bool := id != "" && segsOk id.toList []

structure Scan where
  tbl    : Table
  w      : W
  hasGC  : Bool := false
  min    : Option Entry := none
  /-- the repair write of gc_worker failed: LoadMinServiceGCSafePoint returns the error -/
  failed : Bool := false
  deriving Repr

/-- `if min == nil || ssp.SafePoint < min.SafePoint { min = ssp }` -/
def takeMin (m : Option Entry) (e : Entry) : Option Entry :=
  match m with
  | none => some e
  | some x => if e.sp < x.sp then some e else some x

/-- the loop of LoadMinServiceGCSafePoint over the records read at its start -/
def scan (gc : String) (now : Int) : List Entry → Scan → Scan
  | [], a => a
  | e :: es, a =>
    -- gc_worker: remember, repair a finite expiry
    if e.id = gc ∧ e.exp ≠ maxI64 then
      let e' := { e with exp := maxI64 }
      let (w, fails) := a.w.tick
      if fails then { a with hasGC := true, w := w, failed := true }
      else
        -- (now infinite, hence not expired)
        scan gc now es { a with hasGC := true, w := w, tbl := tput a.tbl e', min := takeMin a.min e' }
    else
      let a := if e.id = gc then { a with hasGC := true } else a
      if e.exp < now then
        -- `s.Remove(key)`, error ignored
        let (w, fails) := a.w.tick
        scan gc now es { a with w := w, tbl := if fails then a.tbl else tremove a.tbl e.id }
      else scan gc now es { a with min := takeMin a.min e }

/-- initServiceGCSafePointForGCWorker -/
def initGC (gc : String) (t : Table) (w : W) (v : Nat) : Table × W × Except SErr Entry :=
  let e : Entry := { id := gc, sp := v, exp := maxI64 }
  let (w, fails) := w.tick
  if fails then (t, w, .error .storage) else (tput t e, w, .ok e)

/-- LoadMinServiceGCSafePoint: the table it leaves, the write counter, the minimum or an error -/
def loadMin (gc : String) (now : Int) (t : Table) (w : W) : Table × W × Except SErr Entry :=
  if t.isEmpty then initGC gc t w 0
  else
    let a := scan gc now t { tbl := t, w := w }
    if a.failed then (a.tbl, a.w, .error .storage)
    else
      match a.min with
      | none => initGC gc a.tbl a.w 0
      | some m => if !a.hasGC then initGC gc a.tbl a.w m.sp else (a.tbl, a.w, .ok m)

inductive SOut where
  | ok (minId : String) (ttl : Int) (minSp : Nat)
  | err (e : SErr)
  deriving Repr, DecidableEq

/-- the record a successful registration writes -/
def newEntry (svc : String) (ttl : Int) (sp : Nat) (now : Int) : Entry :=
  { id := svc, sp := sp, exp := if maxI64 - now ≤ ttl then maxI64 else now + ttl }

def okOut (t : Table) (min : Entry) (now : Int) : Table × SOut := (t, .ok min.id (min.exp - now) min.sp)

/-- 1. `if request.TTL <= 0 { RemoveServiceGCSafePoint }` -/
def uspRemove (gc : String) (t : Table) (svc : String) (ttl : Int) (w : W) : Except SErr (Table × W) :=
  if ttl ≤ 0 then
    if svc = gc then .error .removeGcWorker
    else if !validId svc then .error .invalidId
    else if w.tick.2 then .error .storage else .ok (tremove t svc, w.tick.1)
  else .ok (t, w)

/-- 4. the service itself held the minimum: load the next one -/
def uspReload (gc : String) (t3 : Table) (w3 : W) (now : Int) : Table × SOut :=
  match loadMin gc now t3 w3 with
  | (t4, _, .error x) => (t4, .err x)
  | (t4, _, .ok min') => okOut t4 min' now

/-- 3. `if request.TTL > 0 && request.SafePoint >= min.SafePoint { SaveServiceGCSafePoint … }` -/
def uspSave (gc : String) (t2 : Table) (w2 : W) (min : Entry) (svc : String) (ttl : Int) (sp : Nat)
    (now : Int) : Table × SOut :=
  if ttl > 0 ∧ sp ≥ min.sp then
    let e := newEntry svc ttl sp now
    if svc = "" then (t2, .err .emptyId)
    else if svc = gc ∧ e.exp ≠ maxI64 then (t2, .err .gcWorkerTtl)
    else if !validId svc then (t2, .err .invalidId)
    else if w2.tick.2 then (t2, .err .storage)
    else if svc = min.id then uspReload gc (tput t2 e) w2.tick.1 now
    else okOut (tput t2 e) min now
  else okOut t2 min now

/-- 2. `LoadMinServiceGCSafePoint(now)` -/
def uspLoad (gc : String) (t1 : Table) (w1 : W) (svc : String) (ttl : Int) (sp : Nat) (now : Int) :
    Table × SOut :=
  match loadMin gc now t1 w1 with
  | (t2, _, .error e) => (t2, .err e)
  | (t2, w2, .ok min) => uspSave gc t2 w2 min svc ttl sp now

/-- UpdateServiceGCSafePoint (after validateRequest); returns the table it leaves behind -/
def usp (gc : String) (t : Table) (svc : String) (ttl : Int) (sp : Nat) (now : Int) (failAt : Nat) :
    Table × SOut :=
  match uspRemove gc t svc ttl { failAt := failAt } with
  | .error e => (t, .err e)
  | .ok (t1, w1) => uspLoad gc t1 w1 svc ttl sp now

/-- UpdateServiceGCSafePoint cut at its own SaveServiceGCSafePoint call (the only place where the handler
    writes the record of the request): either the request is answered before that point, or it stands before
    the write with the table as it is then, the minimum it computed and the record it is going to write. -/
inductive SPre where
  | fin (t : Table) (o : SOut)
  | save (t2 : Table) (w2 : W) (min : Entry) (e : Entry)
  deriving Repr

def uspPre (gc : String) (t : Table) (svc : String) (ttl : Int) (sp : Nat) (now : Int) (failAt : Nat) : SPre :=
  match uspRemove gc t svc ttl { failAt := failAt } with
  | .error e => .fin t (.err e)
  | .ok (t1, w1) =>
    match loadMin gc now t1 w1 with
    | (t2, _, .error e) => .fin t2 (.err e)
    | (t2, w2, .ok min) =>
      if ttl > 0 ∧ sp ≥ min.sp then
        let e := newEntry svc ttl sp now
        if svc = "" then .fin t2 (.err .emptyId)
        else if svc = gc ∧ e.exp ≠ maxI64 then .fin t2 (.err .gcWorkerTtl)
        else if !validId svc then .fin t2 (.err .invalidId)
        else .save t2 w2 min e
      else .fin t2 (.ok min.id (min.exp - now) min.sp)

/-- the write and what follows it, on the table `t` as it is when the write lands -/
def uspPost (gc : String) (t : Table) (w2 : W) (min : Entry) (e : Entry) (now : Int) : Table × SOut :=
  if w2.tick.2 then (t, .err .storage)
  else if e.id = min.id then uspReload gc (tput t e) w2.tick.1 now
  else okOut (tput t e) min now

/-- RemoveServiceGCSafePoint, as the HTTP API calls it -/
def del (gc : String) (t : Table) (svc : String) : Table × Option SErr :=
  if svc = gc then (t, some .removeGcWorker)
  else if !validId svc then (t, some .invalidId)
  else (tremove t svc, none)

end PdModel.GcSafePoint
