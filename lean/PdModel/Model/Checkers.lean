import PdModel.Model.Filters
/-!
Model of server/schedule/checker/{replica_strategy,replica_checker,rule_checker}.go.

Nondeterminism (a pick by float score among equally isolated survivors; whether the operator
builder accepts a request other than a plain add) is modelled by returning the *list of all possible
outcomes*: theorems quantify over every member, the driver checks that the implementation's result is
a member.  `none` = the checker proposes nothing.  The region fit (placement.FitRegion, property C12)
is an input of the rule checker.
-/
namespace PdModel.Checkers
open PdModel.Spec.C10 PdModel.Filters

/-- what a checker asks the operator builder for -/
inductive Req where
  | add (store role : Nat)
  | remove (store : Nat)
  | move (old new role : Nat)
  | replaceLeader (old new role leader : Nat)
  | promote (store : Nat)
  | transfer (store : Nat)
  | split
  /-- the checker dereferences the missing leader of a leaderless region and panics (no operator) -/
  | crash
  deriving Repr, DecidableEq, Inhabited

/-- replaced peer and replacement are both learners or both not -/
def sameKind (r : Region) (old role : Nat) : Bool :=
  match r.storePeer old with
  | some p => p.isLearner == (role == 1)
  | none => true

/-- the request as abstract steps, in the order the operator builder emits them.  A replacement adds
    first when the builder can pair the add with the remove (same kind of peer: `planReplace`) or uses
    joint consensus; otherwise (`jc = false`, a learner replaced by a voter or the reverse) its planner
    takes the removal first (`planRemovePeer` is tried before `planAddPeer`). -/
def Req.toSteps (jc : Bool) (r : Region) : Req → List Step
  | .add s role => [.add s role]
  | .remove s => [.remove s]
  | .move o n role =>
    if jc || sameKind r o role then [.add n role, .remove o] else [.remove o, .add n role]
  | .replaceLeader o n role l =>
    if jc || sameKind r o role then [.add n role, .transfer l, .remove o] else [.transfer l, .remove o, .add n role]
  | .promote s => [.promote s]
  | .transfer s => [.transfer s]
  | .split => [.other]
  | .crash => []

abbrev Out := Option (String × Req)

/-- first non-`none` outcome: `a`, and where `a` proposes nothing, `b` -/
def orElse (a b : List Out) : List Out :=
  a.flatMap (fun o => match o with | some x => [some x] | none => b)

/-- one outcome list per possible pick; nothing to pick from = nothing proposed -/
def pickEach (ts : List Store) (f : Store → List Out) : List Out :=
  if ts.isEmpty then [none] else ts.flatMap f

/-- `ReplicaStrategy`: location labels, isolation level and (rule checker only) the rule's label
    constraints as an extra filter -/
structure Strategy where
  labels      : List String := []
  level       : String := ""
  constraints : Option (List Constraint) := none
  deriving Repr, Inhabited

/-- `cluster.GetRegionStores` / `getRuleFitStores`: records of the stores that exist -/
def storesOf (stores : List Store) (ids : List Nat) : List Store := ids.filterMap (findStore stores)

/-- first stage of `SelectStoreToAdd`: the filters that ignore temporary states -/
def addFilters (o : Opts) (r : Region) (st : Strategy) (co : List Store) (extra : Store → Bool) (s : Store) : Bool :=
  excludedTarget r.stores s && storageTarget o s && specialUseTarget [] s &&
  ({ moveRegion := true, allowTemp := true } : SSF).target o s &&
  (if !st.labels.isEmpty && st.level != "" then isolationTarget st.labels st.level co s else true) &&
  extra s &&
  (match st.constraints with | some cs => constraintTarget cs s | none => true)

def maxScore (labels : List String) (co : List Store) (l : List Store) : Nat :=
  l.foldl (fun m s => max m (distinctScore labels co s)) 0

/-- `SelectStoreToAdd`: every store it may return (`[]` = returns 0).  Candidates that pass the
    filters, of those the best isolated ones, of those the ones passing the strict state filter;
    the final order is by region score (a float): any of them may come first. -/
def selectStoreToAdd (o : Opts) (stores : List Store) (r : Region) (st : Strategy) (co : List Store)
    (extra : Store → Bool := fun _ => true) : List Store :=
  let c1 := stores.filter (addFilters o r st co extra)
  let top := c1.filter (fun s => distinctScore st.labels co s == maxScore st.labels co c1)
  top.filter (({ moveRegion := true } : SSF).target o)

/-- `swapStoreToFirst(stores, old)` followed by `stores[1:]` -/
def dropOld (co : List Store) (old : Nat) : List Store :=
  if co.any (·.id == old) then co.eraseP (·.id == old) else co.tail

def selectStoreToFix (o : Opts) (stores : List Store) (r : Region) (st : Strategy) (co : List Store) (old : Nat) : List Store :=
  selectStoreToAdd o stores r st (dropOld co old)

def selectStoreToImprove (o : Opts) (stores : List Store) (r : Region) (st : Strategy) (co : List Store) (old : Nat) : List Store :=
  match findStore stores old with
  | none => []      -- `cluster.GetStore(old)` is nil: not reached (old is one of `co`)
  | some oldStore =>
    let rest := dropOld co old
    selectStoreToAdd o stores r st rest (fun s =>
      distinctTarget true st.labels co oldStore s &&
      (if !st.labels.isEmpty && st.level != "" then isolationTarget st.labels st.level rest s else true))

def minScore (labels : List String) (co : List Store) (l : List Store) : Nat :=
  match l with
  | [] => 0
  | s :: t => t.foldl (fun m x => min m (distinctScore labels co x)) (distinctScore labels co s)

/-- `SelectStoreToRemove`: the worst isolated of the stores that may lose a peer -/
def selectStoreToRemove (o : Opts) (st : Strategy) (co : List Store) : List Store :=
  let c := co.filter (({ moveRegion := true } : SSF).source o)
  c.filter (fun s => distinctScore st.labels co s == minScore st.labels co c)

/-- does the operator builder accept `AddPeer` on a store that holds no peer of the region?
    yes when the region has a voter leader, no peer in a joint state and one peer per store; never
    without a leader or in a joint state; a learner leader or two peers on one store leave it open -/
def addAccepted (r : Region) (x : String × Req) : List Out :=
  match r.leaderPeer with
  | none => [none]
  | some l =>
    if r.peers.any (·.inJoint) then [none]
    else if l.role == 0 && decide r.stores.Nodup then [some x]
    else [some x, none]

/-- any other request: the builder may refuse (no legal leader plan, unhealthy peer, …) -/
def mayFail (x : String × Req) : List Out := [some x, none]

/-! ### ReplicaChecker -/

def replicaStrategy (o : Opts) : Strategy := { labels := o.conf.locationLabels, level := o.conf.isolationLevel }

def fixPeer (o : Opts) (stores : List Store) (r : Region) (storeID : Nat) (status : String) : List Out :=
  if r.voters.length > o.conf.maxReplicas then
    mayFail (s!"remove-extra-{status}-replica", .remove storeID)
  else
    pickEach (selectStoreToFix o stores r (replicaStrategy o) (storesOf stores r.stores) storeID)
      (fun t => mayFail (s!"replace-{status}-replica", .move storeID t.id 0))

def checkDownPeer (o : Opts) (stores : List Store) (r : Region) : List Out :=
  if !o.removeDown then [none] else
  let rec go : List (Nat × Nat) → List Out
    | [] => [none]
    | (pid, secs) :: rest =>
      match r.peers.find? (·.id == pid) with
      | none => go rest
      | some p =>
        match findStore stores p.store with
        | none => [none]
        | some s =>
          if s.downSecs < o.conf.maxDownSecs then go rest
          else if secs < o.conf.maxDownSecs then go rest
          else fixPeer o stores r p.store "down"
  go r.down

def checkOfflinePeer (o : Opts) (stores : List Store) (r : Region) : List Out :=
  if !o.replaceOffline then [none] else
  if !r.learners.isEmpty then [none] else
  let rec go : List Peer → List Out
    | [] => [none]
    | p :: rest =>
      match findStore stores p.store with
      | none => [none]
      | some s => if s.isUp then go rest else fixPeer o stores r p.store "offline"
  go r.peers

def checkMakeUpReplica (o : Opts) (stores : List Store) (r : Region) : List Out :=
  if !o.conf.makeUpEnabled then [none] else
  if r.peers.length ≥ o.conf.maxReplicas then [none] else
  pickEach (selectStoreToAdd o stores r (replicaStrategy o) (storesOf stores r.stores))
    (fun t => addAccepted r ("make-up-replica", .add t.id 0))

def checkRemoveExtraReplica (o : Opts) (stores : List Store) (r : Region) : List Out :=
  if !o.removeExtra then [none] else
  if r.voters.length ≤ o.conf.maxReplicas then [none] else
  pickEach (selectStoreToRemove o (replicaStrategy o) (storesOf stores r.stores))
    (fun s => mayFail ("remove-extra-replica", .remove s.id))

def checkLocationReplacement (o : Opts) (stores : List Store) (r : Region) : List Out :=
  if !o.locationReplacement then [none] else
  let co := storesOf stores r.stores
  pickEach (selectStoreToRemove o (replicaStrategy o) co) (fun old =>
    pickEach (selectStoreToImprove o stores r (replicaStrategy o) co old.id)
      (fun n => mayFail ("move-to-better-location", .move old.id n.id 0)))

/-- `ReplicaChecker.Check` -/
def replicaCheck (o : Opts) (stores : List Store) (r : Region) : List Out :=
  orElse (checkDownPeer o stores r) <|
  orElse (checkOfflinePeer o stores r) <|
  orElse (checkMakeUpReplica o stores r) <|
  orElse (checkRemoveExtraReplica o stores r) <|
  checkLocationReplacement o stores r

/-! ### RuleChecker -/

/-- role: 0 voter, 1 leader, 2 follower, 3 learner -/
structure Rule where
  id          : String := ""
  role        : Nat := 0
  count       : Nat := 0
  constraints : List Constraint := []
  labels      : List String := []
  level       : String := ""
  deriving Repr, DecidableEq, Inhabited

structure RuleFit where
  rule     : Rule
  peers    : List Peer := []
  diffRole : List Peer := []
  deriving Repr, Inhabited

structure Fit where
  ruleFits : List RuleFit := []
  orphans  : List Peer := []
  deriving Repr, Inhabited

def RuleFit.satisfied (rf : RuleFit) : Bool := rf.peers.length == rf.rule.count && rf.diffRole.isEmpty

/-- what the rule demands and which stores its peers are on, as the C10 spec sees it -/
def RuleFit.view (rf : RuleFit) : RuleView :=
  { constraints := rf.rule.constraints, locationLabels := rf.rule.labels, isolationLevel := rf.rule.level,
    count := rf.rule.count, peerStores := rf.peers.map (·.store), satisfied := rf.satisfied }

/-- `PeerRoleType.MetaPeerRole` -/
def Rule.metaRole (r : Rule) : Nat := if r.role == 3 then 1 else 0

def ruleStrategy (rule : Rule) : Strategy :=
  { labels := rule.labels, level := rule.level, constraints := some rule.constraints }

def ruleStores (stores : List Store) (rf : RuleFit) : List Store := storesOf stores (rf.peers.map (·.store))

/-- `RuleChecker.allowLeader` -/
def allowLeader (o : Opts) (stores : List Store) (fit : Fit) (p : Peer) : Bool :=
  if p.isLearner then false else
  match findStore stores p.store with
  | none => false
  | some s =>
    ({ transferLeader := true } : SSF).target o s &&
    fit.ruleFits.any (fun rf => (rf.rule.role == 1 || rf.rule.role == 0) && matchConstraints rf.rule.constraints s)

/-- `RuleChecker.isDownPeer` -/
def isDownPeer (o : Opts) (stores : List Store) (r : Region) (p : Peer) : Bool :=
  let rec go : List (Nat × Nat) → Bool
    | [] => false
    | (pid, secs) :: rest =>
      if pid != p.id then go rest else
      match findStore stores p.store with
      | none => false
      | some s =>
        if s.downSecs < o.conf.maxDownSecs then go rest
        else if secs < o.conf.maxDownSecs then go rest
        else true
  go r.down

/-- `RuleChecker.isOfflinePeer` -/
def isOfflinePeer (stores : List Store) (p : Peer) : Bool :=
  match findStore stores p.store with
  | none => false
  | some s => !s.isUp

def addRulePeer (o : Opts) (stores : List Store) (r : Region) (rf : RuleFit) : List Out :=
  pickEach (selectStoreToAdd o stores r (ruleStrategy rf.rule) (ruleStores stores rf))
    (fun t => addAccepted r ("add-rule-peer", .add t.id rf.rule.metaRole))

/-- the new leader `replaceUnexpectRulePeer` asks for when the replaced peer leads (fresh recorder:
    all offline-leader counts are 0, so the first healthy peer in region order wins) -/
def newLeaderFor (o : Opts) (stores : List Store) (r : Region) (fit : Fit) (peer : Peer) : Option Peer :=
  if r.leader != peer.id then none else
  r.peers.find? (fun p =>
    if p.id == peer.id then true
    else if r.isDown p.id || r.isPending p.id then false
    else allowLeader o stores fit p)

def replaceUnexpectRulePeer (o : Opts) (stores : List Store) (r : Region) (fit : Fit) (rf : RuleFit)
    (peer : Peer) (status : String) : List Out :=
  pickEach (selectStoreToFix o stores r (ruleStrategy rf.rule) (ruleStores stores rf) peer.store) (fun t =>
    match newLeaderFor o stores r fit peer with
    | some l =>
      if l.id != peer.id then
        mayFail (s!"replace-rule-{status}-leader-peer", .replaceLeader peer.store t.id rf.rule.metaRole l.store)
      else mayFail (s!"replace-rule-{status}-peer", .move peer.store t.id rf.rule.metaRole)
    | none => mayFail (s!"replace-rule-{status}-peer", .move peer.store t.id rf.rule.metaRole))

/-- `fixLooseMatchPeer`: `none` = (nil, nil), go on with the next loosely matched peer;
    `some outs` = return from `fixRulePeer` with one of `outs` -/
def fixLooseMatchPeer (o : Opts) (stores : List Store) (r : Region) (fit : Fit) (rf : RuleFit) (peer : Peer) :
    Option (List Out) :=
  if peer.isLearner && rf.rule.role != 3 then
    some (mayFail ("fix-peer-role", .promote peer.store))
  else if r.leader != peer.id && rf.rule.role == 1 then
    if allowLeader o stores fit peer then
      -- `region.GetLeader().StoreId`: a nil-pointer dereference when the region has no leader
      if r.leaderPeer.isNone then some [some ("panic", .crash)]
      else some (mayFail ("fix-leader-role", .transfer peer.store))
    else some [none]
  else if r.leader == peer.id && rf.rule.role == 2 then
    match r.peers.find? (allowLeader o stores fit) with
    | some p => some (mayFail ("fix-follower-role", .transfer p.store))
    | none => some [none]
  else none

def fixBetterLocation (o : Opts) (stores : List Store) (r : Region) (rf : RuleFit) : List Out :=
  if rf.rule.labels.isEmpty || rf.rule.count ≤ 1 then [none] else
  let co := ruleStores stores rf
  pickEach (selectStoreToRemove o (ruleStrategy rf.rule) co) (fun old =>
    pickEach (selectStoreToImprove o stores r (ruleStrategy rf.rule) co old.id)
      (fun n => mayFail ("move-to-better-location", .move old.id n.id rf.rule.metaRole)))

def fixRulePeer (o : Opts) (stores : List Store) (r : Region) (fit : Fit) (rf : RuleFit) : List Out :=
  if rf.peers.length < rf.rule.count then addRulePeer o stores r rf else
  let rec unexpected : List Peer → Option (List Out)
    | [] => none
    | p :: rest =>
      if isDownPeer o stores r p then some (replaceUnexpectRulePeer o stores r fit rf p "down")
      else if isOfflinePeer stores p then some (replaceUnexpectRulePeer o stores r fit rf p "offline")
      else unexpected rest
  match unexpected rf.peers with
  | some outs => outs
  | none =>
    let rec loose : List Peer → Option (List Out)
      | [] => none
      | p :: rest =>
        match fixLooseMatchPeer o stores r fit rf p with
        | some outs => some outs
        | none => loose rest
    match loose rf.diffRole with
    | some outs => outs
    | none => fixBetterLocation o stores r rf

/-- `fixOrphanPeers`; a refused removal falls through to the rule loop -/
def fixOrphanPeers (fit : Fit) : List Out :=
  match fit.orphans with
  | [] => [none]
  | p :: _ =>
    if fit.ruleFits.all (·.satisfied) then mayFail ("remove-orphan-peer", .remove p.store) else [none]

/-- the spec-level inputs of the two checkers -/
def replicaInput (o : Opts) (stores : List Store) (r : Region) : Input :=
  { conf := o.conf, stores := stores, region := r }

def ruleInput (o : Opts) (stores : List Store) (r : Region) (fit : Fit) : Input :=
  { conf := o.conf, stores := stores, region := r,
    rules := some (fit.ruleFits.map (·.view)), orphans := fit.orphans.map (·.store) }

/-- `RuleChecker.Check` (the fit is an input; `fixRange` – no matching rule – may split or not) -/
def ruleCheck (o : Opts) (stores : List Store) (r : Region) (fit : Fit) : List Out :=
  if fit.ruleFits.isEmpty then mayFail ("rule-split-region", .split) else
  orElse (fixOrphanPeers fit) <|
  fit.ruleFits.foldr (fun rf acc => orElse (fixRulePeer o stores r fit rf) acc) [none]

/-! ### CheckerController.CheckRegion -/

/-- `LearnerChecker.Check`: promote the first learner the builder accepts (an unhealthy one is
    refused for sure) -/
def learnerCheck (r : Region) : List Out :=
  let rec go : List Peer → List Out
    | [] => [none]
    | p :: rest =>
      if r.isDown p.id || r.isPending p.id then go rest
      else orElse (mayFail ("promote-learner", .promote p.store)) (go rest)
  go r.learners

/-- `CheckerController.CheckRegion` up to the merge checker (which proposes nothing before the
    split-merge interval has passed): joint-state checker, then the rule checker (placement rules on) or
    learner checker and replica checker.  `.split` stands for the single leave-joint step. -/
def controllerCheck (o : Opts) (rules : Bool) (stores : List Store) (r : Region) (fit : Fit) : List Out :=
  orElse (if r.peers.any (·.inJoint) then mayFail ("leave-joint-state", .split) else [none]) <|
  if rules then ruleCheck o stores r fit
  else orElse (learnerCheck r) (replicaCheck o stores r)

end PdModel.Checkers
