import PdModel.Model.SyncRegion
import PdModel.Model.PadKey
/-
Model of the load paths of server/core/storage.go and of server/core/region_storage.go.
Core Lean only.

* keys: `storePath(id)` / `regionPath(id)` = prefix + `fmt.Sprintf("%020d", id)`; within one
  namespace the kv orders items by the 20 zero-padded decimal digits (`padKey`, `keyLt`)
* `LoadRange(start, end, limit)`: items with `start ≤ key < end` in key order, at most `limit` (0 = all)
* `LoadStores`: pages of `minKVRangeLimit` starting at `last id + 1`, end key = `storePath(MaxUint64)`
* `loadRegions`: the same with an adaptive page size (`maxKVRangeLimit`, halved on every failing
  LoadRange while the result stays ≥ `minKVRangeLimit`), the callback's result is deleted from the kv
* `RegionStorage`: leveldb content + pending batch + `cacheSize`; flush on the `batchSize`-th save,
  on FlushRegion and on Close; `Remove` as in the repaired tree (fix F7b) drops the pending entry
-/
namespace PdModel.StorageLoad
open PdModel.SyncRegion PdModel.PadKey

/-! ### keys: see Model/PadKey.lean (`padKey`, `keyLt`, `keyLtId a b = keyLt (padKey a) (padKey b)`) -/

/-- `math.MaxUint64` -/
def maxU64 : Nat := 18446744073709551615

/-! ### the kv of one namespace -/

/-- items in key order -/
abbrev KV (V : Type) := List (Nat × V)

variable {V : Type}

/-- `Save`: insert or replace, keeping key order -/
def kvSave : KV V → Nat → V → KV V
  | [], id, v => [(id, v)]
  | (k, x) :: rest, id, v =>
    if keyLtId id k then (id, v) :: (k, x) :: rest
    else if keyLtId k id then (k, x) :: kvSave rest id v
    else (id, v) :: rest

/-- `Remove` -/
def kvRemove (kv : KV V) (id : Nat) : KV V := kv.filter (fun e => e.1 != id)

/-- `Load` -/
def kvLoad (kv : KV V) (id : Nat) : Option V := (kv.find? (fun e => e.1 == id)).map (·.2)

/-- `LoadRange(start, end, limit)` with `start = path(lo)`, `end = path(hi)` -/
def loadRange (kv : KV V) (lo hi limit : Nat) : KV V :=
  let r := kv.filter (fun e => !keyLtId e.1 lo && keyLtId e.1 hi)
  if limit = 0 then r else r.take limit

/-! ### LoadStores -/

/-- `nextID` after a page: `store.GetId() + 1` of the last item -/
def nextAfter (page : KV V) (next : Nat) : Nat :=
  match page.getLast? with
  | some e => e.1 + 1
  | none => next

/-- the loop of `LoadStores`; `errs` = failure flags of the successive LoadRange calls.
    Result: `(error?, items handed to the callback in order)`; `none` = out of fuel. -/
def loadStoresLoop (kv : KV V) (limit : Nat) : Nat → Nat → List Bool → List (Nat × V) → Option (Bool × List (Nat × V))
  | 0, _, _, _ => none
  | fuel + 1, next, errs, acc =>
    if errs.headD false then some (true, acc)
    else
      let page := loadRange kv next maxU64 limit
      let acc := acc ++ page
      if page.length < limit then some (false, acc)
      else loadStoresLoop kv limit fuel (nextAfter page next) errs.tail acc

def loadStores (kv : KV V) (limit : Nat) (errs : List Bool) : Option (Bool × List (Nat × V)) :=
  loadStoresLoop kv limit (kv.length + errs.length + 2) 0 errs []

/-- store weights (`SaveStoreWeight` / `loadFloatWithDefaultValue`): two keys per store holding the
    `strconv.FormatFloat(w, 'f', -1, 64)` text; the model keeps the float64 bit pattern (that the text
    parses back to the same bits is a property of strconv: modelled, checked by the harness) -/
abbrev Weights := List (Nat × (Nat × Nat))

/-- float64 bits of 1.0, the default weight -/
def oneBits : Nat := 4607182418800017408

def weightsSave (w : Weights) (id l r : Nat) : Weights := w.filter (fun e => e.1 != id) ++ [(id, (l, r))]

def weightOf (w : Weights) (id : Nat) : Nat × Nat :=
  match w.find? (fun e => e.1 == id) with
  | some e => e.2
  | none => (oneBits, oneBits)

/-! ### loadRegions -/

/-- state threaded through a load: the kv (the callback's deletions act on it), the callback's own
    state, the items handed to the callback -/
structure LoadSt (V σ : Type) where
  kv     : KV V
  cb     : σ
  loaded : List (Nat × V)

/-- the inner `for _, s := range res`: callback, then delete what it returned -/
def pageStep {σ : Type} (f : σ → Nat × V → σ × List Nat) (s : LoadSt V σ) (e : Nat × V) : LoadSt V σ :=
  let r := f s.cb e
  { kv := r.2.foldl kvRemove s.kv, cb := r.1, loaded := s.loaded ++ [e] }

/-- the inner `for _, s := range res` as a whole: it stops with an error at the first record that cannot be
    unmarshalled (`bad`), what came before it in the page has been processed -/
def pageFold {σ : Type} (f : σ → Nat × V → σ × List Nat) (bad : Nat × V → Bool) :
    LoadSt V σ → List (Nat × V) → LoadSt V σ × Bool
  | s, [] => (s, false)
  | s, e :: rest => if bad e then (s, true) else pageFold f bad (pageStep f s e) rest

/-- the loop of `loadRegions`.  Result `(error?, state)`; `none` = out of fuel. -/
def loadRegionsLoop {σ : Type} (f : σ → Nat × V → σ × List Nat) (bad : Nat × V → Bool) (minLimit : Nat) :
    Nat → Nat → Nat → List Bool → LoadSt V σ → Option (Bool × LoadSt V σ)
  | 0, _, _, _, _ => none
  | fuel + 1, next, limit, errs, s =>
    if errs.headD false then
      let limit := limit / 2
      if limit ≥ minLimit then loadRegionsLoop f bad minLimit fuel next limit errs.tail s
      else some (true, s)
    else
      let page := loadRange s.kv next maxU64 limit
      let r := pageFold f bad s page
      if r.2 then some (true, r.1)
      else if page.length < limit then some (false, r.1)
      else loadRegionsLoop f bad minLimit fuel (nextAfter page next) limit errs.tail r.1

def loadRegions {σ : Type} (f : σ → Nat × V → σ × List Nat) (bad : Nat × V → Bool) (maxLimit minLimit : Nat)
    (kv : KV V) (init : σ) (errs : List Bool) : Option (Bool × LoadSt V σ) :=
  loadRegionsLoop f bad minLimit (kv.length + errs.length + 2) 0 maxLimit errs { kv := kv, cb := init, loaded := [] }

/-- `LoadRegionsOnce` with the region backend: nothing happens once a load has succeeded on this Storage
    (`regionLoaded`); the flag is set only after `loadRegions` returned without error.  Result: new flag and the
    outcome of the load (`none` = skipped). -/
def loadRegionsOnce {σ : Type} (f : σ → Nat × V → σ × List Nat) (bad : Nat × V → Bool) (maxLimit minLimit : Nat)
    (loadedBefore : Bool) (kv : KV V) (init : σ) (errs : List Bool) : Bool × Option (Option (Bool × LoadSt V σ)) :=
  if loadedBefore then (true, none)
  else
    match loadRegions f bad maxLimit minLimit kv init errs with
    | some (false, s) => (true, some (some (false, s)))
    | r => (false, some r)

/-- callback of `LoadRegions` in the tests and tools: collect only -/
def plainCb : Unit → Nat × Meta → Unit × List Nat := fun _ _ => ((), [])

/-- callback `BasicCluster.CheckAndPutRegion`: the ids of the regions it returns are deleted -/
def pruneCb : Cache → Nat × Meta → Cache × List Nat := fun c e =>
  let r := checkAndPut c { md := e.2 }
  (r.1, r.2.map (·.md.id))

/-! ### RegionStorage -/

structure RS where
  ldb       : KV Meta := []
  /-- `batchRegions` (a map: one entry per id) -/
  batch     : List (Nat × Meta) := []
  cacheSize : Nat := 0
  batchSize : Nat
  deriving Repr

/-- `flush()`: `SaveRegions(batchRegions)`, then an empty batch -/
def RS.flush (s : RS) : RS :=
  { s with ldb := s.batch.foldl (fun kv e => kvSave kv e.1 e.2) s.ldb, batch := [], cacheSize := 0 }

def batchPut (b : List (Nat × Meta)) (id : Nat) (m : Meta) : List (Nat × Meta) :=
  b.filter (fun e => e.1 != id) ++ [(id, m)]

/-- `SaveRegion` -/
def RS.save (s : RS) (m : Meta) : RS :=
  if s.cacheSize < s.batchSize - 1 then
    { s with batch := batchPut s.batch m.id m, cacheSize := s.cacheSize + 1 }
  else
    RS.flush { s with batch := batchPut s.batch m.id m }

/-- `flush()` when the leveldb write fails: `SaveRegions` returns the error before anything is reset, so the
    batch (and the counter) stay as they are and the next flush writes the same regions again -/
def RS.flushFailed (s : RS) : RS := s

/-- `SaveRegion` while leveldb writes fail: buffered saves do not notice; the save that fills the batch puts its
    region into the batch, its flush fails and the error is returned (`true`), the batch stays pending -/
def RS.saveFailed (s : RS) (m : Meta) : RS × Bool :=
  if s.cacheSize < s.batchSize - 1 then
    ({ s with batch := batchPut s.batch m.id m, cacheSize := s.cacheSize + 1 }, false)
  else
    (RS.flushFailed { s with batch := batchPut s.batch m.id m }, true)

/-- `DeleteRegion` through `RegionStorage.Remove` of the repaired tree -/
def RS.delete (s : RS) (id : Nat) : RS :=
  { s with batch := s.batch.filter (fun e => e.1 != id), ldb := kvRemove s.ldb id }

/-- `DeleteRegion` on the pinned tree before the repair of F7b: only leveldb is touched -/
def RS.deleteUnfixed (s : RS) (id : Nat) : RS :=
  { s with ldb := kvRemove s.ldb id }

/-- the process stops: the pending batch is lost -/
def RS.crash (s : RS) : RS := { s with batch := [], cacheSize := 0 }

end PdModel.StorageLoad
