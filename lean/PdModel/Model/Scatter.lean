import PdModel.Model.Filters
/-!
Model of server/schedule/region_scatterer.go (`RegionScatterer.Scatter` / `scatterRegion`).

State = the history counters (`selectedPeer` / `selectedLeader`, per group and store) of the ordinary
engine context and of the TiFlash context (the only special engine: `allSpeicalEngines`).
Nondeterministic inputs of one scatter (`Choices`): the order in which `cluster.GetStores()` lists the
stores, the Go map iteration orders of the peer loops and of the leader-candidate loop, the random
leader pick, the verdicts of the placement safeguard (a function of source and target store: the
location safeguard is modelled in `locationGuard`, the rule-fit safeguard is an abstract predicate) and
whether the operator builder accepted the request.

`excludeOthers = true` is the repaired code (fix F4: a store that holds another peer of the region is no
candidate); `false` is the pinned code.
-/
namespace PdModel.Scatter
open PdModel.Spec.C10 PdModel.Filters

/-- group ↦ store ↦ count -/
abbrev Counters := List (String × List (Nat × Nat))

def Counters.get (c : Counters) (store : Nat) (group : String) : Nat :=
  match c.find? (·.1 == group) with
  | none => 0
  | some (_, d) => match d.find? (·.1 == store) with
    | none => 0
    | some (_, n) => n

def Counters.total (c : Counters) (store : Nat) : Nat :=
  (c.map (fun g => match g.2.find? (·.1 == store) with | none => 0 | some (_, n) => n)).sum

def bump (d : List (Nat × Nat)) (store : Nat) : List (Nat × Nat) :=
  if d.any (·.1 == store) then d.map (fun e => if e.1 == store then (e.1, e.2 + 1) else e)
  else d ++ [(store, 1)]

def Counters.put (c : Counters) (store : Nat) (group : String) : Counters :=
  if c.any (·.1 == group) then c.map (fun g => if g.1 == group then (g.1, bump g.2 store) else g)
  else c ++ [(group, [(store, 1)])]

structure Ctx where
  selectedPeer   : Counters := []
  selectedLeader : Counters := []
  deriving Repr, Inhabited

structure State where
  ordinary : Ctx := {}
  /-- `specialEngines["tiflash"]`, created on first use -/
  tiflash  : Option Ctx := none
  deriving Repr, Inhabited

structure Choices where
  storeOrder : List Nat
  /-- placement safeguard: source store → target store → passes -/
  guard      : Nat → Nat → Bool
  /-- source stores of the ordinary peers, in the order the map iteration visits them -/
  order      : List Nat
  /-- the same for the peers on TiFlash stores -/
  sorder     : List Nat
  /-- stores of `targetPeers` in the order the leader-candidate loop visits them -/
  lorder     : List Nat
  /-- index of the random leader pick (used when there is no leader candidate) -/
  leaderPick : Nat := 0
  /-- the operator builder accepted the request -/
  built      : Bool := true

def setTarget (tp : List (Nat × Peer)) (p : Peer) : List (Nat × Peer) :=
  if tp.any (·.1 == p.store) then tp.map (fun e => if e.1 == p.store then (p.store, p) else e)
  else tp ++ [(p.store, p)]

/-- `StoreStateFilter{MoveRegion, ScatterRegion}` -/
def scatterSSF : SSF := { moveRegion := true, scatterRegion := true }

/-- `selectCandidates` -/
def candidates (excludeOthers : Bool) (o : Opts) (stores : List Store) (r : Region) (src : Nat)
    (selected : List Nat) (ctx : Ctx) (special : Bool) (guard : Nat → Nat → Bool) : List Nat :=
  match findStore stores src with
  | none => []
  | some _ =>
    let counts := stores.map (fun s => ctx.selectedPeer.total s.id)
    let mx := counts.foldl max 0
    let mn := counts.foldl min (counts.headD 0)
    (stores.filter (fun s =>
      (decide (ctx.selectedPeer.total s.id < mx) || mx == mn) &&
      excludedTarget selected s &&
      (!excludeOthers || excludedTarget (r.stores.filter (· != src)) s) &&
      (if special then engineIs "tiflash" s else ordinaryEngine s) &&
      scatterSSF.target o s &&
      guard src s.id)).map (·.id)

/-- first element with the least count: `(store, count)` -/
def bestOf (get : Nat → Nat) (cands : List Nat) : Option (Nat × Nat) :=
  cands.foldl (fun acc st =>
    match acc with
    | none => some (st, get st)
    | some (_, m) => if get st < m then some (st, get st) else acc) none

/-- `selectStore`: where the peer goes (a new peer record keeps the role, id 0) -/
def selectStore (group : String) (peer : Peer) (cands : List Nat) (ctx : Ctx) : Peer :=
  match cands with
  | [] => peer
  | _ =>
    match bestOf (fun st => ctx.selectedPeer.get st group) cands with
    | none => peer
    | some (st, m) =>
      if cands.contains peer.store && ctx.selectedPeer.get peer.store group ≤ m then peer
      else { id := 0, store := st, role := peer.role }

/-- `scatterWithSameEngine` over the peers in the given order -/
def scatterGroup (excludeOthers : Bool) (o : Opts) (stores : List Store) (r : Region) (group : String)
    (ctx : Ctx) (special : Bool) (guard : Nat → Nat → Bool) :
    List Peer → List (Nat × Peer) × List Nat → List (Nat × Peer) × List Nat
  | [], acc => acc
  | p :: rest, (tp, sel) =>
    let cands := candidates excludeOthers o stores r p.store sel ctx special guard
    let np := selectStore group p cands ctx
    scatterGroup excludeOthers o stores r group ctx special guard rest (setTarget tp np, sel ++ [np.store])

/-- `selectAvailableLeaderStores` over the target stores in the given order -/
def selectLeader (stores : List Store) (group : String) (ctx : Ctx) (lorder : List Nat) : Nat :=
  let cands := lorder.filter (fun st => match findStore stores st with
    | some s => s.label "engine" == ""
    | none => false)
  (bestOf (fun st => ctx.selectedLeader.get st group) cands).elim 0 (·.1)

/-- `RegionScatterer.Put` -/
def putAll (stores : List Store) (s : State) (peerStores : List Nat) (leader : Nat) (group : String) : State :=
  let s1 := peerStores.foldl (fun (s : State) st =>
    match findStore stores st with
    | none => s
    | some rec =>
      if ordinaryEngine rec then
        { s with ordinary := { s.ordinary with selectedPeer := s.ordinary.selectedPeer.put st group } }
      else
        let c := s.tiflash.getD {}
        { s with tiflash := some { c with selectedPeer := c.selectedPeer.put st group } }) s
  { s1 with ordinary := { s1.ordinary with selectedLeader := s1.ordinary.selectedLeader.put leader group } }

/-- the request handed to `CreateScatterRegionOperator` -/
structure Request where
  targets : List (Nat × Peer)
  leader  : Nat
  /-- what `selectAvailableLeaderStores` returned (0 = none; this, not `leader`, is what `Put` counts) -/
  selectedLeader : Nat := 0
  deriving Repr, Inhabited

def isOrdinaryPeer (stores : List Store) (p : Peer) : Bool :=
  match findStore stores p.store with
  | some s => ordinaryEngine s
  | none => true

/-- the leader `CreateScatterRegionOperator` asks for: the selected one, else a random voter target -/
def requestLeader (tp : List (Nat × Peer)) (targetLeader pick : Nat) : Nat :=
  if targetLeader != 0 then targetLeader else
  let voters := (tp.filter (fun e => !e.2.isLearner)).map (·.1)
  match voters with
  | [] => 0
  | _ => voters[pick % voters.length]?.getD 0

/-- `scatterRegion` up to the builder call -/
def plan (excludeOthers : Bool) (o : Opts) (stores : List Store) (s : State) (r : Region) (group : String)
    (ch : Choices) : Request × State :=
  let ordered := ch.storeOrder.filterMap (findStore stores)
  let ordPeers := ch.order.filterMap r.storePeer
  let spPeers := ch.sorder.filterMap r.storePeer
  let g1 := scatterGroup excludeOthers o ordered r group s.ordinary false ch.guard ordPeers ([], [])
  let targetLeader := selectLeader stores group s.ordinary ch.lorder
  let s' : State := if spPeers.isEmpty then s else { s with tiflash := some (s.tiflash.getD {}) }
  let g2 := scatterGroup excludeOthers o ordered r group (s'.tiflash.getD {}) true ch.guard spPeers g1
  ({ targets := g2.1, leader := requestLeader g2.1 targetLeader ch.leaderPick, selectedLeader := targetLeader }, s')

/-- the builder refuses a leader that is no voter of the target (`SetLeader`), and a request that
    changes nothing ("no operator step is built") -/
def requestValid (r : Region) (q : Request) : Bool :=
  (match q.targets.find? (·.1 == q.leader) with
   | some e => !e.2.isLearner
   | none => false) &&
  !(q.targets.length == r.peers.length && q.targets.all (fun e => r.stores.contains e.1) && q.leader == r.leaderStore)

/-- `scatterRegion`: the request, whether an operator comes out, and the new counters -/
def scatter (excludeOthers : Bool) (o : Opts) (stores : List Store) (s : State) (r : Region) (group : String)
    (ch : Choices) : Option Request × State :=
  let (q, s') := plan excludeOthers o stores s r group ch
  if ch.built && requestValid r q then
    (some q, putAll stores s' (q.targets.map (·.1)) q.selectedLeader group)
  else
    -- failure path: the origin peers are merged into the target map before `Put`
    let merged := r.peers.foldl setTarget q.targets
    (none, putAll stores s' (merged.map (·.1)) r.leaderStore group)

/-- the location safeguard used when placement rules are off -/
def locationGuard (o : Opts) (stores : List Store) (r : Region) (src dst : Nat) : Bool :=
  match findStore stores src, findStore stores dst with
  | some s, some d => distinctTarget false o.conf.locationLabels (r.stores.filterMap (findStore stores)) s d
  | _, _ => false

/-- the pre-checks of `Scatter` when placement rules are off: `IsRegionReplicated`, leader present -/
def precheck (o : Opts) (r : Region) : Option String :=
  if !(r.learners.isEmpty && r.peers.length == o.conf.maxReplicas) then some "err:not-replicated"
  else if r.leaderPeer.isNone then some "err:no-leader"
  else none

end PdModel.Scatter
