import PdModel.Model.Steps
import PdModel.Generated.OpCtl
/-!
Model of server/schedule/operator_controller.go + operator/operator.go + operator/status_tracker.go.

State: the operator objects (by id), the regions as PD has cached them (`cluster.GetRegion`),
the running map, the waiting buckets, the records, the notifier queue.  Clock-dependent
decisions (expiry of a created operator, timeout of a started one) read the flags `createdOld` /
`startedOld`, which the harness sets with `operator.SetOperatorStatusReachTime`.  Store limits are
not modelled (regions of the harness are empty: every step cost is 0).  Core Lean only.
-/
namespace PdModel.OpCtl
open PdModel.Steps

inductive Status where
  | created | started | success | canceled | replaced | expired | timeout
  deriving Repr, DecidableEq, Inhabited

def Status.idx : Status → Nat
  | .created => 0 | .started => 1 | .success => 2 | .canceled => 3 | .replaced => 4
  | .expired => 5 | .timeout => 6

def Status.name : Status → String
  | .created => "C" | .started => "S" | .success => "OK" | .canceled => "X" | .replaced => "R"
  | .expired => "E" | .timeout => "T"

def Status.all : List Status := [.created, .started, .success, .canceled, .replaced, .expired, .timeout]

/-- IsEndStatus -/
def Status.isEnd (s : Status) : Bool := 2 ≤ s.idx

/-- `validTrans[a][b]` of operator/status.go, read from the matrix extracted from the source -/
def canMove (a b : Status) : Bool :=
  ((PdModel.Generated.OpCtl.validTrans[a.idx]?).bind (fun row => row[b.idx]?)).getD false

structure Op where
  id         : Nat
  desc       : Nat                 -- description class (wopStatus is keyed by description)
  region     : Nat
  confVer    : Nat
  version    : Nat
  level      : Nat                 -- core.PriorityLevel: 0 low, 1 normal, 2 high
  kindRegion : Bool
  kindMerge  : Bool
  range0     : Nat                 -- key range recorded in a merge/split step
  steps      : List Step
  cur        : Nat := 0
  status     : Status := .created
  createdOld : Bool := false       -- created longer ago than OperatorExpireTime
  startedOld : Bool := false       -- started longer ago than the operator's wait time
  deriving Repr, DecidableEq, Inhabited

/-- what PD has cached of a region -/
structure View where
  id      : Nat
  region  : Region
  confVer : Nat
  version : Nat
  pending : List Nat := []
  range   : Nat := 0
  deriving Repr, DecidableEq, Inhabited

/-- pdpb.RegionHeartbeatResponse as far as the controller fills it -/
inductive Cmd where
  | transferLeader (store id : Nat)
  | addNode (store id : Nat)
  | addLearnerNode (store id : Nat)
  | removeNode (store id : Nat)
  | merge
  | split
  | changeV2 (promotes demotes : List Item)
  | leaveV2
  deriving Repr, DecidableEq, Inhabited

structure Msg where
  region  : Nat
  confVer : Nat
  version : Nat
  target  : Nat      -- store of the peer the message is addressed to (TargetPeer)
  cmd     : Cmd
  deriving Repr, DecidableEq, Inhabited

structure QItem where
  op   : Nat
  left : Nat         -- milliseconds until the entry is due (fastNotifyInterval / slowNotifyInterval at creation)
  seq  : Nat
  deriving Repr, DecidableEq, Inhabited

structure Ctl where
  ops        : List Op := []
  views      : List View := []
  running    : List (Nat × Nat) := []      -- region ↦ operator id
  waiting    : List (List Nat) := [[], [], []]
  wopCount   : List (Nat × Nat) := []      -- description ↦ waiting count
  records    : List (Nat × Nat) := []      -- region ↦ operator id (status read from the operator)
  queue      : List QItem := []
  seq        : Nat := 0
  maxWaiting : Nat := 5
  used       : Nat := 0                    -- random numbers drawn so far (RandBuckets.GetOperator)
  deriving Repr, Inhabited

def Ctl.getOp (c : Ctl) (id : Nat) : Option Op := c.ops.find? (fun o => o.id == id)
def Ctl.setOp (c : Ctl) (o : Op) : Ctl := { c with ops := c.ops.map (fun x => if x.id == o.id then o else x) }
def Ctl.view (c : Ctl) (r : Nat) : Option View := c.views.find? (fun v => v.id == r)
def Ctl.runningOn (c : Ctl) (r : Nat) : Option Nat := (c.running.find? (fun x => x.1 == r)).map (·.2)

def lookupCount (m : List (Nat × Nat)) (k : Nat) : Nat :=
  match m.find? (fun x => x.1 == k) with
  | some x => x.2
  | none => 0

def setCount (m : List (Nat × Nat)) (k v : Nat) : List (Nat × Nat) :=
  if m.any (fun x => x.1 == k) then m.map (fun x => if x.1 == k then (k, v) else x) else m ++ [(k, v)]

/-! ### status tracker -/

/-- OpStatusTracker.To -/
def Op.to (o : Op) (dst : Status) : Op × Bool :=
  if canMove o.status dst then
    ({ o with status := dst, startedOld := if dst == .started then false else o.startedOld }, true)
  else (o, false)

/-- CheckSuccess -/
def Op.checkSuccess (o : Op) : Op × Bool :=
  if o.steps.length ≤ o.cur then
    let (o', moved) := o.to .success
    (o', moved || o'.status == .success)
  else (o, false)

/-- CheckExpired -/
def Op.checkExpired (o : Op) : Op × Bool :=
  match o.status with
  | .created => if o.createdOld then ((o.to .expired).1, true) else (o, false)
  | s => (o, s == .expired)

/-- CheckTimeout -/
def Op.checkTimeout (o : Op) : Op × Bool :=
  let (o, ok) := o.checkSuccess
  if ok then (o, false)
  else
    match o.status with
    | .started => if o.startedOld then ((o.to .timeout).1, true) else (o, false)
    | s => (o, s == .timeout)

/-- the loop of Operator.Check: skip finished steps -/
def advance (v : View) (range0 : Nat) : List Step → Nat → Nat
  | [], cur => cur
  | s :: rest, cur => if isFinish v.region v.pending (v.range != range0) s then advance v range0 rest (cur + 1) else cur

/-- Operator.Check -/
def Op.check (o : Op) (v : View) : Op × Option Step :=
  if o.status.isEnd then (o, none)
  else
    let cur := advance v o.range0 (o.steps.drop o.cur) o.cur
    let o := { o with cur := cur }
    ((o.checkTimeout).1, o.steps[cur]?)

/-- Operator.ConfVerChanged -/
def Op.confVerChanged (o : Op) (r : Region) : Nat :=
  let current := if o.cur == o.steps.length then o.cur - 1 else o.cur
  ((o.steps.take (current + 1)).map (Steps.confVerChanged r)).sum

/-! ### sending -/

/-- SendScheduleCommand + HeartbeatStreams.SendMsg -/
def sendCommand (v : View) (step : Step) : List Msg :=
  let r := v.region
  let cmd : Option Cmd :=
    match step with
    | .transferLeader _ to =>
      let p := storePeer r to
      some (.transferLeader (match p with | some q => q.store | none => 0) (idOf p))
    | .addPeer s id | .addLightPeer s id => if (storePeer r s).isSome then none else some (.addNode s id)
    | .addLearner s id | .addLightLearner s id =>
      if (storePeer r s).isSome then none else some (.addLearnerNode s id)
    | .promoteLearner s id => some (.addNode s id)
    | .demoteFollower s id => some (.addLearnerNode s id)
    | .removePeer s _ =>
      let p := storePeer r s
      some (.removeNode (match p with | some q => q.store | none => 0) (idOf p))
    | .merge passive => if passive then none else some .merge
    | .split => some .split
    | .enter ps ds => some (.changeV2 ps ds)
    | .leave _ _ => some .leaveV2
  match cmd with
  | none => []
  | some c => if r.leader == 0 then [] else [⟨v.id, v.confVer, v.version, r.leader, c⟩]

def stepIsFast : Option Step → Bool
  | some (.transferLeader ..) | some (.promoteLearner ..) | some (.demoteFollower ..)
  | some (.enter ..) | some (.leave ..) => true
  | _ => false

/-- getNextPushOperatorTime, relative to now, in milliseconds (constants extracted from the source) -/
def notifyAfter (step : Option Step) : Nat :=
  (if stepIsFast step then PdModel.Generated.OpCtl.fastNotifyNs else PdModel.Generated.OpCtl.slowNotifyNs) / 1000000

/-! ### running set, records -/

/-- buryOperator -/
def bury (c : Ctl) (id : Nat) : Ctl :=
  match c.getOp id with
  | none => c
  | some o =>
    let o := if !o.status.isEnd then (o.to .canceled).1 else o
    let c := c.setOp o
    { c with records := (o.region, id) :: c.records.filter (fun x => x.1 != o.region) }

/-- removeOperatorLocked -/
def removeLocked (c : Ctl) (o : Op) : Ctl × Bool :=
  if c.runningOn o.region == some o.id then
    ({ c with running := c.running.filter (fun x => x.1 != o.region) }, true)
  else (c, false)

/-- RemoveOperator -/
def removeOperator (c : Ctl) (id : Nat) : Ctl × Bool :=
  match c.getOp id with
  | none => (c, false)
  | some o =>
    let (c, removed) := removeLocked c o
    if removed then
      let c := c.setOp (o.to .canceled).1
      (bury c id, true)
    else (c, false)

/-- cancel + bury a list of operators that were not admitted -/
def rejectAll (c : Ctl) (ids : List Nat) : Ctl :=
  ids.foldl (fun c id =>
    match c.getOp id with
    | none => c
    | some o => bury (c.setOp (o.to .canceled).1) id) c

/-! ### admission -/

/-- the checks of the first loop of checkAddOperator for one operator: its region is cached, the
    epochs are equal, no operator of the same or a higher priority runs on the region, the operator is
    CREATED, the waiting count of its description is below the maximum -/
def admissible (c : Ctl) (id : Nat) : Bool :=
  match c.getOp id with
  | none => false
  | some o =>
    match c.view o.region with
    | none => false
    | some v =>
      v.version == o.version && v.confVer == o.confVer &&
      (match c.runningOn o.region with
       | some oldId =>
         (match c.getOp oldId with
          | some old => decide (o.level > old.level)
          | none => true)
       | none => true) &&
      o.status == .created &&
      decide (lookupCount c.wopCount o.desc < c.maxWaiting)

/-- the second loop: CheckExpired on every operator (it may move them to EXPIRED) -/
def expireAll (c : Ctl) (ids : List Nat) : Ctl × Bool :=
  ids.foldl (fun (acc : Ctl × Bool) id =>
    match acc.1.getOp id with
    | none => acc
    | some o => (acc.1.setOp o.checkExpired.1, acc.2 || o.checkExpired.2)) (c, false)

/-- checkAddOperator -/
def checkAdd (c : Ctl) (ids : List Nat) : Ctl × Bool :=
  if !ids.all (admissible c) then (c, false)
  else ((expireAll c ids).1, !(expireAll c ids).2)

/-- `if old, ok := oc.operators[regionID]; ok { removeOperatorLocked(old); old.Replace(); buryOperator(old) }` -/
def replaceOld (c : Ctl) (region : Nat) : Ctl :=
  match c.runningOn region with
  | some oldId =>
    (match c.getOp oldId with
     | some old => bury ((removeLocked c old).1.setOp (old.to .replaced).1) oldId
     | none => c)
  | none => c

/-- the part of addOperatorLocked after the operator has started -/
def startLocked (c : Ctl) (o : Op) : Ctl × List Msg :=
  let running : List (Nat × Nat) := c.running.filter (fun x => x.1 != o.region) ++ [(o.region, o.id)]
  let c := { c.setOp o with running := running }
  match c.view o.region with
  | some v =>
    let (o', step) := o.check v
    let c := c.setOp o'
    ({ c with queue := c.queue ++ [⟨o.id, notifyAfter step, c.seq⟩], seq := c.seq + 1 },
     match step with | some s => sendCommand v s | none => [])
  | none => ({ c with queue := c.queue ++ [⟨o.id, notifyAfter none, c.seq⟩], seq := c.seq + 1 }, [])

/-- addOperatorLocked -/
def addLocked (c : Ctl) (id : Nat) : Ctl × List Msg × Bool :=
  match c.getOp id with
  | none => (c, [], false)
  | some o0 =>
    let c := replaceOld c o0.region
    match c.getOp id with
    | none => (c, [], false)
    | some o =>
      let (o, started) := o.to .started
      if !started then (c, [], false)
      else
        let (c, msgs) := startLocked c o
        (c, msgs, true)

def addAll (c : Ctl) : List Nat → Ctl × List Msg × Bool
  | [] => (c, [], true)
  | id :: rest =>
    let (c, m, ok) := addLocked c id
    if !ok then (c, m, false)
    else
      let (c, m2, ok2) := addAll c rest
      (c, m ++ m2, ok2)

/-- AddOperator -/
def addOperator (c : Ctl) (ids : List Nat) : Ctl × List Msg × Bool :=
  let (c, ok) := checkAdd c ids
  if !ok then (rejectAll c ids, [], false)
  else addAll c ids

/-! ### waiting operators -/

def bucketWeight : Nat → Nat
  | 0 => 1 | 1 => 4 | _ => 9

/-- RandBuckets.GetOperator with the random number `r` given in millionths: the chosen bucket -/
def pickBucket (buckets : List (List Nat)) (r : Nat) : Option Nat :=
  let total := ((List.range buckets.length).filter (fun i => !(buckets[i]?.getD []).isEmpty)).foldl
    (fun s i => s + bucketWeight i) 0
  if total == 0 then none
  else
    -- r / 10^6 ∈ [sum, sum + w/total)  ⇔  r * total ∈ [sumW * 10^6, (sumW + w) * 10^6)
    let rec go (i : Nat) (fuel : Nat) (sumW : Nat) : Option Nat :=
      match fuel with
      | 0 => none
      | fuel + 1 =>
        if (buckets[i]?.getD []).isEmpty then go (i + 1) fuel sumW
        else
          let w := bucketWeight i
          if sumW * 1000000 ≤ r * total && r * total < (sumW + w) * 1000000 then some i
          else go (i + 1) fuel (sumW + w)
    go 0 buckets.length 0

def isMergeOp (c : Ctl) (id : Nat) : Bool := match c.getOp id with | some o => o.kindMerge | none => false

/-- take one operator (or a merge pair) from bucket `i` -/
def takeFrom (c : Ctl) (i : Nat) : Ctl × List Nat :=
  match c.waiting[i]? with
  | some (a :: b :: rest) =>
    if isMergeOp c a then ({ c with waiting := c.waiting.set i rest }, [a, b])
    else ({ c with waiting := c.waiting.set i (b :: rest) }, [a])
  | some [a] => ({ c with waiting := c.waiting.set i [] }, [a])
  | _ => (c, [])

def descOf (c : Ctl) (id : Nat) : Nat := match c.getOp id with | some o => o.desc | none => 0

/-- `oc.wopStatus.ops[ops[0].Desc()]--` -/
def decWaiting (c : Ctl) (id : Nat) : Ctl :=
  let d := descOf c id
  { c with wopCount := setCount c.wopCount d (lookupCount c.wopCount d - 1) }

/-- PromoteWaitingOperator; `rs` = the random numbers its calls of GetOperator will draw -/
def bump (c : Ctl) : Ctl := { c with used := c.used + 1 }

/-- GetOperator returns nil without drawing a number when every bucket is empty -/
def bumpUnlessEmpty (c : Ctl) : Ctl := if c.waiting.all (fun b => b.isEmpty) then c else bump c

def promote (c : Ctl) : List Nat → Ctl × List Msg
  | [] => (c, [])
  | r :: rs =>
    match pickBucket c.waiting r with
    | none => (bumpUnlessEmpty c, [])
    | some i =>
      let (c, ids) := takeFrom (bump c) i
      match ids with
      | [] => (c, [])
      | first :: _ =>
        let (c, ok) := checkAdd c ids
        let c' := decWaiting c first
        if !ok then promote (rejectAll c' ids) rs
        else
          let (c'', m, _) := addAll c' ids
          (c'', m)

/-- put an operator into its priority bucket -/
def putWaiting (c : Ctl) (id : Nat) : Ctl :=
  let lvl := match c.getOp id with | some o => o.level | none => 1
  { c with waiting := c.waiting.set lvl ((c.waiting[lvl]?.getD []) ++ [id]) }

def incWaiting (c : Ctl) (id : Nat) : Ctl :=
  let d := descOf c id
  { c with wopCount := setCount c.wopCount d (lookupCount c.wopCount d + 1) }

/-- the loop of AddWaitingOperator (without the final promote): state, added, completed normally -/
def addWaitingLoop (c : Ctl) : List Nat → Nat → Ctl × Nat × Bool
  | [], added => (c, added, true)
  | [id], added =>
    if isMergeOp c id then (c, added, false)
    else
      let (c, ok) := checkAdd c [id]
      if !ok then (rejectAll c [id], added, false)
      else (incWaiting (putWaiting c id) id, added + 1, true)
  | id :: nxt :: rest, added =>
    if isMergeOp c id then
      if !isMergeOp c nxt then (c, added, false)
      else
        let (c, ok) := checkAdd c [id]
        if !ok then (rejectAll c [id, nxt], added, false)
        else addWaitingLoop (incWaiting (putWaiting (putWaiting c id) nxt) id) rest (added + 2)
    else
      let (c, ok) := checkAdd c [id]
      if !ok then (rejectAll c [id], added, false)
      else addWaitingLoop (incWaiting (putWaiting c id) id) (nxt :: rest) (added + 1)

/-- AddWaitingOperator -/
def addWaiting (c : Ctl) (ids : List Nat) (rs : List Nat) : Ctl × List Msg × Nat :=
  let (c, added, completed) := addWaitingLoop c ids 0
  if completed then
    let (c, m) := promote c rs
    (c, m, added)
  else (c, [], added)

/-! ### dispatch -/

/-- checkStaleOperator: true = the operator was cancelled -/
def checkStale (c : Ctl) (o : Op) (step : Step) (v : View) : Ctl × Bool :=
  if !checkSafety v.region step then
    let (c, _) := removeOperator c o.id
    (c, true)
  else if v.confVer < o.confVer || v.confVer - o.confVer > o.confVerChanged v.region then
    let (c, _) := removeOperator c o.id
    (c, true)
  else (c, false)

/-- Dispatch; `rs` = random numbers for a PromoteWaitingOperator it may trigger -/
def dispatch (c : Ctl) (v : View) (fromHeartbeat : Bool) (rs : List Nat) : Ctl × List Msg :=
  match c.runningOn v.id with
  | none => (c, [])
  | some id =>
    match c.getOp id with
    | none => (c, [])
    | some o =>
      let (o, step) := o.check v
      let c := c.setOp o
      match o.status with
      | .started =>
        (match step with
         | some s =>
           if fromHeartbeat then
             let (c, stale) := checkStale c o s v
             if stale then
               let (c, m) := promote c rs
               (c, m)
             else (c, sendCommand v s)
           else (c, sendCommand v s)
         | none => (c, []))
      | .success | .timeout =>
        let (c, removed) := removeOperator c id
        if removed then promote c rs else (c, [])
      | _ =>
        let (c, removed) := removeLocked c o
        if removed then
          let c := bury (c.setOp (o.to .canceled).1) id
          promote c rs
        else (c, [])

/-- the notifier heap: ordered by due time; entries with the same remaining time in creation order -/
def insertItem (x : QItem) : List QItem → List QItem
  | [] => [x]
  | y :: ys => if x.left < y.left then x :: y :: ys else y :: insertItem x ys

def sortedQueue (q : List QItem) : List QItem := q.foldl (fun acc x => insertItem x acc) []

def dropItem (c : Ctl) (seq : Nat) : Ctl := { c with queue := c.queue.filter (fun x => x.seq != seq) }

/-- the entry names a region; the operator that is polled is the one running there *now* -/
def polledOp (c : Ctl) (item : QItem) : Option Op :=
  let regionOf := match c.getOp item.op with | some o => o.region | none => 0
  (c.runningOn regionOf).bind c.getOp

def pushLoop (c : Ctl) (rs : List Nat) : Nat → Ctl × List Msg
  | 0 => (c, [])
  | fuel + 1 =>
    match sortedQueue c.queue with
    | [] => (c, [])
    | item :: _ =>
      let c1 := dropItem c item.seq
      match polledOp c1 item with
      | none => pushLoop c1 rs fuel
      | some o =>
        match c1.view o.region with
        | none =>
          -- region disappeared
          let c2 := bury ((removeLocked c1 o).1.setOp (o.to .canceled).1) o.id
          pushLoop c2 rs fuel
        | some v =>
          let c2 := c1.setOp (o.check v).1
          match (o.check v).2 with
          | none =>
            let (c3, m) := dispatch c2 v false rs
            let (c4, m2) := pushLoop c3 (rs.drop (c3.used - c2.used)) fuel
            (c4, m ++ m2)
          | some s =>
            if item.left != 0 then
              -- not due yet: the entry goes back, polling stops
              ({ c2 with queue := c.queue }, [])
            else
              -- due: the entry goes back with a new time, the region is dispatched
              let c2' := { c2 with queue := c2.queue ++ [⟨item.op, notifyAfter (some s), c2.seq⟩], seq := c2.seq + 1 }
              let (c3, m) := dispatch c2' v false rs
              let (c4, m2) := pushLoop c3 (rs.drop (c3.used - c2'.used)) fuel
              (c4, m ++ m2)

def pushOperators (c : Ctl) (rs : List Nat) : Ctl × List Msg := pushLoop c rs (2 * c.queue.length + 2)

/-! ### competing end transitions on one started operator -/

inductive RaceKind where
  | cancel | replace | timeout | finish
  deriving Repr, DecidableEq, Inhabited

def RaceKind.letter : RaceKind → String
  | .cancel => "c" | .replace => "r" | .timeout => "t" | .finish => "k"

/-- what one participant does and whether it reports success: `Cancel()`, `Replace()`,
    `CheckTimeout()` on an operator that is old enough, `CheckSuccess()` -/
def raceStep (o : Op) : RaceKind → Op × Bool
  | .cancel => o.to .canceled
  | .replace => o.to .replaced
  | .timeout => o.checkTimeout
  | .finish => o.checkSuccess

/-- the participants one after the other (every schedule of atomic transitions is such an order) -/
def raceRun (o : Op) : List RaceKind → Op × List Bool
  | [] => (o, [])
  | k :: ks =>
    let (o1, ok) := raceStep o k
    let (o2, oks) := raceRun o1 ks
    (o2, ok :: oks)

/-- `Start()`, make it old, then the race -/
def race (o : Op) (order : List RaceKind) : Op × List Bool :=
  raceRun { (o.to .started).1 with startedOld := true } order

/-- GetOpInfluence: `CheckTimeout` / `CheckSuccess` on every running operator (the statuses turn lazily;
    the influence itself is not modelled) -/
def touchRunning (c : Ctl) : Ctl :=
  c.running.foldl (fun c x =>
    match c.getOp x.2 with
    | some o => c.setOp o.checkTimeout.1
    | none => c) c

/-! ### events -/

/-- cluster.PutRegion -/
def putView (c : Ctl) (v : View) : Ctl :=
  { c with views := if c.views.any (fun x => x.id == v.id) then c.views.map (fun x => if x.id == v.id then v else x)
                    else c.views ++ [v] }

/-- everything that can happen to a controller -/
inductive Ev where
  | putRegion (v : View)                   -- the region is (re)defined in PD's cache
  | delRegion (r : Nat)                    -- the region disappears from PD's cache
  | newOp (o : Op)                         -- an operator object is created (status CREATED)
  | add (ids : List Nat)                   -- AddOperator
  | addWaiting (ids rs : List Nat)         -- AddWaitingOperator
  | promote (rs : List Nat)                -- PromoteWaitingOperator
  | heartbeat (v : View) (rs : List Nat)   -- region heartbeat: cache the region, Dispatch
  | push (rs : List Nat)                   -- PushOperators
  | remove (id : Nat)                      -- RemoveOperator
  | expire (id : Nat)                      -- time passes: a created operator becomes old
  | markTimeout (id : Nat)                 -- time passes: a started operator becomes old
  | sleep (ms : Nat)                       -- time passes: notifier entries come closer to being due
  | influence                              -- GetOpInfluence
  deriving Repr, Inhabited

def stepEv (c : Ctl) : Ev → Ctl × List Msg
  | .putRegion v => (putView c v, [])
  | .delRegion r => ({ c with views := c.views.filter (fun v => v.id != r) }, [])
  | .newOp o =>
    if (c.getOp o.id).isSome then (c, [])
    else ({ c with ops := c.ops ++ [{ o with cur := 0, status := .created, createdOld := false, startedOld := false }] }, [])
  | .add ids => let r := addOperator c ids; (r.1, r.2.1)
  | .addWaiting ids rs => let r := addWaiting c ids rs; (r.1, r.2.1)
  | .promote rs => promote c rs
  | .heartbeat v rs => dispatch (putView c v) v true rs
  | .push rs => pushOperators c rs
  | .remove id => ((removeOperator c id).1, [])
  | .expire id =>
    (match c.getOp id with
     | some o => c.setOp { o with createdOld := true }
     | none => c, [])
  | .markTimeout id =>
    (match c.getOp id with
     | some o => if o.status == .started then c.setOp { o with startedOld := true } else c
     | none => c, [])

  | .influence => (touchRunning c, [])
  | .sleep ms => ({ c with queue := c.queue.map (fun x => { x with left := x.left - ms }) }, [])

def runEv (c : Ctl) (evs : List Ev) : Ctl := evs.foldl (fun c e => (stepEv c e).1) c

end PdModel.OpCtl
