import PdModel.Model.RegionTree
import PdModel.Generated.RegionCache
/-
Model of the region-heartbeat path: core.BasicCluster.PreCheckPutRegion / PutRegion (server/core/basic_cluster.go)
and RaftCluster.processRegionHeartbeat (server/cluster/cluster.go) over the `RegionsInfo` model, plus the region
part of core.Storage (a map id ↦ region meta).  Core Lean only.

One heartbeat is three atomic sections of the Go code:
  check  – PreCheckPutRegion under the BasicCluster read lock, then the flag computation against the origin
           that was read (no lock held);
  commit – `c.Lock(); PreCheckPutRegion again; PutRegion; c.Unlock()` (only when saveCache);
  store  – the storage deletes of the displaced regions and the save of the meta (no lock).
`heartbeat` runs the three in a row (one heartbeat at a time); streams of `Step`s interleave them.
-/
namespace PdModel.RegionCache
open PdModel.RegionTree

inductive Verdict where
  | ok | stale
  deriving DecidableEq, Repr, Inhabited

/-- getRelevantRegions: the cached region of the same id and – when that is missing or has another
    range – the cached regions overlapping the new range -/
def getRelevantRegions (ri : RegionsInfo) (r : Region) : Option Region × List Region :=
  let origin := getRegion ri r.id
  let overlaps :=
    match origin with
    | some o => if o.startKey ≠ r.startKey ∨ o.endKey ≠ r.endKey then getOverlaps ri r else []
    | none => getOverlaps ri r
  (origin, overlaps)

/-- PreCheckPutRegion: (origin, error?) -/
def preCheckPutRegion (ri : RegionsInfo) (r : Region) : Option Region × Verdict :=
  let (origin, overlaps) := getRelevantRegions ri r
  if overlaps.any (fun item => r.version < item.version) then (none, .stale)
  else
    match origin with
    | none => (none, .ok)
    | some o =>
      let isTermBehind := r.term > 0 ∧ r.term < o.term
      if isTermBehind ∨ r.version < o.version ∨ r.confVer < o.confVer then (some o, .stale)
      else (some o, .ok)

/-- the flags of processRegionHeartbeat -/
structure Flags where
  saveKV : Bool := false
  saveCache : Bool := false
  isNew : Bool := false
  needSync : Bool := false
  deriving DecidableEq, Repr, Inhabited

def peerKeys (l : List Peer) : List (Nat × Nat) := l.map (fun p => (p.store, p.id))

/-- the chain of `if`s of processRegionHeartbeat, written as one Boolean formula per flag (each `if`
    only ever sets flags to true) -/
def computeFlags (origin : Option Region) (r : Region) : Flags :=
  match origin with
  | none => { saveKV := true, saveCache := true, isNew := true }
  | some o =>
    let metaChanged : Bool := r.version > o.version || r.confVer > o.confVer || r.peers.length != o.peers.length
    let leaderChanged : Bool := r.leader != o.leader
    let downChanged : Bool := peerKeys r.down != peerKeys o.down
    let pendingChanged : Bool := peerKeys r.pending != peerKeys o.pending
    let sizeChanged : Bool := r.size != o.size || r.keys != o.keys
    let flowChanged : Bool := r.written != o.written || r.read != o.read
    let replChanged : Bool := r.repl.1 != 0 && r.repl != o.repl
    { saveKV := metaChanged
      saveCache := metaChanged || leaderChanged || downChanged || pendingChanged || sizeChanged || flowChanged || replChanged
      isNew := leaderChanged && o.leader == 0
      needSync := leaderChanged || downChanged || pendingChanged || flowChanged }

structure Cluster where
  ri : RegionsInfo := {}
  /-- storage keys raft/r/<id> -/
  storage : List (Nat × Meta) := []
  deriving Repr, Inhabited

/-- the locked section: re-check, then PutRegion.  Returns the displaced regions. -/
def commit (c : Cluster) (r : Region) : Cluster × Verdict × List Region :=
  match (preCheckPutRegion c.ri r).2 with
  | .stale => (c, .stale, [])
  | .ok =>
    let (ri', overlaps) := setRegion c.ri r
    ({ c with ri := ri' }, .ok, overlaps)

/-- the storage writes after the locked section -/
def store (c : Cluster) (r : Region) (saveKV : Bool) (overlaps : List Region) : Cluster :=
  let st := overlaps.foldl (fun st item => mapDel st item.id) c.storage
  { c with storage := if saveKV then mapSet st r.id (metaOf r) else st }

/-- processRegionHeartbeat, one heartbeat at a time -/
def heartbeat (c : Cluster) (r : Region) : Cluster × Verdict :=
  let (origin, v) := preCheckPutRegion c.ri r
  match v with
  | .stale => (c, .stale)
  | .ok =>
    let f := computeFlags origin r
    if !f.saveKV && !f.saveCache && !f.isNew then (c, .ok)
    else
      let (c1, v1, overlaps) := if f.saveCache then commit c r else (c, .ok, [])
      match v1 with
      | .stale => (c1, .stale)
      | .ok => (store c1 r f.saveKV overlaps, .ok)

/-- what the storage part of this heartbeat does (`saveKV`, the displaced regions it deletes), or nothing
    when the heartbeat is refused or ignored -/
def heartbeatWrites (c : Cluster) (r : Region) : Bool × List Region :=
  let (origin, v) := preCheckPutRegion c.ri r
  match v with
  | .stale => (false, [])
  | .ok =>
    let f := computeFlags origin r
    if !f.saveKV && !f.saveCache && !f.isNew then (false, [])
    else
      let (_, v1, overlaps) := if f.saveCache then commit c r else (c, .ok, [])
      match v1 with
      | .stale => (false, [])
      | .ok => (f.saveKV, overlaps)

/-! ### core.RegionStorage (server/core/region_storage.go): leveldb behind a write batch

`SaveRegion` puts the meta into `batchRegions` and flushes the whole batch when `cacheSize` reaches
`batchSize - 1` (or on `FlushRegion`, or – not modelled, the harness never idles that long – by the 3 s timer);
`Remove` drops a pending write of the key and deletes the key on disk.  Readers (`LoadRegion(s)`) see the disk only.
The logical content (disk overlaid with the batch) is `Cluster.storage`. -/

def defaultBatchSize : Nat := PdModel.Generated.RegionCache.defaultBatchSize

structure RegionStorage where
  disk : List (Nat × Meta) := []
  batch : List (Nat × Meta) := []
  cacheSize : Nat := 0
  deriving Repr, Inhabited

def RegionStorage.flush (s : RegionStorage) : RegionStorage :=
  { disk := s.batch.foldl (fun d e => mapSet d e.1 e.2) s.disk, batch := [], cacheSize := 0 }

def RegionStorage.save (s : RegionStorage) (m : Meta) : RegionStorage :=
  if s.cacheSize < defaultBatchSize - 1 then
    { s with batch := mapSet s.batch m.id m, cacheSize := s.cacheSize + 1 }
  else ({ s with batch := mapSet s.batch m.id m } : RegionStorage).flush

def RegionStorage.remove (s : RegionStorage) (id : Nat) : RegionStorage :=
  { s with batch := mapDel s.batch id, disk := mapDel s.disk id }

/-- the storage part of a heartbeat on the batched storage -/
def RegionStorage.apply (s : RegionStorage) (r : Region) (w : Bool × List Region) : RegionStorage :=
  let s1 := w.2.foldl (fun s item => s.remove item.id) s
  if w.1 then s1.save (metaOf r) else s1

/-- core.NewRegionInfo(meta, nil): what LoadRegions hands to its callback -/
def regionOfMeta (m : Meta) : Region :=
  { id := m.id, startKey := m.startKey, endKey := m.endKey, version := m.version, confVer := m.confVer, peers := m.peers }

/-- BasicCluster.CheckAndPutRegion on a fresh cache for every stored meta in id order (the server start):
    the regions that end up being served -/
def reload (metas : List (Nat × Meta)) : RegionsInfo :=
  metas.foldl (fun ri e =>
    let r := regionOfMeta e.2
    match (preCheckPutRegion ri r).2 with
    | .stale => ri
    | .ok => (setRegion ri r).1) {}

/-! ### concurrent streams: the same code, one atomic section per step -/

/-- where a stream is inside processRegionHeartbeat -/
inductive Phase where
  | idle
  /-- passed the first check with these flags; next: the locked section (or, without saveCache, the storage part) -/
  | checked (r : Region) (f : Flags)
  /-- left the locked section; next: the storage writes -/
  | committed (r : Region) (f : Flags) (overlaps : List Region)
  deriving Repr, Inhabited

structure Conc where
  c : Cluster := {}
  streams : List Phase := []
  deriving Repr, Inhabited

inductive Step where
  /-- stream `i` receives heartbeat `r` and runs up to the end of the flag computation -/
  | check (i : Nat) (r : Region)
  /-- stream `i` runs its locked section -/
  | commit (i : Nat)
  /-- stream `i` does its storage writes and returns -/
  | store (i : Nat)
  deriving Repr

inductive Out where
  | ok | stale | pending | bad
  deriving DecidableEq, Repr

def setPhase (s : Conc) (i : Nat) (p : Phase) : Conc := { s with streams := s.streams.set i p }

def stepConc (s : Conc) : Step → Conc × Out
  | .check i r =>
    match s.streams[i]? with
    | some .idle =>
      let (origin, v) := preCheckPutRegion s.c.ri r
      match v with
      | .stale => (s, .stale)
      | .ok =>
        let f := computeFlags origin r
        if !f.saveKV && !f.saveCache && !f.isNew then (s, .ok)
        else (setPhase s i (.checked r f), .pending)
    | _ => (s, .bad)
  | .commit i =>
    match s.streams[i]? with
    | some (.checked r f) =>
      if f.saveCache then
        let (c1, v1, overlaps) := commit s.c r
        match v1 with
        | .stale => (setPhase { s with c := c1 } i .idle, .stale)
        | .ok => (setPhase { s with c := c1 } i (.committed r f overlaps), .pending)
      else (setPhase s i (.committed r f []), .pending)
    | _ => (s, .bad)
  | .store i =>
    match s.streams[i]? with
    | some (.committed r f overlaps) => (setPhase { s with c := store s.c r f.saveKV overlaps } i .idle, .ok)
    | _ => (s, .bad)

/-! ### reads -/

/-- RaftCluster.GetRegion -/
def getRegionC (c : Cluster) (id : Nat) : Option Region := getRegion c.ri id
/-- RaftCluster.GetRegionByKey -/
def getRegionByKey (c : Cluster) (k : Key) : Option Region := searchRegion c.ri k
/-- Storage.LoadRegion -/
def loadRegion (c : Cluster) (id : Nat) : Option Meta := mapGet c.storage id
/-- all served regions in key order (ScanRegions "" "" 0) -/
def served (c : Cluster) : List Region := (scanRange c.ri [] [] 0).filterMap id

end PdModel.RegionCache
