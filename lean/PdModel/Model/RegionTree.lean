/-
Model of server/core/region_tree.go (regionTree) and server/core/region.go (RegionInfo glue,
regionMap, RegionsInfo).  Core Lean only.

How Go objects are represented
* keys            – byte strings = `List Nat` with the lexicographic order of core Lean
                    (= bytes.Compare); `[]` is the smallest key and, as an END key, means +∞.
* `*regionItem`   – an index into `RegionsInfo.heap` ("item ref").  The main tree, the id map and the
                    per-store sub-trees all hold item refs, so `item.region = region` is ONE write
                    seen by all of them – exactly the sharing the Go code relies on.  Items are never
                    freed (an item dropped from the map stays readable for the sub-trees that are
                    cleaned up afterwards, as in Go).
* `pkg/btree`     – MODELLED, not verified: an ordered set is the list of its items in ascending
                    start-key order and the btree calls are linear scans (`descendLE`, `ascendGE`,
                    `deleteKey`, `insertItem`, `rank`, `getAt`).
* `regionTree`    – `Tree` = ordered set of item refs + `totalSize` maintained differentially.
* `RegionsInfo`   – heap + `regions` (id ↦ item ref) + `tree` + four families
                    store ↦ sub-tree (leaders, followers, learners, pendingPeers).
All tree functions take the accessor `acc : α → Region` (read the region through the item), so the same
definitions serve item refs (the model) and plain regions (the specification side of the proofs).
-/
import PdModel.Generated.RegionTree
namespace PdModel.RegionTree

abbrev Key := List Nat

structure Peer where
  id      : Nat
  store   : Nat
  learner : Bool := false
  deriving DecidableEq, Repr, Inhabited

/-- core.RegionInfo (the fields that the region cache reads) -/
structure Region where
  id       : Nat := 0
  startKey : Key := []
  endKey   : Key := []
  version  : Nat := 0
  confVer  : Nat := 0
  term     : Nat := 0
  peers    : List Peer := []
  /-- `leader.GetId()`; 0 = no leader -/
  leader   : Nat := 0
  pending  : List Peer := []
  down     : List Peer := []
  /-- approximateSize (MB) -/
  size     : Int := 0
  keys     : Int := 0
  written  : Nat := 0
  read     : Nat := 0
  /-- replication status (state, state id) -/
  repl     : Nat × Nat := (0, 0)
  deriving DecidableEq, Repr, Inhabited

/-- metapb.Region as persisted under raft/r/<id> (what `LoadRegion` gives back) -/
structure Meta where
  id : Nat
  startKey : Key
  endKey : Key
  version : Nat
  confVer : Nat
  peers : List Peer
  deriving DecidableEq, Repr, Inhabited

def metaOf (r : Region) : Meta :=
  { id := r.id, startKey := r.startKey, endKey := r.endKey, version := r.version, confVer := r.confVer, peers := r.peers }

/-! ### RegionInfo glue -/

def insertById (p : Peer) : List Peer → List Peer
  | [] => [p]
  | q :: qs => if p.id ≤ q.id then p :: q :: qs else q :: insertById p qs

/-- `sort.Sort(peerSlice(..))` (insertion sort below 12 elements: stable) -/
def sortById (l : List Peer) : List Peer := l.foldr insertById []

/-- classifyVoterAndLearner -/
def Region.voters (r : Region) : List Peer := sortById (r.peers.filter (fun p => !p.learner))
def Region.learners (r : Region) : List Peer := sortById (r.peers.filter (fun p => p.learner))

/-- SortedPeersEqual -/
def sortedPeersEqual (a b : List Peer) : Bool :=
  a.map (fun p => (p.store, p.id)) == b.map (fun p => (p.store, p.id))

/-- ImpossibleFlowSize and EmptyRegionApproximateSize, as extracted from server/core/region.go -/
def impossibleFlowSize : Nat := PdModel.Generated.RegionTree.impossibleFlowSize
def emptyRegionApproximateSize : Nat := PdModel.Generated.RegionTree.emptyRegionApproximateSize

/-- pdpb.RegionHeartbeatRequest, the fields read by `RegionFromHeartbeat` -/
structure Heartbeat where
  region   : Region          -- meta (id, keys, epoch, peers) + leader + term; other fields ignored
  pending  : List Peer := []
  down     : List Peer := []
  sizeBytes : Nat := 0
  keys     : Nat := 0
  written  : Nat := 0
  writtenKeys : Nat := 0
  read     : Nat := 0
  readKeys : Nat := 0
  repl     : Nat × Nat := (0, 0)
  deriving Repr, Inhabited

/-- RegionFromHeartbeat: size in MB (at least 1), impossible flows zeroed, pending/down sorted -/
def regionFromHeartbeat (h : Heartbeat) : Region :=
  let mb : Int := ((h.sizeBytes / 2 ^ 20 : Nat) : Int)
  let wbad := h.writtenKeys ≥ impossibleFlowSize || h.written ≥ impossibleFlowSize
  let rbad := h.readKeys ≥ impossibleFlowSize || h.read ≥ impossibleFlowSize
  { h.region with
    pending := sortById h.pending
    down := sortById h.down
    size := if mb < (emptyRegionApproximateSize : Int) then (emptyRegionApproximateSize : Int) else mb
    keys := h.keys
    written := if wbad then 0 else h.written
    read := if rbad then 0 else h.read
    repl := h.repl }

/-! ### key ranges -/

/-- regionItem.Contains -/
def Contains (r : Region) (k : Key) : Prop := r.startKey ≤ k ∧ (r.endKey = [] ∨ k < r.endKey)
instance (r : Region) (k : Key) : Decidable (Contains r k) := inferInstanceAs (Decidable (_ ∧ _))

/-- isInvolved -/
def Involved (r : Region) (sk ek : Key) : Prop :=
  sk ≤ r.startKey ∧ (ek = [] ∨ (r.endKey ≠ [] ∧ r.endKey ≤ ek))
instance (r : Region) (sk ek : Key) : Decidable (Involved r sk ek) := inferInstanceAs (Decidable (_ ∧ _))

/-! ### the ordered set (abstract behaviour of pkg/btree) and regionTree's reads -/
section Ops
variable {α : Type} (acc : α → Region)

/-- first item visited by `DescendLessOrEqual(pivot)`: the last item whose start key is ≤ `k` -/
def descendLE (l : List α) (k : Key) : Option α :=
  (l.filter (fun a => (acc a).startKey ≤ k)).getLast?

/-- items visited by `AscendGreaterOrEqual(pivot)`, in order -/
def ascendGE (l : List α) (k : Key) : List α := l.filter (fun a => k ≤ (acc a).startKey)

/-- `Delete(item)`: remove the item whose key equals `k` -/
def deleteKey (l : List α) (k : Key) : List α := l.filter (fun a => (acc a).startKey ≠ k)

/-- `ReplaceOrInsert(item)` -/
def insertItem (l : List α) (x : α) : List α :=
  l.filter (fun a => (acc a).startKey < (acc x).startKey) ++
    x :: l.filter (fun a => (acc x).startKey < (acc a).startKey)

/-- index returned by `GetWithIndex(key)`: the number of items below `k` -/
def rank (l : List α) (k : Key) : Nat := (l.filter (fun a => (acc a).startKey < k)).length

/-- `GetWithIndex(key)` found an item with exactly this key -/
def hasKey (l : List α) (k : Key) : Bool := l.any (fun a => (acc a).startKey = k)

/-- regionTree.find (the region argument only contributes its start key) -/
def find (l : List α) (k : Key) : Option α :=
  match descendLE acc l k with
  | some a => if Contains (acc a) k then some a else none
  | none => none

/-- regionTree.getOverlaps -/
def overlapsOf (l : List α) (r : Region) : List α :=
  let pivot := match find acc l r.startKey with
    | some a => (acc a).startKey
    | none => r.startKey
  (ascendGE acc l pivot).takeWhile (fun a => ¬ (r.endKey ≠ [] ∧ r.endKey ≤ (acc a).startKey))

/-- regionTree.getAdjacentRegions: (last item strictly below the start key, first item strictly above) -/
def adjacentOf (l : List α) (k : Key) : Option α × Option α :=
  ((l.filter (fun a => (acc a).startKey < k)).getLast?, (l.filter (fun a => k < (acc a).startKey)).head?)

/-- regionTree.scanRange: the items handed to the callback, in order (until it returns false) -/
def scanFrom (l : List α) (k : Key) : List α :=
  let pivot := match find acc l k with
    | some a => (acc a).startKey
    | none => k
  ascendGE acc l pivot

/-- regionTree.searchPrev -/
def searchPrevOf (l : List α) (k : Key) : Option α :=
  match find acc l k with
  | none => none
  | some cur =>
    match (adjacentOf acc l (acc cur).startKey).1 with
    | none => none
    | some prev => if (acc prev).endKey = (acc cur).startKey then some prev else none

/-- `t.tree.GetAt(startIndex-1).(*regionItem).Contains(startKey)` -/
def prevContains (l : List α) (i : Nat) (sk : Key) : Bool :=
  match l[i - 1]? with
  | some a => decide (Contains (acc a) sk)
  | none => false

/-- RandomRegion: `startIndex` (the rank of the start key, one less when no item has exactly this key
    and the item before contains it) -/
def randStart (l : List α) (sk : Key) : Nat :=
  let startIndex0 := rank acc l sk
  if startIndex0 != 0 && !(hasKey acc l sk) && prevContains acc l startIndex0 sk then startIndex0 - 1
  else startIndex0

/-- RandomRegion: `endIndex` -/
def randEnd (l : List α) (ek : Key) : Nat := if ek ≠ [] then rank acc l ek else l.length

/-- RandomRegion, one range: the items `GetAt(index)` can return for
    `index ∈ [startIndex, endIndex)` (empty when `endIndex ≤ startIndex`) -/
def randWindow (l : List α) (sk ek : Key) : List α :=
  if randEnd acc l ek ≤ randStart acc l sk then []
  else (l.drop (randStart acc l sk)).take (randEnd acc l ek - randStart acc l sk)

/-- the items RandomRegion can return for one range: a window item that passes `isInvolved` -/
def randCands1 (l : List α) (sk ek : Key) : List α :=
  (randWindow acc l sk ek).filter (fun a => Involved (acc a) sk ek)

/-- RandomRegion can fall through this range (empty window, or a pick that is not involved) -/
def randMiss1 (l : List α) (sk ek : Key) : Bool :=
  (randWindow acc l sk ek).isEmpty || (randWindow acc l sk ek).any (fun a => ! decide (Involved (acc a) sk ek))

def normRanges (ranges : List (Key × Key)) : List (Key × Key) :=
  if ranges.isEmpty then [([], [])] else ranges

/-- every item some run of RandomRegion(ranges) can return (any permutation, any index) -/
def randCands (l : List α) (ranges : List (Key × Key)) : List α :=
  if l.isEmpty then [] else (normRanges ranges).flatMap (fun rg => randCands1 acc l rg.1 rg.2)

/-- some run of RandomRegion(ranges) returns nil -/
def randNilPossible (l : List α) (ranges : List (Key × Key)) : Bool :=
  l.isEmpty || (normRanges ranges).all (fun rg => randMiss1 acc l rg.1 rg.2)

end Ops

/-! ### regionTree -/

structure Tree where
  items     : List Nat := []
  totalSize : Int := 0
  deriving Repr, DecidableEq, Inhabited

abbrev Acc := Nat → Region

def Tree.length (t : Tree) : Nat := t.items.length

/-- regionTree.TotalSize -/
def Tree.total (t : Tree) : Int := if t.items.length = 0 then 0 else t.totalSize

/-- one iteration of the delete loop of `update` -/
def Tree.dropOverlap (acc : Acc) (t : Tree) (old : Region) : Tree :=
  { items := deleteKey acc t.items old.startKey, totalSize := t.totalSize - old.size }

/-- regionTree.update(item): returns the tree and the overlapped regions -/
def Tree.update (acc : Acc) (t : Tree) (item : Nat) : Tree × List Region :=
  let region := acc item
  let t0 : Tree := { t with totalSize := t.totalSize + region.size }
  let overlaps := (overlapsOf acc t0.items region).map acc
  let t1 := overlaps.foldl (Tree.dropOverlap acc) t0
  ({ t1 with items := insertItem acc t1.items item }, overlaps)

/-- regionTree.updateStat -/
def Tree.updateStat (t : Tree) (origin region : Region) : Tree :=
  { t with totalSize := t.totalSize + region.size - origin.size }

/-- regionTree.remove -/
def Tree.remove (acc : Acc) (t : Tree) (region : Region) : Tree :=
  if t.items.length = 0 then t else
  match find acc t.items region.startKey with
  | none => t
  | some a =>
    if (acc a).id ≠ region.id then t
    else { items := deleteKey acc t.items (acc a).startKey, totalSize := t.totalSize - region.size }

/-! ### RegionsInfo -/

inductive Role where
  | leader | follower | learner | pending
  deriving DecidableEq, Repr, Inhabited

def Role.all : List Role := [.leader, .follower, .learner, .pending]

/-- Go maps as association lists (at most one entry per key) -/
def mapGet {β : Type} (m : List (Nat × β)) (k : Nat) : Option β :=
  match m with
  | [] => none
  | (k', v) :: rest => if k' = k then some v else mapGet rest k

def mapSet {β : Type} (m : List (Nat × β)) (k : Nat) (v : β) : List (Nat × β) :=
  match m with
  | [] => [(k, v)]
  | (k', v') :: rest => if k' = k then (k, v) :: rest else (k', v') :: mapSet rest k v

def mapDel {β : Type} (m : List (Nat × β)) (k : Nat) : List (Nat × β) := m.filter (fun e => e.1 ≠ k)

structure RegionsInfo where
  /-- the regionItems ever allocated; `heap[i]` is `item_i.region` -/
  heap      : List Region := []
  /-- regionMap: region id ↦ item ref -/
  regions   : List (Nat × Nat) := []
  tree      : Tree := {}
  leaders   : List (Nat × Tree) := []
  followers : List (Nat × Tree) := []
  learners  : List (Nat × Tree) := []
  pendingPeers : List (Nat × Tree) := []
  /-- set where the Go code would dereference a nil *RegionInfo (`r.GetRegion(old.GetID())` = nil) -/
  nilDeref  : Bool := false
  deriving Repr, Inhabited

def RegionsInfo.acc (s : RegionsInfo) : Acc := fun i => s.heap.getD i default

def RegionsInfo.fam (s : RegionsInfo) : Role → List (Nat × Tree)
  | .leader => s.leaders
  | .follower => s.followers
  | .learner => s.learners
  | .pending => s.pendingPeers

def RegionsInfo.setFam (s : RegionsInfo) (role : Role) (m : List (Nat × Tree)) : RegionsInfo :=
  match role with
  | .leader => { s with leaders := m }
  | .follower => { s with followers := m }
  | .learner => { s with learners := m }
  | .pending => { s with pendingPeers := m }

/-- `r.leaders[storeID]` (a nil tree behaves as the empty tree in every reader) -/
def RegionsInfo.sub (s : RegionsInfo) (role : Role) (store : Nat) : Tree :=
  (mapGet (s.fam role) store).getD {}

/-- RegionsInfo.GetRegion -/
def getRegion (s : RegionsInfo) (id : Nat) : Option Region :=
  (mapGet s.regions id).map s.acc

/-- the stores whose sub-tree of family `role` receives the region, in the order of the Go loops -/
def storesFor (role : Role) (r : Region) : List Nat :=
  match role with
  | .leader => (r.voters.filter (fun p => p.id = r.leader)).map (·.store)
  | .follower => (r.voters.filter (fun p => p.id ≠ r.leader)).map (·.store)
  | .learner => r.learners.map (·.store)
  | .pending => r.pending.map (·.store)

/-- shouldRemoveFromSubTree -/
def shouldRemoveFromSubTree (region origin : Region) : Bool :=
  origin.leader ≠ region.leader ||
  !sortedPeersEqual origin.voters region.voters ||
  !sortedPeersEqual origin.learners region.learners ||
  !sortedPeersEqual origin.pending region.pending

/-- apply one function per family (the four maps are separate fields; loops over different families
    commute, so the model runs them family by family) -/
def RegionsInfo.mapFams (s : RegionsInfo) (F : Role → List (Nat × Tree) → List (Nat × Tree)) : RegionsInfo :=
  { s with leaders := F .leader s.leaders, followers := F .follower s.followers,
           learners := F .learner s.learners, pendingPeers := F .pending s.pendingPeers }

/-- `fam[store].remove(region)` for one family (a missing tree is nil: nothing happens) -/
def famRemove (acc : Acc) (m : List (Nat × Tree)) (store : Nat) (region : Region) : List (Nat × Tree) :=
  match mapGet m store with
  | some t => mapSet m store (t.remove acc region)
  | none => m

/-- removeRegionFromSubTree: for every peer of the region, remove it from the four sub-trees of the
    peer's store -/
def removeRegionFromSubTree (s : RegionsInfo) (region : Region) : RegionsInfo :=
  s.mapFams (fun _ m => (region.peers.map (·.store)).foldl (fun m st => famRemove s.acc m st region) m)

/-- RegionsInfo.RemoveRegion -/
def removeRegion (s : RegionsInfo) (region : Region) : RegionsInfo :=
  let s1 := { s with tree := s.tree.remove s.acc region }
  let s2 := { s1 with regions := mapDel s1.regions region.id }
  removeRegionFromSubTree s2 region

/-- `store.update(item)` on `fam[storeID]`, creating the tree when it is missing -/
def famUpdate (acc : Acc) (m : List (Nat × Tree)) (store : Nat) (item : Nat) : List (Nat × Tree) :=
  mapSet m store (((mapGet m store).getD {}).update acc item).1

/-- the "add to leaders / followers / learners / pendingPeers" loops of SetRegion -/
def addToSubTrees (s : RegionsInfo) (item : Nat) (region : Region) : RegionsInfo :=
  s.mapFams (fun role m => (storesFor role region).foldl (fun m st => famUpdate s.acc m st item) m)

/-- `if tree, ok := fam[store]; ok { tree.updateStat(origin, region) }` -/
def famUpdateStat (m : List (Nat × Tree)) (store : Nat) (origin region : Region) : List (Nat × Tree) :=
  match mapGet m store with
  | some t => mapSet m store (t.updateStat origin region)
  | none => m

/-- updateSubTreeStat -/
def updateSubTreeStat (s : RegionsInfo) (origin region : Region) : RegionsInfo :=
  s.mapFams (fun role m => (storesFor role region).foldl (fun m st => famUpdateStat m st origin region) m)

/-- first half of SetRegion: look the id up, detach what has to be rebuilt, store the new RegionInfo
    in the (re-used or new) item.  Returns (state, item, origin, rangeChanged, peersChanged). -/
def setRegionDetach (s : RegionsInfo) (region : Region) : RegionsInfo × Nat × Region × Bool × Bool :=
  match mapGet s.regions region.id with
  | some item =>
    let origin := s.acc item
    let rangeChanged : Bool := origin.startKey ≠ region.startKey || origin.endKey ≠ region.endKey
    let s1 := if rangeChanged then { s with tree := s.tree.remove s.acc origin } else s
    let peersChanged : Bool := if rangeChanged then true else shouldRemoveFromSubTree region origin
    let s2 := if peersChanged then removeRegionFromSubTree s1 origin else s1
    ({ s2 with heap := s2.heap.set item region }, item, origin, rangeChanged, peersChanged)
  | none =>
    let item := s.heap.length
    ({ s with heap := s.heap ++ [region], regions := mapSet s.regions region.id item },
      item, default, true, true)

/-- the loop `for _, old := range overlaps { r.RemoveRegion(r.GetRegion(old.GetID())) }` -/
def removeOverlapped (s : RegionsInfo) (overlaps : List Region) : RegionsInfo :=
  overlaps.foldl (fun s old =>
    match getRegion s old.id with
    | some g => removeRegion s g
    | none => { s with nilDeref := true }) s

/-- second part of SetRegion: the main tree (`updateStat`, or `update` + removal of what it displaced) -/
def setRegionMain (s1 : RegionsInfo) (item : Nat) (origin region : Region) (rangeChanged : Bool) :
    RegionsInfo × List Region :=
  if !rangeChanged then ({ s1 with tree := s1.tree.updateStat origin region }, [])
  else
    let r := s1.tree.update s1.acc item
    (removeOverlapped { s1 with tree := r.1 } r.2, r.2)

/-- third part of SetRegion: the sub-trees -/
def setRegionSubs (s2 : RegionsInfo) (item : Nat) (origin region : Region) (peersChanged : Bool) : RegionsInfo :=
  if !peersChanged then updateSubTreeStat s2 origin region else addToSubTrees s2 item region

/-- RegionsInfo.SetRegion -/
def setRegion (s : RegionsInfo) (region : Region) : RegionsInfo × List Region :=
  let d := setRegionDetach s region
  let m := setRegionMain d.1 d.2.1 d.2.2.1 region d.2.2.2.1
  (setRegionSubs m.1 d.2.1 d.2.2.1 region d.2.2.2.2, m.2)

/-! ### RegionsInfo queries -/

/-- `r.GetRegion(region.GetID())` for a tree item (nil when the id is not in the map) -/
def regionOfItem (s : RegionsInfo) (a : Nat) : Option Region := getRegion s (s.acc a).id

/-- SearchRegion -/
def searchRegion (s : RegionsInfo) (k : Key) : Option Region :=
  match find s.acc s.tree.items k with
  | none => none
  | some a => getRegion s (s.acc a).id

/-- SearchPrevRegion -/
def searchPrevRegion (s : RegionsInfo) (k : Key) : Option Region :=
  match searchPrevOf s.acc s.tree.items k with
  | none => none
  | some a => getRegion s (s.acc a).id

/-- the `limit` handling of ScanRange (limit ≤ 0: no limit) -/
def takeLimit {β : Type} (limit : Int) (l : List β) : List β :=
  if limit > 0 then l.take limit.toNat else l

/-- ScanRange -/
def scanRange (s : RegionsInfo) (startKey endKey : Key) (limit : Int) : List (Option Region) :=
  let visited := (scanFrom s.acc s.tree.items startKey).takeWhile
    (fun a => ¬ (endKey ≠ [] ∧ endKey ≤ (s.acc a).startKey))
  takeLimit limit (visited.map (regionOfItem s))

/-- GetOverlaps -/
def getOverlaps (s : RegionsInfo) (region : Region) : List Region :=
  (overlapsOf s.acc s.tree.items region).map s.acc

/-- GetAdjacentRegions -/
def getAdjacentRegions (s : RegionsInfo) (region : Region) : Option Region × Option Region :=
  let (p, n) := adjacentOf s.acc s.tree.items region.startKey
  let prev := match p with
    | some a => if (s.acc a).endKey = region.startKey then getRegion s (s.acc a).id else none
    | none => none
  let next := match n with
    | some a => if region.endKey = (s.acc a).startKey then getRegion s (s.acc a).id else none
    | none => none
  (prev, next)

/-- Len / GetRegionCount -/
def regionCount (s : RegionsInfo) : Nat := s.regions.length
/-- TreeLen -/
def treeLen (s : RegionsInfo) : Nat := s.tree.length

/-- GetStoreLeaderCount / …FollowerCount / …LearnerCount / GetStorePendingPeerCount -/
def storeCount (s : RegionsInfo) (role : Role) (store : Nat) : Nat := (s.sub role store).length
/-- GetStoreLeaderRegionSize / …Follower… / …Learner… (and the pending tree's TotalSize) -/
def storeSize (s : RegionsInfo) (role : Role) (store : Nat) : Int := (s.sub role store).total
/-- GetStoreRegionCount -/
def storeRegionCount (s : RegionsInfo) (store : Nat) : Nat :=
  storeCount s .leader store + storeCount s .follower store + storeCount s .learner store
/-- GetStoreRegionSize -/
def storeRegionSize (s : RegionsInfo) (store : Nat) : Int :=
  storeSize s .leader store + storeSize s .follower store + storeSize s .learner store
/-- regionTree.TotalSize of the main tree -/
def totalSize (s : RegionsInfo) : Int := s.tree.total
/-- GetAverageRegionSize -/
def averageRegionSize (s : RegionsInfo) : Int :=
  if s.tree.length = 0 then 0 else Int.tdiv s.tree.total (s.tree.length : Int)

/-- GetStoreRegions: leaders, then followers, then learners, each in key order -/
def storeRegions (s : RegionsInfo) (store : Nat) : List Region :=
  ((s.sub .leader store).items ++ (s.sub .follower store).items ++ (s.sub .learner store).items).map s.acc

/-- the regions a `Rand<Role>Region(store, ranges)` call can return -/
def randRegionCands (s : RegionsInfo) (role : Role) (store : Nat) (ranges : List (Key × Key)) : List Region :=
  (randCands s.acc (s.sub role store).items ranges).map s.acc

def randRegionNilPossible (s : RegionsInfo) (role : Role) (store : Nat) (ranges : List (Key × Key)) : Bool :=
  randNilPossible s.acc (s.sub role store).items ranges

/-- the precondition of the ordered-set abstraction: every tree is strictly ascending in the start keys
    read through its items (what `pkg/btree` needs from `Less`) -/
def strictAsc (acc : Acc) : List Nat → Bool
  | [] => true
  | [_] => true
  | a :: b :: rest => decide ((acc a).startKey < (acc b).startKey) && strictAsc acc (b :: rest)

def treesOrdered (s : RegionsInfo) : Bool :=
  strictAsc s.acc s.tree.items &&
  Role.all.all (fun role => (s.fam role).all (fun e => strictAsc s.acc e.2.items))

end PdModel.RegionTree
