/-
Zero-padded decimal keys (`fmt.Sprintf("%020d", id)` in storePath / regionPath) and their byte order.
Core Lean only.  The order lemma lives here because the compiled driver uses it (`@[csimp]`) to compare
keys of ids below 10^20 by comparing the ids.
-/
namespace PdModel.PadKey

/-- the `w` decimal digits of `n < 10^w`, most significant first (`%0wd`) -/
def digits : Nat → Nat → List Nat
  | 0, _ => []
  | w + 1, n => (n / 10 ^ w) % 10 :: digits w (n % 10 ^ w)

/-- `%020d` -/
def padKey (id : Nat) : List Nat := digits 20 id

/-- byte-wise (lexicographic) `<` -/
def keyLt : List Nat → List Nat → Bool
  | [], [] => false
  | [], _ :: _ => true
  | _ :: _, [] => false
  | a :: as, b :: bs => a < b || (a == b && keyLt as bs)

theorem digits_length (w n : Nat) : (digits w n).length = w := by
  induction w generalizing n with
  | zero => rfl
  | succ w ih => simp [digits, ih]

/-- **zero-padded key order = id order** (any width) -/
theorem keyLt_digits (w : Nat) : ∀ a b : Nat, a < 10 ^ w → b < 10 ^ w →
    keyLt (digits w a) (digits w b) = decide (a < b) := by
  induction w with
  | zero =>
    intro a b ha hb
    have : a = 0 := by simpa using ha
    have : b = 0 := by simpa using hb
    subst_vars; rfl
  | succ w ih =>
    intro a b ha hb
    have hp : 0 < 10 ^ w := Nat.pow_pos (by decide)
    have hpw : 10 ^ (w + 1) = 10 ^ w * 10 := Nat.pow_succ 10 w
    have hda : a / 10 ^ w < 10 := Nat.div_lt_of_lt_mul (by rw [← hpw]; exact ha)
    have hdb : b / 10 ^ w < 10 := Nat.div_lt_of_lt_mul (by rw [← hpw]; exact hb)
    have hra : a % 10 ^ w < 10 ^ w := Nat.mod_lt _ hp
    have hrb : b % 10 ^ w < 10 ^ w := Nat.mod_lt _ hp
    have ea : 10 ^ w * (a / 10 ^ w) + a % 10 ^ w = a := Nat.div_add_mod a (10 ^ w)
    have eb : 10 ^ w * (b / 10 ^ w) + b % 10 ^ w = b := Nat.div_add_mod b (10 ^ w)
    simp only [digits, keyLt, Nat.mod_eq_of_lt hda, Nat.mod_eq_of_lt hdb, ih _ _ hra hrb]
    generalize a / 10 ^ w = da at *
    generalize b / 10 ^ w = db at *
    generalize a % 10 ^ w = ra at *
    generalize b % 10 ^ w = rb at *
    generalize 10 ^ w = p at *
    rcases Nat.lt_trichotomy da db with h | h | h
    · have h1 : p * (da + 1) ≤ p * db := Nat.mul_le_mul_left p h
      rw [Nat.mul_succ] at h1
      have : a < b := by omega
      simp [h, this]
    · subst h
      have hne : ¬ da < da := Nat.lt_irrefl _
      have : (a < b) = (ra < rb) := by
        apply propext; constructor <;> intro <;> omega
      simp [this]
    · have h1 : p * (db + 1) ≤ p * da := Nat.mul_le_mul_left p h
      rw [Nat.mul_succ] at h1
      have h2 : ¬ a < b := by omega
      have h3 : ¬ da < db := by omega
      have h4 : (da == db) = false := by simp; omega
      simp [h2, h3, h4]

/-- key comparison of two ids -/
def keyLtId (a b : Nat) : Bool := keyLt (padKey a) (padKey b)

/-- **zero-padded key order = id order** for 20 digits: every uint64 id is below 10^20 -/
theorem keyLtId_eq (a b : Nat) (ha : a < 10 ^ 20) (hb : b < 10 ^ 20) : keyLtId a b = decide (a < b) :=
  keyLt_digits 20 a b ha hb

/-- what the compiled driver runs -/
def keyLtIdFast (a b : Nat) : Bool :=
  if a < 10 ^ 20 ∧ b < 10 ^ 20 then decide (a < b) else keyLt (padKey a) (padKey b)

@[csimp] theorem keyLtId_eq_fast : @keyLtId = @keyLtIdFast := by
  funext a b
  unfold keyLtIdFast
  split
  · next h => exact keyLtId_eq a b h.1 h.2
  · rfl

theorem uint64_lt_pow20 (a : Nat) (h : a ≤ 18446744073709551615) : a < 10 ^ 20 := by
  have : (18446744073709551615 : Nat) < 10 ^ 20 := by decide
  omega

end PdModel.PadKey
