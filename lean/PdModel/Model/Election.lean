import PdModel.Spec.C03
/-
Model of the election / lease / guarded-write layer of pd (property C03).  Core Lean only.

  server/election/leadership.go   Campaign, Keep, Check, LeaderTxn, DeleteLeaderKey, Reset
  server/election/lease.go        Grant, Close, IsExpired, KeepAlive (first tick of a KeepAlive call)
  server/member/member.go         IsLeader, EnableLeader, unsetLeader, ResetLeader, CheckLeader/WatchLeader,
                                  SetMemberLeaderPriority, DeleteMemberLeaderPriority, DeleteMemberDCLocationInfo
  server/tso/tso.go               saveTimestamp (through SyncTimestamp), the `Check` guards of GenerateTSO / getTS
  server/id/id.go                 rebaseLocked (comparison with the leader record)
  server/encryptionkm             rotateKeyIfNeeded (Check guard) + saveKeys (LeaderTxn)
  server/server.go                campaignLeader's step-down (ResetLeader ; ResetAllocatorGroup)

etcd is a map key ↦ (value, lease) with a set of live leases and atomic transactions
`If cmps Then ops Else ops`; comparing `Value` on a missing key fails; a put with a lease that is
not live makes the whole transaction fail with an error (nothing is applied).  This etcd model
is itself validated against the embedded etcd by the harness (`rawtxn`, `rawgrant`, `expire`).

One step = one call of the Go function named above, which contains at most one etcd transaction
(plus the lease Grant / Revoke requests of that call).  `gcampaign` / `finish` split Campaign
between its Grant and its transaction so that other contenders can be interleaved there.
Clock readings (`clock`), fault flags and the success of the Revoke request inside `lease.Close`
are inputs of the ops.
-/
namespace PdModel.Election
open PdModel.Spec

/-! ## etcd -/

inductive Key where
  | leader (l : Nat)          -- <root_l>/leader
  | next (l : Nat)            -- <root_l>/next-leader (extra comparison of allocator campaigns)
  | ts (l : Nat)              -- <root_l>/timestamp            (time window)
  | allocId (l : Nat)         -- <root_l>/alloc_id             (id window)
  | prio (l m : Nat)          -- <root_l>/member/<m>/leader_priority
  | dcloc (l m : Nat)         -- <root_l>/dc-location/<m>
  | enc                       -- encryption_keys
  | scratch (n : Nat)
  deriving DecidableEq, Repr, Inhabited

structure Entry where
  val   : Nat
  lease : Nat := 0            -- 0 = not attached to a lease
  deriving DecidableEq, Repr, Inhabited

inductive Cmp where
  | absent (k : Key)              -- Compare(CreateRevision(k), "=", 0)
  | valueEq (k : Key) (v : Nat)   -- Compare(Value(k), "=", v)
  deriving DecidableEq, Repr

inductive EOp where
  | put (k : Key) (v : Nat) (lease : Nat)
  | del (k : Key)
  deriving DecidableEq, Repr

structure Etcd where
  kv      : Key → Option Entry := fun _ => none
  live    : Nat → Bool := fun _ => false
  /-- number of leases granted so far; lease ids are 1 … granted in grant order -/
  granted : Nat := 0

inductive TxnRes where
  | succeeded | failed | error
  deriving DecidableEq, Repr

def Etcd.holds (e : Etcd) : Cmp → Bool
  | .absent k => (e.kv k).isNone
  | .valueEq k v =>
    match e.kv k with
    | some x => x.val == v
    | none => false            -- comparing the value of a missing key fails

def Etcd.apply1 (e : Etcd) : EOp → Etcd
  | .put k v l => { e with kv := fun k' => if k' = k then some ⟨v, l⟩ else e.kv k' }
  | .del k => { e with kv := fun k' => if k' = k then none else e.kv k' }

/-- a put must name no lease or a live one -/
def Etcd.opOk (e : Etcd) : EOp → Bool
  | .put _ _ l => l == 0 || e.live l
  | .del _ => true

def Etcd.txn (e : Etcd) (cmps : List Cmp) (thn els : List EOp) : Etcd × TxnRes :=
  let ok := cmps.all e.holds
  let ops := if ok then thn else els
  if ops.all e.opOk then (ops.foldl Etcd.apply1 e, if ok then .succeeded else .failed)
  else (e, .error)

def Etcd.grant (e : Etcd) : Etcd × Nat :=
  let id := e.granted + 1
  ({ e with granted := id, live := fun j => j == id || e.live j }, id)

/-- lease revocation or expiry: the lease dies and every key attached to it is deleted -/
def Etcd.revoke (e : Etcd) (id : Nat) : Etcd :=
  if id != 0 && e.live id then
    { e with
      live := fun j => j != id && e.live j
      kv := fun k => match e.kv k with
        | some x => if x.lease == id then none else some x
        | none => none }
  else e

/-! ## contenders -/

/-- `lease.expireTime` -/
inductive Expire where
  | unset            -- never stored (Grant failed): `IsExpired` answers false
  | closed           -- `Close` stored the zero time: always expired
  | at (t : Nat)
  deriving DecidableEq, Repr

structure Lease where
  id     : Nat := 0        -- 0 = Grant did not succeed
  ttl    : Nat := 0
  expire : Expire := .unset
  deriving DecidableEq, Repr

/-- one `Member` (with its `Leadership`, TSO allocator memory flag and leader cache) contending for
    leadership `key` -/
structure Cont where
  key     : Nat
  member  : Nat
  /-- `Leadership.leaderValue`, 0 = "" (before the first Campaign) -/
  value   : Nat := 0
  lease   : Option Lease := none
  /-- last local clock reading -/
  clock   : Nat := 0
  /-- `Member.leader` cache (member id, 0 = unset) -/
  cache   : Nat := 0
  /-- TSO memory is initialised (`timestampOracle` physical ≠ zero) -/
  tsoInit : Bool := false
  /-- position of the leader loop: Campaign returned nil and no Reset since -/
  won     : Bool := false
  /-- Campaign parked between Grant and its transaction, with its extra comparisons -/
  pending : Option (List Cmp) := none
  /-- a `WatchLeader` call is blocked in `Leadership.Watch` on the record it found -/
  watching : Bool := false
  /-- a `Reset` / `ResetLeader` call of this contender is inside `lease.Close`, parked around its Revoke request
      (the local view is already "expired"): `some (pre, leader)` – `pre`: the request has not reached etcd yet;
      `leader`: the call is `Member.ResetLeader`, which unsets the leader cache after `Reset` returns -/
  closing : Option (Bool × Bool) := none
  /-- in-memory id window `(idBase, idEnd]` of the member's id allocator (`allocatorImpl.base/end`) -/
  idBase  : Nat := 0
  idEnd   : Nat := 0
  deriving Repr

def Expire.expiredAt (x : Expire) (now : Nat) : Bool :=
  match x with
  | .unset => false
  | .closed => true
  | .at t => decide (now > t)      -- time.Now().After(expireTime)

/-- `Leadership.Check` -/
def Cont.check (c : Cont) : Bool :=
  match c.lease with
  | none => false
  | some l => !(l.expire.expiredAt c.clock)

/-- `Member.IsLeader` -/
def Cont.isLeader (c : Cont) : Bool := c.check && c.cache == c.member

/-- a timestamp request is granted (GenerateTSO / getTS: Check before and after, memory initialised) -/
def Cont.tsoServes (c : Cont) : Bool := c.check && c.tsoInit

structure St where
  etcd  : Etcd := {}
  conts : List Cont := []
  /-- number of opaque values written so far (time windows, encryption keys) -/
  stamp : Nat := 0

/-- what one call of one contender can touch: the store, the opaque-value counter and the
    contender's own volatile state -/
structure Loc where
  etcd  : Etcd
  stamp : Nat
  c     : Cont

inductive Fault where
  | none | errBefore | errAfter
  deriving Repr, DecidableEq, Inhabited

inductive Out where
  | ok | conflict | err | grantErr | parked | bad | noop
  | bool (b : Bool) | served | refused
  | leaderIs (m : Nat) | noLeader | deleted
  | lease (id : Nat)
  | gotId (n : Nat)
  deriving Repr, DecidableEq

def Out.toString : Out → String
  | .ok => "ok" | .conflict => "conflict" | .err => "err" | .grantErr => "grant-err"
  | .parked => "parked" | .bad => "bad-op" | .noop => "noop"
  | .bool b => if b then "true" else "false"
  | .served => "served" | .refused => "refused"
  | .leaderIs m => s!"leader {m}" | .noLeader => "no-leader" | .deleted => "deleted"
  | .lease id => s!"lease {id}"
  | .gotId n => s!"ok {n}"

def maxLeaseTTL : Nat := 9000000000

/-- `lease.Close`: the local view becomes "expired"; the Revoke request may or may not get through -/
def closeLease (x : Loc) (rv : Bool) : Loc :=
  match x.c.lease with
  | none => x
  | some l =>
    { x with
      c := { x.c with lease := some { l with expire := .closed } }
      etcd := if rv then x.etcd.revoke l.id else x.etcd }

/-- an etcd transaction with an empty Else branch, under a fault flag -/
def runTxn (e : Etcd) (cmps : List Cmp) (thn : List EOp) (f : Fault) : Etcd × Out :=
  match f with
  | .errBefore => (e, .err)
  | .errAfter => ((e.txn cmps thn []).1, .err)
  | .none =>
    match e.txn cmps thn [] with
    | (e1, .succeeded) => (e1, .ok)
    | (e1, .failed) => (e1, .conflict)
    | (e1, .error) => (e1, .err)

/-- first half of `Campaign`: remember the value, make a new lease object, `Grant` -/
def grantStep (x : Loc) (ttl : Nat) (extra : List Cmp) : Loc × Out :=
  let c0 := { x.c with value := x.c.member, won := false }
  if ttl > maxLeaseTTL then
    ({ x with c := { c0 with lease := some {}, pending := none } }, .grantErr)
  else
    let (e1, id) := x.etcd.grant
    ({ x with etcd := e1
              c := { c0 with lease := some { id := id, ttl := ttl, expire := .at (x.c.clock + ttl) },
                             pending := some extra } }, .parked)

/-- the comparisons of the Campaign transaction -/
def campaignCmps (c : Cont) (extra : List Cmp) : List Cmp := extra ++ [.absent (.leader c.key)]

/-- second half of `Campaign`: the transaction; on any failure the lease is closed -/
def campaignTxn (x : Loc) (l : Lease) (extra : List Cmp) (f : Fault) (rv : Bool) : Loc × Out :=
  let c0 := { x.c with pending := none }
  let (e1, o) := runTxn x.etcd (campaignCmps x.c extra) [.put (.leader x.c.key) x.c.value l.id] f
  match o with
  | .ok => ({ x with etcd := e1, c := { c0 with won := true } }, .ok)
  | o => (closeLease { x with etcd := e1, c := c0 } rv, o)

def finishStep (x : Loc) (f : Fault) (rv : Bool) : Loc × Out :=
  match x.c.pending, x.c.lease with
  | some extra, some l => campaignTxn x l extra f rv
  | _, _ => (x, .bad)

/-- `Leadership.LeaderTxn` comparison -/
def leaderCmp (c : Cont) : Cmp := .valueEq (.leader c.key) c.value

/-- the leader-guarded writes -/
inductive WKind where
  | prioPut (m v : Nat)   -- Member.SetMemberLeaderPriority
  | prioDel (m : Nat)     -- Member.DeleteMemberLeaderPriority
  | dcDel (m : Nat)       -- Member.DeleteMemberDCLocationInfo
  | tsSync                -- timestampOracle.SyncTimestamp → saveTimestamp (on success the TSO memory is set)
  | idRebase              -- id allocator Rebase (window += allocStep)
  | encRotate             -- KeyManager.SetLeadership → rotateKeyIfNeeded(true) → saveKeys
  deriving Repr, DecidableEq

def allocStep : Nat := 1000

/-- comparisons and operation of a guarded write -/
def writeTxn (x : Loc) : WKind → List Cmp × List EOp
  | .prioPut m v => ([leaderCmp x.c], [.put (.prio x.c.key m) v 0])
  | .prioDel m => ([leaderCmp x.c], [.del (.prio x.c.key m)])
  | .dcDel m => ([leaderCmp x.c], [.del (.dcloc x.c.key m)])
  | .tsSync => ([leaderCmp x.c], [.put (.ts x.c.key) (x.stamp + 1) 0])
  | .encRotate => ([leaderCmp x.c], [.put .enc (x.stamp + 1) 0])
  | .idRebase =>
    let k := Key.allocId x.c.key
    -- the id allocator compares with the member value it was constructed with
    match x.etcd.kv k with
    | none => ([.absent k, .valueEq (.leader x.c.key) x.c.member], [.put k allocStep 0])
    | some y => ([.valueEq k y.val, .valueEq (.leader x.c.key) x.c.member], [.put k (y.val + allocStep) 0])

def WKind.opaque : WKind → Bool
  | .tsSync | .encRotate => true
  | _ => false

def writeStep (x : Loc) (w : WKind) (f : Fault) : Loc × Out :=
  if w = .encRotate && !x.c.check then (x, .noop)     -- rotateKeyIfNeeded: "we are not leader"
  else
    let (cmps, thn) := writeTxn x w
    let applied := f != .errBefore && cmps.all x.etcd.holds
    let (e1, o) := runTxn x.etcd cmps thn f
    let x1 := { x with etcd := e1, stamp := if w.opaque && applied then x.stamp + 1 else x.stamp }
    if w = .tsSync && o = .ok then ({ x1 with c := { x.c with tsoInit := true } }, o) else (x1, o)

/-- `Leadership.Reset` -/
def resetStep (x : Loc) (rv : Bool) : Loc :=
  closeLease { x with c := { x.c with won := false } } rv

/-- the ops of one contender -/
inductive LOp where
  | clock (t : Nat)
  | campaign (ttl : Nat) (extra : List Cmp) (f : Fault) (rv : Bool)
  | gcampaign (ttl : Nat) (extra : List Cmp)
  | finish (f : Fault) (rv : Bool)
  | keep
  | resetl (rv : Bool)
  | gresetl (pre leader : Bool)
  | rfinish (rv : Bool)
  | delkey (f : Fault) (rv : Bool)
  | write (w : WKind) (f : Fault)
  | idalloc (f : Fault)
  | check
  | isleader
  | tso
  | enable
  | unset
  | observe
  | unwatch
  | tsoreset
  | stepdown (rv : Bool)
  | crash
  deriving Repr

inductive Op where
  | new (key member : Nat)
  | expire (id : Nat)
  | rawgrant
  | rawtxn (cmps : List Cmp) (thn els : List EOp)
  | on (i : Nat) (a : LOp)
  deriving Repr

/-- one call of one contender -/
def loc (x : Loc) : LOp → Loc × Out
  | .clock t => ({ x with c := { x.c with clock := t } }, .ok)
  | .campaign ttl extra f rv =>
    if x.c.pending.isSome || x.c.closing.isSome then (x, .bad) else
    match grantStep x ttl extra with
    | (x1, .parked) => finishStep x1 f rv
    | r => r
  | .gcampaign ttl extra =>
    if x.c.pending.isSome || x.c.closing.isSome then (x, .bad) else grantStep x ttl extra
  | .finish f rv => finishStep x f rv
  | .keep =>
    -- one KeepAlive call delivering its first tick: KeepAliveOnce succeeds iff the lease is live,
    -- and the first tick of a call is always stored (`maxExpire` starts at the zero time)
    match x.c.lease with
    | none => (x, .bad)
    | some l =>
      -- (Keep on a lease whose Grant failed panics in the Go code: leaseTimeout is 0)
      if x.c.pending.isSome || l.id == 0 then (x, .bad)
      else if x.etcd.live l.id then
        ({ x with c := { x.c with lease := some { l with expire := .at (x.c.clock + l.ttl) } } }, .ok)
      else (x, .ok)
  | .resetl rv => if x.c.pending.isSome then (x, .bad) else (resetStep x rv, .ok)
  | .gresetl pre leader =>
    -- `Reset` (leader = false) or `ResetLeader` (leader = true) running concurrently with the contender's other
    -- calls, parked inside `lease.Close` around the Revoke request: `Close` has stored the zero time first;
    -- the request has (pre = false) or has not yet (pre = true) been applied by etcd
    if x.c.pending.isSome || x.c.closing.isSome then (x, .bad) else
    match x.c.lease with
    | none => ({ x with c := { x.c with won := false, cache := if leader then 0 else x.c.cache } }, .ok)
    | some l =>
      ({ x with
         c := { x.c with won := false, lease := some { l with expire := .closed }, closing := some (pre, leader) }
         etcd := if pre then x.etcd else x.etcd.revoke l.id }, .parked)
  | .rfinish rv =>
    -- the parked Revoke request of `gresetl` goes out (or is lost) / its answer arrives; `Close` returns
    match x.c.closing with
    | none => (x, .bad)
    | some (pre, leader) =>
      ({ x with
         c := { x.c with closing := none, cache := if leader then 0 else x.c.cache }
         etcd := if pre && rv then x.etcd.revoke (match x.c.lease with | some l => l.id | none => 0) else x.etcd },
       .ok)
  | .delkey f rv =>
    if x.c.pending.isSome then (x, .bad) else
    let (e1, o) := runTxn x.etcd [] [.del (.leader x.c.key)] f
    match o with
    | .ok => (resetStep { x with etcd := e1 } rv, .ok)
    | o => ({ x with etcd := e1 }, o)
  | .write w f => if x.c.pending.isSome then (x, .bad) else writeStep x w f
  | .idalloc f =>
    -- `allocatorImpl.Alloc`: when the in-memory window is used up, extend the stored window by the guarded
    -- transaction first (the memory is published only after it succeeded); then hand out the next id
    if x.c.pending.isSome then (x, .bad) else
    if x.c.idBase == x.c.idEnd then
      match writeStep x .idRebase f with
      | (x1, .ok) =>
        let e := match x1.etcd.kv (.allocId x.c.key) with | some y => y.val | none => 0
        ({ x1 with c := { x1.c with idBase := e - allocStep + 1, idEnd := e } }, .gotId (e - allocStep + 1))
      | r => r
    else ({ x with c := { x.c with idBase := x.c.idBase + 1 } }, .gotId (x.c.idBase + 1))
  | .check => (x, .bool x.c.check)
  | .isleader => (x, .bool x.c.isLeader)
  | .tso => (x, if x.c.tsoServes then .served else .refused)
  | .enable => ({ x with c := { x.c with cache := x.c.member } }, .ok)
  | .unset => ({ x with c := { x.c with cache := 0 } }, .ok)
  | .observe =>
    -- Member.CheckLeader followed by WatchLeader (setLeader, then blocked in Watch)
    if x.c.pending.isSome || x.c.watching then (x, .bad) else
    match x.etcd.kv (.leader x.c.key) with
    | none => (x, .noLeader)
    | some y =>
      if y.val = x.c.member then
        -- "we are already a PD leader": delete the record and reset
        (resetStep { x with etcd := x.etcd.apply1 (.del (.leader x.c.key)) } true, .deleted)
      else ({ x with c := { x.c with cache := y.val, watching := true } }, .leaderIs y.val)
  | .unwatch =>
    -- the context of WatchLeader is cancelled: Watch returns, unsetLeader
    if x.c.watching then ({ x with c := { x.c with cache := 0, watching := false } }, .ok) else (x, .bad)
  | .tsoreset => ({ x with c := { x.c with tsoInit := false } }, .ok)
  | .stepdown rv =>
    -- deferred calls of campaignLeader: ResetLeader (Reset ; unsetLeader), ResetAllocatorGroup
    -- (allocator.Reset ; leadership.Reset)
    if x.c.pending.isSome then (x, .bad) else
    (resetStep (resetStep { x with c := { x.c with cache := 0, tsoInit := false } } rv) rv, .ok)
  | .crash =>
    if x.c.pending.isSome then (x, .bad) else
    ({ x with c := { key := x.c.key, member := x.c.member, clock := x.c.clock } }, .ok)

def step0 (s : St) : Op → St × Out
  | .new key member => ({ s with conts := s.conts ++ [{ key := key, member := member }] }, .ok)
  | .expire id => ({ s with etcd := s.etcd.revoke id }, .ok)
  | .rawgrant => let (e1, id) := s.etcd.grant; ({ s with etcd := e1 }, .lease id)
  | .rawtxn cmps thn els =>
    match s.etcd.txn cmps thn els with
    | (e1, .succeeded) => ({ s with etcd := e1 }, .ok)
    | (e1, .failed) => ({ s with etcd := e1 }, .conflict)
    | (e1, .error) => ({ s with etcd := e1 }, .err)
  | .on i a =>
    match s.conts[i]? with
    | none => (s, .bad)
    | some c =>
      let r := loc ⟨s.etcd, s.stamp, c⟩ a
      ({ etcd := r.1.etcd, stamp := r.1.stamp, conts := s.conts.set i r.1.c }, r.2)

/-- `Watch` delivery: a contender blocked in `Leadership.Watch` returns when its leadership's record
    is deleted (explicitly or with its lease) and then unsets its leader cache (`WatchLeader`) -/
def fireWatchers (before : Etcd) (s : St) : St :=
  { s with conts := s.conts.map fun c =>
      if c.watching && (before.kv (.leader c.key)).isSome && (s.etcd.kv (.leader c.key)).isNone
      then { c with cache := 0, watching := false } else c }

def step (s : St) (op : Op) : St × Out :=
  let r := step0 s op
  (fireWatchers s.etcd r.1, r.2)

def init : St := {}

/-! ## what can be observed of a state (the vocabulary of `Spec.C03`) -/

def viewOf (c : Cont) : C03.View :=
  { key := c.key, member := c.member, value := c.value,
    lease := match c.lease with | some l => l.id | none => 0,
    check := c.check, cacheSelf := c.cache == c.member, tsoInit := c.tsoInit,
    won := c.won, clock := c.clock }

def dedup : List Nat → List Nat
  | [] => []
  | a :: l => a :: (dedup l).filter (· != a)

def snapOf (s : St) : C03.Snap :=
  { recs := (dedup (s.conts.map (·.key))).filterMap fun l =>
      (s.etcd.kv (.leader l)).map fun e => (l, ⟨e.val, e.lease⟩)
    live := (List.range (s.etcd.granted + 1)).filter s.etcd.live
    views := s.conts.map viewOf }

def EOp.key : EOp → Key
  | .put k _ _ => k
  | .del k => k

def Key.isLeader : Key → Bool
  | .leader _ => true
  | _ => false

/-- which environment / leader-loop action an op is (see `Spec.C03.Act`) -/
def actOf : Op → C03.Act
  | .new k m => .join k m
  | .expire id => .lose id
  | .rawtxn _ thn els => .foreign ((thn ++ els).any fun o => o.key.isLeader)
  | .rawgrant => .other
  | .on i a =>
    match a with
    | .clock t => .tick i t
    | .campaign _ _ _ _ => .campaign i
    | .gcampaign _ _ => .campaign i
    | .keep => .inTerm i
    | .enable => .inTerm i
    | .write .tsSync _ => .inTerm i
    | .delkey _ _ => .deleteOwn i
    | .observe => .outOfTerm i
    | _ => .other

/-- the op respects the environment assumptions in state `s` -/
def faithful (s : St) (op : Op) : Bool := (actOf op).ok (snapOf s)

def run (s : St) (ops : List Op) : St := ops.foldl (fun s o => (step s o).1) s

end PdModel.Election
