import PdModel.Spec.C10
import PdModel.Generated.Checkers
/-!
Model of server/schedule/filter/filters.go: every filter's `Source` / `Target` as a predicate on a
store record.  `StoreStateFilter` is built from the condition table extracted from the source
(`Generated.Checkers.condTable`, rows = leaderSource, regionSource, leaderTarget, regionTarget,
scatterRegionTarget; entries = condition codes, see `condHolds`).  Core Lean only.

Time: `DownTime()` is `downSecs` whole seconds plus a positive fraction, so
`DownTime() > d` ⇔ `d ≤ downSecs` and `DownTime() < d` ⇔ `downSecs < d` for whole-second `d`.
Scores that are floats in Go (region score, leader score) are not modelled: a pick by score is an
arbitrary choice among the survivors (the selection functions return all possible picks).
-/
namespace PdModel.Filters
open PdModel.Spec.C10

/-- scheduling options: the observable configuration plus the knobs only the filters see -/
structure Opts where
  conf                : Conf := {}
  maxSnap             : Nat := 3
  maxPending          : Nat := 16
  /-- label property `reject-leader` -/
  rejectLeader        : List (String × String) := []
  removeDown          : Bool := true
  replaceOffline      : Bool := true
  removeExtra         : Bool := true
  locationReplacement : Bool := true
  deriving Repr, Inhabited

/-- `filter.StoreStateFilter` -/
structure SSF where
  transferLeader : Bool := false
  moveRegion     : Bool := false
  scatterRegion  : Bool := false
  allowTemp      : Bool := false
  deriving Repr, DecidableEq, Inhabited

/-- the condition functions of `StoreStateFilter`, by code:
    0 isTombstone, 1 isDown, 2 isOffline, 3 pauseLeaderTransfer, 4 isDisconnected, 5 isBusy,
    6 exceedRemoveLimit, 7 exceedAddLimit, 8 tooManySnapshots, 9 tooManyPendingPeers,
    10 hasRejectLeaderProperty; an unknown code never matches (so a table naming an unknown
    condition cannot make a safety theorem pass) -/
def condHolds (c : Nat) (f : SSF) (o : Opts) (s : Store) : Bool :=
  match c with
  | 0 => decide (2 ≤ s.state)
  | 1 => decide (o.conf.maxDownSecs ≤ s.downSecs)
  | 2 => s.state == 1
  | 3 => s.pauseLeader
  | 4 => !f.allowTemp && decide (o.conf.disconnectSecs ≤ s.downSecs)
  | 5 => !f.allowTemp && s.busy
  | 6 => !f.allowTemp && !s.rmAvail
  | 7 => !f.allowTemp && !s.addAvail
  | 8 => !f.allowTemp && (decide (o.maxSnap < s.sendSnap) || decide (o.maxSnap < s.recvSnap))
  | 9 => !f.allowTemp && decide (0 < o.maxPending) && decide (o.maxPending < s.pending)
  | 10 => s.labels.any (fun kv => o.rejectLeader.contains kv)
  | _ => false

/-- `anyConditionMatch(typ, …)` over the extracted table -/
def anyCond (typ : Nat) (f : SSF) (o : Opts) (s : Store) : Bool :=
  ((PdModel.Generated.Checkers.condTable[typ]?).getD []).any (fun c => condHolds c f o s)

def SSF.source (f : SSF) (o : Opts) (s : Store) : Bool :=
  !(f.transferLeader && anyCond 0 f o s) && !(f.moveRegion && anyCond 1 f o s)

def SSF.target (f : SSF) (o : Opts) (s : Store) : Bool :=
  !(f.transferLeader && anyCond 2 f o s) &&
  !(f.moveRegion && f.scatterRegion && anyCond 4 f o s) &&
  !(f.moveRegion && !f.scatterRegion && anyCond 3 f o s)

/-- `excludedFilter.Target` -/
def excludedTarget (ids : List Nat) (s : Store) : Bool := !(ids.contains s.id)

/-- `storageThresholdFilter.Target` -/
def storageTarget (o : Opts) (s : Store) : Bool := !(s.lowSpace o.conf)

def allSpecialUses : List String := ["hotRegion", "reserved"]

/-- the `specialUse in (all uses − allowed)` constraint of `NewSpecialUseFilter(allow…)` -/
def specialUseConstraint (allow : List String) : Constraint :=
  { key := "specialUse", op := 0, values := allSpecialUses.filter (fun v => !(allow.contains v)) }

def specialUseTarget (allow : List String) (s : Store) : Bool := !((specialUseConstraint allow).matches s)

def specialUseSource (allow : List String) (o : Opts) (s : Store) : Bool :=
  s.lowSpace o.conf || !((specialUseConstraint allow).matches s)

/-- `NewOrdinaryEngineFilter`: engine notIn [tiflash] -/
def ordinaryEngine (s : Store) : Bool := ({ key := "engine", op := 1, values := ["tiflash"] } : Constraint).matches s

/-- `NewEngineFilter(e)`: engine in [e] -/
def engineIs (e : String) (s : Store) : Bool := ({ key := "engine", op := 0, values := [e] } : Constraint).matches s

/-- `NewIsolationFilter`: index of the level among the labels, 0 when it is not one of them -/
def isolationIdx (labels : List String) (level : String) : Nat :=
  let i := labels.findIdx (· == level)
  if i < labels.length then i else 0

/-- `isolationFilter.Target` -/
def isolationTarget (labels : List String) (level : String) (co : List Store) (s : Store) : Bool :=
  co.all (fun c => !(sameUpTo labels (isolationIdx labels level) c s))

/-- `distinctScoreFilter.Target`; `improve = false`: safeguard (≥), `true`: improver (>) -/
def distinctTarget (improve : Bool) (labels : List String) (stores : List Store) (source : Store) (s : Store) : Bool :=
  let others := stores.filter (fun c => c.id != source.id)
  let safe := distinctScore labels others source
  let sc := distinctScore labels others s
  if improve then decide (safe < sc) else decide (safe ≤ sc)

/-- `labelConstraintFilter.Target` / `Source` -/
def constraintTarget (cs : List Constraint) (s : Store) : Bool := matchConstraints cs s

end PdModel.Filters
