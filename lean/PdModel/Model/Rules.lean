import PdModel.Spec.C13
/-
Model of server/schedule/placement/{rule.go, rule_list.go, config.go, rule_manager.go} and of the
rule / rule-group part of server/core/storage.go.  Core Lean only.  The model follows the tree *with
the repairs F6a, F6b, F6c, F6e applied* (see docs/C13.md): buildRuleList rejects a leading gap, the served
rules are re-adjusted on the error paths of tryCommitPatch, GetRule returns a copy, loadRules does not delete
a key it has just restored.

Names.  Group ids, rule ids and keys are *ranks* in fixed sorted universes of strings (the harness
holds the universes and checks at start-up that rank order = string / byte order); rank 0 is the empty
string: an empty group or rule id is invalid, start key 0 is "" (the smallest key) and end key 0 is ""
(unbounded).  Prefix deletion and regular-expression matching take the set of matching ranks as input
(an interval / a list computed and checked by the harness).

Go maps are association lists kept sorted by key, so that equal maps are equal lists; map iteration
order and the instability of sort.Slice only influence `buildRuleList`, which is proved independent of
the order of its input (Props/C13.lean).

`rule.group` (the runtime pointer) is modelled by pairing a rule with the group it points to (`GRule`)
whenever compareRule / prepareRulesForApply need it; at every quiescent point the pointer equals the
lookup in the configuration's groups (that is what F6b repairs).
-/
namespace PdModel.Rules
open PdModel.Spec.C13



def defaultGroup (id : Nat) : Group := ⟨id, 0, false⟩

/-! ## maps -/

def kLt (a b : K) : Bool := a.1 < b.1 || (a.1 == b.1 && a.2 < b.2)

/-- insert keeping ascending key order -/
def mapIns {α : Type} (key : α → K) (v : α) : List α → List α
  | [] => [v]
  | x :: xs => if kLt (key v) (key x) then v :: x :: xs else x :: mapIns key v xs

/-- `m[key(v)] = v` -/
def mapSet {α : Type} (key : α → K) (v : α) (l : List α) : List α :=
  mapIns key v (l.filter (fun x => key x ≠ key v))

def mapDel {α : Type} (key : α → K) (k : K) (l : List α) : List α := l.filter (fun x => key x ≠ k)

def mapGet {α : Type} (key : α → K) (k : K) (l : List α) : Option α := l.find? (fun x => key x = k)

def gKey (g : Group) : K := (g.id, 0)
def getG (id : Nat) (gs : List Group) : Option Group := mapGet gKey (id, 0) gs
def setG (g : Group) (gs : List Group) : List Group := mapSet gKey g gs
def getR (k : K) (rs : List Rule) : Option Rule := mapGet Rule.key k rs
def setR (r : Rule) (rs : List Rule) : List Rule := mapSet Rule.key r rs

/-! ## rule.go: order and override -/

/-- a rule together with the group its `group` pointer refers to -/
structure GRule where
  rule : Rule
  grp  : Group
  deriving Repr, DecidableEq, Inhabited

/-- compareRule: (group index, group id, index, id) -/
def compareRule (a b : GRule) : Int :=
  if a.grp.index < b.grp.index then -1
  else if a.grp.index > b.grp.index then 1
  else if a.rule.group < b.rule.group then -1
  else if a.rule.group > b.rule.group then 1
  else if a.rule.index < b.rule.index then -1
  else if a.rule.index > b.rule.index then 1
  else if a.rule.id < b.rule.id then -1
  else if a.rule.id > b.rule.id then 1
  else 0

/-- sortRules (GetAllRules): insertion sort with compareRule -/
def insertSorted (r : GRule) : List GRule → List GRule
  | [] => [r]
  | x :: xs => if compareRule x r > 0 then r :: x :: xs else x :: insertSorted r xs

def sortRules (l : List GRule) : List GRule := l.foldr insertSorted []

/-- loop of prepareRulesForApply: `res`, the current run `seg = rules[j:i]`, the rest -/
def prepareLoop : List GRule → List GRule → List GRule → List GRule
  | res, seg, [] => res ++ seg
  | res, seg, x :: rest =>
    match seg with
    | [] => prepareLoop res [x] rest      -- only at the very beginning
    | s :: _ =>
      if s.rule.group ≠ x.rule.group then
        let res' := if x.grp.override then [] else res ++ seg
        prepareLoop res' [x] rest
      else if x.rule.override then prepareLoop res [x] rest
      else prepareLoop res (seg ++ [x]) rest

/-- prepareRulesForApply -/
def prepareRulesForApply (rules : List GRule) : List GRule :=
  match rules with
  | [] => []
  | r :: rest => prepareLoop [] [r] rest

/-! ## rule_list.go -/

inductive BuildErr where
  | noRuleLeft | noRuleForRange | multipleLeaders | needVoter
  deriving Repr, DecidableEq

/-- checkApplyRules: the loop with the two counters -/
def checkLoop : List GRule → Int → Int → Except BuildErr Unit
  | [], leader, voter => if leader + voter < 1 then .error .needVoter else .ok ()
  | r :: rest, leader, voter =>
    if r.rule.role = .leader then
      if leader + r.rule.count > 1 then .error .multipleLeaders else checkLoop rest (leader + r.rule.count) voter
    else if r.rule.role = .voter then
      if leader > 1 then .error .multipleLeaders else checkLoop rest leader (voter + r.rule.count)
    else
      if leader > 1 then .error .multipleLeaders else checkLoop rest leader voter

def checkApplyRules (rules : List GRule) : Except BuildErr Unit := checkLoop rules 0 0

/-- sortedRules.insertRule: before the first element that is greater -/
def insertRule (r : GRule) : List GRule → List GRule
  | [] => [r]
  | x :: xs => if compareRule x r > 0 then r :: x :: xs else x :: insertRule r xs

/-- sortedRules.deleteRule: the first element with the same (group, id) -/
def deleteRule (r : GRule) : List GRule → List GRule
  | [] => []
  | x :: xs => if x.rule.key = r.rule.key then xs else x :: deleteRule r xs

inductive PType where
  | tStart | tEnd
  deriving Repr, DecidableEq

structure Point where
  typ  : PType
  key  : Nat
  rule : GRule
  deriving Repr, DecidableEq

structure RangeRules where
  startKey   : Nat
  rules      : List GRule
  applyRules : List GRule
  deriving Repr, DecidableEq

abbrev RuleList := List RangeRules

def pointsOf (r : GRule) : List Point :=
  ⟨.tStart, r.rule.start, r⟩ :: (if r.rule.end_ ≠ 0 then [⟨.tEnd, r.rule.end_, r⟩] else [])

def insertPoint (p : Point) : List Point → List Point
  | [] => [p]
  | q :: qs => if p.key < q.key then p :: q :: qs else q :: insertPoint p qs

/-- one admissible result of `sort.Slice(points, key <)` (the theorems cover all others) -/
def sortPoints (ps : List Point) : List Point := ps.foldr insertPoint []

def applyPoint (p : Point) (sr : List GRule) : List GRule :=
  match p.typ with
  | .tStart => insertRule p.rule sr
  | .tEnd => deleteRule p.rule sr

/-- "next key is different, push sr to rl": refuse an empty or invalid rule set, else append the range -/
def pushSeg (key : Nat) (sr : List GRule) (acc : RuleList) : Except BuildErr RuleList :=
  if sr.isEmpty then .error .noRuleForRange
  else
    match checkApplyRules (prepareRulesForApply sr) with
    | .error e => .error e
    | .ok _ => .ok (acc ++ [⟨key, sr, prepareRulesForApply sr⟩])

/-- is the point the last one with its key? (`i == len(points)-1 || !bytes.Equal(p.key, points[i+1].key)`) -/
def lastOfKey (p : Point) : List Point → Bool
  | [] => true
  | q :: _ => q.key != p.key

/-- the sweep over the sorted points -/
def sweep : List Point → List GRule → RuleList → Except BuildErr RuleList
  | [], _, acc => .ok acc
  | p :: rest, sr, acc =>
    if lastOfKey p rest then
      match pushSeg p.key (applyPoint p sr) acc with
      | .error e => .error e
      | .ok acc' => sweep rest (applyPoint p sr) acc'
    else sweep rest (applyPoint p sr) acc

/-- buildRuleList on already sorted points (with the F6a repair: the first key must be "") -/
def buildSorted (points : List Point) : Except BuildErr RuleList :=
  match points with
  | [] => .error .noRuleLeft
  | p :: _ => if p.key ≠ 0 then .error .noRuleForRange else sweep points [] []

def buildRuleList (rules : List GRule) : Except BuildErr RuleList :=
  buildSorted (sortPoints (rules.flatMap pointsOf))

/-- `i := sort.Search(len(ranges), startKey > key)` on ranges sorted by start key: `ranges[:i]` is the longest
    prefix with start key ≤ key … -/
def rangesLE (rl : RuleList) (key : Nat) : RuleList := rl.takeWhile (fun r => r.startKey ≤ key)

/-- … and `ranges[i:]` the rest -/
def rangesGT (rl : RuleList) (key : Nat) : RuleList := rl.dropWhile (fun r => r.startKey ≤ key)

/-- ruleList.getSplitKeys -/
def getSplitKeys (rl : RuleList) (start end_ : Nat) : List Nat :=
  ((rangesGT rl start).takeWhile (fun r => end_ == 0 || r.startKey < end_)).map (·.startKey)

/-- ruleList.getRulesByKey: `ranges[i-1].rules`, nil if i = 0 -/
def getRulesByKey (rl : RuleList) (key : Nat) : Option (List GRule) :=
  (rangesLE rl key).getLast?.map (·.rules)

/-- ruleList.getRulesForApplyRegion -/
def getRulesForApplyRegion (rl : RuleList) (start end_ : Nat) : Option (List GRule) :=
  match (rangesLE rl start).getLast? with
  | none => none
  | some cur =>
    match (rangesGT rl start).head? with
    | some nxt => if end_ == 0 || end_ > nxt.startKey then none else some cur.applyRules
    | none => some cur.applyRules

/-! ## config.go -/

structure Config where
  rules  : List Rule := []
  groups : List Group := []
  deriving Repr, DecidableEq

/-- ruleConfig.getGroup -/
def Config.getGroup (c : Config) (id : Nat) : Group := (getG id c.groups).getD (defaultGroup id)

/-- ruleConfig.adjust: drop default groups, re-create one for every group that has rules -/
def Config.adjust (c : Config) : Config :=
  let gs := c.groups.filter (fun g => !g.isDefault)
  { c with groups := c.rules.foldl (fun gs r => if (getG r.group gs).isSome then gs else setG (defaultGroup r.group) gs) gs }

/-- the served rules with their group pointers (after adjust every group exists) -/
def Config.grules (c : Config) : List GRule := c.rules.map (fun r => ⟨r, c.getGroup r.group⟩)

/-- ruleConfigPatch.mut -/
structure Patch where
  mutR : List (K × Option Rule) := []     -- none = delete
  mutG : List Group := []
  deriving Repr, DecidableEq

def Patch.setRule (p : Patch) (r : Rule) : Patch := { p with mutR := mapSet (·.1) (r.key, some r) p.mutR }
def Patch.deleteRule (p : Patch) (k : K) : Patch := { p with mutR := mapSet (·.1) (k, none) p.mutR }
def Patch.setGroup (p : Patch) (g : Group) : Patch := { p with mutG := setG g p.mutG }
def Patch.deleteGroup (p : Patch) (id : Nat) : Patch := p.setGroup (defaultGroup id)

/-- ruleConfigPatch.getGroup -/
def Patch.getGroup (c : Config) (p : Patch) (id : Nat) : Group :=
  match getG id p.mutG with
  | some g => g
  | none => c.getGroup id

/-- ruleConfigPatch.iterateRules (some order) -/
def Patch.rules (c : Config) (p : Patch) : List Rule :=
  p.mutR.filterMap (·.2) ++ c.rules.filter (fun r => (mapGet (·.1) r.key p.mutR).isNone)

/-- ruleConfigPatch.adjust + iterateRules: the rules buildRuleList sees, with their groups -/
def Patch.grules (c : Config) (p : Patch) : List GRule :=
  (p.rules c).map (fun r => ⟨r, p.getGroup c r.group⟩)

/-- ruleConfigPatch.trim (jsonEquals = equality of the persisted fields) -/
def Patch.trim (c : Config) (p : Patch) : Patch :=
  { mutR := p.mutR.filter (fun kv => kv.2 ≠ getR kv.1 c.rules),
    mutG := p.mutG.filter (fun g => g ≠ c.getGroup g.id) }

/-- ruleConfigPatch.commit -/
def Patch.commit (c : Config) (p : Patch) : Config :=
  let rules := p.mutR.foldl (fun rs kv =>
    match kv.2 with
    | none => mapDel Rule.key kv.1 rs
    | some r => setR r rs) c.rules
  let groups := p.mutG.foldl (fun gs g => setG g gs) c.groups
  ({ rules := rules, groups := groups } : Config).adjust

/-! ## storage -/

/-- one `kv.Base` write of savePatch -/
inductive Write where
  | saveRule (r : Rule)
  | deleteRule (k : K)
  | saveGroup (g : Group)
  | deleteGroup (id : Nat)
  deriving Repr, DecidableEq

/-- name of the storage key a write touches: (true, group, id) for rules, (false, id, 0) for groups -/
def Write.target : Write → Bool × K
  | .saveRule r => (true, r.key)
  | .deleteRule k => (true, k)
  | .saveGroup g => (false, (g.id, 0))
  | .deleteGroup id => (false, (id, 0))

/-- a stored rule value: `none` = bytes that do not unmarshal -/
structure Storage where
  rules  : List (K × Option Rule) := []    -- storage key ↦ value (the key normally equals the rule's key)
  groups : List Group := []
  deriving Repr, DecidableEq

def Storage.apply (s : Storage) : Write → Storage
  | .saveRule r => { s with rules := mapSet (·.1) (r.key, some r) s.rules }
  | .deleteRule k => { s with rules := mapDel (·.1) k s.rules }
  | .saveGroup g => { s with groups := setG g s.groups }
  | .deleteGroup id => { s with groups := mapDel gKey (id, 0) s.groups }

/-- savePatch: the writes in the order the two loops issue them (rules in some map order, then groups) -/
def Patch.writes (p : Patch) : List Write :=
  p.mutR.map (fun kv => match kv.2 with | none => .deleteRule kv.1 | some r => .saveRule r) ++
  p.mutG.map (fun g => if g.isDefault then .deleteGroup g.id else .saveGroup g)

/-! ## rule_manager.go -/

structure Mgr where
  cfg      : Config := {}
  ruleList : RuleList := []
  deriving Repr, DecidableEq

structure St where
  mgr   : Mgr := {}
  store : Storage := {}
  deriving Repr, DecidableEq

inductive Out where
  | ok
  | rejContent          -- adjustRule refused a rule
  | rejBuild            -- buildRuleList refused the patched configuration
  | errStorage          -- a write failed
  | notFound            -- get-modify-set on a missing rule
  | bad
  deriving Repr, DecidableEq

/-- the content checks of RuleManager.adjustRule (keyType "", no store informer) -/
def ruleOK (r : Rule) : Bool :=
  !(decide (r.end_ ≠ 0) && decide (r.end_ ≤ r.start)) && decide (r.group ≠ 0) && decide (r.id ≠ 0) &&
  decide (r.role ≠ .invalid) && decide (r.count > 0) && !(decide (r.role = .leader) && decide (r.count > 1))

/-- RuleManager.adjustRule: `groupID ≠ 0` fills an empty group id and refuses a different one -/
def adjustRule (r : Rule) (groupID : Nat) : Option Rule :=
  if groupID ≠ 0 ∧ r.group ≠ 0 ∧ groupID ≠ r.group then none
  else
    let r' := if groupID ≠ 0 ∧ r.group = 0 then { r with group := groupID } else r
    if ruleOK r' then some r' else none

/-- failure injection: `none` = no write fails; `some (k, wrote)` = the (k+1)-th write fails, the writes
    `wrote` (reported by the harness: map order is not ours to choose) were applied before it -/
abbrev Fail := Option (Nat × List (Bool × K))

/-- is `wrote` a possible set of completed writes when the k-th write (0-based) of `ws` fails?
    (k writes done, all distinct targets of `ws`, every rule write before any group write) -/
def wroteOK (ws : List Write) (k : Nat) (wrote : List (Bool × K)) : Bool :=
  let targets := ws.map (·.target)
  wrote.length == k && wrote.all (fun t => targets.contains t) && wrote.eraseDups.length == wrote.length &&
  (wrote.all (fun t => t.1) || (targets.filter (·.1)).all (fun t => wrote.contains t))

/-- tryCommitPatch -/
def tryCommitPatch (s : St) (p : Patch) (f : Fail) : St × Out :=
  let c := s.mgr.cfg
  match buildRuleList (p.grules c) with
  | .error _ => (s, .rejBuild)                      -- (F6b) m.ruleConfig.adjust() restores rule.group
  | .ok rl =>
    let p' := p.trim c
    let ws := p'.writes
    match f with
    | some (k, wrote) =>
      if k < ws.length then
        if wroteOK ws k wrote then
          let done := ws.filter (fun w => wrote.contains w.target)
          ({ s with store := done.foldl Storage.apply s.store }, .errStorage)
        else (s, .bad)
      else
        ({ mgr := { cfg := p'.commit c, ruleList := rl }, store := ws.foldl Storage.apply s.store }, .ok)
    | none =>
      ({ mgr := { cfg := p'.commit c, ruleList := rl }, store := ws.foldl Storage.apply s.store }, .ok)

/-- the default rule created by Initialize when the storage holds no rule -/
def defaultRule (maxReplica : Int) (lbl : Nat) (pdGroup defaultId : Nat) : Rule :=
  { group := pdGroup, id := defaultId, index := 0, override := false, start := 0, end_ := 0,
    role := .voter, count := maxReplica, lbl := lbl }

/-- loadRules: (config rules, toSave, toDelete) in storage key order -/
def loadLoop : List (K × Option Rule) → List Rule → List Rule → List K → List Rule × List Rule × List K
  | [], rules, toSave, toDelete => (rules, toSave, toDelete)
  | (k, v) :: rest, rules, toSave, toDelete =>
    match v with
    | none => loadLoop rest rules toSave (toDelete ++ [k])
    | some r0 =>
      match adjustRule r0 0 with
      | none => loadLoop rest rules toSave (toDelete ++ [k])
      | some r =>
        if (getR r.key rules).isSome then loadLoop rest rules toSave (toDelete ++ [k])
        else if k ≠ r.key then loadLoop rest (setR r rules) (toSave ++ [r]) (toDelete ++ [k])
        else loadLoop rest (setR r rules) toSave toDelete

structure InitParams where
  maxReplica : Int
  lbl        : Nat
  pdGroup    : Nat
  defaultId  : Nat

/-- NewRuleManager + Initialize on a storage (no failure injection during start-up) -/
def initMgr (ip : InitParams) (store : Storage) : Except BuildErr Mgr × Storage :=
  let (rules, toSave, toDelete) := loadLoop store.rules [] [] []
  let st1 := toSave.foldl (fun st r => st.apply (.saveRule r)) store
  -- (F6e) a key that has just received a restored rule is not deleted again
  let st2 := (toDelete.filter (fun k => !(toSave.map (·.key)).contains k)).foldl (fun st k => st.apply (.deleteRule k)) st1
  let groups := st2.groups.foldl (fun gs g => setG g gs) []
  let (rules', st3) :=
    if rules.isEmpty then
      let d := defaultRule ip.maxReplica ip.lbl ip.pdGroup ip.defaultId
      (setR d rules, st2.apply (.saveRule d))
    else (rules, st2)
  let cfg := ({ rules := rules', groups := groups } : Config).adjust
  match buildRuleList cfg.grules with
  | .error e => (.error e, st3)
  | .ok rl => (.ok { cfg := cfg, ruleList := rl }, st3)

/-- the storage writes loadRules issues, in order: first the restored rules, then the stale keys -/
def repairWrites (store : Storage) : List Write :=
  let (_, toSave, toDelete) := loadLoop store.rules [] [] []
  toSave.map Write.saveRule ++
    (toDelete.filter (fun k => !(toSave.map (·.key)).contains k)).map Write.deleteRule

/-- Initialize with a storage failure at its (k+1)-th write (`none`: no failure).  The writes of start-up are the
    repairs of loadRules and, when no rule was loaded, the save of the default rule; a failing write makes
    Initialize return an error (`none`) with the earlier writes done.  No `wrote=` input: the order is that of two
    slices, not of a map. -/
def initMgrF (ip : InitParams) (store : Storage) (fail : Option Nat) : Option Mgr × Storage :=
  let plain : Option Mgr × Storage :=
    match initMgr ip store with
    | (.ok m, st) => (some m, st)
    | (.error _, st) => (none, st)
  match fail with
  | none => plain
  | some k =>
    let ws := repairWrites store
    if k < ws.length then (none, (ws.take k).foldl Storage.apply store)
    else if (loadLoop store.rules [] [] []).1.isEmpty && k == ws.length then
      (none, ws.foldl Storage.apply store)            -- the save of the default rule fails
    else plain

/-! ## the public update kinds -/

inductive BatchOp where
  | add (r : Rule)
  | del (k : K)
  | delPrefix (group lo hi : Nat)      -- ids with the given prefix = ranks in [lo, hi)
  deriving Repr, DecidableEq

structure Bundle where
  id       : Nat
  index    : Int
  override : Bool
  rules    : List Rule
  deriving Repr, DecidableEq

inductive Op where
  | setRule (r : Rule)
  | deleteRule (k : K)
  | setRules (rs : List Rule)
  | batch (ops : List BatchOp)
  | setGroup (g : Group)
  | deleteGroup (id : Nat)
  | setBundle (b : Bundle)
  | setAllBundles (bs : List Bundle) (override : Bool)
  | deleteBundle (ids : List Nat)        -- the group ids matched by (id, regex)
  | getModSet (k : K) (count : Int)      -- r := GetRule; r.Count = count; SetRule(r)
  deriving Repr, DecidableEq

/-- adjust every rule of a list (stop at the first refusal) and add it to the patch -/
def addRules (p : Patch) (groupID : Nat) : List Rule → Option Patch
  | [] => some p
  | r :: rest =>
    match adjustRule r groupID with
    | none => none
    | some r' => addRules (p.setRule r') groupID rest

def addBundles (p : Patch) : List Bundle → Option Patch
  | [] => some p
  | b :: rest =>
    match addRules (p.setGroup ⟨b.id, b.index, b.override⟩) b.id b.rules with
    | none => none
    | some p' => addBundles p' rest

/-- the patch an operation builds from the served configuration (`none`: a rule was refused) -/
def patchOf (c : Config) : Op → Option Patch
  | .setRule r => addRules {} 0 [r]
  | .deleteRule k => some (({} : Patch).deleteRule k)
  | .setRules rs => addRules {} 0 rs
  | .batch ops =>
    if ops.all (fun o => match o with | .add r => (adjustRule r 0).isSome | _ => true) then
      some (ops.foldl (fun p o =>
        match o with
        | .add r => match adjustRule r 0 with | some r' => p.setRule r' | none => p
        | .del k => p.deleteRule k
        | .delPrefix g lo hi =>
          (c.rules.filter (fun r => r.group = g ∧ lo ≤ r.id ∧ r.id < hi)).foldl (fun p r => p.deleteRule r.key) p) {})
    else none
  | .setGroup g => some (({} : Patch).setGroup g)
  | .deleteGroup id => some (({} : Patch).deleteGroup id)
  | .setBundle b =>
    let p0 : Patch :=
      if (getG b.id c.groups).isSome then
        (c.rules.filter (fun r => r.group = b.id)).foldl (fun p r => p.deleteRule r.key) {}
      else {}
    addBundles p0 [b]
  | .setAllBundles bs override =>
    let m (id : Nat) : Bool := override || bs.any (fun b => b.id == id)
    let p1 := (c.rules.filter (fun r => m r.group)).foldl (fun p r => p.deleteRule r.key) ({} : Patch)
    let p2 := (c.groups.filter (fun g => m g.id)).foldl (fun p g => p.deleteGroup g.id) p1
    addBundles p2 bs
  | .deleteBundle ids =>
    let p1 := (c.rules.filter (fun r => ids.contains r.group)).foldl (fun p r => p.deleteRule r.key) ({} : Patch)
    some ((c.groups.filter (fun g => ids.contains g.id)).foldl (fun p g => p.deleteGroup g.id) p1)
  | .getModSet k count =>
    match getR k c.rules with
    | none => none
    | some r => addRules {} 0 [{ r with count := count }]

def applyOp (s : St) (op : Op) (f : Fail) : St × Out :=
  match patchOf s.mgr.cfg op with
  | none => (s, .rejContent)
  | some p => tryCommitPatch s p f

def step (s : St) (op : Op) (f : Fail) : St × Out :=
  match op with
  | .getModSet k _ => if (getR k s.mgr.cfg.rules).isNone then (s, .notFound) else applyOp s op f
  | _ => applyOp s op f

/-- GetAllRules -/
def getAllRules (m : Mgr) : List GRule := sortRules m.cfg.grules

def insertGroupSorted (g : Group) : List Group → List Group
  | [] => [g]
  | x :: xs => if g.index < x.index ∨ (g.index = x.index ∧ g.id < x.id) then g :: x :: xs else x :: insertGroupSorted g xs

/-- GetRuleGroups: by (index, id) -/
def getRuleGroups (m : Mgr) : List Group := m.cfg.groups.foldr insertGroupSorted []

end PdModel.Rules
