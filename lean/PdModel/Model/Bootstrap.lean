/-
Model of cluster bootstrap and cluster identity (server/server.go bootstrapCluster, server/util.go
checkBootstrapRequest / initOrGetClusterID, server/grpc_service.go Bootstrap / IsBootstrapped /
validateRequest).  Core Lean only.

Part 1 – bootstrap.  Members of one PD cluster (one shared etcd).  One micro-step = one atomic section:
  boot    – a Bootstrap request arrives at a member: validateRequest, `GetRaftCluster() != nil`,
            checkBootstrapRequest; if all pass the request stands before its etcd transaction
  commit  – the transaction `If CreateRevision(root) = 0 Then Put(root, bootstrap time, store, region)`
            (it is NOT guarded by the leader key: a deposed leader's transaction still runs)
  start   – `s.cluster.Start(s)` on the member whose transaction succeeded, then the `ok` response
  lead    – the PD leadership moves: the old leader stops its raft cluster, the new one creates it if the
            cluster is bootstrapped
Steps of different requests and leader changes interleave freely.

Part 2 – cluster id.  `initOrGetClusterID`: one transaction `If CreateRevision(key) = 0 Then Put(key, mine)
Else Get(key)` per starting member, with a freshly drawn candidate value.
-/
namespace PdModel.Bootstrap

inductive Fault where
  | none | before | after
  deriving Repr, DecidableEq, Inhabited

/-! ## Part 1 -/

/-- the fields of a BootstrapRequest that the code looks at -/
structure Payload where
  hasStore  : Bool := true
  storeId   : Nat
  hasRegion : Bool := true
  regionId  : Nat
  startLen  : Nat := 0
  endLen    : Nat := 0
  /-- (peer id, store id) -/
  peers     : List (Nat × Nat)
  deriving Repr, DecidableEq, Inhabited

inductive Bad where
  | missingStore | zeroStore | missingRegion | keyRange | zeroRegion | peerCount | peerStore | zeroPeer
  deriving Repr, DecidableEq

/-- checkBootstrapRequest, in the order of the code -/
def checkReq (p : Payload) : Option Bad :=
  if !p.hasStore then some .missingStore
  else if p.storeId = 0 then some .zeroStore
  else if !p.hasRegion then some .missingRegion
  else if p.startLen > 0 ∨ p.endLen > 0 then some .keyRange
  else if p.regionId = 0 then some .zeroRegion
  else
    match p.peers with
    | [(pid, sid)] =>
      if sid ≠ p.storeId then some .peerStore
      else if pid = 0 then some .zeroPeer
      else none
    | _ => some .peerCount

inductive Out where
  | ok | notLeader | mismatch | already | malformed (b : Bad) | conflict | txnErr
  deriving Repr, DecidableEq

inductive Phase where
  | atTxn                 -- validated, about to commit the transaction
  | committed             -- transaction succeeded, about to start the raft cluster
  | done (o : Out)
  deriving Repr, DecidableEq

structure Req where
  member  : Nat
  payload : Payload
  phase   : Phase
  deriving Repr, DecidableEq

structure Member where
  leader  : Bool := false
  running : Bool := false     -- s.cluster.IsRunning()
  deriving Repr, DecidableEq, Inhabited

/-- the bootstrap keys of etcd; the second component is a ghost: the request whose transaction wrote it -/
structure Etcd where
  root     : Option (Nat × Nat) := none        -- cluster meta: (cluster id, request)
  stores   : List (Nat × Nat) := []            -- (store id, request)
  regions  : List (Nat × Nat) := []            -- (region id, request)
  bootTime : Option Nat := none                -- request
  deriving Repr, DecidableEq

structure St where
  cid     : Nat                 -- the cluster id every member holds (Part 2)
  members : List Member
  etcd    : Etcd := {}
  reqs    : List Req := []
  /-- ghost: requests whose transaction succeeded, oldest first -/
  wins    : List Nat := []
  /-- ghost: requests that were answered `ok`, oldest first -/
  oks     : List Nat := []
  deriving Repr

inductive Op where
  | boot (m : Nat) (hdr : Nat) (p : Payload)
  | commit (r : Nat) (f : Fault)
  | start (r : Nat)
  | lead (m : Nat)
  | isBoot (m : Nat) (hdr : Nat)
  /-- PutClusterConfig: cluster id of the header, cluster id named in the metapb.Cluster of the body -/
  | putConfig (m : Nat) (hdr : Nat) (body : Nat)
  /-- the requests of one Tso stream (their header cluster ids), in order -/
  | tso (m : Nat) (hdrs : List Nat)
  deriving Repr, DecidableEq

/-- validateRequest -/
def validate (s : St) (m : Member) (hdr : Nat) : Option Out :=
  if !m.leader then some .notLeader
  else if hdr ≠ s.cid then some .mismatch
  else none

def setReq (s : St) (r : Nat) (x : Req) : St := { s with reqs := s.reqs.set r x }

/-- answers to one request of a Tso stream: a timestamp, the cluster id mismatch error (which ends the
    stream), another error (not the TSO leader; ends the stream too), or nothing because the stream has ended -/
inductive TsoAns where
  | ts | mismatch | tsoErr | closed
  deriving Repr, DecidableEq

inductive CfgOut where
  | ok | notBootstrapped | bodyMismatch
  deriving Repr, DecidableEq

inductive StepOut where
  | parked | resp (o : Out) | isBoot (b : Bool) | done | bad | cfg (c : CfgOut) | tso (l : List TsoAns)
  deriving Repr, DecidableEq

/-- `Server.Tso`: every request's cluster id is compared (before anything else); the first error ends the
    stream -/
def tsoRun (cid : Nat) (leader : Bool) : List Nat → List TsoAns
  | [] => []
  | h :: hs =>
    if h ≠ cid then .mismatch :: hs.map (fun _ => .closed)
    else if !leader then .tsoErr :: hs.map (fun _ => .closed)
    else .ts :: tsoRun cid leader hs

def step (s : St) : Op → St × StepOut
  | .boot m hdr p =>
    match s.members[m]? with
    | none => (s, .bad)
    | some mem =>
      let answer (o : Out) : St × StepOut :=
        ({ s with reqs := s.reqs ++ [{ member := m, payload := p, phase := .done o }] }, .resp o)
      match validate s mem hdr with
      | some o => answer o
      | none =>
        if mem.running then answer .already
        else
          match checkReq p with
          | some b => answer (.malformed b)
          | none => ({ s with reqs := s.reqs ++ [{ member := m, payload := p, phase := .atTxn }] }, .parked)
  | .commit r f =>
    match s.reqs[r]? with
    | none => (s, .bad)
    | some x =>
      if x.phase = .atTxn then
        if f = .before then (setReq s r { x with phase := .done .txnErr }, .resp .txnErr)
        else if s.etcd.root.isNone then
          let e : Etcd := { root := some (s.cid, r), stores := [(x.payload.storeId, r)],
                            regions := [(x.payload.regionId, r)], bootTime := some r }
          let s1 := { s with etcd := e, wins := s.wins ++ [r] }
          if f = .after then (setReq s1 r { x with phase := .done .txnErr }, .resp .txnErr)
          else (setReq s1 r { x with phase := .committed }, .done)
        else
          let o := if f = .after then Out.txnErr else Out.conflict
          (setReq s r { x with phase := .done o }, .resp o)
      else (s, .bad)
  | .start r =>
    match s.reqs[r]? with
    | none => (s, .bad)
    | some x =>
      if x.phase = .committed then
        match s.members[x.member]? with
        | none => (s, .bad)
        | some mem =>
          ({ setReq s r { x with phase := .done .ok } with
               members := s.members.set x.member { mem with running := true }, oks := s.oks ++ [r] }, .resp .ok)
      else (s, .bad)
  | .lead m =>
    if m < s.members.length then
      ({ s with members := s.members.mapIdx fun i mem =>
          if i = m then { leader := true, running := mem.running || s.etcd.root.isSome }
          else { leader := false, running := if mem.leader then false else mem.running } }, .done)
    else (s, .bad)
  | .isBoot m hdr =>
    match s.members[m]? with
    | none => (s, .bad)
    | some mem =>
      match validate s mem hdr with
      | some o => (s, .resp o)
      | none => (s, .isBoot mem.running)
  | .putConfig m hdr body =>
    match s.members[m]? with
    | none => (s, .bad)
    | some mem =>
      match validate s mem hdr with
      | some o => (s, .resp o)
      | none =>
        if !mem.running then (s, .cfg .notBootstrapped)
        -- RaftCluster.PutConfig: `meta.GetId() != c.clusterID`; an accepted meta carries the cluster's id
        else if body ≠ s.cid then (s, .cfg .bodyMismatch)
        else (s, .cfg .ok)
  | .tso m hdrs =>
    match s.members[m]? with
    | none => (s, .bad)
    | some mem => (s, .tso (tsoRun s.cid mem.leader hdrs))

def init (cid n leader : Nat) : St :=
  { cid := cid, members := (List.range n).map fun i => { leader := i = leader } }

def run (s : St) (ops : List Op) : St := ops.foldl (fun s o => (step s o).1) s

/-! ## Part 2: cluster id -/

structure IdSt where
  key     : Option Nat := none
  /-- ghost: every value a member has been given, oldest first -/
  given   : List Nat := []
  deriving Repr, DecidableEq

/-- one `initOrGetClusterID` with candidate `mine`; returns the id or none on a transaction error -/
def initId (s : IdSt) (mine : Nat) (f : Fault) : IdSt × Option Nat :=
  match f with
  | .before => (s, none)
  | _ =>
    match s.key with
    | none =>
      let s1 := { s with key := some mine }
      if f = .after then (s1, none) else ({ s1 with given := s1.given ++ [mine] }, some mine)
    | some v =>
      if f = .after then (s, none) else ({ s with given := s.given ++ [v] }, some v)

def idRun (s : IdSt) (ops : List (Nat × Fault)) : IdSt := ops.foldl (fun s o => (initId s o.1 o.2).1) s

end PdModel.Bootstrap
