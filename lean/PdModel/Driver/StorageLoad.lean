import PdModel.Driver.Common
import PdModel.Model.StorageLoad
import PdModel.Spec.C17
import PdModel.Generated.StorageLoad
/-!
Driver for area `storageload` (property C17).  See harness/cmd/storageload/main.go for the op list.
-/
namespace PdModel.Driver.StorageLoad
open PdModel.SyncRegion PdModel.StorageLoad PdModel.Driver PdModel.Spec

def minLimitC : Nat := PdModel.Generated.StorageLoad.minKVRangeLimit
def maxLimitC : Nat := PdModel.Generated.StorageLoad.maxKVRangeLimit
def batchSizeC : Nat := PdModel.Generated.StorageLoad.defaultBatchSize
def fullLimit : Nat := 2500
def two64 : Nat := 2 ^ 64

/-! ### formats -/

/-- maximal runs of consecutive ids as lo-hi -/
def runs : List Nat → List (Nat × Nat)
  | [] => []
  | x :: xs =>
    match runs xs with
    | (lo, hi) :: rest => if lo = x + 1 && x != maxU64 then (x, hi) :: rest else (x, x) :: (lo, hi) :: rest
    | [] => [(x, x)]

def fmtIDs (ids : List Nat) : String :=
  "[" ++ ",".intercalate ((runs ids).map (fun r => if r.1 = r.2 then toString r.1 else s!"{r.1}-{r.2}")) ++ "]"

def fmtMeta (m : Meta) : String := s!"{m.id}:{m.startKey}:{m.endKey}:{m.confVer}:{m.version}"

def metaSum (m : Meta) : Nat := m.id * 1000003 + m.startKey * 10007 + m.endKey * 101 + m.confVer * 7 + m.version

def fmtRegions (tag : String) (items : List Meta) : String :=
  let sum := (items.foldl (fun a m => a + metaSum m) 0) % two64
  let s := s!"{tag}n={items.length} {tag}ids={fmtIDs (items.map (·.id))} {tag}sum={sum}"
  if items.length ≤ fullLimit then s ++ s!" {tag}items=[{";".intercalate (items.map fmtMeta)}]" else s

structure SItem where
  id  : Nat
  ver : Nat
  lw  : Nat
  rw  : Nat
  deriving DecidableEq

def fmtSItem (s : SItem) : String :=
  if s.lw = oneBits && s.rw = oneBits then s!"{s.id}:{s.ver}" else s!"{s.id}:{s.ver}:{s.lw}/{s.rw}"

def sitemSum (s : SItem) : Nat := s.id * 1000003 + s.ver * 10007 + s.lw * 101 + s.rw * 7

def fmtStores (items : List SItem) : String :=
  let sum := (items.foldl (fun a m => a + sitemSum m) 0) % two64
  let s := s!"n={items.length} ids={fmtIDs (items.map (·.id))} sum={sum}"
  if items.length ≤ fullLimit then s ++ s!" items=[{";".intercalate (items.map fmtSItem)}]" else s

def parseMeta (s : String) : Option Meta :=
  match s.splitOn ":" with
  | [i, sk, ek, cv, v] =>
    some { id := natArg i, startKey := natArg sk, endKey := natArg ek, confVer := natArg cv, version := natArg v, peers := [] }
  | _ => none

/-- region `k` of a bulk `regions n idstart idstep width` -/
def bulkMeta (st step width k : Nat) : Meta :=
  { id := st + k * step, startKey := k * width, endKey := (k + 1) * width, confVer := 1, version := 1, peers := [] }

def parsePattern (s : String) : List Bool := s.toList.map (· == '1')

/-! ### model world -/

structure World where
  backend : String := ""
  opened  : Bool := false
  stores  : KV Nat := []
  weights : Weights := []
  regions : KV Meta := []
  rs      : RS := { batchSize := batchSizeC }
  /-- LoadRegionsOnce has succeeded on this Storage object (region backend) -/
  onceLoaded : Bool := false
  /-- the region storage is selected (`SwitchToRegionStorage`); the pending batch belongs to it either way -/
  sel : Bool := true

/-- the Storage has a region storage -/
def hasRS (w : World) : Bool := w.backend == "rs" || w.backend == "rsg"

/-- region saves / deletes / loads go to the region storage -/
def isRS (w : World) : Bool := hasRS w && w.sel

/-- how an unreadable record under the region key of `id` is written down (the harness refuses to save a
    genuine region with these values) -/
def corruptMeta (id : Nat) : Meta := { id := id, startKey := 0, endKey := 0, confVer := 0, version := 0, peers := [] }

/-- the record cannot be unmarshalled -/
def badRecord (e : Nat × Meta) : Bool := e.2 == corruptMeta e.1

def isReserved (m : Meta) : Bool := m.startKey == 0 && m.endKey == 0 && m.confVer == 0 && m.version == 0

/-- float64 bits of 1.5 and 2.0: the bulk `weights` op saves 1.5 + k ulp / 2.0 + k ulp -/
def bits15 : Nat := 4609434218613702656
def bits20 : Nat := 4611686018427387904

def regionKV (w : World) : KV Meta := if isRS w then w.rs.ldb else w.regions

def saveRegion (w : World) (m : Meta) : World :=
  if isRS w then { w with rs := w.rs.save m } else { w with regions := kvSave w.regions m.id m }

def errWord (e : Bool) : String := if e then "err" else "ok"

def modelStep (w : World) (ws : List String) : World × String :=
  let bad := (w, "bad-op")
  match ws with
  | ["reset"] => ({}, "ok")
  | ["open", b] =>
    if w.opened || !(b == "mem" || b == "etcd" || b == "rs" || b == "rsg") then bad
    else ({ w with backend := b, opened := true }, "ok")
  | _ =>
    if !w.opened then bad else
    match ws with
    | ["store", i, v] => ({ w with stores := kvSave w.stores (natArg i) (natArg v) }, "ok")
    | ["stores", n, st, step] =>
      let stores := (List.range (natArg n)).foldl (fun kv k => kvSave kv (natArg st + k * natArg step) 0) w.stores
      ({ w with stores := stores }, "ok")
    | ["delstore", i] => ({ w with stores := kvRemove w.stores (natArg i) }, "ok")
    | ["weight", i, l, r] =>
      ({ w with weights := weightsSave w.weights (natArg i) (natArg l) (natArg r) }, "ok")
    | "loadstores" :: rest =>
      if rest.length > 1 then bad else
      let errs := parsePattern (rest.headD "")
      match loadStores w.stores minLimitC errs with
      | none => (w, "out-of-fuel")
      | some (e, items) =>
        let sitems := items.map (fun x => let wt := weightOf w.weights x.1; ({ id := x.1, ver := x.2, lw := wt.1, rw := wt.2 } : SItem))
        (w, s!"{errWord e} {fmtStores sitems}")
    | ["region", spec] =>
      match parseMeta spec with
      | some m => if isReserved m then bad else (saveRegion w m, "ok")
      | none => bad
    | ["failregion", spec] =>
      match parseMeta spec with
      | some m =>
        if !isRS w || isReserved m then bad else
        let r := w.rs.saveFailed m
        ({ w with rs := r.1 }, errWord r.2)
      | none => bad
    | ["failflush"] => if hasRS w then ({ w with rs := w.rs.flushFailed }, "err") else bad
    | ["pad", n] => if natArg n > 65536 then bad else (w, "ok")
    | ["switch", b] =>
      if !hasRS w || !(b == "default" || b == "region") then bad else ({ w with sel := b == "region" }, "ok")
    | ["corrupt", i] =>
      let m := corruptMeta (natArg i)
      if isRS w then ({ w with rs := { w.rs with ldb := kvSave w.rs.ldb m.id m } }, "ok")
      else ({ w with regions := kvSave w.regions m.id m }, "ok")
    | ["weights", n, st, step] =>
      let ws' := (List.range (natArg n)).foldl
        (fun wt k => weightsSave wt (natArg st + k * natArg step) (bits15 + k) (bits20 + k)) w.weights
      ({ w with weights := ws' }, "ok")
    | ["race", i] =>
      if w.backend != "rsg" || !w.sel then bad else ({ w with rs := (w.rs.delete (natArg i)).flush }, "ok")
    | ["regions", n, st, step, width] =>
      let w' := (List.range (natArg n)).foldl (fun w k =>
        saveRegion w (bulkMeta (natArg st) (natArg step) (natArg width) k)) w
      (w', "ok")
    | ["delregion", i] =>
      if isRS w then ({ w with rs := w.rs.delete (natArg i) }, "ok")
      else ({ w with regions := kvRemove w.regions (natArg i) }, "ok")
    | ["loadregion", i] =>
      match kvLoad (regionKV w) (natArg i) with
      | some m => (w, s!"ok {fmtMeta m}")
      | none => (w, "ok none")
    | "loadregions" :: mode :: rest =>
      if rest.length > 1 || (rest.length == 1 && hasRS w) then bad else
      let errs := parsePattern (rest.headD "")
      let kv := regionKV w
      let setKV (w : World) (kv' : KV Meta) : World :=
        if isRS w then
          let gone := (kv.map (·.1)).filter (fun i => !(kv'.any (fun e => e.1 == i)))
          { w with rs := { w.rs with ldb := kv', batch := w.rs.batch.filter (fun e => !gone.contains e.1) } }
        else { w with regions := kv' }
      if mode == "plain" then
        match loadRegions plainCb badRecord maxLimitC minLimitC kv () errs with
        | none => (w, "out-of-fuel")
        | some (e, s) => (w, s!"{errWord e} {fmtRegions "" (s.loaded.map (·.2))}")
      else if mode == "prune" then
        match loadRegions pruneCb badRecord maxLimitC minLimitC kv ([] : Cache) errs with
        | none => (w, "out-of-fuel")
        | some (e, s) =>
          let w' := setKV w s.kv
          let cache := (s.cb.map (·.md)).mergeSort (fun a b => a.id ≤ b.id)
          (w', s!"{errWord e} {fmtRegions "" (s.loaded.map (·.2))} {fmtRegions "c" cache} {fmtRegions "k" ((regionKV w').map (·.2))}")
      else bad
    | "loadonce" :: rest =>
      if rest.length > 1 || (rest.length == 1 && hasRS w) then bad else
      let errs := parsePattern (rest.headD "")
      let kv := regionKV w
      let r := loadRegionsOnce pruneCb badRecord maxLimitC minLimitC (isRS w && w.onceLoaded) kv ([] : Cache) errs
      match r.2 with
      | none =>
        -- already loaded: the callback sees nothing, the storage is not touched
        (w, s!"ok {fmtRegions "" []} {fmtRegions "c" []} {fmtRegions "k" (kv.map (·.2))}")
      | some none => (w, "out-of-fuel")
      | some (some (e, s)) =>
        let w1 : World :=
          if isRS w then
            let gone := (kv.map (·.1)).filter (fun i => !(s.kv.any (fun x => x.1 == i)))
            { w with rs := { w.rs with ldb := s.kv, batch := w.rs.batch.filter (fun x => !gone.contains x.1) },
                     onceLoaded := r.1 }
          else { w with regions := s.kv }
        let cache := (s.cb.map (·.md)).mergeSort (fun a b => a.id ≤ b.id)
        (w1, s!"{errWord e} {fmtRegions "" (s.loaded.map (·.2))} {fmtRegions "c" cache} {fmtRegions "k" ((regionKV w1).map (·.2))}")
    | ["flush"] => (if hasRS w then { w with rs := w.rs.flush } else w, "ok")
    | ["close"] => (if hasRS w then { w with rs := w.rs.flush, onceLoaded := false } else w, "ok")
    | ["crash"] => if hasRS w then ({ w with rs := w.rs.crash, onceLoaded := false }, "ok") else bad
    | ["bgflush"] => if hasRS w then ({ w with rs := w.rs.flush }, "ok") else bad
    | _ => bad

/-! ### monitor -/

structure Mon where
  rsBackend : Bool := false                           -- region ops go to the region storage now
  hasRS     : Bool := false                           -- the Storage has a region storage
  other     : C17.Track Meta := {}                    -- what the backend that is not selected holds
  stores    : List (Nat × Nat) := []                 -- id ↦ ver, saved and not deleted
  weights   : List (Nat × (Nat × Nat)) := []
  regions   : C17.Track Meta := {}
  lost      : Bool := false                           -- tracking given up (op on a stopped process before a load)
  unsure    : List Nat := []                          -- ids whose last save returned an error: may or may not be stored
  onceDone  : Bool := false                           -- a LoadRegionsOnce has returned success on this Storage (region backend)

def field (obs : String) (key : String) : Option String :=
  (words obs).findSome? (fun w => if w.startsWith (key ++ "=") then some (w.drop (key.length + 1)).toString else none)

def natField (obs key : String) : Option Nat := (field obs key).bind (·.toNat?)

/-- `[1,5-9,20]` → ids -/
def parseIDs (s : String) : List Nat :=
  let inner := ((s.drop 1).dropEnd 1).toString
  if inner.isEmpty then [] else
    (inner.splitOn ",").flatMap (fun p =>
      match p.splitOn "-" with
      | [a, b] => (List.range (natArg b - natArg a + 1)).map (natArg a + ·)
      | _ => [natArg p])

def parseItems (s : String) : List String :=
  let inner := ((s.drop 1).dropEnd 1).toString
  if inner.isEmpty then [] else inner.splitOn ";"

def parseSItem (s : String) : SItem :=
  match s.splitOn ":" with
  | [i, v] => { id := natArg i, ver := natArg v, lw := oneBits, rw := oneBits }
  | [i, v, w] =>
    match w.splitOn "/" with
    | [l, r] => { id := natArg i, ver := natArg v, lw := natArg l, rw := natArg r }
    | _ => { id := natArg i, ver := natArg v, lw := 0, rw := 0 }
  | _ => { id := 0, ver := 0, lw := 0, rw := 0 }

/-- judge a reported load (ids + checksum, and the full items when present) against the expectation; ids in
    `unsure` (their last save returned an error) are left out on both sides -/
def judgeLoad {V : Type} [DecidableEq V] (kind : String) (h : Nat × V → Nat) (expected0 : List (Nat × V))
    (obs : String) (tag : String) (parse : String → Option (Nat × V)) (unsure : List Nat := []) : List String :=
  let expected := if unsure.isEmpty then expected0 else expected0.filter (fun e => !unsure.contains e.1)
  match field obs (tag ++ "ids"), natField obs (tag ++ "sum") with
  | some idss, some sum =>
    let ids0 := parseIDs idss
    let ids := if unsure.isEmpty then ids0 else ids0.filter (fun i => !unsure.contains i)
    if ids != expected.map (·.1) then
      let dup := ids.filter (fun i => ids.count i > 1)
      [s!"sig=C17.load-not-exact kind={kind} missing={C17.missing expected ids} extra={C17.extra expected ids} dup={dup.eraseDups} loaded={ids.length} expected={expected.length}"]
    else if unsure.isEmpty && !C17.checkDigest h expected ids sum then
      [s!"sig=C17.load-wrong-content kind={kind} n={ids.length} sum={sum}"]
    else
      match field obs (tag ++ "items") with
      | some its =>
        let loaded := ((parseItems its).filterMap parse).filter (fun e => !unsure.contains e.1)
        if C17.checkLoad expected loaded then [] else [s!"sig=C17.load-wrong-content kind={kind} items={its}"]
      | none => []
  | _, _ => [s!"sig=C17.unreadable-observation {obs}"]

def parseMetaItem (s : String) : Option (Nat × Meta) := (parseMeta s).map (fun m => (m.id, m))

def expectedStores (m : Mon) : List (Nat × SItem) :=
  m.stores.map (fun e =>
    let wt := match m.weights.find? (fun x => x.1 == e.1) with | some x => x.2 | none => (oneBits, oneBits)
    (e.1, { id := e.1, ver := e.2, lw := wt.1, rw := wt.2 }))

/-- ids saved by a bulk op are no longer unsure -/
def clearBulk (unsure : List Nat) (n st step : Nat) : List Nat :=
  unsure.filter (fun i => !((List.range n).any (fun k => st + k * step == i)))

/-- flush / close / stop act on the region storage whichever backend is selected -/
def onRS (m : Mon) (f : C17.Track Meta → C17.Track Meta) : Mon :=
  if m.rsBackend || !m.hasRS then { m with regions := f m.regions } else { m with other := f m.other }

def trackBulk (t : C17.Track Meta) (n st step width : Nat) : C17.Track Meta :=
  (List.range n).foldl (fun t k => t.save (bulkMeta st step width k).id (bulkMeta st step width k)) t

def monitor (m : Mon) (ws : List String) (impl : String) : Mon × List String :=
  let okObs := impl == "ok" || impl.startsWith "ok "
  match ws with
  | ["reset"] => ({}, [])
  | ["open", b] => ({ m with rsBackend := b == "rs" || b == "rsg", hasRS := b == "rs" || b == "rsg" }, [])
  | ["switch", b] =>
    if impl != "ok" || m.lost then (m, []) else
    let toRS := b == "region"
    if toRS == m.rsBackend then (m, []) else
    -- a stop whose outcome has not been observed, or saves with unknown outcome: give up on this sequence
    if m.regions.crashed || !m.unsure.isEmpty then ({ m with lost := true }, []) else
    ({ m with rsBackend := toRS, regions := m.other, other := m.regions }, [])
  | _ =>
    if m.lost then (m, []) else
    -- an op other than a full load on a stopped process: give up tracking this sequence
    let isLoad := match ws with | "loadregions" :: _ => true | "loadonce" :: _ => true | _ => false
    -- LoadRegionsOnce: a full pruning load, unless it has already succeeded on this Storage object
    let once := match ws with | "loadonce" :: _ => true | _ => false
    if once && m.rsBackend && m.onceDone then (m, []) else
    let ws := if once then "loadregions" :: "prune" :: ws.drop 1 else ws
    let m := if once && okObs && m.rsBackend then { m with onceDone := true } else m
    if m.regions.crashed && !isLoad then ({ m with lost := true }, []) else
    match ws with
    | ["store", i, v] => (if okObs then { m with stores := C17.mput m.stores (natArg i) (natArg v) } else m, [])
    | ["stores", n, st, step] =>
      (if okObs then { m with stores := (List.range (natArg n)).foldl (fun s k => C17.mput s (natArg st + k * natArg step) 0) m.stores } else m, [])
    | ["delstore", i] => (if okObs then { m with stores := C17.merase m.stores (natArg i) } else m, [])
    | ["weight", i, l, r] =>
      (if okObs then { m with weights := m.weights.filter (fun e => e.1 != natArg i) ++ [(natArg i, (natArg l, natArg r))] } else m, [])
    | ["weights", n, st, step] =>
      (if okObs then { m with weights := (List.range (natArg n)).foldl (fun wt k =>
          weightsSave wt (natArg st + k * natArg step) (bits15 + k) (bits20 + k)) m.weights } else m, [])
    | ["race", i] => (if okObs then { m with regions := (m.regions.delete (natArg i)).flush } else m, [])
    | "loadstores" :: _ =>
      if !okObs then (m, []) else
      (m, judgeLoad "stores" (fun e => sitemSum e.2) (expectedStores m) impl ""
            (fun s => let x := parseSItem s; some (x.id, x)))
    | ["region", spec] =>
      match parseMeta spec with
      | some r => (if okObs then { m with regions := m.regions.save r.id r, unsure := m.unsure.filter (· != r.id) } else m, [])
      | none => (m, [])
    | ["failregion", spec] =>
      match parseMeta spec with
      | some r =>
        if okObs then ({ m with regions := m.regions.save r.id r, unsure := m.unsure.filter (· != r.id) }, [])
        else if impl == "err" then ({ m with regions := m.regions.save r.id r, unsure := r.id :: m.unsure }, [])
        else (m, [])
      | none => (m, [])
    | ["regions", n, st, step, width] =>
      (if okObs then { m with regions := trackBulk m.regions (natArg n) (natArg st) (natArg step) (natArg width), unsure := clearBulk m.unsure (natArg n) (natArg st) (natArg step) } else m, [])
    | ["delregion", i] =>
      (if okObs then { m with regions := m.regions.delete (natArg i), unsure := m.unsure.filter (· != natArg i) } else m, [])
    | ["flush"] | ["bgflush"] => (if okObs then onRS m (·.flush) else m, [])
    | ["close"] => (if okObs then { onRS m (·.flush) with onceDone := false } else m, [])
    | ["crash"] =>
      (if okObs then { onRS m (·.crash) with onceDone := false, lost := m.lost || !m.unsure.isEmpty || !m.rsBackend } else m, [])
    | ["loadregion", i] =>
      if !okObs || (m.rsBackend && m.regions.dirty) || m.unsure.contains (natArg i) then (m, []) else
      let exp := match C17.mget m.regions.cur (natArg i) with | some r => s!"ok {fmtMeta r}" | none => "ok none"
      (m, if impl == exp then [] else [s!"sig=C17.single-load-wrong id={natArg i} expected={exp} got={impl}"])
    | "loadregions" :: mode :: _ =>
      if !okObs then
        -- a load that failed part-way: nothing to judge, but what it pruned before the failure is gone
        if mode != "prune" then (m, []) else
        match field impl "ids", field impl "kids" with
        | some li, some ki =>
          let kids := parseIDs ki
          let gone := (parseIDs li).filter (fun i => !kids.contains i)
          ({ m with regions := gone.foldl (fun t i => t.delete i) m.regions }, [])
        | _, _ => (m, [])
      else
      let t := m.regions
      -- what the callback was given
      let (t1, fails1) :=
        if t.crashed then
          match field impl "items" with
          | some its =>
            let loaded := (parseItems its).filterMap parseMetaItem
            (t.settle loaded, if C17.checkAfterStop t loaded then [] else
              [s!"sig=C17.load-after-stop-wrong durable={t.dur.map (·.1)} pending={t.pend.map (·.1)} loaded={loaded.map (·.1)}"])
          | none => (t, [])   -- too large to judge; generators keep stopped sets small
        else if m.rsBackend && t.dirty then (t, [])
        else (t, judgeLoad "regions" (fun e => metaSum e.2) t.cur impl "" parseMetaItem m.unsure)
      if mode != "prune" then ({ m with regions := t1 }, fails1) else
      -- pruning: storage afterwards = cache, non-overlapping
      match field impl "citems", field impl "kitems", field impl "cids", field impl "kids" with
      | some cs, some ks, _, _ =>
        let cache := (parseItems cs).filterMap parseMetaItem
        let stor := (parseItems ks).filterMap parseMetaItem
        let fails2 := if C17.checkPrune (fun r => (r.startKey, r.endKey)) cache stor then [] else
          let onlyKv := (stor.map (·.1)).filter (fun i => !(cache.map (·.1)).contains i)
          let onlyCache := (cache.map (·.1)).filter (fun i => !(stor.map (·.1)).contains i)
          [s!"sig=C17.prune-storage-differs-from-cache onlykv={onlyKv} onlycache={onlyCache} cache={cache.length} storage={stor.length}"]
        -- what the load handed to the callback but is no longer stored has been deleted by the pruning
        let loadedIds := match field impl "ids" with | some x => parseIDs x | none => []
        let gone := loadedIds.filter (fun i => !(stor.any (fun e => e.1 == i)))
        let t2 := gone.foldl (fun t i => t.delete i) t1
        ({ m with regions := t2 }, fails1 ++ fails2)
      | _, _, some ci, some ki =>
        -- too large for the full item lists: compare the id lists and the checksums
        let cids := parseIDs ci
        let kids := parseIDs ki
        let fails2 :=
          if cids != kids then
            let onlyKv := kids.filter (fun i => !cids.contains i)
            let onlyCache := cids.filter (fun i => !kids.contains i)
            [s!"sig=C17.prune-storage-differs-from-cache onlykv={onlyKv} onlycache={onlyCache} cache={cids.length} storage={kids.length}"]
          else if natField impl "csum" != natField impl "ksum" then
            [s!"sig=C17.prune-storage-differs-from-cache content csum={natField impl "csum"} ksum={natField impl "ksum"}"]
          else []
        ({ m with regions := t1, lost := true }, fails1 ++ fails2)
      | _, _, _, _ => (m, [s!"sig=C17.unreadable-observation {impl}"])
    | _ => (m, [])

structure DState where
  world : World := {}
  mon   : Mon := {}

def step (d : DState) (opLine : String) (impl : String) : DState × StepOut :=
  let ws := words opLine
  let (w', out) := modelStep d.world ws
  let (mon', fails) := monitor d.mon ws impl
  ({ world := w', mon := mon' }, { model := out, fails := fails })

def main : IO UInt32 := runDriver ({} : DState) step

end PdModel.Driver.StorageLoad
