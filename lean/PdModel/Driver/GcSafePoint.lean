import PdModel.Driver.Common
import PdModel.Model.GcSafePoint
import PdModel.Spec.C15
import PdModel.Generated.GcSafePoint
/-!
Driver for area `gcsafepoint` (property C15).

Trace line: `<op> => <out> @<stored> r=<live requests> t=<service table>`.
The model side recomputes the whole observation; the monitor side judges only what the implementation
reported, with the proved checkers `Spec.C15.okNext` (cluster safe point, incremental) and
`Spec.C15.svcCheck` (service safe points).
-/
namespace PdModel.Driver.GcSafePoint
open PdModel.GcSafePoint PdModel.Driver PdModel.Spec

/-- op time 0 = this unix second (the harness moves the TSO there; far ahead of any wall clock) -/
def baseSec : Int := 4000000000

def gcId : String := PdModel.Generated.GcSafePoint.gcWorkerId

structure Mon where
  sum      : C15.Sum := {}
  nextAux  : Nat := 0             -- ids for set / get / burst requests
  table    : List C15.Rec := []   -- the table the implementation reported on the previous line
  states   : String := "-"        -- the request states the implementation reported on the previous line
  gargs    : List (String × Int × Nat × Nat) := []   -- (svc, ttl, sp, now) of the gated service requests

inductive SPhase where
  | waiting
  | atSave (w2 : W) (min : Entry) (e : Entry)
  | done (out : String) (reported : Bool)

structure SReq where
  svc   : String
  ttl   : Int
  sp    : Nat
  now   : Nat
  phase : SPhase

structure DState where
  c       : CSt
  queue   : List Nat := []        -- requests waiting for the mutex, first come first served
  ids     : List Nat := []        -- gated request number (as in the op lines) ↦ request index of the model
  table   : Table := []
  lastNow : Int := -1             -- the TSO only moves forward, across sequences too
  two     : Bool := false         -- `reset 2`: two servers, the leadership moves; no service requests
  sreqs   : List SReq := []       -- gated service requests
  sholder : Option Nat := none    -- who holds serviceSafePointLock
  squeue  : List Nat := []        -- who waits for it, first come first served
  mon     : Mon := {}

def fresh (lastNow : Int) (two : Bool := false) : DState :=
  { c := cinit PdModel.Generated.GcSafePoint.updateIsAtomic, lastNow := lastNow, two := two }

/-! ### printing -/

def idOut (s : String) : String := if s = "" then "-" else s
def idIn (s : String) : String := if s = "-" then "" else s

def expOut (e : Int) : String := if e = maxI64 then "inf" else toString (e - baseSec)

def tableOut (t : Table) : String :=
  if t.isEmpty then "-" else ",".intercalate (t.map fun e => s!"{idOut e.id}:{e.sp}:{expOut e.exp}")

def statesOut (c : CSt) (ids : List Nat) : String :=
  let rec go (i : Nat) : List Nat → List String
    | [] => []
    | k :: ks =>
      (match (c.reqs[k]?).map (·.phase) with
       | some .waiting => [s!"{i}B"]
       | some .atLoad => [s!"{i}L"]
       | some (.atSave _) => [s!"{i}S"]
       | _ => []) ++ go (i + 1) ks
  let l := go 0 ids
  if l.isEmpty then "-" else ",".intercalate l

def sstatesOut (l : List SReq) : List String :=
  let rec go (i : Nat) : List SReq → List String
    | [] => []
    | x :: xs =>
      (match x.phase with
       | .waiting => [s!"s{i}B"]
       | .atSave _ _ _ => [s!"s{i}S"]
       | .done _ false => [s!"s{i}D"]
       | .done _ true => []) ++ go (i + 1) xs
  go 0 l

def obs (d : DState) (out : String) : String :=
  let a := statesOut d.c d.ids
  let b := sstatesOut d.sreqs
  let r := if b.isEmpty then a else if a = "-" then ",".intercalate b else a ++ "," ++ ",".intercalate b
  s!"{out} @{d.c.stored} r={r} t={tableOut d.table}"

def errOut : SErr → String
  | .storage => "err-storage"
  | .removeGcWorker => "err-remove-gcworker"
  | .gcWorkerTtl => "err-gcworker-ttl"
  | .emptyId => "err-empty-id"
  | .invalidId => "err-invalid-id"

def coutStr : COut → String
  | .parkedLoad => "parked-load" | .parkedSave => "parked-save" | .blocked => "blocked"
  | .done a => s!"done {a}" | .err => "err-storage" | .bad => "bad-op" | .ok v => s!"ok {v}"

/-! ### the model side -/

def live (c : CSt) : Bool := c.reqs.any fun x => match x.phase with | .done _ => false | _ => true

/-- after a request has finished: the longest-waiting request gets the mutex -/
def grant (d : DState) : DState :=
  if d.c.atomic && d.c.holder.isNone then
    match d.queue with
    | r :: q => { d with c := (cstep d.c (.acquire r)).1, queue := q }
    | [] => d
  else d

def parseFault : String → Fault
  | "before" => .before
  | "after" => .after
  | _ => .none

/-- one whole update, no other request in flight -/
def atomicUpdate (c : CSt) (v : Nat) : CSt × COut :=
  let r := c.reqs.length
  let c1 := (cstep c (.begin v)).1
  let (c2, o) := cstep c1 (.load r .none)
  match o with
  | .parkedSave => cstep c2 (.save r .none)
  | _ => (c2, o)

/-- order in which the requests of a burst took effect, read off the acknowledgements -/
def burstOrder (vs acks : List Nat) : List Nat :=
  let idx := List.range vs.length
  let key (i : Nat) : Nat × Nat × Nat :=
    let v := vs.getD i 0
    let a := acks.getD i v
    (a, if v = a then 0 else 1, i)
  let lt (i j : Nat) : Bool :=
    let (a1, b1, c1) := key i
    let (a2, b2, c2) := key j
    a1 < a2 || (a1 == a2 && (b1 < b2 || (b1 == b2 && c1 ≤ c2)))
  (idx.toArray.qsort lt).toList

def soutStr (now : Nat) : SOut → String
  | .ok mid mttl msp =>
    let ttlS := if mttl = maxI64 - (baseSec + now) then "inf" else toString mttl
    s!"ok {idOut mid} {ttlS} {msp}"
  | .err e => errOut e

def svcOpen (d : DState) : Bool :=
  d.sreqs.any fun x => match x.phase with | .done _ true => false | _ => true

def setS (d : DState) (r : Nat) (ph : SPhase) : DState :=
  match d.sreqs[r]? with
  | some x => { d with sreqs := d.sreqs.set r { x with phase := ph } }
  | none => d

/-- request `r` has the lock: it runs up to its own write (or to its answer) -/
def runPre (d : DState) (r : Nat) : DState :=
  match d.sreqs[r]? with
  | none => d
  | some x =>
    match uspPre gcId d.table x.svc x.ttl x.sp (baseSec + x.now) 0 with
    | .fin t o => { setS d r (.done (soutStr x.now o) false) with table := t, sholder := none }
    | .save t2 w2 min e => { setS d r (.atSave w2 min e) with table := t2, sholder := some r }

/-- the lock is free: the longest-waiting requests get it, one after the other -/
def grantS : Nat → DState → DState
  | 0, d => d
  | fuel + 1, d =>
    if d.sholder.isSome then d
    else
      match d.squeue with
      | [] => d
      | q :: rest => grantS fuel (runPre { d with squeue := rest } q)

def chainId (j : Nat) : String :=
  let b := j / 3
  let pad := if b < 10 then "00" else if b < 100 then "0" else ""
  let base := s!"k{pad}{b}"
  match j % 3 with
  | 1 => base ++ "-1"
  | 2 => base ++ "-1x"
  | _ => base

def stepModel (d : DState) (ws : List String) (implOut : List String) : DState × String :=
  let bad := (d, obs d "bad-op")
  match ws with
  | ["upd", r, v] =>
    match r.toNat?, v.toNat? with
    | some r, some v =>
      if r ≠ d.ids.length then bad
      else
        let k := d.c.reqs.length
        let (c, o) := cstep d.c (.begin v)
        let d := { d with c := c, ids := d.ids ++ [k], queue := if o = .blocked then d.queue ++ [k] else d.queue }
        (d, obs d (coutStr o))
    | _, _ => bad
  | "step" :: r :: rest =>
    match r.toNat?, decide (rest.length ≤ 1) with
    | some r, true =>
      let f := parseFault (rest.headD "none")
      match d.ids[r]?.bind (fun k => (d.c.reqs[k]?).map (fun x => (k, x))) with
      | none => bad
      | some (r, x) =>
        match x.phase with
        | .done _ => bad
        | .waiting => (d, obs d "blocked")
        | .atLoad =>
          let (c, o) := cstep d.c (.load r f)
          let d := grant { d with c := c }
          (d, obs d (coutStr o))
        | .atSave _ =>
          let (c, o) := cstep d.c (.save r f)
          let d := grant { d with c := c }
          (d, obs d (coutStr o))
    | _, _ => bad
  | ["cancel", r] =>
    -- the caller's context is cancelled while the request is in flight: the handler does not look at it,
    -- nothing changes and nothing is answered (the observation is the request's current position)
    match r.toNat? with
    | some r =>
      match d.ids[r]?.bind (fun k => d.c.reqs[k]?) with
      | none => bad
      | some x =>
        match x.phase with
        | .done _ => bad
        | .waiting => (d, obs d "blocked")
        | .atLoad => (d, obs d "parked-load")
        | .atSave _ => (d, obs d "parked-save")
    | none => bad
  | ["set", v] =>
    match v.toNat? with
    | some v =>
      if live d.c then bad
      else
        let (c, o) := atomicUpdate d.c v
        let d := { d with c := c }
        (d, obs d (coutStr o))
    | none => bad
  | ["get"] =>
    let (c, o) := cstep d.c .get
    let d := { d with c := c }
    (d, obs d (coutStr o))
  | "burst" :: vs =>
    if vs.isEmpty || live d.c || vs.any (fun s => s.toNat?.isNone) then bad
    else
      let vals := vs.map natArg
      let acks := (implOut.drop 1).map natArg
      let order := burstOrder vals (if implOut.head? = some "acks" ∧ acks.length = vals.length then acks else vals)
      let (c, res) := order.foldl (fun (acc : CSt × List (Nat × String)) i =>
        let (c, o) := atomicUpdate acc.1 (vals.getD i 0)
        (c, acc.2 ++ [(i, match o with | .done a => toString a | _ => coutStr o)])) (d.c, [])
      let outs := (List.range vals.length).map fun i => ((res.find? (·.1 = i)).map (·.2)).getD "?"
      let d := { d with c := c }
      (d, obs d ("acks " ++ " ".intercalate outs))
  | ["lead", m] =>
    match m.toNat? with
    | some m => if d.two ∧ m < 2 ∧ !live d.c then (d, obs d "ok") else bad
    | none => bad
  | ["gusp", r, svc, ttl, sp, now] =>
    match r.toNat?, ttl.toInt?, sp.toNat?, now.toNat? with
    | some r, some ttl, some sp, some now =>
      if d.two || r ≠ d.sreqs.length || (now : Int) < d.lastNow || (svcOpen d && (now : Int) ≠ d.lastNow) then bad
      else
        let nr : SReq := { svc := idIn svc, ttl := ttl, sp := sp, now := now, phase := .waiting }
        let d : DState := { d with sreqs := d.sreqs ++ [nr], lastNow := now }
        if d.sholder.isSome then
          let d := { d with squeue := d.squeue ++ [r] }
          (d, obs d "blocked")
        else
          let d := runPre d r
          match (d.sreqs[r]?).map SReq.phase with
          | some (SPhase.done o _) => let d := setS d r (.done o true); (d, obs d o)
          | some (SPhase.atSave _ _ _) => (d, obs d "parked-save")
          | _ => (d, obs d "blocked")
    | _, _, _, _ => bad
  | ["sstep", r] =>
    match r.toNat?.bind (fun r => (d.sreqs[r]?).map fun x => (r, x)) with
    | none => bad
    | some (r, x) =>
      match x.phase with
      | .waiting => (d, obs d "blocked")
      | .done _ true => bad
      | .done o false => let d := setS d r (.done o true); (d, obs d o)
      | .atSave w2 min e =>
        let (t, o) := uspPost gcId d.table w2 min e (baseSec + x.now)
        let os := soutStr x.now o
        let d := grantS d.sreqs.length { setS d r (.done os true) with table := t, sholder := none }
        (d, obs d os)
  | ["bulk", n, sp0, exp] =>
    let e : Option Int := if exp = "inf" then some maxI64 else exp.toInt?.map (· + baseSec)
    match n.toNat?, sp0.toNat?, e with
    | some n, some sp0, some e =>
      if d.two || svcOpen d || n > 600 || sp0 > 1099511627776 then bad
      else
        let t := (List.range n).foldl (fun t j => tput t { id := chainId j, sp := sp0 + j * 37 % 101, exp := e }) d.table
        let d := { d with table := t }
        (d, obs d "ok")
    | _, _, _ => bad
  | ["list"] =>
    if d.two || svcOpen d then bad else (d, obs d s!"list {d.table.length}")
  | "usp" :: svc :: ttl :: sp :: now :: rest =>
    if d.two || svcOpen d then bad else
    match ttl.toInt?, sp.toNat?, now.toNat?, rest with
    | some ttl, some sp, some now, rest =>
      let failAt : Option Nat := match rest with
        | [] => some 0
        | [f] => f.toInt?.map Int.toNat
        | _ => none
      match failAt with
      | none => bad
      | some failAt =>
        if (now : Int) < d.lastNow then bad
        else
          let (t, o) := usp gcId d.table (idIn svc) ttl sp (baseSec + now) failAt
          let d := { d with table := t, lastNow := now }
          let out := match o with
            | .ok mid mttl msp =>
              let ttlS := if mttl = maxI64 - (baseSec + now) then "inf" else toString mttl
              s!"ok {idOut mid} {ttlS} {msp}"
            | .err e => errOut e
          (d, obs d out)
    | _, _, _, _ => bad
  | ["del", svc] =>
    if d.two || svcOpen d then bad else
    let (t, e) := del gcId d.table (idIn svc)
    let d := { d with table := t }
    (d, obs d (match e with | none => "ok" | some e => errOut e))
  | ["raw", svc, sp, exp] =>
    let e : Option Int := if exp = "inf" then some maxI64 else exp.toInt?.map (· + baseSec)
    match sp.toNat?, e with
    | some sp, some e =>
      if !validId (idIn svc) || d.two || svcOpen d then bad
      else
        let d := { d with table := tput d.table { id := svc, sp := sp, exp := e } }
        (d, obs d "ok")
    | _, _ => bad
  | _ => bad

/-! ### the monitor side -/

structure Impl where
  out    : List String
  states : String
  stored : Option Nat
  table  : Option (List C15.Rec)   -- none = some record unreadable or stored under a foreign key

def parseRec (s : String) : Option C15.Rec :=
  if s.contains '=' then none
  else
    match (s.splitOn ":").reverse with
    | exp :: sp :: idRev =>
      let id := ":".intercalate idRev.reverse
      let e : Option Int := if exp = "inf" then some C15.never else exp.toInt?.map (· + baseSec)
      match sp.toNat?, e with
      | some sp, some e => some ⟨idIn id, sp, e⟩
      | _, _ => none
    | _ => none

def parseImpl (impl : String) : Impl :=
  let ws := words impl
  let out := ws.takeWhile (fun w => !w.startsWith "@")
  let st := (ws.find? (·.startsWith "@")).bind fun w => (w.drop 1).toNat?
  let tb := (ws.find? (·.startsWith "t=")).map fun w => (w.drop 2).toString
  let table : Option (List C15.Rec) :=
    match tb with
    | none => some []
    | some "-" => some []
    | some s => (s.splitOn ",").mapM parseRec
  let rs := ((ws.find? (·.startsWith "r=")).map fun w => (w.drop 2).toString).getD "-"
  { out := out, states := rs, stored := st, table := table }

/-- feed cluster events to the proved incremental checker -/
def feed (m : Mon) (evs : List C15.Ev) : Mon × List String :=
  evs.foldl (fun (acc : Mon × List String) e =>
    let ok := C15.okNext acc.1.sum e
    let msg := if ok then [] else
      match e with
      | .stored v => [s!"sig=C15.cluster-stored-decreased to={v} after={acc.1.sum.maxStored}"]
      | .resp r v => [s!"sig=C15.cluster-response-below-earlier-ack req={r} value={v} acked-before={acc.1.sum.maxResp}"]
      | .begin _ => []
    ({ acc.1 with sum := acc.1.sum.push e }, acc.2 ++ msg)) (m, [])

def monitor (m : Mon) (ws : List String) (impl : String) : Mon × List String :=
  let im := parseImpl impl
  let doneVal : Option Nat := match im.out with | ["done", a] => a.toNat? | _ => none
  -- cluster events of this line
  let (m, evs) : Mon × List C15.Ev :=
    match ws with
    | ["upd", r, _] =>
      if im.out = ["bad-op"] then (m, []) else (m, [.begin (2 * natArg r)])
    | "step" :: r :: _ =>
      (m, match doneVal with | some a => [.resp (2 * natArg r) a] | none => [])
    | ["set", _] =>
      if im.out = ["bad-op"] then (m, [])
      else
        let id := 2 * m.nextAux + 1
        ({ m with nextAux := m.nextAux + 1 },
         [.begin id] ++ (match doneVal with | some a => [.resp id a] | none => []))
    | ["get"] =>
      let id := 2 * m.nextAux + 1
      ({ m with nextAux := m.nextAux + 1 },
       [.begin id] ++ (match im.out with | ["ok", v] => (v.toNat?.map fun v => [C15.Ev.resp id v]).getD [] | _ => []))
    | "burst" :: vs =>
      match im.out with
      | "acks" :: as =>
        let n := vs.length
        let ids := (List.range n).map fun i => 2 * (m.nextAux + i) + 1
        let resps := (ids.zip as).filterMap fun (id, a) => a.toNat?.map fun a => C15.Ev.resp id a
        ({ m with nextAux := m.nextAux + n }, ids.map C15.Ev.begin ++ resps)
      | _ => (m, [])
    | _ => (m, [])
  let (m, f1) := feed m evs
  let (m, f2) : Mon × List String :=
    match im.stored with
    | some v => feed m [.stored v]
    | none => (m, ["sig=C15.cluster-stored-unreadable"])
  -- service observation
  let m := match ws with
    | ["gusp", _, svc, ttl, sp, now] =>
      if im.out = ["bad-op"] then m else { m with gargs := m.gargs ++ [(idIn svc, intArg ttl, natArg sp, natArg now)] }
    | _ => m
  let judge (svc : String) (ttl : Int) (sp now msp : Nat) (faulted : Bool) (after : List C15.Rec) : List String :=
    let o : C15.Obs := { gcWorker := gcId, svc := svc, ttl := ttl, sp := sp, now := baseSec + now,
                         minSp := msp, before := m.table, after := after }
    let d := s!"svc={idOut svc} ttl={ttl} sp={sp} now={now} min={msp}"
    (if C15.chkMin o then [] else [s!"sig=C15.service-min-above-live {d}"]) ++
    (if C15.chkGc o then [] else [s!"sig=C15.service-gcworker-missing-or-finite {d}"]) ++
    (if faulted || C15.chkBelow o then [] else [s!"sig=C15.service-below-min-recorded {d}"]) ++
    (if faulted || C15.chkExpired o then [] else [s!"sig=C15.service-expired-or-removed-still-present {d}"])
  let f3 : List String :=
    match im.table with
    | none => ["sig=C15.service-record-unreadable-or-under-foreign-key"]
    | some after =>
      match ws, im.out with
      | "usp" :: svc :: ttl :: sp :: now :: rest, ["ok", _, _, msp] =>
        match ttl.toInt?, sp.toNat?, now.toNat?, msp.toNat? with
        | some ttl, some sp, some now, some msp =>
          judge (idIn svc) ttl sp now msp (match rest with | [f] => f ≠ "0" | _ => false) after
        | _, _, _, _ => []
      | ["gusp", _, svc, ttl, sp, now], ["ok", _, _, msp] =>
        -- answered at once: nothing else was in flight in between
        match ttl.toInt?, sp.toNat?, now.toNat?, msp.toNat? with
        | some ttl, some sp, some now, some msp => judge (idIn svc) ttl sp now msp false after
        | _, _, _, _ => []
      | ["sstep", r], ["ok", _, _, msp] =>
        -- the answer of a request whose write was released on this line (it was parked on the line before)
        if (("," ++ m.states ++ ",").splitOn s!",s{r}S,").length > 1 then
          match m.gargs[natArg r]?, msp.toNat? with
          | some (svc, ttl, sp, now), some msp => judge svc ttl sp now msp false after
          | _, _ => []
        else []
      | _, _ => []
  -- gc_worker's registration is never removed, whatever the request and the interface
  let f4 : List String :=
    match ws, im.table with
    | "reset" :: _, _ => []
    | _, some after =>
      if C15.chkKept gcId m.table after then [] else
        [s!"sig=C15.service-gcworker-registration-removed op={" ".intercalate ws} out={" ".intercalate im.out}"]
    | _, none => []
  let m := match ws with
    | "reset" :: _ => { m with sum := {}, table := im.table.getD [], states := im.states, gargs := [] }
    | _ => { m with table := im.table.getD m.table, states := im.states }
  (m, f1 ++ f2 ++ f3 ++ f4)

def step (d : DState) (opLine : String) (impl : String) : DState × StepOut :=
  let ws := words opLine
  match ws with
  | ["reset"] =>
    let d' := fresh d.lastNow
    let (mon', fails) := monitor { d.mon with sum := {}, gargs := [] } ws impl
    ({ d' with mon := mon' }, { model := obs d' "ok", fails := fails })
  | ["reset", "2"] =>
    let d' := fresh d.lastNow true
    let (mon', fails) := monitor { d.mon with sum := {}, gargs := [] } ws impl
    ({ d' with mon := mon' }, { model := obs d' "ok", fails := fails })
  | _ =>
    let im := parseImpl impl
    let (d', o) := stepModel d ws im.out
    let (mon', fails) := monitor d.mon ws impl
    ({ d' with mon := mon' }, { model := o, fails := fails })

def main : IO UInt32 := runDriver (fresh (-1)) step

end PdModel.Driver.GcSafePoint
