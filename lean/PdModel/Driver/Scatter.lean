import PdModel.Driver.ClusterParse
import PdModel.Model.Scatter
import PdModel.Spec.C11
import PdModel.Generated.Scatter
/-!
Driver for area `scatter` (property C11).

  <description line>                       => ok
  scatter <region> <group> seed=… [want=…] => stores=… guard=… order=…/… lorder=… | none | op … | err:…
  counters                                 => the history counters, sorted
  sched <type> [<store>]                   => none | op … ;; op …

Model side (`scatter`): the iteration orders, the store order and – with placement rules on – the
safeguard verdicts are taken from the implementation's observation as inputs; the request
(target peers, leader) the model derives must be what the operator does to the region, and the counters
must agree.  Scheduler operators are judged by the monitor only.
Monitor side: `Spec.C11.check` on every operator's steps.
-/
namespace PdModel.Driver.Scatter
open PdModel.Driver PdModel.Driver.ClusterParse PdModel.Spec.C10 PdModel.Filters PdModel.Scatter

/-- does the tree under test carry the F4 repair?  (read off the extracted call-site table) -/
def repaired : Bool :=
  PdModel.Generated.Scatter.schedulerSites.any (fun cs =>
    cs.1 == "server/schedule/region_scatterer.go:RegionScatterer.scatterRegion" &&
    cs.2.2.contains "ExcludedFilter(otherStores)")

structure DState where
  desc  : Desc := Desc.init
  state : State := {}

def insertStr (x : String) : List String → List String
  | [] => [x]
  | y :: ys => if x ≤ y then x :: y :: ys else y :: insertStr x ys

def sortStr (l : List String) : List String := l.foldr insertStr []

def renderCounters (s : State) : String :=
  let dump (engine kind : String) (c : PdModel.Scatter.Counters) : List String :=
    c.flatMap (fun g => g.2.map (fun e => s!"{engine}.{kind}.{g.1}.{e.1}={e.2}"))
  let l := dump "" "peer" s.ordinary.selectedPeer ++ dump "" "leader" s.ordinary.selectedLeader ++
    (match s.tiflash with
     | none => []
     | some c => dump "tiflash" "peer" c.selectedPeer ++ dump "tiflash" "leader" c.selectedLeader)
  match sortStr l with
  | [] => "-"
  | l => " ".intercalate l

def natList (s : String) : List Nat := (listOf s "+").map natArg

def parseGuard (s : String) : List (Nat × List Nat) :=
  (listOf s ";").filterMap (fun e =>
    match e.splitOn ":" with
    | [a, b] => some (natArg a, natList b)
    | _ => none)

def isPerm (a b : List Nat) : Bool :=
  a.length == b.length && a.all (b.contains ·) && b.all (a.contains ·)

def plus (l : List Nat) : String := if l.isEmpty then "-" else "+".intercalate (l.map toString)

def insertSorted (x : Nat) : List Nat → List Nat
  | [] => [x]
  | y :: ys => if x ≤ y then x :: y :: ys else y :: insertSorted x ys

def sortNat (l : List Nat) : List Nat := l.foldr insertSorted []

/-- placement as sorted `store:kind` (kind 1 = learner) -/
def placement (peers : List Peer) : List (Nat × Nat) :=
  (sortNat (peers.map (·.store))).filterMap (fun st =>
    (peers.find? (·.store == st)).map (fun p => (st, if p.isLearner then 1 else 0)))

/-- the first transfer step the spec rejects, described -/
def badTransfer (x : PdModel.Spec.C11.Input) : Region → List Step → String
  | _, [] => "-"
  | r, .transfer t :: rest =>
    if PdModel.Spec.C11.transferOK x r t then badTransfer x (applyStep r (.transfer t)) rest
    else
      let why :=
        if (match r.storePeer t with | some p => p.isLearner | none => true) then "not-a-voter"
        else if r.leaderStore == t then "same-store"
        else "store-refuses-leaders"
      let st := match findStore x.stores t with
        | some s => s!"state={s.state},down={s.downSecs},pause={s.pauseLeader},reject-label={s.labels.any (fun kv => x.rejectLeader.contains kv)}"
        | none => "missing"
      s!"to={t} why={why} store={st} origin-leader={if x.region.leaderStore == t then 1 else 0}"
  | r, s :: rest => badTransfer x (applyStep r s) rest

def monitorOp (d : Desc) (impl : String) : List String :=
  match parseOp impl with
  | none => []
  | some (desc, rid, steps) =>
    match d.region rid with
    | none => [s!"sig=C11.operator-for-unknown-region desc={desc} r={rid}"]
    | some r =>
      let x : PdModel.Spec.C11.Input :=
        { conf := d.opts.conf, stores := d.stores, region := r, rejectLeader := d.opts.rejectLeader,
          forced := desc == "grant-leader" }
      let after := applySteps r steps
      (if PdModel.Spec.C11.checkCounts x steps then [] else
        [s!"sig=C11.role-counts-changed desc={desc} voters={r.voters.length}->{after.voters.length} learners={r.learners.length}->{after.learners.length}"]) ++
      (if PdModel.Spec.C11.checkDistinct x steps then [] else [s!"sig=C11.two-peers-on-one-store desc={desc}"]) ++
      (if PdModel.Spec.C11.checkTargets x steps then [] else
        [s!"sig=C11.bad-move-target desc={desc} adds={addedStores steps}"]) ++
      (if PdModel.Spec.C11.transfersOK x r steps then [] else
        [s!"sig=C11.bad-leader-transfer desc={desc} {badTransfer x r steps}"])

def scatterStep (d : DState) (rid : Nat) (group : String) (dry : Bool) (impl : String) : DState × StepOut :=
  match d.desc.region rid with
  | none => (d, { model := "no-region" })
  | some r =>
    if impl.startsWith "err:[" then (d, { model := impl }) else   -- the rule set was refused: nothing ran
    if r.peers.any (fun p => (findStore d.desc.stores p.store).isNone) then (d, { model := "unknown-store" }) else
    let (pre, res) := match impl.splitOn " | " with
      | [a, b] => (a, b)
      | _ => ("", impl)
    -- the monitor judges the implementation's operator whatever the model makes of the call
    let fails := monitorOp d.desc res
    let toks := words pre
    let field (k : String) : String := (toks.filterMap (fun t => let (a, b) := kv t; if a == k then some b else none)).headD ""
    let storeOrder := natList (field "stores")
    let o := d.desc.opts
    let stores := d.desc.stores
    -- the safeguard verdicts: computed when placement rules are off, taken as input otherwise
    let implGuard := parseGuard (field "guard")
    let guardFn : Nat → Nat → Bool :=
      if d.desc.rules then fun s t => ((implGuard.find? (·.1 == s)).map (·.2.contains t)).getD false
      else locationGuard o stores r
    let guardStr := if r.peers.isEmpty then "-" else ";".intercalate (r.peers.map (fun p =>
      s!"{p.store}:{plus ((sortNat (stores.map (·.id))).filter (guardFn p.store))}"))
    let head := s!"stores={field "stores"} guard={guardStr}"
    if !isPerm storeOrder (stores.map (·.id)) then (d, { model := "bad-store-order", fails := fails }) else
    -- pre-checks
    let pre? : Option String :=
      if d.desc.rules then
        if res == "err:not-replicated" then some res     -- FitRegion(region).IsSatisfied(): property C12
        else if r.leaderPeer.isNone then some "err:no-leader" else none
      else precheck o r
    match pre? with
    | some e => (d, { model := s!"{head} | {e}", fails := fails })
    | none =>
      let (ordS, spS) := match (field "order").splitOn "/" with
        | [a, b] => (natList a, natList b)
        | _ => ([], [])
      let lorder := natList (field "lorder")
      let ordPeers := r.peers.filter (isOrdinaryPeer stores)
      let spPeers := r.peers.filter (fun p => !(isOrdinaryPeer stores p))
      if !(isPerm ordS (ordPeers.map (·.store)) && isPerm spS (spPeers.map (·.store))) then
        (d, { model := s!"{head} bad-peer-order", fails := fails })
      else
        let ordered := storeOrder.filterMap (findStore stores)
        let (tp1, _) := scatterGroup repaired o ordered r group d.state.ordinary false guardFn (ordS.filterMap r.storePeer) ([], [])
        if !isPerm lorder (tp1.map (·.1)) then (d, { model := s!"{head} bad-leader-order expected-perm-of={plus (tp1.map (·.1))}", fails := fails })
        else
          let built := (parseOp res).isSome
          let mk (pick : Nat) : Choices :=
            { storeOrder := storeOrder, guard := guardFn, order := ordS, sorder := spS, lorder := lorder,
              leaderPick := pick, built := built }
          let implFinal := (parseOp res).map (fun (_, _, steps) => applySteps r steps)
          -- find the random leader pick the implementation made (only matters without a leader candidate)
          let picks := List.range (r.peers.length + 1)
          let pick := (picks.find? (fun k =>
            match implFinal with
            | some fin => (plan repaired o stores d.state r group (mk k)).1.leader == fin.leaderStore
            | none => true)).getD 0
          let ch := mk pick
          let (q, _) := plan repaired o stores d.state r group ch
          let (out, st') := scatter repaired o stores d.state r group ch
          let orders := s!"order={plus ordS}/{plus spS} lorder={plus lorder}"
          let want := s!"targets={placement (q.targets.map (·.2))} leader={q.leader}"
          let model :=
            match out, implFinal with
            | some q, some fin =>
              if placement fin.peers == placement (q.targets.map (·.2)) && fin.leaderStore == q.leader then
                s!"{head} {orders} | {res}"
              else s!"{head} {orders} | op-with {want}"
            | none, none => s!"{head} {orders} | none"
            | none, some _ => s!"{head} {orders} | none-expected {want}"
            | some _, none => s!"{head} {orders} | none"   -- unreachable: built = false
          ({ d with state := if dry then d.state else st' }, { model := model, fails := fails })

def step (d : DState) (opLine : String) (impl : String) : DState × StepOut :=
  let ws := words opLine
  match ws with
  | ["reset"] => ({}, { model := "ok" })
  | ["counters"] => (d, { model := renderCounters d.state })
  | ["flow", _, _, _] => (d, { model := "ok" })     -- flow fed to the hot-region schedulers (no model)
  | ["sflow", _, _, _] => (d, { model := "ok" })
  | "scatter" :: rid :: group :: rest => scatterStep d (natArg rid) (dash group) (rest.contains "dry=1") impl
  | "scatteraged" :: rid :: group :: sid :: _ =>
    -- the store has been silent for exactly the disconnect time when the (long-lived) scatterer decides
    let d' := { d with desc := { d.desc with stores := d.desc.stores.map (fun s =>
      if s.id == natArg sid then { s with downSecs := 20 } else s) } }
    scatterStep d' (natArg rid) (dash group) false impl
  | "scatter2" :: ridX :: gX :: ridY :: gY :: _ =>
    -- two overlapping requests: X parked inside selectCandidates (after it built its filter list, before it
    -- read any counter) while Y runs completely = Y, then X; observation `<Y> ;; <X>`
    match impl.splitOn " ;; " with
    | [obsY, obsX] =>
      let (d1, outY) := scatterStep d (natArg ridY) (dash gY) false obsY
      let (d2, outX) := scatterStep d1 (natArg ridX) (dash gX) false obsX
      (d2, { model := outY.model ++ " ;; " ++ outX.model, fails := outY.fails ++ outX.fails })
    | _ => (d, { model := "bad-scatter2" })
  | ["put", group, leader, sts] =>
    -- RegionScatterer.Put: an earlier decision of the group
    let ids := natList sts
    if impl.startsWith "err:[" then (d, { model := impl })   -- the rule set was refused: nothing ran
    else if ids.any (fun i => (findStore d.desc.stores i).isNone) then (d, { model := "unknown-store" })
    else if ids.any (fun i => match findStore d.desc.stores i with | some s => !(ordinaryEngine s) | none => false) then
      (d, { model := "special-store" })
    else ({ d with state := putAll d.desc.stores d.state ids (natArg leader) (dash group) }, { model := "ok" })
  | "sched" :: _ =>
    -- scheduler operators: no model, every operator is judged by the monitor
    let ops := impl.splitOn " ;; "
    (d, { model := impl, fails := ops.flatMap (monitorOp d.desc) })
  | _ =>
    match d.desc.apply ws with
    | some desc => ({ d with desc := desc }, { model := "ok" })
    | none => (d, { model := "bad-op" })

def main : IO UInt32 := runDriver ({} : DState) step

end PdModel.Driver.Scatter
