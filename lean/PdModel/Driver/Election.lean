import PdModel.Driver.Common
import PdModel.Model.Election
import PdModel.Spec.C03
/-!
Driver for area `election` (property C03).

Trace line: `<op> => <out> | <keys> | live=<leases> | <contenders>`
  keys        `L0=2/3 T0=1/0 …`   present keys in key order: value/lease  (`-` if none)
  leases      `1,3`               live lease numbers (grant order)       (`-` if none)
  contenders  `c0=k0,m2,v2,l3/60/t77,ca0,ti0,chk1 …`  (lease `-` = no lease object; expire u|c|t<abs>)

The model side recomputes the whole line.  The monitor side parses the *implementation's* line into
the observation vocabulary of `Spec.C03` and applies the proved checkers; it keeps only what the
implementation reported (plus the op inputs), never the model state.
-/
namespace PdModel.Driver.Election
open PdModel.Election PdModel.Driver PdModel.Spec

/-! ### syntax -/

def parseKey (s : String) : Option Key :=
  let body := (s.drop 1).toString
  let two : Option (Nat × Nat) :=
    match body.splitOn "." with
    | [a, b] => match a.toNat?, b.toNat? with | some x, some y => some (x, y) | _, _ => none
    | _ => none
  match s.toList.head? with
  | some 'L' => body.toNat?.map Key.leader
  | some 'N' => body.toNat?.map Key.next
  | some 'T' => body.toNat?.map Key.ts
  | some 'I' => body.toNat?.map Key.allocId
  | some 'P' => two.map fun (a, b) => Key.prio a b
  | some 'C' => two.map fun (a, b) => Key.dcloc a b
  | some 'E' => if body.isEmpty then some Key.enc else none
  | some 'S' => body.toNat?.map Key.scratch
  | _ => none

def Key.code : Key → Nat × Nat × Nat
  | .leader l => (0, l, 0) | .next l => (1, l, 0) | .ts l => (2, l, 0) | .allocId l => (3, l, 0)
  | .prio l m => (4, l, m) | .dcloc l m => (5, l, m) | .enc => (6, 0, 0) | .scratch n => (7, n, 0)

def Key.show : Key → String
  | .leader l => s!"L{l}" | .next l => s!"N{l}" | .ts l => s!"T{l}" | .allocId l => s!"I{l}"
  | .prio l m => s!"P{l}.{m}" | .dcloc l m => s!"C{l}.{m}" | .enc => "E" | .scratch n => s!"S{n}"

def codeLt (a b : Nat × Nat × Nat) : Bool :=
  a.1 < b.1 || (a.1 == b.1 && (a.2.1 < b.2.1 || (a.2.1 == b.2.1 && a.2.2 < b.2.2)))

def insertKey (k : Key) : List Key → List Key
  | [] => [k]
  | a :: l => if a = k then a :: l else if codeLt (Key.code k) (Key.code a) then k :: a :: l else a :: insertKey k l

def parseFault : String → Fault
  | "before" => .errBefore
  | "after" => .errAfter
  | _ => .none

def parseList {α} (f : String → Option α) (s : String) : Option (List α) :=
  if s == "-" then some [] else (s.splitOn ",").mapM f

def parseCmp (s : String) : Option Cmp :=
  match s.splitOn ":" with
  | ["A", k] => (parseKey k).map Cmp.absent
  | ["V", k, v] => match parseKey k, v.toNat? with | some k, some v => some (.valueEq k v) | _, _ => none
  | _ => none

def parseEOp (s : String) : Option EOp :=
  match s.splitOn ":" with
  | ["D", k] => (parseKey k).map EOp.del
  | ["P", k, v, l] =>
    match parseKey k, v.toNat?, l.toNat? with
    | some k, some v, some l => some (.put k v l)
    | _, _, _ => none
  | _ => none

def parseW (s : String) : Option WKind :=
  match s.splitOn ":" with
  | ["pp", m, v] => match m.toNat?, v.toNat? with | some m, some v => some (.prioPut m v) | _, _ => none
  | ["pd", m] => m.toNat?.map WKind.prioDel
  | ["dd", m] => m.toNat?.map WKind.dcDel
  | ["ts"] => some .tsSync
  | ["id"] => some .idRebase
  | ["enc"] => some .encRotate
  | _ => none

def parseRv (s : String) : Bool := s != "rv0"

def parseOp (ws : List String) : Option Op :=
  let on (i : String) (a : LOp) : Option Op := some (.on (natArg i) a)
  match ws with
  | ["new", k, m] => some (.new (natArg k) (natArg m))
  | ["clock", i, t] => on i (.clock (natArg t))
  | ["campaign", i, ttl, ex, f, rv] =>
    (parseList parseCmp ex).bind fun ex => on i (.campaign (natArg ttl) ex (parseFault f) (parseRv rv))
  | ["gcampaign", i, ttl, ex] => (parseList parseCmp ex).bind fun ex => on i (.gcampaign (natArg ttl) ex)
  | ["finish", i, f, rv] => on i (.finish (parseFault f) (parseRv rv))
  | ["keep", i] => on i .keep
  | ["expire", id] => some (.expire (natArg id))
  | ["resetl", i, rv] => on i (.resetl (parseRv rv))
  | ["gresetl", i, w, k] =>
    if (w == "pre" || w == "post") && (k == "reset" || k == "leader") then on i (.gresetl (w == "pre") (k == "leader")) else none
  | ["rfinish", i, rv] => on i (.rfinish (parseRv rv))
  | ["delkey", i, f, rv] => on i (.delkey (parseFault f) (parseRv rv))
  | ["write", i, w, f] => (parseW w).bind fun w => on i (.write w (parseFault f))
  | ["idalloc", i, f] => on i (.idalloc (parseFault f))
  | ["check", i] => on i .check
  | ["isleader", i] => on i .isleader
  | ["tso", i] => on i .tso
  | ["enable", i] => on i .enable
  | ["unset", i] => on i .unset
  | ["observe", i] => on i .observe
  | ["unwatch", i] => on i .unwatch
  | ["tsoreset", i] => on i .tsoreset
  | ["stepdown", i, rv] => on i (.stepdown (parseRv rv))
  | ["crash", i] => on i .crash
  | ["rawgrant"] => some .rawgrant
  | ["rawtxn", c, t, e] =>
    match parseList parseCmp c, parseList parseEOp t, parseList parseEOp e with
    | some c, some t, some e =>
      -- raw transactions may not touch the opaque-valued keys
      if (t ++ e).all fun o => match o.key with | .ts _ | .allocId _ | .enc => false | _ => true
      then some (.rawtxn c t e) else none
    | _, _, _ => none
  | _ => none

/-! ### the model's line -/

def Cmp.key : Cmp → Key
  | .absent k => k
  | .valueEq k _ => k

/-- keys an op may write or compare (so that the dump lists them) -/
def touched (s : St) : Op → List Key
  | .on i (.campaign _ ex _ _) | .on i (.gcampaign _ ex) =>
    match s.conts[i]? with | some c => Key.leader c.key :: ex.map Cmp.key | none => []
  | .on i (.write w _) =>
    match s.conts[i]? with
    | some c => (writeTxn ⟨s.etcd, s.stamp, c⟩ w).2.map EOp.key
    | none => []
  | .on i (.idalloc _) =>
    match s.conts[i]? with | some c => [Key.allocId c.key] | none => []
  | .rawtxn c t e => c.map Cmp.key ++ (t ++ e).map EOp.key
  | _ => []

def showExpire : Expire → String
  | .unset => "u" | .closed => "c" | .at t => s!"t{t}"

def showCont (i : Nat) (c : Cont) : String :=
  let l := match c.lease with
    | none => "-"
    | some l => s!"{l.id}/{l.ttl}/{showExpire l.expire}"
  s!"c{i}=k{c.key},m{c.member},v{c.value},l{l},ca{c.cache},ti{if c.tsoInit then 1 else 0},chk{if c.check then 1 else 0}"

def orDash (l : List String) (sep : String) : String := if l.isEmpty then "-" else sep.intercalate l

def dump (s : St) (keys : List Key) : String :=
  let kvs := keys.filterMap fun k => (s.etcd.kv k).map fun e => s!"{Key.show k}={e.val}/{e.lease}"
  let live := ((List.range (s.etcd.granted + 1)).filter s.etcd.live).map toString
  let cs := (List.range s.conts.length).filterMap fun i => (s.conts[i]?).map (showCont i)
  s!"{orDash kvs " "} | live={orDash live ","} | {orDash cs " "}"

/-! ### the implementation's line, parsed -/

structure ImplCont where
  key : Nat := 0
  member : Nat := 0
  value : Nat := 0
  hasLease : Bool := false
  lease : Nat := 0
  cache : Nat := 0
  tsoInit : Bool := false
  check : Bool := false

def afterPrefix (p : String) (s : String) : Option String :=
  if s.startsWith p then some (s.drop p.length).toString else none

def parseImplCont (s : String) : Option ImplCont :=
  match s.splitOn "=" with
  | [_, body] =>
    match body.splitOn "," with
    | [k, m, v, l, ca, ti, chk] =>
      match afterPrefix "k" k, afterPrefix "m" m, afterPrefix "v" v, afterPrefix "l" l,
            afterPrefix "ca" ca, afterPrefix "ti" ti, afterPrefix "chk" chk with
      | some k, some m, some v, some l, some ca, some ti, some chk =>
        let (has, id) := if l == "-" then (false, 0) else (true, natArg ((l.splitOn "/").headD "0"))
        some { key := natArg k, member := natArg m, value := natArg v, hasLease := has, lease := id,
               cache := natArg ca, tsoInit := ti == "1", check := chk == "1" }
      | _, _, _, _, _, _, _ => none
    | _ => none
  | _ => none

structure Impl where
  out   : String := ""
  kvStr : String := ""          -- raw keys + leases part (for "unchanged")
  kv    : List (Key × Nat × Nat) := []
  live  : List Nat := []
  conts : List ImplCont := []
  wellFormed : Bool := false

def parseKvTok (s : String) : Option (Key × Nat × Nat) :=
  match s.splitOn "=" with
  | [k, vl] =>
    match parseKey k, vl.splitOn "/" with
    | some k, [v, l] => some (k, natArg v, natArg l)
    | _, _ => none
  | _ => none

def parseImpl (impl : String) : Impl :=
  match impl.splitOn " | " with
  | [out, kv, live, cs] =>
    let kvl := if kv == "-" then some [] else (words kv).mapM parseKvTok
    let lv := (afterPrefix "live=" live).map fun l => if l == "-" then [] else (l.splitOn ",").map natArg
    let cl := if cs == "-" then some [] else (words cs).mapM parseImplCont
    match kvl, lv, cl with
    | some kvl, some lv, some cl =>
      { out := out, kvStr := kv ++ " | " ++ live, kv := kvl, live := lv, conts := cl, wellFormed := true }
    | _, _, _ => { out := out }
  | _ => { out := impl }

/-! ### monitor -/

structure Mon where
  prev     : C03.Snap := { recs := [], live := [], views := [] }
  prevKv   : List (Key × Nat × Nat) := []
  prevStr  : String := "- | live=-"
  faithful : Bool := true
  won      : List Bool := []
  clocks   : List Nat := []
  parked   : List (Option (List Cmp)) := []     -- extra comparisons of a parked campaign

def snapOfImpl (x : Impl) (won : List Bool) (clocks : List Nat) : C03.Snap :=
  { recs := x.kv.filterMap fun (k, v, l) => match k with | .leader n => some (n, ⟨v, l⟩) | _ => none
    live := x.live
    views := (List.range x.conts.length).filterMap fun i =>
      (x.conts[i]?).map fun c =>
        { key := c.key, member := c.member, value := c.value, lease := c.lease, check := c.check,
          cacheSelf := c.cache == c.member, tsoInit := c.tsoInit,
          won := won.getD i false, clock := clocks.getD i 0 } }

def holdsObs (kv : List (Key × Nat × Nat)) : Cmp → Bool
  | .absent k => !(kv.any fun e => e.1 = k)
  | .valueEq k v => kv.any fun e => e.1 = k && e.2.1 == v

def setAt {α} (l : List α) (i : Nat) (a : α) : List α := l.set i a


def monitor (m : Mon) (op : Op) (x : Impl) : Mon × List String :=
  if !x.wellFormed then (m, [s!"sig=C03.unparsable-observation out={x.out}"]) else
  let ok := x.out == "ok"
  -- bookkeeping derived from the op inputs and the implementation's outputs
  let n := x.conts.length
  let won0 := m.won ++ List.replicate (n - m.won.length) false
  let clocks0 := m.clocks ++ List.replicate (n - m.clocks.length) 0
  let parked0 := m.parked ++ List.replicate (n - m.parked.length) none
  let isBad := x.out == "bad-op"
  let won1 :=
    if isBad then won0 else
    match op with
    | .on i (.campaign _ _ _ _) => setAt won0 i ok
    | .on i (.gcampaign _ _) => setAt won0 i false
    | .on i (.finish _ _) => setAt won0 i ok
    | .on i (.resetl _) | .on i (.stepdown _) | .on i .crash | .on i (.gresetl _ _) => setAt won0 i false
    | .on i (.delkey _ _) => if ok then setAt won0 i false else won0
    | .on i .observe => if x.out == "deleted" then setAt won0 i false else won0
    | _ => won0
  let clocks1 := match op with | .on i (.clock t) => if isBad then clocks0 else setAt clocks0 i t | _ => clocks0
  let parked1 :=
    match op with
    | .on i (.gcampaign _ ex) => if x.out == "parked" then setAt parked0 i (some ex) else parked0
    | .on i (.finish _ _) => if isBad then parked0 else setAt parked0 i none
    | _ => parked0
  let cur := snapOfImpl x won1 clocks1
  let faithful := m.faithful && (isBad || (actOf op).ok m.prev)
  let unchanged := x.kvStr == m.prevStr
  let vBefore (i : Nat) : Option C03.View := m.prev.views[i]?
  let vAfter (i : Nat) : Option C03.View := cur.views[i]?
  -- (a) campaigns
  let campaignEv : List String :=
    if isBad then [] else
    let mk (i : Nat) (extra : List Cmp) (f : Fault) (rv : Bool) (leaseLive : Bool) : List String :=
      match vAfter i with
      | none => []
      | some v =>
        let c : C03.Campaign :=
          { ok := ok, faulted := f != .none, revokeFailed := !rv,
            before := m.prev.recOf v.key, after := cur.recOf v.key,
            extraHeld := extra.all (holdsObs m.prevKv), leaseLive := leaseLive,
            value := v.member, lease := v.lease }
        if c.good then [] else
          [s!"sig=C03.campaign-not-iff-absent cont={i} ok={c.ok} before={repr c.before} after={repr c.after} extra-held={c.extraHeld} lease-live={c.leaseLive} faulted={c.faulted} lease={c.lease}"]
    match op with
    | .on i (.campaign _ ex f rv) => if x.out == "grant-err" then mk i ex .errBefore rv false else mk i ex f rv true
    | .on i (.finish f rv) =>
      match parked0.getD i none, vBefore i with
      | some ex, some vb => mk i ex f rv (m.prev.live.contains vb.lease)
      | _, _ => []
    | _ => []
  -- (c) guarded writes
  let writeEv : List String :=
    match op with
    | .on i (.write w f) =>
      if isBad then [] else
      match vBefore i with
      | none => []
      | some v =>
        let cmpVal := if w = .idRebase then v.member else v.value
        let owner := match m.prev.recOf v.key with | some r => r.val == cmpVal | none => false
        let e : C03.Write := { owner := owner, faulted := f != .none, skipped := x.out == "noop", ok := ok, unchanged := unchanged }
        if e.good then [] else
          [s!"sig=C03.guarded-write-not-iff-owner cont={i} kind={repr w} owner={owner} ok={ok} unchanged={unchanged} faulted={e.faulted} skipped={e.skipped}"]
    | _ => []
  -- id allocation: a non-owner changes nothing; an id handed out lies inside the durably stored window
  let idEv : List String :=
    match op with
    | .on i (.idalloc _) =>
      if isBad then [] else
      match vBefore i with
      | none => []
      | some v =>
        let owner := match m.prev.recOf v.key with | some r => r.val == v.member | none => false
        let stored := match x.kv.find? (fun e => e.1 = Key.allocId v.key) with | some e => e.2.1 | none => 0
        (if !owner && !unchanged then
          [s!"sig=C03.guarded-write-not-iff-owner cont={i} kind=id-alloc owner=false unchanged=false"] else []) ++
        (match words x.out with
         | ["ok", n] => if natArg n ≤ stored && natArg n != 0 then [] else
             [s!"sig=C03.id-from-unpersisted-window cont={i} id={natArg n} stored-window-end={stored}"]
         | _ => [])
    | _ => []
  -- (b) service requests
  let serveEv : List String :=
    let mk (i : Nat) (served : Bool) (what : String) : List String :=
      match vAfter i with
      | none => []
      | some v =>
        let e : C03.Serve := { served := served, check := v.check, faithful := faithful, holder := cur.holder v }
        if e.good then [] else
          if served && !v.check then [s!"sig=C03.served-without-leadership-check cont={i} request={what}"]
          else [s!"sig=C03.served-by-non-holder cont={i} request={what} record={repr (cur.recOf v.key)} lease={v.lease}"]
    match op with
    | .on i .tso => mk i (x.out == "served") "tso"
    | .on i .isleader => mk i (x.out == "true") "rpc"
    | _ => []
  -- resignation
  let resignEv : List String :=
    let mk (i : Nat) : List String :=
      match vAfter i with
      | some v => if C03.resigned v then [] else [s!"sig=C03.check-true-after-resign cont={i}"]
      | none => []
    let mkDown (i : Nat) : List String :=
      match vAfter i with
      | some v => if C03.steppedDown v then [] else
          [s!"sig=C03.step-down-leaves-service-state cont={i} check={v.check} announced={v.cacheSelf} tso-memory={v.tsoInit}"]
      | none => []
    if isBad then [] else
    match op with
    | .on i (.stepdown _) => mk i ++ mkDown i
    | .on i (.resetl _) => mk i
    | .on i (.gresetl false _) => mk i   -- the Revoke has been applied by etcd: the lease is resigned
    | .on i (.delkey _ _) => if ok then mk i else []
    | .on i .observe => if x.out == "deleted" then mk i else []
    | _ => []
  -- every instant
  let snapEv : List String :=
    (if cur.singleHolder then [] else ["sig=C03.two-holders-of-one-leadership"]) ++
    (if !faithful || cur.servingIsHolder then [] else
      let bad := cur.views.filter fun v => !((!v.serves || cur.holder v) && (!v.check || v.lease == 0 || cur.live.contains v.lease))
      [s!"sig=C03.serving-or-checked-without-live-record members={bad.map (·.member)} leases={bad.map (·.lease)}"])
  ({ prev := cur, prevKv := x.kv, prevStr := x.kvStr, faithful := faithful, won := won1, clocks := clocks1, parked := parked1 },
   campaignEv ++ writeEv ++ idEv ++ serveEv ++ resignEv ++ snapEv)

/-! ### driver -/

structure DState where
  model : St := init
  keys  : List Key := []
  mon   : Mon := {}

def step (d : DState) (opLine : String) (impl : String) : DState × StepOut :=
  match words opLine with
  | "reset" :: _ => ({}, { model := "ok | - | live=- | -" })
  | ["serverhb"] =>
    -- scripted check on an in-process PD server (no model step): a region heartbeat arriving on an existing
    -- stream right after the leader resigned must not be applied
    let out := (parseImpl impl).out
    (d, { model := out ++ " | " ++ dump d.model d.keys,
          -- (other answers mean the scripted scenario itself did not come about – an accident of the
          --  environment, not an observation of the property)
          fails := if out == "applied-after-resign" then [s!"sig=C03.heartbeat-applied-after-resign observed={out}"] else [] })
  | ["realexpiry", _] =>
    -- real-clock check of the lease timing assumption (no model step): the implementation must report
    -- that the local view expired while the lease was still alive on the etcd side
    let out := (parseImpl impl).out
    (d, { model := out ++ " | " ++ dump d.model d.keys,
          fails := if out == "server-expired-first" || out == "local-view-never-expired" || out == "server-never-expired"
                   then [s!"sig=C03.assumption-local-expiry-not-before-server-expiry observed={out}"] else [] })
  | ws =>
    match parseOp ws with
    | none => (d, { model := "bad-op | " ++ dump d.model d.keys })
    | some op =>
      let keys := (touched d.model op).foldl (fun ks k => insertKey k ks) d.keys
      let (s', o) := PdModel.Election.step d.model op
      let (mon', fails) := monitor d.mon op (parseImpl impl)
      ({ model := s', keys := keys, mon := mon' }, { model := s!"{o.toString} | {dump s' keys}", fails := fails })

def main : IO UInt32 := runDriver ({} : DState) step

end PdModel.Driver.Election
