import PdModel.Driver.Common
import PdModel.Model.Fit
import PdModel.Spec.C12
/-!
Driver for area `fit` (property C12).

Ops (one world per sequence: stores, the peers of the current region, its leader, the rule list):
  reset | store <id> <k=v,…|-> | peer <id> <store> <v|l> | leader <id> | newregion | newrules
  rule <role> <count> <key:op:v1|v2;…|-> <loc,…|->
  fit           => F=<ids>/<mismatch ids>/<score>;… O=<orphan ids> S=<0|1>      (also remembered)
  cmp <i> <j>   => -1|0|1            CompareRegionFit of the i-th and j-th remembered fit
The model side recomputes the observation.  The monitor converts the implementation's peer ids to
positions in the id-sorted peer list and judges them with `Spec.C12.check*`.
-/
namespace PdModel.Driver.Fit
open PdModel.Fit PdModel.Driver PdModel.Spec.C12

structure World where
  stores : List Store := []
  peers  : List RawPeer := []
  leader : Nat := 0
  rules  : List Rule := []

structure DState where
  w        : World := {}
  fits     : List Fit := []                 -- model's remembered fits
  implFits : List (List Key × Nat) := []    -- keys of the implementation's remembered fits

open PdModel.Generated.Fit in
/-- the role / operator strings are the constants of rule.go / label_constraint.go (regenerated) -/
def parseRole (s : String) : Role :=
  if s == roleVoter then .voter else if s == roleLeader then .leader
  else if s == roleFollower then .follower else if s == roleLearner then .learner else .invalid

open PdModel.Generated.Fit in
def parseCOp (s : String) : COp :=
  if s == opIn then .isIn else if s == opNotIn then .notIn
  else if s == opExists then .exists_ else if s == opNotExists then .notExists else .invalid

def splitList (s : String) (sep : String) : List String :=
  if s == "-" || s == "" then [] else s.splitOn sep

def parseLabel (s : String) : Label :=
  match s.splitOn "=" with
  | [k] => ⟨k, ""⟩
  | k :: rest => ⟨k, "=".intercalate rest⟩
  | [] => ⟨"", ""⟩

def parseConstraint (s : String) : Constraint :=
  match s.splitOn ":" with
  | [k, op] => ⟨k, parseCOp op, []⟩
  | [k, op, vs] => ⟨k, parseCOp op, if vs == "" then [] else vs.splitOn "|"⟩
  | _ => ⟨s, .invalid, []⟩

def idsStr (l : List Nat) : String :=
  if l.isEmpty then "-" else ",".intercalate (l.map toString)

def idOf (c : Ctx) (i : Nat) : Nat := match c.peers[i]? with | some p => p.id | none => 0

def fitStr (c : Ctx) (f : Fit) : String :=
  let rf (x : RuleFit) : String :=
    s!"{idsStr (x.peers.map (idOf c))}/{idsStr (x.mismatch.map (idOf c))}/{x.score}"
  let fs := if f.fits.isEmpty then "-" else ";".intercalate (f.fits.map rf)
  s!"F={fs} O={idsStr (f.orphans.map (idOf c))} S={if f.satisfied then 1 else 0}"

/-- positions of ids in the id-sorted peer list; `none` if some id is not a peer of the region -/
def posOf (c : Ctx) (ids : List Nat) : Option (List Nat) :=
  ids.mapM (fun id => c.peers.findIdx? (fun p => p.id == id))

def parseIds (s : String) : List Nat := (splitList s ",").map natArg

def parseRuleFit (c : Ctx) (s : String) : Option RuleFit :=
  match s.splitOn "/" with
  | [a, b, sc] =>
    match posOf c (parseIds a), posOf c (parseIds b) with
    | some pa, some pb => some { peers := pa, mismatch := pb, score := natArg sc }
    | _, _ => none
  | _ => none

def parseFit (c : Ctx) (impl : String) : Option Fit :=
  match words impl with
  | [f, o, s] =>
    if !(f.startsWith "F=" && o.startsWith "O=" && s.startsWith "S=") then none else
    let fs := (splitList (f.drop 2).toString ";").mapM (parseRuleFit c)
    match fs, posOf c (parseIds (o.drop 2).toString) with
    | some fits, some orph => some { fits := fits, orphans := orph, satisfied := (s.drop 2).toString == "1" }
    | _, _ => none
  | _ => none

/-- above this many assignments the brute-force optimality check is skipped -/
def bruteLimit : Nat := 700

def monitorFit (c : Ctx) (rules : List Rule) (impl : String) : Option (List Key × Nat) × List String :=
  match parseFit c impl with
  | none => (none, ["sig=C12.malformed-result a reported peer is not a peer of the region, or the line does not parse"])
  | some out =>
    let ps := out.fits.map (·.peers)
    let f1 := if validFromB c.peers rules [] ps then [] else
      ["sig=C12.invalid-assignment a rule holds an ineligible, repeated or shared peer, or more than its count"]
    let f2 := if out.orphans == orphansOf c.peers ps then [] else
      ["sig=C12.orphans-wrong the orphan list is not the set of peers outside all rules"]
    let f3 := if fitsExactB c.peers rules out.fits then [] else
      ["sig=C12.mismatch-or-score-wrong role mismatches or isolation score of a rule are not exact"]
    let f4 := if out.satisfied == (!rules.isEmpty && countsOK rules out.fits && out.orphans.isEmpty) then [] else
      ["sig=C12.satisfied-flag-wrong"]
    let shapeOk := f1.isEmpty && f2.isEmpty && f3.isEmpty
    let f5 :=
      if shapeOk && bruteCost c.peers rules ≤ bruteLimit && !checkOptimal c.peers rules out then
        ["sig=C12.not-optimal a valid assignment is better under the documented order"]
      else []
    (some (out.fits.map (·.key), out.orphans.length), f1 ++ f2 ++ f3 ++ f4 ++ f5)

def intStr (i : Int) : String := toString i

def step (d : DState) (opLine : String) (impl : String) : DState × StepOut :=
  let w := d.w
  match words opLine with
  | ["reset"] => ({}, { model := "ok" })
  | ["store", id, labels] =>
    let s : Store := ⟨natArg id, (splitList labels ",").map parseLabel⟩
    ({ d with w := { w with stores := w.stores ++ [s] } }, { model := "ok" })
  | ["peer", id, st, role] =>
    let p : RawPeer := ⟨natArg id, natArg st, role == "l"⟩
    ({ d with w := { w with peers := w.peers ++ [p] } }, { model := "ok" })
  | ["leader", id] => ({ d with w := { w with leader := natArg id } }, { model := "ok" })
  | ["newregion"] => ({ d with w := { w with peers := [], leader := 0 } }, { model := "ok" })
  | ["newrules"] => ({ d with w := { w with rules := [] } }, { model := "ok" })
  | ["rule", role, count, cs, loc] =>
    let r : Rule := ⟨parseRole role, natArg count, (splitList cs ";").map parseConstraint, splitList loc ","⟩
    ({ d with w := { w with rules := w.rules ++ [r] } }, { model := "ok" })
  | ["fit"] =>
    let c := mkCtx w.stores w.peers w.leader
    let f := fitCtxS c w.rules      -- the search with mutated-and-restored flags (= fitCtx, Props.C12.fit_stateful_eq)
    let (k, fails) := monitorFit c w.rules impl
    ({ d with fits := d.fits ++ [f], implFits := d.implFits ++ [k.getD ([], 0)] },
     { model := fitStr c f, fails := fails })
  | ["cmp", i, j] =>
    match d.fits[natArg i]?, d.fits[natArg j]?, d.implFits[natArg i]?, d.implFits[natArg j]? with
    | some a, some b, some ka, some kb =>
      let fails := if intStr (fitCmp ka kb) == impl then [] else
        [s!"sig=C12.compare-wrong reported={impl} documented-order={fitCmp ka kb}"]
      (d, { model := intStr (compareRegionFit a b), fails := fails })
    | _, _, _, _ => (d, { model := "bad-op" })
  | _ => (d, { model := "bad-op" })

def main : IO UInt32 := runDriver ({} : DState) step

end PdModel.Driver.Fit
