import PdModel.Driver.Common
import PdModel.Model.RegionTree
/-!
Text format of keys and regions shared by the regiontree (C07) and regioncache (C06) drivers; the Go side
is harness/internal/regionh.
-/
namespace PdModel.Driver.RegionText
open PdModel.RegionTree PdModel.Driver

def hexVal (c : Char) : Nat :=
  if '0' ≤ c ∧ c ≤ '9' then c.toNat - '0'.toNat
  else if 'a' ≤ c ∧ c ≤ 'f' then c.toNat - 'a'.toNat + 10
  else if 'A' ≤ c ∧ c ≤ 'F' then c.toNat - 'A'.toNat + 10
  else 0

def parseHex : List Char → Key
  | a :: b :: rest => (hexVal a * 16 + hexVal b) :: parseHex rest
  | _ => []

/-- "_" = empty key, otherwise hex -/
def parseKey (s : String) : Key := if s = "_" then [] else parseHex s.toList

def hexDigit (n : Nat) : Char := if n < 10 then Char.ofNat (n + '0'.toNat) else Char.ofNat (n - 10 + 'a'.toNat)

def renderKey (k : Key) : String :=
  if k.isEmpty then "_" else String.ofList (k.flatMap (fun b => [hexDigit (b / 16), hexDigit (b % 16)]))

def parsePeer (s : String) : Peer :=
  match s.splitOn "." with
  | [a, b, c] => { id := natArg a, store := natArg b, learner := c == "l" }
  | [a, b] => { id := natArg a, store := natArg b }
  | _ => { id := 0, store := 0 }

def parsePeers (s : String) : List Peer := if s = "-" then [] else (s.splitOn ",").map parsePeer

/-- the 10 fields `<id> <start> <end> <ver> <conf> <term> <sizeBytes> <leaderPeerId> <peers> <pending>` -/
def parseHeartbeat (f : List String) : Option Heartbeat :=
  match f with
  | [id, sk, ek, ver, conf, term, size, leader, peers, pending] =>
    let ps := parsePeers peers
    -- a pending peer carries the role of the peer it names (irrelevant for the model, kept for rendering)
    let pp := (parsePeers pending).map (fun p =>
      match ps.find? (fun q => q.id = p.id ∧ q.store = p.store) with
      | some q => { p with learner := q.learner }
      | none => p)
    some { region := { id := natArg id, startKey := parseKey sk, endKey := parseKey ek, version := natArg ver,
                        confVer := natArg conf, term := natArg term, peers := ps, leader := natArg leader }
           pending := pp, sizeBytes := natArg size }
  | _ => none

/-- the optional trailing tokens of a heartbeat spec: k=<keys> w=<written> r=<read> d=<down peers> -/
def applyExtras (hb : Heartbeat) (extras : List String) : Heartbeat :=
  extras.foldl (fun hb t =>
    if t.startsWith "k=" then { hb with keys := natArg (t.drop 2).toString }
    else if t.startsWith "w=" then { hb with written := natArg (t.drop 2).toString }
    else if t.startsWith "r=" then { hb with read := natArg (t.drop 2).toString }
    else if t.startsWith "d=" then { hb with down := parsePeers (t.drop 2).toString }
    else hb) hb

/-- heartbeat spec with optional extras -/
def parseHeartbeatX (f : List String) : Option Heartbeat :=
  match parseHeartbeat (f.take 10) with
  | some hb => some (applyExtras hb (f.drop 10))
  | none => none

def joinOr (l : List String) : String := if l.isEmpty then "-" else ",".intercalate l

def renderRegion (r : Region) : String :=
  let ps := r.peers.map (fun p => s!"{p.id}.{p.store}.{if p.learner then "l" else "v"}")
  let pp := r.pending.map (fun p => s!"{p.id}.{p.store}")
  s!"{r.id}:{renderKey r.startKey}:{renderKey r.endKey}:{r.version}.{r.confVer}.{r.term}:{r.size}:{r.leader}:{joinOr ps}:{joinOr pp}"

def renderOpt : Option Region → String
  | some r => renderRegion r
  | none => "nil"

def renderIds (l : List Region) : String := joinOr (l.map (fun r => toString r.id))

def renderOptId : Option Region → String
  | some r => toString r.id
  | none => "nil"

/-- inverse of `renderRegion` (fields that are not rendered stay at their defaults) -/
def parseRegionR (s : String) : Option Region :=
  match s.splitOn ":" with
  | [id, sk, ek, epoch, size, leader, peers, pending] =>
    match epoch.splitOn "." with
    | [v, c, t] =>
      let ps := parsePeers peers
      let pp := (parsePeers pending).map (fun p =>
        match ps.find? (fun q => q.id = p.id ∧ q.store = p.store) with
        | some q => { p with learner := q.learner }
        | none => p)
      some { id := natArg id, startKey := parseKey sk, endKey := parseKey ek, version := natArg v, confVer := natArg c,
             term := natArg t, size := intArg size, leader := natArg leader, peers := ps, pending := pp }
    | _ => none
  | _ => none

def parseRegionList (s : String) : List Region :=
  if s = "-" then [] else (s.splitOn ";").filterMap parseRegionR

def renderRegionList (l : List Region) : String :=
  if l.isEmpty then "-" else ";".intercalate (l.map renderRegion)

def renderMeta (m : Meta) : String :=
  let ps := m.peers.map (fun p => s!"{p.id}.{p.store}.{if p.learner then "l" else "v"}")
  s!"{m.id}:{renderKey m.startKey}:{renderKey m.endKey}:{m.version}.{m.confVer}:{joinOr ps}"

def parseMetaR (s : String) : Option Meta :=
  match s.splitOn ":" with
  | [id, sk, ek, epoch, peers] =>
    match epoch.splitOn "." with
    | [v, c] =>
      some { id := natArg id, startKey := parseKey sk, endKey := parseKey ek, version := natArg v, confVer := natArg c,
             peers := parsePeers peers }
    | _ => none
  | _ => none

def parseMetaList (s : String) : List (Nat × Meta) :=
  if s = "-" then [] else ((s.splitOn ";").filterMap parseMetaR).map (fun m => (m.id, m))

def renderMetaList (l : List (Nat × Meta)) : String :=
  if l.isEmpty then "-" else ";".intercalate (l.map (fun e => renderMeta e.2))

def parseRanges (s : String) : List (Key × Key) :=
  if s = "none" then [] else
  (s.splitOn ";").map (fun p =>
    match p.splitOn ":" with
    | [a, b] => (parseKey a, parseKey b)
    | _ => ([], []))

def parseRole : String → Role
  | "leader" => .leader
  | "follower" => .follower
  | "learner" => .learner
  | _ => .pending

end PdModel.Driver.RegionText
