import PdModel.Driver.ClusterParse
import PdModel.Spec.C10
/-!
Driver for area `checkers` (property C10).

  <description line>        => ok
  filters <region>          => <store>:<bits> …          every filter's verdict on every store
  check replica <region>    => none | op <desc> r=<id> steps=…
  check rule <region>       => <region fit> | none | op …

Model side: the possible outcomes of `replicaCheck` / `ruleCheck`; the implementation's outcome must
be one of them (then it is echoed), otherwise the set of outcomes is printed → DIFF.  The region fit is
an input taken from the implementation's observation (FitRegion is property C12).
Monitor side: `Spec.C10.check` on the implementation's steps and `checkLive` when nothing is proposed.
-/
namespace PdModel.Driver.Checkers
open PdModel.Driver PdModel.Driver.ClusterParse PdModel.Spec.C10 PdModel.Filters PdModel.Checkers

def bit (b : Bool) : String := if b then "1" else "0"

def insertSorted (x : Nat) : List Nat → List Nat
  | [] => [x]
  | y :: ys => if x ≤ y then x :: y :: ys else y :: insertSorted x ys

def sortNat (l : List Nat) : List Nat := l.foldr insertSorted []

def sortStores (l : List Store) : List Store :=
  (sortNat (l.map (·.id))).filterMap (fun i => l.find? (·.id == i))

def filterBits (d : Desc) (rid : Nat) : String :=
  let o := d.opts
  let region := d.region rid
  let regionStoreIds := match region with | some r => r.stores | none => []
  let regionStores := sortStores (storesOf d.stores regionStoreIds)
  let labels := o.conf.locationLabels
  let level := o.conf.isolationLevel
  let one (s : Store) : String :=
    let ssf := String.join ((List.range 16).map (fun m =>
      let f : SSF := { transferLeader := m / 8 % 2 == 1, moveRegion := m / 4 % 2 == 1,
                       scatterRegion := m / 2 % 2 == 1, allowTemp := m % 2 == 1 }
      bit (f.source o s) ++ bit (f.target o s)))
    let misc := bit (storageTarget o s) ++ bit (specialUseTarget [] s) ++ bit (specialUseSource [] o s) ++
      bit (specialUseTarget ["hotRegion"] s) ++ bit (ordinaryEngine s) ++ bit (engineIs "tiflash" s) ++
      bit (excludedTarget regionStoreIds s)
    let iso := if !labels.isEmpty && level != "" then bit (isolationTarget labels level regionStores s) else "-"
    let loc := String.join (regionStores.map (fun src =>
      bit (distinctTarget false labels regionStores src s) ++ bit (distinctTarget true labels regionStores src s)))
    let cons := String.join (d.ruleCons.map (fun cs => bit (constraintTarget cs s)))
    s!"{s.id}:{ssf}|{misc}|{iso}|{loc}|{cons}"
  match sortStores d.stores with
  | [] => "-"
  | l => " ".intercalate (l.map one)

/-- canonical shape of an operator: (adds store:role, removes, promotes, final transfer target) -/
structure Shape where
  adds     : List (Nat × Nat)
  removes  : List Nat
  promotes : List Nat
  leader   : Option Nat
  /-- the first add comes before the first remove (`true` when one of them is missing) -/
  addFirst : Bool := true
  deriving Repr, DecidableEq

def lastTransfer (steps : List Step) : Option Nat :=
  steps.foldl (fun acc s => match s with | .transfer t => some t | _ => acc) none

def shapeOfSteps (steps : List Step) : Shape :=
  let promoted := steps.filterMap (fun s => match s with | .promote st => some st | _ => none)
  let adds := steps.filterMap (fun s => match s with
    | .add st role => some (st, if promoted.contains st then 0 else role)
    | _ => none)
  { adds := adds,
    removes := sortNat (removedStores steps),
    promotes := sortNat (promoted.filter (fun st => !(adds.any (·.1 == st)))),
    leader := lastTransfer steps,
    addFirst :=
      let isAdd (s : Step) : Bool := match s with | .add _ _ => true | _ => false
      let isRm (s : Step) : Bool := match s with | .remove _ => true | _ => false
      decide (steps.findIdx isAdd ≤ steps.findIdx isRm) || !(steps.any isAdd) || !(steps.any isRm) }

def shapeOfReq (jc : Bool) (reg : Region) : Req → Shape
  | .add s r => { adds := [(s, r)], removes := [], promotes := [], leader := none }
  | .remove s => { adds := [], removes := [s], promotes := [], leader := none }
  | .move o n r => { adds := [(n, r)], removes := [o], promotes := [], leader := none,
                     addFirst := jc || sameKind reg o r }
  | .replaceLeader o n r l => { adds := [(n, r)], removes := [o], promotes := [], leader := some l,
                                addFirst := jc || sameKind reg o r }
  | .promote s => { adds := [], removes := [], promotes := [s], leader := none }
  | .transfer s => { adds := [], removes := [], promotes := [], leader := some s }
  | .split => { adds := [], removes := [], promotes := [], leader := none }
  | .crash => { adds := [], removes := [], promotes := [], leader := none }

def shapeMatches (m i : Shape) : Bool :=
  m.adds == i.adds && m.removes == i.removes && m.promotes == i.promotes && m.addFirst == i.addFirst &&
  (match m.leader with | none => true | some l => i.leader == some l)

def renderReq : Req → String
  | .add s r => s!"add({s},{r})"
  | .remove s => s!"remove({s})"
  | .move o n r => s!"move({o}->{n},{r})"
  | .replaceLeader o n r l => s!"replace({o}->{n},{r},leader={l})"
  | .promote s => s!"promote({s})"
  | .transfer s => s!"transfer({s})"
  | .split => "split"
  | .crash => "panic"

def renderOut : Out → String
  | none => "none"
  | some (d, r) => s!"{d}:{renderReq r}"

def renderOuts (outs : List Out) : String :=
  "expected{" ++ ";".intercalate ((outs.map renderOut).eraseDups) ++ "}"

/-- is the implementation's outcome one of the model's? -/
def outcomeAllowed (jc : Bool) (reg : Region) (outs : List Out) (impl : String) : Bool :=
  if impl == "none" then outs.contains none
  else if impl.startsWith "panic:" then outs.any (fun o => match o with | some (_, .crash) => true | _ => false)
  else match parseOp impl with
    | none => false
    | some (desc, _, steps) =>
      let sh := shapeOfSteps steps
      outs.any (fun o => match o with
        | none => false
        | some (_, .crash) => false
        | some (d, r) => d == desc && shapeMatches (shapeOfReq jc reg r) sh)

def kindName (learner : Bool) : String := if learner then "learner" else "voter"

/-- which kinds of peer a replacement swaps, e.g. `learner->voter` (first removed store, first add) -/
def swapKinds (x : Input) (steps : List Step) : String :=
  let sh := shapeOfSteps steps
  match sh.removes, sh.adds with
  | o :: _, (_, role) :: _ =>
    match x.region.storePeer o with
    | some p => kindName p.isLearner ++ "->" ++ kindName (role == 1)
    | none => "?"
  | _, _ => "-"

def monitor (x : Input) (jc : Bool) (kind : String) (impl : String) : List String :=
  if impl == "none" then
    if checkLive x false then [] else [s!"sig=C10.no-repair-proposed kind={kind} peers={x.region.peers.length}"]
  else match parseOp impl with
    | none => []
    | some (desc, _, steps) =>
      (if checkAdds x steps then [] else
        [s!"sig=C10.add-on-bad-store kind={kind} desc={desc} adds={addedStores steps}"]) ++
      (if checkShrink x steps then [] else
        [s!"sig=C10.shrinks-healthy-replication kind={kind} desc={desc} removes={removedStores steps}"]) ++
      (if checkOrder x steps then [] else
        [s!"sig=C10.remove-before-add kind={kind} desc={desc} kinds={swapKinds x steps} jc={if jc then 1 else 0}"])

structure DState where
  desc : Desc := Desc.init

def splitBar (s : String) : String × String :=
  match s.splitOn " | " with
  | [a, b] => (a, b)
  | _ => ("", s)

/-- `CheckerController.CheckRegion`: `<fit> | <outcome>` with placement rules on, `<outcome>` otherwise.
    The checker in charge is decided by the placement-rules switch *at the time of the call* – also when the
    controller was created in the other mode (`check ctlx`). -/
def ctlStep (d : DState) (rid : String) (impl : String) : DState × StepOut :=
    -- CheckerController.CheckRegion: `<fit> | <outcome>` with placement rules on, `<outcome>` otherwise
    match d.desc.region (natArg rid) with
    | none => (d, { model := "no-region" })
    | some r =>
      if impl.startsWith "err:" then (d, { model := impl }) else
      if d.desc.rules then
        let (fitS, outS) := splitBar impl
        match parseFit r fitS with
        | none => (d, { model := "bad-fit" })
        | some fit =>
          let outs := controllerCheck d.desc.opts true d.desc.stores r fit
          let x : Input := ruleInput d.desc.opts d.desc.stores r fit
          let model := if outcomeAllowed d.desc.jc r outs outS then impl else fitS ++ " | " ++ renderOuts outs
          (d, { model := model, fails := monitor x d.desc.jc "ctl-rule" outS })
      else
        let outs := controllerCheck d.desc.opts false d.desc.stores r {}
        let x : Input := replicaInput d.desc.opts d.desc.stores r
        let model := if outcomeAllowed d.desc.jc r outs impl then impl else renderOuts outs
        (d, { model := model, fails := monitor x d.desc.jc "ctl-replica" impl })

def step (d : DState) (opLine : String) (impl : String) : DState × StepOut :=
  let ws := words opLine
  match ws with
  | ["reset"] => ({ desc := Desc.init }, { model := "ok" })
  | ["filters", rid] => (d, { model := filterBits d.desc (natArg rid) })
  | ["check", "replica", rid] =>
    match d.desc.region (natArg rid) with
    | none => (d, { model := "no-region" })
    | some r =>
      let outs := replicaCheck d.desc.opts d.desc.stores r
      let x : Input := replicaInput d.desc.opts d.desc.stores r
      let model := if outcomeAllowed d.desc.jc r outs impl then impl else renderOuts outs
      (d, { model := model, fails := monitor x d.desc.jc "replica" impl })
  | ["check", "rule", rid] =>
    match d.desc.region (natArg rid) with
    | none => (d, { model := "no-region" })
    | some r =>
      if !d.desc.rules then (d, { model := "no-rules" })
      else if impl.startsWith "err:" then (d, { model := impl })   -- the rule set was refused: nothing ran
      else
        let (fitS, outS) := splitBar impl
        match parseFit r fitS with
        | none => (d, { model := "bad-fit" })
        | some fit =>
          let outs := ruleCheck d.desc.opts d.desc.stores r fit
          let x : Input := ruleInput d.desc.opts d.desc.stores r fit
          let model := if outcomeAllowed d.desc.jc r outs outS then impl else fitS ++ " | " ++ renderOuts outs
          (d, { model := model, fails := monitor x d.desc.jc "rule" outS })
  | ["check", "ctl", rid] => ctlStep d rid impl
  | ["check", "ctlx", rid] => ctlStep d rid impl
  | _ =>
    match d.desc.apply ws with
    | some desc => ({ desc := desc }, { model := "ok" })
    | none => (d, { model := "bad-op" })

def main : IO UInt32 := runDriver ({} : DState) step

end PdModel.Driver.Checkers
