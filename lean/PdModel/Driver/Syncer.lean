import PdModel.Driver.Common
import PdModel.Model.Syncer
import PdModel.Spec.C16
import PdModel.Generated.Syncer
/-!
Driver for area `syncer` (property C16).  See harness/cmd/syncer/main.go for the op list.
The model side recomputes every observation; the monitor side judges the implementation's observations
with the proved checkers of `Spec.C16`.
-/
namespace PdModel.Driver.Syncer
open PdModel.HistoryBuf PdModel.SyncRegion PdModel.Syncer PdModel.Driver PdModel.Spec

def flushC : Nat := PdModel.Generated.Syncer.defaultFlushCount
def batchC : Nat := PdModel.Generated.Syncer.maxSyncRegionBatchSize
def defaultCap : Nat := PdModel.Generated.Syncer.defaultHistoryBufferSize

/-! ### region text  `id:start:end:confver:version:peers:leader:stats` -/

def parsePeer (s : String) : Peer :=
  match s.splitOn "/" with
  | [a, b, c] => { id := natArg a, store := natArg b, role := natArg c }
  | [a, b] => { id := natArg a, store := natArg b }
  | _ => default

def parseRegion (s : String) : Option Region :=
  match s.splitOn ":" with
  | [i, sk, ek, cv, v, ps, l, st] =>
    let peers := if ps == "-" then [] else (ps.splitOn ",").map parsePeer
    let leader := if l == "-" then none else some (parsePeer l)
    let stat : Stat := match st.splitOn "/" with
      | [a, b, c, d] => { bytesWritten := natArg a, bytesRead := natArg b, keysWritten := natArg c, keysRead := natArg d }
      | _ => {}
    some { md := { id := natArg i, startKey := natArg sk, endKey := natArg ek, confVer := natArg cv,
                   version := natArg v, peers := peers },
           leader := leader, stat := stat }
  | _ => none

def fmtPeer (p : Peer) : String := s!"{p.id}/{p.store}/{p.role}"

def fmtRegion (r : Region) : String :=
  let m := r.md
  let ps := if m.peers.isEmpty then "-" else ",".intercalate (m.peers.map fmtPeer)
  let l := match r.leader with | some p => fmtPeer p | none => "-"
  s!"{m.id}:{m.startKey}:{m.endKey}:{m.confVer}:{m.version}:{ps}:{l}:{r.stat.bytesWritten}/{r.stat.bytesRead}/{r.stat.keysWritten}/{r.stat.keysRead}"

def sortById (c : Cache) : List Region := c.mergeSort (fun a b => a.md.id ≤ b.md.id)

def dump (c : Cache) : String := "[" ++ ";".intercalate ((sortById c).map fmtRegion) ++ "]"

def fmtMsg (m : Msg) : String :=
  let pairs := (m.regions.zipIdx).map (fun (x : Meta × Nat) =>
    let l := match m.leaders[x.2]? with | some p => toString p.id | none => "x"
    s!"{x.1.id}~{l}")
  s!"{m.start}/{m.regions.length}/{m.stats.length}/{m.leaders.length}" ++ "{" ++ ",".intercalate pairs ++ "}"

def fmtMsgs (ms : List Msg) : String := "[" ++ ";".intercalate (ms.map fmtMsg) ++ "]"

/-- the harness' GetRegions order over the id-sorted list -/
def permute (order : String) (rs : List Region) : List Region :=
  let n := rs.length
  if order == "desc" then rs.reverse
  else if order.startsWith "rot" && n > 0 then
    let k := natArg (order.drop 3).toString % n
    rs.drop k ++ rs.take k
  else if order == "evenodd" then
    let ix := rs.zipIdx
    (ix.filter (fun x => x.2 % 2 == 0)).map (·.1) ++ (ix.filter (fun x => x.2 % 2 == 1)).map (·.1)
  else rs

/-! ### model world -/

structure World where
  leader    : Option Leader := none
  followers : List (Follower × Nat) := []     -- follower, history capacity
  lcap      : Nat := 0
  hb        : Option (Buf Nat) := none
  hcap      : Nat := 0
  held      : List (Nat × List (Option Nat)) := []   -- answers of RecordsFrom kept by the caller (values)

def capOf (c : Nat) : Nat := if c = 0 then defaultCap else c

def hbObs (b : Buf Nat) : String :=
  let kv := match b.kv with | some v => toString v | none => "-"
  s!"next={b.index} first={firstIndex b} len={len b} kv={kv}"

def fmtIds (l : List (Option Nat)) : String :=
  "[" ++ ",".intercalate (l.map (fun o => match o with | some i => toString i | none => "nil")) ++ "]"

def mapFollowers (fs : List (Follower × Nat)) (g : Follower → Follower) (p : Follower → Bool) :
    List (Follower × Nat) :=
  fs.map (fun x => if p x.1 then (g x.1, x.2) else x)

def putOnce (w : World) (l : Leader) (r : Region) : World × Leader × Bool :=
  match leaderPut l r with
  | (l', some m) =>
    ({ w with followers := mapFollowers w.followers (fun f => applyMsg f m) (·.connected) }, l', true)
  | (l', none) => (w, l', false)

def modelStep (w : World) (ws : List String) : World × String :=
  let bad := (w, "bad-op")
  match ws with
  | ["reset"] => ({}, "ok")
  | ["hb", "new", c] =>
    let b : Buf Nat := HistoryBuf.new (natArg c) none flushC
    ({ w with hb := some b, hcap := natArg c, held := [] }, hbObs b)
  | "hb" :: rest =>
    match w.hb with
    | none => bad
    | some b =>
      match rest with
      | ["rec", i] => let b' := record b (natArg i) false; ({ w with hb := some b' }, hbObs b')
      | ["rec", i, "fail"] => let b' := record b (natArg i) true; ({ w with hb := some b' }, hbObs b')
      | ["recn", n, i] =>
        let b' := (List.range (natArg n)).foldl (fun b k => record b (natArg i + k) false) b
        ({ w with hb := some b' }, hbObs b')
      | ["from", i] => (w, fmtIds (recordsFrom b (natArg i)))
      | ["hold", k, i] =>
        if natArg k > 3 || k.toNat?.isNone then bad else
        let ans := recordsFrom b (natArg i)
        ({ w with held := (w.held.filter (fun e => e.1 != natArg k)) ++ [(natArg k, ans)] }, fmtIds ans)
      | ["recheck", k] =>
        match w.held.find? (fun e => e.1 == natArg k) with
        | some e => (w, fmtIds e.2)
        | none => bad
      | ["get", i] => (w, match get b (natArg i) with | some x => toString x | none => "nil")
      | ["resetidx", n] => let b' := resetWithIndex b (natArg n) false; ({ w with hb := some b' }, hbObs b')
      | ["resetidx", n, "fail"] => let b' := resetWithIndex b (natArg n) true; ({ w with hb := some b' }, hbObs b')
      | ["restart"] => let b' := restart b w.hcap; ({ w with hb := some b' }, hbObs b')
      | ["restart", c] => let b' := restart b (natArg c); ({ w with hb := some b', hcap := natArg c }, hbObs b')
      | _ => bad
  | ["leader", c] =>
    match w.leader with
    | some _ => bad
    | none => ({ w with leader := some { hist := HistoryBuf.new (capOf (natArg c)) none flushC }, lcap := natArg c }, "ok")
  | ["keepalive"] =>
    -- RunServer's ticker: `{StartIndex: next index}` without regions to every bound stream
    match w.leader with
    | none => bad
    | some l =>
      let alive : Msg := { start := l.hist.index, regions := [], stats := [], leaders := [] }
      ({ w with followers := mapFollowers w.followers (fun f => applyMsg f alive) (·.connected) }, "ok")
  | ["lrestart"] =>
    match w.leader with
    | none => bad
    | some l =>
      let l' : Leader := { cache := l.cache, hist := restart l.hist (capOf w.lcap) }
      ({ w with leader := some l', followers := mapFollowers w.followers (fun f => { f with connected := false }) (fun _ => true) },
       s!"ok lnext={l'.hist.index}")
  | ["put", spec] =>
    match w.leader, parseRegion spec with
    | some l, some r =>
      if r.leader.isNone && l.everBound then bad
      else
        match putOnce w l r with
        | (w', l', true) => ({ w' with leader := some l' }, s!"ok next={l'.hist.index}")
        | (_, _, false) => (w, "stale")
    | _, _ => bad
  | ["putn", k, spec] =>
    match w.leader, parseRegion spec with
    | some l, some r =>
      if r.leader.isNone && l.everBound then bad
      else
        let res := (List.range (natArg k)).foldl
          (fun (acc : World × Leader × Nat) _ =>
            match putOnce acc.1 acc.2.1 r with
            | (w', l', true) => (w', l', acc.2.2 + 1)
            | (_, _, false) => acc) (w, l, 0)
        ({ res.1 with leader := some res.2.1 }, s!"ok accepted={res.2.2} next={res.2.1.hist.index}")
    | _, _ => bad
  | "burst" :: i :: specs =>
    match w.leader, w.followers[natArg i]? with
    | some l, some (f, _) =>
      let rs := specs.filterMap parseRegion
      if !f.connected || i.toNat?.isNone || specs.length < 2 || specs.length > 5 || rs.length != specs.length
          || rs.any (·.leader.isNone)
          || rs.any (fun r => w.followers.any (fun x => x.1.connected &&
                (x.1.failOnce.contains r.md.id || x.1.failAlways.contains r.md.id))) then bad
      else
        -- the leader's cache and history take the changes one by one; the first accepted change is sent alone
        -- (its send is parked), the others wait in the channel and leave as one message
        let res := rs.foldl
          (fun (acc : Leader × String × List Msg) r =>
            match leaderPut acc.1 r with
            | (l', some m) => (l', acc.2.1 ++ "1", acc.2.2 ++ [m])
            | (_, none) => (acc.1, acc.2.1 ++ "0", acc.2.2)) (l, "", [])
        let sent : List Msg := match res.2.2 with
          | [] => []
          | m :: rest => m :: (mergeMsgs rest).toList
        let fs := sent.foldl (fun fs m => mapFollowers fs (fun f => applyMsg f m) (·.connected)) w.followers
        let w' := { w with leader := some res.1, followers := fs }
        let fn := match w'.followers[natArg i]? with | some (f', _) => f'.hist.index | none => 0
        (w', s!"ok acc={res.2.1} next={res.1.hist.index} msgs={fmtMsgs sent} fnext={fn}")
    | _, _ => bad
  | ["follower", c] =>
    if w.followers.length ≥ 4 then bad
    else
      let f : Follower := { hist := HistoryBuf.new (capOf (natArg c)) none flushC }
      ({ w with followers := w.followers ++ [(f, natArg c)] }, "ok")
  | ["follower", c, "plain"] =>
    if w.followers.length ≥ 4 then bad
    else
      let f : Follower := { hist := HistoryBuf.new (capOf (natArg c)) none flushC, plainKv := true }
      ({ w with followers := w.followers ++ [(f, natArg c)] }, "ok")
  | ["failsave", i, id, mode] =>
    match w.followers[natArg i]? with
    | some (f, c) =>
      if !f.plainKv || i.toNat?.isNone then bad
      else
        let k := natArg id
        let f' : Option Follower :=
          if mode == "once" then some { f with failOnce := f.failOnce ++ [k] }
          else if mode == "always" then some { f with failAlways := if f.failAlways.contains k then f.failAlways else f.failAlways ++ [k] }
          else if mode == "off" then some { f with failOnce := f.failOnce.filter (· != k), failAlways := f.failAlways.filter (· != k) }
          else none
        match f' with
        | some f' => ({ w with followers := w.followers.set (natArg i) (f', c) }, "ok")
        | none => bad
    | none => bad
  | ["connect", i, order] =>
    match w.leader, w.followers[natArg i]? with
    | some l, some (f, c) =>
      if f.connected || i.toNat?.isNone then bad
      else
        let f1 := loadStored f
        let start := f1.hist.index
        let ms := syncHistoryRegion batchC l start (permute order (sortById l.cache))
        let f2 := ms.foldl applyMsg f1
        let f3 := { f2 with connected := true }
        ({ w with leader := some { l with everBound := true }, followers := w.followers.set (natArg i) (f3, c) },
         s!"req={start} msgs={fmtMsgs ms} fnext={f3.hist.index}")
    | _, _ => bad
  | ["raw", i, start, specs, ns, nl] =>
    match w.followers[natArg i]? with
    | some (f, c) =>
      if !f.connected || i.toNat?.isNone || w.leader.isNone then bad
      else
        let rs := (specs.splitOn ";").filterMap parseRegion
        let m : Msg := { start := natArg start, regions := rs.map (·.md),
                         stats := (rs.map (·.stat)).take (natArg ns), leaders := (rs.map wireLeader).take (natArg nl) }
        if f.hist.index == m.start + m.regions.length then bad   -- the harness refuses: completion not observable
        else
          let f' := applyMsg f m
          ({ w with followers := w.followers.set (natArg i) (f', c) }, s!"ok fnext={f'.hist.index}")
    | none => bad
  | ["disconnect", i] =>
    match w.followers[natArg i]? with
    | some (f, c) =>
      if !f.connected || i.toNat?.isNone then bad
      else ({ w with followers := w.followers.set (natArg i) ({ f with connected := false }, c) }, "ok")
    | none => bad
  | ["check", i] =>
    match w.leader, w.followers[natArg i]? with
    | some l, some (f, _) =>
      if i.toNat?.isNone then bad
      else (w, s!"fnext={f.hist.index} lnext={l.hist.index} F={dump f.cache} L={dump l.cache}")
    | _, _ => bad
  | ["restart", i] =>
    match w.followers[natArg i]? with
    | some (f, c) =>
      if i.toNat?.isNone then bad
      else
        let f' := restartFollower f (capOf c)
        ({ w with followers := w.followers.set (natArg i) (f', c) }, s!"ok fnext={f'.hist.index}")
    | none => bad
  | _ => bad

/-! ### monitor (judges the implementation's observations only) -/

structure MonF where
  sent      : List Nat := []
  connected : Bool := false
  next      : Option Nat := none     -- last index the follower reported (or must have, when connected)
  tainted   : Bool := false          -- received hand-made messages: no longer a copy of the leader, not judged

structure Mon where
  lnext   : Option Nat := none -- the leader's next index as last reported
  -- change log
  cap     : Nat := 0
  log     : C16.Log Nat := { log := [], next := 0 }
  dirty   : Bool := false      -- an injected kv failure since the last persist that was seen to succeed
  lastKv  : Option Nat := none -- persisted index as last reported
  held    : List (Nat × List (Option Nat)) := []   -- answers the caller keeps
  -- sync
  fs      : List MonF := []

/-- `key=value` field of an observation -/
def field (obs : String) (key : String) : Option String :=
  (words obs).findSome? (fun w => if w.startsWith (key ++ "=") then some (w.drop (key.length + 1)).toString else none)

def natField (obs key : String) : Option Nat := (field obs key).bind (·.toNat?)

/-- `[a,b,c]` → ids -/
def parseIdList (s : String) : List (Option Nat) :=
  let inner := ((s.drop 1).dropEnd 1).toString
  if inner.isEmpty then [] else (inner.splitOn ",").map (·.toNat?)

/-- `[r1;r2;…]` → view (id, canonical text) -/
def parseView (s : String) : C16.View String :=
  let inner := ((s.drop 1).dropEnd 1).toString
  if inner.isEmpty then [] else
    (inner.splitOn ";").map (fun r => (natArg ((r.splitOn ":").headD ""), r))

/-- region ids of `msgs=[start/n/ns/nl{id~l,…};…]` -/
def msgIds (s : String) : List Nat :=
  let inner := ((s.drop 1).dropEnd 1).toString
  if inner.isEmpty then [] else
    (inner.splitOn ";").flatMap (fun m =>
      match m.splitOn "{" with
      | [_, body] =>
        let b := (body.dropEnd 1).toString
        if b.isEmpty then [] else (b.splitOn ",").map (fun p => natArg ((p.splitOn "~").headD ""))
      | _ => [])

/-- `(region id, leader peer id)` per position of `msgs=[start/n/ns/nl{id~l,…};…]`, flattened (`x` = no leader entry) -/
def msgPairs (s : String) : List (Nat × Nat) :=
  let inner := ((s.drop 1).dropEnd 1).toString
  if inner.isEmpty then [] else
    (inner.splitOn ";").flatMap (fun m =>
      match m.splitOn "{" with
      | [_, body] =>
        let b := (body.dropEnd 1).toString
        if b.isEmpty then [] else (b.splitOn ",").map (fun p =>
          match p.splitOn "~" with
          | [a, l] => (natArg a, natArg l)
          | _ => (0, 0))
      | _ => [])

def updF (m : Mon) (i : Nat) (g : MonF → MonF) : Mon :=
  match m.fs[i]? with
  | some x => { m with fs := m.fs.set i (g x) }
  | none => m

/-- kv bookkeeping of the change-log monitor: an op with an injected kv failure makes the persisted index
    unreliable until a later persist is seen to succeed (the reported kv value changes) -/
def seenKv (m : Mon) (failed : Bool) (impl : String) : Mon :=
  let kv := natField impl "kv"
  if failed then { m with dirty := true, lastKv := kv }
  else if kv != m.lastKv then { m with dirty := false, lastKv := kv }
  else m

def monitor (m : Mon) (ws : List String) (impl : String) : Mon × List String :=
  match ws with
  | ["reset"] => ({}, [])
  | ["hb", "new", c] => ({ m with cap := natArg c, log := { log := [], next := 0 }, dirty := false, lastKv := none, held := [] }, [])
  | ["hb", "rec", i] | ["hb", "rec", i, "fail"] =>
    let log : C16.Log Nat := { log := m.log.log ++ [natArg i], next := m.log.next + 1 }
    let fails := if natField impl "next" == some log.next then [] else
      [s!"sig=C16.next-index-wrong expected={log.next} obs={impl}"]
    (seenKv { m with log := log } (ws.length == 4) impl, fails)
  | ["hb", "recn", n, i] =>
    let log : C16.Log Nat := { log := m.log.log ++ (List.range (natArg n)).map (natArg i + ·), next := m.log.next + natArg n }
    let fails := if natField impl "next" == some log.next then [] else
      [s!"sig=C16.next-index-wrong expected={log.next} obs={impl}"]
    (seenKv { m with log := log } false impl, fails)
  | ["hb", "from", i] =>
    if !impl.startsWith "[" then (m, []) else   -- not an answer (malformed sequence): nothing to judge
    let ans := parseIdList impl
    let ok := ans.all (·.isSome) && C16.checkRecordsFrom m.cap m.log (natArg i) (ans.filterMap id)
    (m, if ok then [] else
      [s!"sig=C16.records-from-wrong cap={m.cap} next={m.log.next} loglen={m.log.log.length} index={natArg i} expected={C16.expected m.cap m.log (natArg i)} got={impl}"])
  | ["hb", "hold", k, i] =>
    if !impl.startsWith "[" then (m, []) else
    let ans := parseIdList impl
    let ok := ans.all (·.isSome) && C16.checkRecordsFrom m.cap m.log (natArg i) (ans.filterMap id)
    ({ m with held := (m.held.filter (fun e => e.1 != natArg k)) ++ [(natArg k, ans)] }, if ok then [] else
      [s!"sig=C16.records-from-wrong cap={m.cap} next={m.log.next} loglen={m.log.log.length} index={natArg i} expected={C16.expected m.cap m.log (natArg i)} got={impl}"])
  | ["hb", "recheck", k] =>
    if !impl.startsWith "[" then (m, []) else
    match m.held.find? (fun e => e.1 == natArg k) with
    | some e =>
      (m, if C16.checkHeld e.2 (parseIdList impl) then [] else
        [s!"sig=C16.held-records-changed slot={natArg k} answer={fmtIds e.2} now={impl}"])
    | none => (m, [])
  | ["hb", "resetidx", n] | ["hb", "resetidx", n, "fail"] =>
    let fails := if natField impl "next" == some (natArg n) then [] else
      [s!"sig=C16.next-index-wrong expected={natArg n} obs={impl}"]
    (seenKv { m with log := { log := [], next := natArg n } } (ws.length == 4) impl, fails)
  | "hb" :: "restart" :: rest =>
    let cap := match rest with | [c] => natArg c | _ => m.cap
    match natField impl "next" with
    | some n =>
      let fails := if m.dirty || C16.checkRestartLag C16.flushInterval m.log.next n then [] else
        [s!"sig=C16.restart-lag before={m.log.next} after={n} flush={C16.flushInterval}"]
      ({ m with cap := cap, log := { log := [], next := n } }, fails)
    | none => (m, [])
  | ["follower", _] | ["follower", _, "plain"] => (if impl == "ok" then { m with fs := m.fs ++ [{}] } else m, [])
  | ["keepalive"] =>
    (if impl == "ok" then { m with fs := m.fs.map (fun x => if x.connected then { x with next := m.lnext.orElse (fun _ => x.next) } else x) } else m, [])
  | ["lrestart"] =>
    match natField impl "lnext" with
    | some n =>
      let fails := match m.lnext with
        | some b => if C16.checkRestartLag C16.flushInterval b n then [] else
            [s!"sig=C16.restart-lag leader before={b} after={n} flush={C16.flushInterval}"]
        | none => []
      ({ m with lnext := some n, fs := m.fs.map (fun x => { x with connected := false }) }, fails)
    | none => (m, [])
  | ["put", _] | ["putn", _, _] =>
    -- an accepted change reaches the connected followers only; the others fall behind
    match natField impl "next" with
    | some n =>
      let m := { m with lnext := some n }
      let changed := (ws.length == 2) || (natField impl "accepted" != some 0)
      if !changed then (m, []) else
      let id := natArg (((ws.getLastD "").splitOn ":").headD "")
      ({ m with fs := m.fs.map (fun x =>
          if x.connected then { x with sent := id :: x.sent, next := some n } else { x with sent := [] }) }, [])
    | none => (m, [])
  | "burst" :: _ :: specs =>
    -- the accepted changes (as the harness reports) must be what the live followers were sent: every change
    -- once, in order, each region with its own leader
    match field impl "acc", field impl "msgs", natField impl "next" with
    | some acc, some ms, some n =>
      let m := { m with lnext := some n }
      let accepted := (specs.zip acc.toList).filterMap (fun (x : String × Char) =>
        if x.2 == '1' then (parseRegion x.1).map (fun r => (r.md.id, match r.leader with | some p => p.id | none => 0)) else none)
      let fails := if C16.checkBroadcast accepted (msgPairs ms) then [] else
        [s!"sig=C16.broadcast-not-the-changes changes={accepted} sent={msgPairs ms}"]
      if accepted.isEmpty then (m, fails) else
      ({ m with fs := m.fs.map (fun x =>
          if x.connected then { x with sent := accepted.map (·.1) ++ x.sent, next := some n } else { x with sent := [] }) }, fails)
    | _, _, _ => (m, [])
  | ["connect", i, _] =>
    match field impl "msgs", natField impl "fnext" with
    | some ms, some n =>
      (updF m (natArg i) (fun x => { x with sent := msgIds ms ++ x.sent, connected := true, next := some n }), [])
    | _, _ => (m, [])
  | ["raw", i, _, _, _, _] =>
    (if impl.startsWith "ok" then updF m (natArg i) (fun x => { x with tainted := true, next := natField impl "fnext" }) else m, [])
  | ["disconnect", i] => (if impl == "ok" then updF m (natArg i) (fun x => { x with connected := false }) else m, [])
  | ["check", i] =>
    match m.fs[natArg i]?, field impl "F", field impl "L", natField impl "fnext" with
    | some x, some fv, some lv, some n =>
      let F := parseView fv
      let L := parseView lv
      let fails := if x.tainted || C16.checkConverged x.sent F L then [] else
        let bad := C16.diverged x.sent F L
        let id := bad.headD 0
        [s!"sig=C16.follower-differs-from-leader regions={bad.length} first={id} follower={C16.lookup F id} leader={C16.lookup L id}"]
      (updF m (natArg i) (fun x => { x with next := some n }), fails)
    | _, _, _, _ => (m, [])
  | ["restart", i] =>
    match m.fs[natArg i]?, natField impl "fnext" with
    | some x, some n =>
      let fails := match x.next with
        | some b => if C16.checkRestartLag C16.flushInterval b n then [] else
            [s!"sig=C16.restart-lag follower={natArg i} before={b} after={n} flush={C16.flushInterval}"]
        | none => []
      (updF m (natArg i) (fun y => { next := some n, tainted := y.tainted }), fails)
    | _, _ => (m, [])
  | _ => (m, [])

structure DState where
  world : World := {}
  mon   : Mon := {}

def step (d : DState) (opLine : String) (impl : String) : DState × StepOut :=
  let ws := words opLine
  let (w', out) := modelStep d.world ws
  let (mon', fails) := monitor d.mon ws impl
  ({ world := w', mon := mon' }, { model := out, fails := fails })

def main : IO UInt32 := runDriver ({} : DState) step

end PdModel.Driver.Syncer
