/-
Line-protocol plumbing shared by every area driver (core Lean only).

A trace file has one line per operation: `<op> => <implementation observation>`.
The driver re-computes the observation with the model, compares, and runs the
property monitor over what the *implementation* reported.  Output lines:

  DIFF line=<n> op=<op> model=<m> impl=<i>
  MONITOR-FAIL line=<n> sig=<signature> <detail>
  SUMMARY lines=<n> diffs=<d> monitor_fails=<k>
-/
namespace PdModel.Driver

/-- split `a => b` at the first ` => `. -/
def splitArrow (line : String) : String × String :=
  match line.splitOn " => " with
  | [] => ("", "")
  | [a] => (a, "")
  | a :: rest => (a, " => ".intercalate rest)

def words (s : String) : List String :=
  (s.splitOn " ").filter (· ≠ "")

def natArg (s : String) : Nat := s.toNat?.getD 0

def intArg (s : String) : Int := s.toInt?.getD 0

/-- result of one driver step -/
structure StepOut where
  model : String            -- model's observation for this op
  fails : List String := [] -- monitor complaints (each `sig=<..> detail`)

structure Counters where
  lines : Nat := 0
  diffs : Nat := 0
  fails : Nat := 0

partial def loop {σ : Type} (h : IO.FS.Stream) (step : σ → String → String → σ × StepOut)
    (s : σ) (c : Counters) : IO Counters := do
  let raw ← h.getLine
  if raw.isEmpty then return c
  let line := (raw.dropEndWhile (fun ch => ch == '\n' || ch == '\r')).toString
  if line.isEmpty || line.startsWith "#" then
    loop h step s c
  else
    let (op, impl) := splitArrow line
    let (s', out) := step s op impl
    let n := c.lines + 1
    let mut c := { c with lines := n }
    if out.model ≠ impl then
      IO.println s!"DIFF line={n} op={op} model={out.model} impl={impl}"
      c := { c with diffs := c.diffs + 1 }
    for f in out.fails do
      IO.println s!"MONITOR-FAIL line={n} {f}"
      c := { c with fails := c.fails + 1 }
    loop h step s' c

/-- run a driver over stdin -/
def runDriver {σ : Type} (init : σ) (step : σ → String → String → σ × StepOut) : IO UInt32 := do
  let stdin ← IO.getStdin
  let c ← loop stdin step init {}
  IO.println s!"SUMMARY lines={c.lines} diffs={c.diffs} monitor_fails={c.fails}"
  return 0

end PdModel.Driver
