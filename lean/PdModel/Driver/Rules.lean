import PdModel.Driver.Common
import PdModel.Model.Rules
import PdModel.Spec.C13
/-!
Driver for area `rules` (property C13).

Rule token  g:id:index:ov:start:end:role:count:lbl      (ranks; ov 0/1)
Ops
  reset | restart [fail=<k>]     (restart = Initialize on the live storage; fail: its (k+1)-th storage write fails)
  set <rule> | del <g> <id> | setrules <rule>,… | getmodset <g> <id> <count>
  batch <item>,…            item = +<rule> | -<g>:<id> | ~<g>:<prefix>:<lo>:<hi>
  setgroup <g> <index> <ov> | delgroup <g>
  setbundle <bundle> | setall <0|1> <bundle>;… | delbundle <g> | delbundlere <pattern> <g,…|->
                            bundle = g|index|ov|<rule>,…   (rules `-` when none)
  rawput <kg> <kid> <rule> | rawjunk <kg> <kid> | rawdel <kg> <kid>
  every update may end with ` fail=<k>` (the (k+1)-th storage write of the update fails) and then
  ` wrote=<t>,…` (the writes that were done before it, reported by the harness; t = r<g>.<id> | g<id>)
Observation
  <out> R=<GetAllRules> G=<GetRuleGroups> K=<GetRulesByKey for keys 0..8> A=<GetRulesForApplyRegion for
  all ranges> S=<GetSplitKeys for all ranges> ST=<storage> L=<what a second manager loads from a copy>
-/
namespace PdModel.Driver.Rules
open PdModel.Rules PdModel.Driver PdModel.Spec.C13

def ip : InitParams := { maxReplica := 3, lbl := 2, pdGroup := 4, defaultId := 6 }

def maxKey : Nat := 8

/-- the queried ranges: start 0..7, end > start (up to 8) or unbounded -/
def ranges : List (Nat × Nat) :=
  (List.range maxKey).flatMap (fun s => ((List.range (maxKey + 1)).filter (· > s)).map (fun e => (s, e)) ++ [(s, 0)])

/-! ### printing -/

def roleStr : Role → String
  | .voter => "voter" | .leader => "leader" | .follower => "follower" | .learner => "learner" | .invalid => "x"

def b01 (b : Bool) : String := if b then "1" else "0"

def ruleStr (r : Rule) : String :=
  s!"{r.group}:{r.id}:{r.index}:{b01 r.override}:{r.start}:{r.end_}:{roleStr r.role}:{r.count}:{r.lbl}"

def groupStr (g : Group) : String := s!"{g.id}:{g.index}:{b01 g.override}"

def joinOr (dflt sep : String) (l : List String) : String := if l.isEmpty then dflt else sep.intercalate l

def keysStr (l : Option (List GRule)) : String :=
  match l with
  | none => "nil"
  | some l => joinOr "nil" "+" (l.map (fun r => s!"{r.rule.group}.{r.rule.id}"))

def mgrStr (m : Mgr) : String :=
  s!"{joinOr "-" "," ((getAllRules m).map (fun r => ruleStr r.rule))}/{joinOr "-" "," ((getRuleGroups m).map groupStr)}"

def storeStr (st : Storage) : String :=
  let rs := st.rules.map (fun kv => s!"{kv.1.1}.{kv.1.2}=" ++ (match kv.2 with | some r => ruleStr r | none => "junk"))
  s!"{joinOr "-" "," rs}/{joinOr "-" "," (st.groups.map groupStr)}"

def loadStr (st : Storage) : String :=
  match (initMgr ip st).1 with
  | .error _ => "err"
  | .ok m => mgrStr m

def obsStr (s : St) : String :=
  let m := s.mgr
  let r := joinOr "-" "," ((getAllRules m).map (fun r => ruleStr r.rule))
  let g := joinOr "-" "," ((getRuleGroups m).map groupStr)
  let k := ",".intercalate ((List.range (maxKey + 1)).map (fun k => keysStr (getRulesByKey m.ruleList k)))
  let a := ",".intercalate (ranges.map (fun se => keysStr (getRulesForApplyRegion m.ruleList se.1 se.2)))
  let sp := ",".intercalate (ranges.map (fun se =>
    joinOr "-" "+" ((getSplitKeys m.ruleList se.1 se.2).map toString)))
  s!"R={r} G={g} K={k} A={a} S={sp} ST={storeStr s.store} L={loadStr s.store}"

def outStr : Out → String
  | .ok => "ok" | .rejContent => "rej-content" | .rejBuild => "rej-build" | .errStorage => "err-storage"
  | .notFound => "not-found" | .bad => "bad-op"

/-! ### parsing -/

def parseRole : String → Role
  | "voter" => .voter | "leader" => .leader | "follower" => .follower | "learner" => .learner | _ => .invalid

def parseRule (s : String) : Option Rule :=
  match s.splitOn ":" with
  | [g, id, idx, ov, st, en, role, cnt, lbl] =>
    some { group := natArg g, id := natArg id, index := intArg idx, override := ov == "1", start := natArg st,
           end_ := natArg en, role := parseRole role, count := intArg cnt, lbl := natArg lbl }
  | _ => none

def parseRules (s : String) : Option (List Rule) :=
  if s == "-" || s == "" then some [] else (s.splitOn ",").mapM parseRule

def parseGroup (s : String) : Option Group :=
  match s.splitOn ":" with
  | [id, idx, ov] => some ⟨natArg id, intArg idx, ov == "1"⟩
  | _ => none

def parseBundle (s : String) : Option Bundle :=
  match s.splitOn "|" with
  | [g, idx, ov, rules] => (parseRules rules).map (fun rs => ⟨natArg g, intArg idx, ov == "1", rs⟩)
  | _ => none

def parseBatchItem (s : String) : Option BatchOp :=
  if s.startsWith "+" then (parseRule (s.drop 1).toString).map .add
  else if s.startsWith "-" then
    match (s.drop 1).toString.splitOn ":" with
    | [g, id] => some (.del (natArg g, natArg id))
    | _ => none
  else if s.startsWith "~" then
    match (s.drop 1).toString.splitOn ":" with
    | [g, _, lo, hi] => some (.delPrefix (natArg g) (natArg lo) (natArg hi))
    | _ => none
  else none

def parseTarget (s : String) : Option (Bool × K) :=
  if s.startsWith "r" then
    match (s.drop 1).toString.splitOn "." with
    | [g, id] => some (true, (natArg g, natArg id))
    | _ => none
  else if s.startsWith "g" then some (false, (natArg (s.drop 1).toString, 0))
  else none

/-- strip ` fail=k` / ` wrote=…` from the op words -/
def splitFail (ws : List String) : List String × Fail :=
  let core := ws.filter (fun w => !(w.startsWith "fail=" || w.startsWith "wrote="))
  let k := (ws.find? (·.startsWith "fail=")).map (fun w => natArg (w.drop 5).toString)
  let wrote := match ws.find? (·.startsWith "wrote=") with
    | some w => ((w.drop 6).toString.splitOn ",").filterMap parseTarget
    | none => []
  (core, k.map (fun k => (k, wrote)))

def parseOp (ws : List String) : Option Op :=
  match ws with
  | ["set", r] => (parseRule r).map .setRule
  | ["del", g, id] => some (.deleteRule (natArg g, natArg id))
  | ["setrules", rs] => (parseRules rs).map .setRules
  | ["getmodset", g, id, c] => some (.getModSet (natArg g, natArg id) (intArg c))
  | ["batch", items] => (if items == "-" then some [] else (items.splitOn ",").mapM parseBatchItem).map .batch
  | ["setgroup", g, idx, ov] => some (.setGroup ⟨natArg g, intArg idx, ov == "1"⟩)
  | ["delgroup", g] => some (.deleteGroup (natArg g))
  | ["setbundle", b] => (parseBundle b).map .setBundle
  | ["setall", ov, bs] =>
    (if bs == "-" then some [] else (bs.splitOn ";").mapM parseBundle).map (fun l => .setAllBundles l (ov == "1"))
  | ["delbundle", g] => some (.deleteBundle [natArg g])
  | ["delbundlere", _, gs] => some (.deleteBundle (if gs == "-" then [] else (gs.splitOn ",").map natArg))
  | _ => none

/-! ### monitor: judges the implementation's own report with the definitions of Spec.C13 -/

structure Report where
  out    : String
  served : Served
  r  : String
  g  : String
  k  : String
  a  : String
  s  : String
  st : String
  l  : String

def field (ws : List String) (pre : String) : String :=
  match ws.find? (·.startsWith pre) with
  | some w => (w.drop pre.length).toString
  | none => ""

def parseReport (impl : String) : Option Report :=
  let ws := words impl
  match ws with
  | out :: _ =>
    let r := field ws "R="
    let g := field ws "G="
    match parseRules r, (if g == "-" then some [] else (g.splitOn ",").mapM parseGroup) with
    | some rs, some gs =>
      some { out := out, served := ⟨rs, gs⟩, r := r, g := g, k := field ws "K=", a := field ws "A=",
             s := field ws "S=", st := field ws "ST=", l := field ws "L=" }
    | _, _ => none
  | [] => none

def specKeys (l : List Rule) : String := joinOr "nil" "+" (l.map (fun r => s!"{r.group}.{r.id}"))

structure Mon where
  prev        : Option Report := none
  synced      : Bool := true         -- storage = served at the previous line
  failedSince : Bool := false        -- a save failed since storage and served last agreed
  failedOp    : String := ""         -- the update whose save failed last, if storage was in sync before it
  external    : Bool := false        -- the storage was written behind the manager's back (raw ops)

def sortStrs (l : List String) : List String :=
  l.foldr (fun x acc =>
    let rec ins : List String → List String
      | [] => [x]
      | y :: ys => if x < y then x :: y :: ys else y :: ins ys
    ins acc) []

/-- does the raw storage hold exactly the served rules and the served non-default groups? -/
def storageInSync (rep : Report) : Bool :=
  match rep.st.splitOn "/" with
  | [rs, gs] =>
    let stored := if rs == "-" then [] else (rs.splitOn ",").map (fun kv => (kv.splitOn "=").getLastD "")
    let storedKeysOK := if rs == "-" then true else (rs.splitOn ",").all (fun kv =>
      match kv.splitOn "=" with
      | [k, v] => (match v.splitOn ":" with | g :: id :: _ => k == s!"{g}.{id}" | _ => false)
      | _ => false)
    let served := rep.served.rules.map ruleStr
    let storedG := if gs == "-" then [] else gs.splitOn ","
    let servedG := (rep.served.groups.filter (fun g => !g.isDefault)).map groupStr
    storedKeysOK && sortStrs stored == sortStrs served && sortStrs storedG == sortStrs servedG
  | _ => false

/-- (storage key, key of the rule stored there) of every parsable entry of a raw storage dump -/
def storedKeys (st : String) : List (String × String) :=
  match st.splitOn "/" with
  | rs :: _ =>
    if rs == "-" then [] else (rs.splitOn ",").filterMap (fun kv =>
      match kv.splitOn "=" with
      | [k, v] => (match v.splitOn ":" with | g :: id :: _ :: _ => some (k, s!"{g}.{id}") | _ => none)
      | _ => none)
  | [] => []

/-- chained foreign keys: a rule stored under a foreign key whose own key holds (the only copy of) another rule -/
def chainedForeign (st : String) : Bool :=
  let es := storedKeys st
  es.any (fun e1 => e1.1 != e1.2 && es.any (fun e2 => e2.1 == e1.2 && e2.2 != e1.2))

/-- one rule stored in several copies (under different keys): which copy a start-up serves is not determined by
    the stored data alone, so "what a healthy start-up would serve" is not a function of the storage -/
def duplicateCopies (st : String) : Bool :=
  let es := storedKeys st
  es.any (fun e1 => es.any (fun e2 => e1.1 != e2.1 && e1.2 == e2.2))

def monitor (m : Mon) (coreOp : String) (isUpdate : Bool) (impl : String) (restartFromClean : Option Bool := none) :
    Mon × List String :=
  match parseReport impl with
  | none => (m, ["sig=C13.malformed-report"])
  | some rep =>
    let sv := rep.served
    -- index exactness, from the served rules and groups the implementation reports
    let expK := ",".intercalate ((List.range (maxKey + 1)).map (fun k => specKeys (rulesAt sv k)))
    let expA := ",".intercalate (ranges.map (fun se =>
      match applyFor sv se.1 se.2 with | none => "nil" | some l => specKeys l))
    let expS := ",".intercalate (ranges.map (fun se => joinOr "-" "+" ((splitKeys sv se.1 se.2).map toString)))
    let f1 := if rep.k == expK then [] else [s!"sig=C13.rules-by-key-wrong reported={rep.k} expected={expK}"]
    let f2 := if rep.a == expA then [] else [s!"sig=C13.apply-rules-wrong reported={rep.a} expected={expA}"]
    let f3 := if rep.s == expS then [] else [s!"sig=C13.split-keys-wrong reported={rep.s} expected={expS}"]
    -- every key has a valid rule set
    let badKeys := (List.range (maxKey + 1)).filter (fun k => !keyOK sv k)
    let f4 := match badKeys with
      | [] => []
      | k :: _ =>
        let leading := (rulesAt sv k).isEmpty && sv.rules.all (fun r => r.start > k)
        [s!"sig=C13.served-invalid-config{if leading then "-leading-gap" else ""} key={k} rules={rep.r}"]
    -- a rejected or failed update changes nothing observable
    let servedStr (r : Report) := s!"{r.r} {r.g} {r.k} {r.a} {r.s}"
    let f5 := match m.prev with
      | some p =>
        if isUpdate && rep.out != "ok" && servedStr p != servedStr rep then
          [s!"sig=C13.{if rep.out == "err-storage" then "failed-save" else "rejected-update"}-changed-served out={rep.out} before={p.r}/{p.g} after={rep.r}/{rep.g}"]
        else []
      | none => []
    -- after an accepted update the storage holds what is served, and a restarted manager loads exactly that
    let sync := storageInSync rep
    let loadOK := rep.l == s!"{rep.r}/{rep.g}"
    let accepted := rep.out == "ok" && (isUpdate || coreOp == "reset")
    let retry := m.failedOp != "" && isUpdate && rep.out == "ok" && coreOp == m.failedOp
    let f6 :=
      if m.external || !accepted then []
      else if !sync then
        if retry then [s!"sig=C13.retry-did-not-converge served={rep.r}/{rep.g} storage={rep.st}"]
        else if m.failedSince then
          [s!"sig=C13.restart-differs-after-failed-save served={rep.r}/{rep.g} storage={rep.st} loaded={rep.l}"]
        else [s!"sig=C13.storage-differs-from-served served={rep.r}/{rep.g} storage={rep.st}"]
      else if !loadOK then [s!"sig=C13.restart-differs served={rep.r}/{rep.g} loaded={rep.l}"]
      else []
    -- a restart (Initialize on the live storage): it serves what is stored, leaves the storage holding exactly that
    -- (key repairs included), and – if storage and served agreed before – serves what was served before
    let f7 := match restartFromClean, m.prev with
      | some clean, some p =>
        if rep.out != "ok" then []
        else
          (if sync then [] else [s!"sig=C13.restart-left-storage-differing served={rep.r}/{rep.g} storage={rep.st}"]) ++
          (if loadOK then [] else [s!"sig=C13.restart-differs served={rep.r}/{rep.g} loaded={rep.l}"]) ++
          (if clean && servedStr p != servedStr rep then
            [s!"sig=C13.restart-changed-served before={p.r}/{p.g} after={rep.r}/{rep.g}"] else [])
      | _, _ => []
    -- a start-up that failed (storage error during the key repairs, or an invalid stored configuration) must not lose
    -- anything: what a healthy start-up on the storage would serve is what it would have served before
    let f8 := match restartFromClean, m.prev with
      | some _, some p =>
        if rep.out == "load-failed" && p.l != "err" && rep.l != p.l && !duplicateCopies p.st then
          [s!"sig=C13.failed-initialize-lost-rules{if chainedForeign p.st then "-chained-foreign-keys" else ""} recoverable-before={p.l} recoverable-after={rep.l} storage-before={p.st}"]
        else []
      | _, _ => []
    let failedSince' := if sync then false else (m.failedSince || rep.out == "err-storage")
    let failedOp' :=
      if rep.out == "err-storage" then (if m.synced || coreOp == m.failedOp then coreOp else "")
      else if isUpdate then "" else m.failedOp
    ({ m with prev := some rep, synced := sync, failedSince := failedSince', failedOp := failedOp' },
     f1 ++ f2 ++ f3 ++ f4 ++ f5 ++ f6 ++ f7 ++ f8)

structure DState where
  st      : St := {}
  mon     : Mon := {}
  pending : Option Op := none     -- an update parked inside its storage write (it holds the manager's lock)
  queued  : Option Op := none     -- an update issued meanwhile: blocked until the first one is done

def freshState : St :=
  match initMgr ip {} with
  | (.ok m, store) => { mgr := m, store := store }
  | (.error _, store) => { store := store }

def stepPlain (d : DState) (opLine : String) (impl : String) : DState × StepOut :=
  let (core, fail) := splitFail (words opLine)
  let coreOp := " ".intercalate core
  match core with
  | ["reset"] =>
    let s := freshState
    let (mon, fails) := monitor {} coreOp false impl
    ({ st := s, mon := mon }, { model := s!"ok {obsStr s}", fails := fails })
  | ["restart"] =>
    let (r, store) := initMgrF ip d.st.store (fail.map (·.1))
    let (s, out) := match r with
      | some m => (({ mgr := m, store := store } : St), "ok")
      | none => ({ d.st with store := store }, "load-failed")
    let mon0 := if out == "ok" then { d.mon with failedSince := false, failedOp := "", external := false } else d.mon
    let (mon, fails) := monitor mon0 coreOp false impl (some (d.mon.synced && !d.mon.external))
    ({ st := s, mon := mon }, { model := s!"{out} {obsStr s}", fails := fails })
  | ["rawput", kg, kid, r] =>
    match parseRule r with
    | some r =>
      let s := { d.st with store := { d.st.store with rules := mapSet (·.1) ((natArg kg, natArg kid), some r) d.st.store.rules } }
      let (mon, fails) := monitor { d.mon with external := true } coreOp false impl
      ({ st := s, mon := mon }, { model := s!"ok {obsStr s}", fails := fails })
    | none => (d, { model := "bad-op" })
  | ["rawjunk", kg, kid] =>
    let s := { d.st with store := { d.st.store with rules := mapSet (·.1) ((natArg kg, natArg kid), none) d.st.store.rules } }
    let (mon, fails) := monitor { d.mon with external := true } coreOp false impl
    ({ st := s, mon := mon }, { model := s!"ok {obsStr s}", fails := fails })
  | ["rawdel", kg, kid] =>
    let s := { d.st with store := { d.st.store with rules := mapDel (·.1) (natArg kg, natArg kid) d.st.store.rules } }
    let (mon, fails) := monitor { d.mon with external := true } coreOp false impl
    ({ st := s, mon := mon }, { model := s!"ok {obsStr s}", fails := fails })
  | _ =>
    match parseOp core with
    | none => (d, { model := "bad-op" })
    | some op =>
      let (s, out) := PdModel.Rules.step d.st op fail
      let (mon, fails) := monitor d.mon coreOp true impl
      ({ st := s, mon := mon }, { model := s!"{outStr out} {obsStr s}", fails := fails })

/-- replace the (possibly composite `a+b`) result of a released pair by one token for the monitor:
    accepted if any of the two updates was -/
def releaseImpl (impl : String) : String :=
  match words impl with
  | out :: rest =>
    let parts := out.splitOn "+"
    let tok := if parts.contains "ok" then "ok" else parts.headD out
    " ".intercalate (tok :: rest)
  | [] => impl

/-- Overlapping updates.  `park <update>`: the update is started and held inside its first storage write (if it has
    one); the manager's mutex is held for the whole update (lock facts, `rules_structure_facts`), so an update issued
    meanwhile (`during <update>`) is `blocked` and runs after `release`: the outcome is the two steps in sequence. -/
def step (d : DState) (opLine : String) (impl : String) : DState × StepOut :=
  let (core, fail) := splitFail (words opLine)
  match core with
  | "park" :: rest =>
    match d.pending, fail, parseOp rest with
    | none, none, some op =>
      if (PdModel.Rules.step d.st op (some (0, []))).2 == .errStorage then
        ({ d with pending := some op }, { model := "parked" })
      else
        -- no storage write: the update completes at once
        let (s, out) := PdModel.Rules.step d.st op none
        let (mon, fails) := monitor d.mon (" ".intercalate rest) true impl
        ({ st := s, mon := mon }, { model := s!"{outStr out} {obsStr s}", fails := fails })
    | _, _, _ => (d, { model := "bad-op" })
  | "during" :: rest =>
    match d.pending, d.queued, fail, parseOp rest with
    | some _, none, none, some op => ({ d with queued := some op }, { model := "blocked" })
    | _, _, _, _ => (d, { model := "bad-op" })
  | ["release"] =>
    match d.pending with
    | some op1 =>
      let (s1, o1) := PdModel.Rules.step d.st op1 none
      let (s2, outs) := match d.queued with
        | some op2 => let (s2, o2) := PdModel.Rules.step s1 op2 none; (s2, s!"{outStr o1}+{outStr o2}")
        | none => (s1, outStr o1)
      let (mon, fails) := monitor d.mon "release" true (releaseImpl impl)
      ({ st := s2, mon := mon }, { model := s!"{outs} {obsStr s2}", fails := fails })
    | none => (d, { model := "bad-op" })
  | ["reset"] => stepPlain { d with pending := none, queued := none } opLine impl
  | _ => if d.pending.isSome then (d, { model := "bad-op" }) else stepPlain d opLine impl

def main : IO UInt32 := runDriver ({} : DState) step

end PdModel.Driver.Rules
