import PdModel.Driver.Common
import PdModel.Model.Tso
import PdModel.Spec.C01
import PdModel.Spec.C02
import PdModel.Generated.Tso
/-!
Driver for area `tso` (properties C01 and C02).
Trace line: `<op> => <out> @<stored> <phys>:<logical>:<lastSaved>:<lease>` (acting member's view; 0 = unset).
-/
namespace PdModel.Driver.Tso
open PdModel.Tso PdModel.Driver PdModel.Spec

def Out.str : Out → String
  | .ok => "ok" | .skip => "ok" | .blocked => "blocked" | .parked => "parked"
  | .ts ms l => s!"ts {ms} {l}"
  | .errUninit => "err-uninit" | .errNotLeader => "err-notleader" | .errExceeded => "err-exceeded"
  | .errZeroCount => "err-zerocount" | .errSave => "err-save" | .errConflict => "err-conflict"
  | .errSmall => "err-small" | .errSmallCounter => "err-smallcounter" | .errLarge => "err-large"
  | .errLease => "err-lease" | .bad => "bad-op"

def parseFault : String → Fault
  | "before" => .errBefore
  | "after" => .errAfter
  | _ => .none

def parseOp (ws : List String) : Option Op :=
  match ws with
  | ["lead", m] => some (.lead (natArg m))
  | ["expire", m] => some (.expire (natArg m))
  | ["resign"] => some .resign
  | ["dropkey"] => some .dropKey
  | ["getts", m, c] => some (.getTS (natArg m) (natArg c))
  | ["update", m, now, f] => some (.update (natArg m) (natArg now) (parseFault f))
  | ["gupdate", m, now] => some (.gupdate (natArg m) (natArg now))
  | ["sync", m, now, f] => some (.sync (natArg m) (natArg now) (parseFault f))
  | ["gsync", m, now] => some (.gsync (natArg m) (natArg now))
  | ["finish", m, f] => some (.finish (natArg m) (parseFault f))
  -- SetTSO takes one 64-bit value `ms << 18 | logical`: the logical part is 18 bits by construction
  | ["setts", m, ms, l, f] => some (.setTS (natArg m) (natArg ms) (natArg l % 2 ^ 18) false (parseFault f))
  | ["writets", m, ms, l, f] => some (.setTS (natArg m) (natArg ms) (natArg l % 2 ^ 18) true (parseFault f))
  | ["resetmem", m] => some (.resetMem (natArg m))
  | ["extwin", v] => some (.extWin (natArg v))
  | _ => none

def opMember : Op → Nat
  | .lead m | .expire m | .getTS m _ | .tryTS m _ | .update m _ _ | .gupdate m _ | .sync m _ _ | .gsync m _
  | .finish m _ | .setTS m _ _ _ _ | .resetMem m => m
  | .resign | .dropKey | .extWin _ => 0

def viewStr (s : St) (m : Nat) : String :=
  let x := s.mems m
  s!"@{s.stored.getD 0} {x.phys.getD 0}:{x.logical}:{x.lastSaved.getD 0}:{if x.lease then 1 else 0}"

structure Mon where
  evs      : List C01.Ev := []
  idx      : Nat := 0
  stored   : Option Nat := none
  phys     : List (Nat × Nat) := []      -- member ↦ last observed physical ns
  ambig    : List Nat := []              -- members whose SetTSO reported a save error although the stored window moved
  deriving Inhabited

structure DState where
  model  : St
  queued : List (Nat × Op) := []          -- ops that blocked on a member's window mutex
  mon    : Mon := {}

/-- parse `<out...> @<stored> <phys>:<logical>:<lastSaved>:<lease>` -/
def parseImpl (impl : String) : List String × Nat × Nat :=
  match impl.splitOn " @" with
  | [a, b] =>
    match words b with
    | [st, view] =>
      match view.splitOn ":" with
      | ph :: _ => (words a, natArg st, natArg ph)
      | _ => (words a, natArg st, 0)
    | _ => (words a, 0, 0)
  | _ => ([], 0, 0)

def lookup (l : List (Nat × Nat)) (m : Nat) : Nat := ((l.find? (·.1 == m)).map (·.2)).getD 0

/-- monitor one op from the implementation's observation only -/
def monitor (bits : Nat) (mon : Mon) (op : Op) (impl : String) : Mon × List String :=
  let (outw, st, ph) := parseImpl impl
  let stored : Option Nat := if st = 0 then none else some st
  let m := opMember op
  let grantMs : Option Nat := match outw with | ["ts", ms, _] => some (natArg ms) | _ => none
  let obs : C02.Obs := ⟨stored, grantMs⟩
  let f2 : List String :=
    if C02.checkNext mon.stored obs then []
    else if decide (C02.optLe mon.stored stored) then
      [s!"sig=C02.grant-not-below-stored-window grantMs={grantMs} stored={st}"]
    else if mon.ambig.contains m then
      [s!"sig=C02.stored-window-decreased-after-ambiguous-settso-commit member={m} from={mon.stored.getD 0} to={st}"]
    else [s!"sig=C02.stored-window-decreased from={mon.stored.getD 0} to={st}"]
  -- C01 on the grants (sequential history: every earlier event finished before this one started)
  let (evs, f1) : List C01.Ev × List String :=
    match op, outw with
    | .getTS _ count, ["ts", ms, l] =>
      let raw := natArg l / 2 ^ bits
      let e : C01.Ev := ⟨mon.idx, mon.idx, natArg ms, raw - count, raw, natArg l⟩
      let okOrder := mon.evs.all (fun a => decide (C01.valuesLt a e))
      let okWf := decide (C01.wellFormed PdModel.Generated.Tso.physicalShiftBits e) && decide (count ≤ raw)
      (mon.evs ++ [e],
        (if okOrder then [] else [s!"sig=C01.timestamp-not-above-earlier-grants ms={e.ms} lo={e.lo} hi={e.hi}"]) ++
        (if okWf then [] else [s!"sig=C01.logical-out-of-range ms={e.ms} lo={e.lo} hi={e.hi}"]))
    | _, _ => (mon.evs, [])
  -- a failed window save must not advance the in-memory time
  let isErr := match outw with
    | [o] => o == "err-save" || o == "err-conflict"
    | _ => false
  let prevPh := lookup mon.phys m
  let f3 : List String :=
    if isErr && ph != prevPh && ph != 0 then
      [s!"sig=C02.memory-advanced-after-failed-save member={m} from={prevPh} to={ph}"] else []
  let phys := (m, ph) :: mon.phys.filter (·.1 != m)
  let ambig : List Nat :=
    match op with
    | .setTS _ _ _ _ _ => if isErr && stored != mon.stored && !mon.ambig.contains m then m :: mon.ambig else mon.ambig
    | .lead _ | .resign => []
    | .sync _ _ _ => mon.ambig.filter (· != m)
    | _ => mon.ambig
  ({ evs := evs, idx := mon.idx + 1, stored := stored, phys := phys, ambig := ambig }, f1 ++ f2 ++ f3)

/-- `GenerateTSO` as the iteration of single attempts (`Op.tryTS`, see `getTSLoop_succ`), with the hook ops run
    during the sleep after the `k`-th failed attempt -/
def getTSxLoop (m count k : Nat) (hooks : List Op) (s : St) : Nat → Nat → St × Out
  | 0, _ => (s, .errExceeded)
  | fuel + 1, i =>
    let (s1, o) := PdModel.Tso.step s (.tryTS m count)
    if o = .errExceeded then
      let s2 := if i = k then hooks.foldl (fun s h => (PdModel.Tso.step s h).1) s1 else s1
      getTSxLoop m count k hooks s2 fuel (i + 1)
    else (s1, o)

def getTSx (s : St) (m count k : Nat) (hooks : List Op) : St × Out :=
  if !(s.mems m).lease then (s, .errNotLeader)
  else if count = 0 then (s, .errZeroCount)
  else getTSxLoop m count k hooks s s.cfg.maxRetry 1

def mkCfg (si gap : Nat) (bits : Nat := 0) (suffix : Nat := 0) : Cfg :=
  { guard := PdModel.Generated.Tso.updateTimestampGuard, saveInterval := si,
    maxLogical := PdModel.Generated.Tso.maxLogical, maxResetGapMs := gap,
    maxRetry := PdModel.Generated.Tso.maxRetryCount, bits := bits, suffix := suffix }

def step (d : DState) (opLine : String) (impl : String) : DState × StepOut :=
  match words opLine with
  | ["reset", si, gap] =>
    ({ model := init (mkCfg (natArg si) (natArg gap)) }, { model := "ok @0 0:0:0:0" })
  -- a local allocator: `bits` suffix bits, this allocator's suffix
  | ["reset", si, gap, bits, suffix] =>
    ({ model := init (mkCfg (natArg si) (natArg gap) (natArg bits) (natArg suffix)) }, { model := "ok @0 0:0:0:0" })
  -- client-side pure functions
  | ["csplit", p, l, b, c] =>
    let vals := PdModel.Tso.clientSplit (natArg l) (natArg c) (natArg b)
    (d, { model := " ".intercalate (vals.map (fun v => s!"{natArg p}:{v}")) })
  | ["tsle", p, l, tp, tl] =>
    (d, { model := if PdModel.Tso.tsLessEqual (natArg p) (natArg l) (natArg tp) (natArg tl) then "true" else "false" })
  | ["compose", p, l] => (d, { model := toString (C01.compose (natArg p) (natArg l)) })
  | "cburst" :: _ =>
    -- concurrent requests against a running updater: judged by the monitor only (C01 on the granted
    -- ranges with their real-time stamps, C02 against the window stored at the end, which by monotonicity
    -- bounds the window at every grant from above)
    let (a, st) : String × Nat := match impl.splitOn " @" with
      | [a, b] => (a, natArg ((words b).headD "0"))
      | _ => (impl, 0)
    let gs : List C01.Ev := ((words a).drop 1).filterMap (fun g =>
      match g.splitOn ":" with
      | [ms, lo, hi, s, f] => some ⟨natArg s, natArg f, natArg ms, natArg lo, natArg hi, natArg hi⟩
      | _ => none)
    let fails :=
      (if C01.check PdModel.Generated.Tso.physicalShiftBits gs then [] else
        [s!"sig=C01.concurrent-grants-overlap-or-out-of-order n={gs.length}"]) ++
      (if gs.all (fun e => decide (e.ms * 1000000 < st)) then [] else
        [s!"sig=C02.concurrent-grant-not-below-stored-window stored={st}"])
    (d, { model := impl, fails := fails })
  | "gettsx" :: m :: c :: k :: hooks =>
    -- GenerateTSO whose k-th sleep inside the retry loop is used by other activity (the hook ops)
    let hookOps := hooks.filterMap (fun h => parseOp (h.splitOn ":"))
    let (s', o) := getTSx d.model (natArg m) (natArg c) (natArg k) hookOps
    let (mon', fails) := monitor d.model.cfg.bits d.mon (.getTS (natArg m) (natArg c)) impl
    ({ d with model := s', mon := mon' }, { model := s!"{Out.str o} {viewStr s' (natArg m)}", fails := fails })
  | ws =>
    match parseOp ws with
    | none => (d, { model := "bad-op @0 0:0:0:0" })
    | some op =>
      let m := opMember op
      let (s1, o) := PdModel.Tso.step d.model op
      -- an op that blocks on the window mutex runs right after the pending call finishes
      let queued1 := if o == .blocked then d.queued ++ [(m, op)] else d.queued
      let (s2, outStr, queued2) :=
        match op with
        | .finish _ _ =>
          match queued1.find? (fun (q : Nat × Op) => q.1 == m) with
          | some (_, q) =>
            let (s2, o2) := PdModel.Tso.step s1 q
            (s2, s!"{Out.str o} ; {Out.str o2}", queued1.filter (fun (q : Nat × Op) => q.1 != m))
          | none => (s1, Out.str o, queued1)
        | _ => (s1, Out.str o, queued1)
      let (mon', fails) := monitor d.model.cfg.bits d.mon op impl
      ({ model := s2, queued := queued2, mon := mon' },
       { model := s!"{outStr} {viewStr s2 m}", fails := fails })

def main : IO UInt32 :=
  runDriver ({ model := init (mkCfg 3000000000 86400000) } : DState) step

end PdModel.Driver.Tso
