import PdModel.Driver.Common
import PdModel.Model.DrAutoSync
import PdModel.Spec.C19
import PdModel.Generated.DrAutoSync
/-!
Driver for area `drautosync` (property C19).

Trace line: `<op> => <ret> pub=… mem=… st=… rec=… http=… sz=… ev=…` (see harness/cmd/drautosync).
The model side recomputes the whole observation.  The monitor side judges what the *implementation*
reported (`mem=`, `st=`, `ev=` and the return value) with the proved checker `Spec.C19.runB`; the facts
it decides on (failed stores per data centre, replicas, time-out flag, region reports) are taken from the
op lines, i.e. from the inputs, never from the model state.
-/
namespace PdModel.Driver.DrAutoSync
open PdModel.DrAutoSync PdModel.Driver
open PdModel.Spec

/-! ### parsing the op line -/

def parseBool (s : String) : Bool := s != "0"

def parseCfg : List String → Option Config
  | [mode, lk, p, d, pr, dr, wa] =>
    some { dr := mode == "dr", labelKey := natArg lk, primary := natArg p, drLabel := natArg d,
           pRep := natArg pr, dRep := natArg dr, waitAsync := parseBool wa }
  | _ => none

def parseSwitch : List String → Option SwitchIn
  | [id, f, s] => some { id := if id == "x" then none else some (natArg id), fileOk := parseBool f, save := natArg s }
  | _ => none

def parseRState : String → RState
  | "i" => .integrity | "m" => .majority | _ => .unknown

inductive DOp where
  | reset
  | op (o : Op)
  | setrec (key count srec stotal total : Nat)   -- test-only injection of the recovery counters

def parseOp (ws : List String) : Option DOp :=
  match ws with
  | ["reset"] => some .reset
  | "new" :: rest =>
    if rest.length = 10 then
      match parseCfg (rest.take 7), parseSwitch (rest.drop 7) with
      | some c, some x => some (.op (.new c x))
      | _, _ => none
    else none
  | "cfg" :: rest =>
    if rest.length = 10 then
      match parseCfg (rest.take 7), parseSwitch (rest.drop 7) with
      | some c, some x => some (.op (.cfg c x))
      | _, _ => none
    else none
  | ["tick", a, b, c, d, e, f] =>
    match parseSwitch [a, b, c], parseSwitch [d, e, f] with
    | some x1, some x2 => some (.op (.tick [x1, x2]))
    | _, _ => none
  -- meta state `t`: 0 Up, 1 Tombstone, 2 Offline; checkStoreStatus (and the property) only ask "tombstone?"
  | ["store", id, l, d, t] => some (.op (.store { id := natArg id, label := natArg l, down := parseBool d, tomb := t == "1" }))
  | ["region", id, s, e, st, sid] =>
    some (.op (.region { id := natArg id, start := natArg s, end_ := natArg e, st := parseRState st, sid := natArg sid }))
  | ["fill", n, st, sid] => some (.op (.fill (natArg n) (parseRState st) (natArg sid)))
  | ["rmregion", id] => some (.op (.rmregion (natArg id)))
  | ["inittime", b] => some (.op (.initOld (parseBool b)))
  | ["member", id, b] => some (.op (.member (natArg id) (parseBool b)))
  | ["sizes", b, m] => some (.op (.sizes (natArg b) (natArg m)))
  | ["setrec", k, c, sr, st, t] => some (.setrec (natArg k) (natArg c) (natArg sr) (natArg st) (natArg t))
  | _ => none

/-! ### rendering the model's observation -/

def servedStr (v : Served) : String := s!"{v.1.toString}:{v.2}"

def labelKeyName (k : Nat) : String := if k = 1 then "zone" else s!"key{k}"

def b01 (b : Bool) : String := if b then "1" else "0"

def evStr : Ev → Option String
  | .alloc id => some s!"A{id}"
  | .allocFail => some "Ax"
  | .file st id ok seen => some s!"F{st.toString}:{id}:{b01 ok}@{servedStr seen}"
  | .save st id ok seen => some s!"S{st.toString}:{id}:{b01 ok}@{servedStr seen}"
  | .publish _ _ => none
  | .scan k l n => some s!"Q{k}:{l}:{n}"
  | .count n => some s!"C{n}"

def retStr : Ret → String
  | .ok => "ok" | .err => "err" | .nomgr => "nomgr"

def render (s : St) (ret : String) (evs : List Ev) : String :=
  let pub :=
    if !s.mgr then "-"
    else if s.cfg.dr then s!"dr:{s.dr.state.toString}:{s.dr.id}:{labelKeyName s.cfg.labelKey}"
    else "maj"
  let mem := if s.mgr then servedStr s.served else "none:0"
  let st := match s.stored with | none => "none" | some v => servedStr v
  let rec_ := if s.mgr then s!"{s.recKey},{s.recCount},{s.sampleRec},{s.sampleTotal},{s.total}" else "0,0,0,0,0"
  let http := if s.mgr && s.cfg.dr then s!"{s.dr.total},{s.dr.synced},{s.dr.progress}" else "0,0,0"
  let ev := ";".intercalate (evs.filterMap evStr)
  s!"{ret} pub={pub} mem={mem} st={st} rec={rec_} http={http} sz={s.batch},{s.minSample} ev={ev}" ++
    (if s.exhausted then " MODEL-FUEL-EXHAUSTED" else "")

/-! ### the monitor -/

def toSpecState : String → Option C19.DrState
  | "none" => some .none | "sync" => some .sync | "async" => some .async
  | "sync_recover" => some .syncRecover | _ => none

def parseServed (s : String) : Option C19.Served :=
  match s.splitOn ":" with
  | [a, b] => (toSpecState a).map (fun st => (st, natArg b))
  | _ => none

/-- one event token of the implementation's `ev=` list; scans and counts are not judged -/
def parseEv (t : String) : Option (Option C19.Ev) :=
  if t == "Ax" then some (some .idFail)
  else if t.startsWith "A" then some (some (.id (natArg (t.drop 1).toString)))
  else if t.startsWith "Q" || t.startsWith "C" then some none
  else if t.startsWith "F" || t.startsWith "S" then
    match ((t.drop 1).toString).splitOn "@" with
    | [l, r] =>
      match l.splitOn ":", parseServed r with
      | [st, id, ok], some seen =>
        match toSpecState st with
        | some st' =>
          if t.startsWith "F" then some (some (.offer st' (natArg id) seen))
          else some (some (.persist st' (natArg id) (ok == "1") seen))
        | none => none
      | _, _ => none
    | _ => none
  else none

structure Impl where
  ret    : String := ""
  pub    : String := ""
  mem    : Option C19.Served := none
  stored : Option (Option C19.Served) := none
  evs    : Option (List C19.Ev) := none

def field (ws : List String) (name : String) : Option String :=
  (ws.find? (·.startsWith (name ++ "="))).map (fun w => (w.drop (name.length + 1)).toString)

def parseImpl (impl : String) : Impl :=
  let ws := words impl
  let evs : Option (List C19.Ev) :=
    match field ws "ev" with
    | none => none
    | some "" => some []
    | some l =>
      (l.splitOn ";").foldr (fun t acc =>
        match acc, parseEv t with
        | some xs, some (some e) => some (e :: xs)
        | some xs, some none => some xs
        | _, _ => none) (some [])
  { ret := ws.headD "",
    pub := (field ws "pub").getD "",
    mem := (field ws "mem").bind parseServed,
    stored := match field ws "st" with
      | some "none" => some none
      | some v => (parseServed v).map some
      | none => none,
    evs := evs }

structure MStore where
  id : Nat
  label : Nat
  down : Bool
  tomb : Bool

structure Mon where
  used    : List Nat := []
  reports : List C19.Report := []
  stores  : List MStore := []
  cfg     : Config := {}
  mgr     : Bool := false
  initOld : Bool := false
  members : List (Nat × Bool) := []
  mem     : C19.Served := (.none, 0)
  stored  : Option C19.Served := none

/-- number of failed stores of data centre `dc`: not tombstone, down, labelled `dc` under the configured key -/
def failedIn (m : Mon) (dc : Nat) : Nat :=
  (m.stores.filter (fun s => !s.tomb && s.down && (if m.cfg.labelKey = 1 then s.label else 0) == dc)).length

def factsOf (m : Mon) : C19.Facts :=
  { downP := failedIn m m.cfg.primary, downD := failedIn m m.cfg.drLabel, repP := m.cfg.pRep, repD := m.cfg.dRep,
    timeout := !m.cfg.waitAsync || (m.members.all (·.2) && m.initOld) }

def idsOf (evs : List C19.Ev) : List Nat :=
  evs.filterMap (fun e => match e with | .id n => some n | _ => none)

/-- a stable reason for a rejected operation (diagnostics only; the verdict is `runB`) -/
def whyNot (c : C19.Cause) (rs : List C19.Report) : C19.Served → List Nat → List C19.Ev → C19.Served → String
  | cur, _, [], fin => if cur == fin then "rejected" else "served-state-changed-without-persist"
  | cur, used, .idFail :: evs, fin => whyNot c rs cur used evs fin
  | cur, used, .id n :: .offer st i s1 :: .persist st' i' ok s2 :: evs, fin =>
    if used.contains n then "state-id-not-fresh"
    else if !(i == n && i' == n && st' == st) then "offer-persist-mismatch"
    else if !(s1 == cur && s2 == cur) then "served-before-persisted"
    else if ok then
      if !C19.allowedB c rs cur (st, n) then
        match st with
        | .async => "to-async-not-allowed"
        | .syncRecover => "to-sync-recover-not-allowed"
        | .sync => (match c with
                    | .tick _ => if cur.1 == .syncRecover then "to-sync-without-full-integrity" else "to-sync-not-from-sync-recover"
                    | _ => "to-sync-not-allowed")
        | .none => "to-none"
      else whyNot c rs (st, n) (n :: used) evs fin
    else whyNot c rs cur (n :: used) evs fin
  | _, _, _, _ => "switch-without-id-offer-persist-order"

def causeStr : C19.Cause → String
  | .tick f => s!"tick(downP={f.downP},downD={f.downD},repP={f.repP},repD={f.repD},timeout={f.timeout})"
  | .enable => "enable" | .relabel => "relabel" | .init => "init" | .other => "other"

def monitor (m : Mon) (dop : DOp) (impl : String) : Mon × List String :=
  let im := parseImpl impl
  match im.mem, im.stored, im.evs with
  | some mem, some stored, some evs =>
    let ok := im.ret == "ok"
    -- cause and the state served when the operation starts
    let (cause, cur) : C19.Cause × C19.Served :=
      match dop with
      | .op (.new c _) =>
        if c.dr then
          match m.stored with
          | some v => (.other, v)              -- a restart must serve what was persisted
          | none => (.init, (.none, 0))
        else (.other, (.none, 0))
      | .op (.cfg c _) =>
        if !m.mgr then (.other, m.mem)
        else if !m.cfg.dr && c.dr then (.enable, m.mem)
        else if m.cfg.dr && c.dr && m.cfg.labelKey != c.labelKey then (.relabel, m.mem)
        else (.other, m.mem)
      | .op (.tick _) => if m.mgr && m.cfg.dr then (.tick (factsOf m), m.mem) else (.other, m.mem)
      | _ => (.other, m.mem)
    -- inputs that become facts with this op
    let reports :=
      match dop with
      | .op (.region r) => m.reports ++ [{ start := r.start, end_ := r.end_, integrity := r.st == .integrity, sid := r.sid }]
      | .op (.fill n st sid) =>
        m.reports ++ (fillRegions n st sid).map (fun r => { start := r.start, end_ := r.end_, integrity := r.st == .integrity, sid := r.sid })
      | .setrec key _ _ _ _ =>
        -- test-only: the harness pretends that everything below `key` has been passed
        m.reports ++ [{ start := 0, end_ := key, integrity := true, sid := m.mem.2 }]
      | _ => m.reports
    let fin : C19.Served := if (match dop with | .reset => true | _ => false) then (.none, 0) else mem
    let fails :=
      match dop with
      | .reset => []
      | _ =>
        if C19.runB cause reports cur m.used evs fin then []
        else [s!"sig=C19.{whyNot cause reports cur m.used evs fin} cause={causeStr cause} before={repr cur} after={repr fin} events={repr evs}"]
    let m1 : Mon := { m with used := idsOf evs ++ m.used, reports := reports, mem := fin, stored := stored }
    let m2 : Mon :=
      match dop with
      | .reset => {}
      | .op (.new c _) =>
        if ok then { m1 with cfg := c, mgr := true, initOld := false, members := [] }
        else { m1 with mgr := false }
      | .op (.cfg c _) => if ok then { m1 with cfg := c } else m1
      | .op (.store st) =>
        let x : MStore := { id := st.id, label := st.label, down := st.down, tomb := st.tomb }
        { m1 with stores := if m1.stores.any (·.id == st.id) then m1.stores.map (fun y => if y.id == st.id then x else y)
                            else m1.stores ++ [x] }
      | .op (.initOld b) => if ok then { m1 with initOld := b } else m1
      | .op (.member id b) => if ok then { m1 with members := putMember m1.members id b } else m1
      | _ => m1
    -- what is served to the stores (GetReplicationStatus) must be the mode of the accepted
    -- configuration and, in dr-auto-sync mode, the in-memory state the switches are judged on
    let expectPub :=
      if !m2.mgr then "-"
      else if m2.cfg.dr then s!"dr:{im.mem.map (fun v => match v.1 with
          | .none => "none" | .sync => "sync" | .async => "async" | .syncRecover => "sync_recover") |>.getD "?"}:{fin.2}:{labelKeyName m2.cfg.labelKey}"
      else "maj"
    let fails2 :=
      match dop with
      | .reset => []
      | _ => if im.pub == expectPub then [] else
          [s!"sig=C19.served-status-inconsistent served={im.pub} expected={expectPub}"]
    (m2, fails ++ fails2)
  | _, _, _ => (m, [s!"sig=C19.unreadable-observation impl={impl}"])

/-! ### the step function -/

structure DState where
  model : St
  mon   : Mon := {}

def initModel : St := init PdModel.Generated.DrAutoSync.regionScanBatchSize PdModel.Generated.DrAutoSync.regionMinSampleSize

def step (d : DState) (opLine : String) (impl : String) : DState × StepOut :=
  match parseOp (words opLine) with
  | none => (d, { model := "bad-op" })
  | some dop =>
    let (mon', fails) := monitor d.mon dop impl
    match dop with
    | .reset =>
      let s := initModel
      ({ model := s, mon := mon' }, { model := render s "ok" [], fails := fails })
    | .op o =>
      let (s', out) := PdModel.DrAutoSync.step d.model o
      ({ model := s', mon := mon' }, { model := render s' (retStr out.ret) out.evs, fails := fails })
    | .setrec k c sr st t =>
      if !d.model.mgr then ({ d with mon := mon' }, { model := render d.model "nomgr" [], fails := fails })
      else
        let s' := { d.model with recKey := k, recCount := c, sampleRec := sr, sampleTotal := st, total := t, passed := [] }
        ({ model := s', mon := mon' }, { model := render s' "ok" [], fails := fails })

def main : IO UInt32 := runDriver ({ model := initModel } : DState) step

end PdModel.Driver.DrAutoSync
