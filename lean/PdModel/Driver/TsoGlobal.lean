import PdModel.Driver.Common
import PdModel.Model.TsoGlobal
import PdModel.Spec.C05
import PdModel.Spec.C01
import PdModel.Generated.TsoGlobal
/-!
Driver for area `tsoglobal` (property C05): pure functions, suffix assignment, synchronisation protocol.
-/
namespace PdModel.Driver.TsoGlobal
open PdModel.TsoGlobal PdModel.Driver PdModel.Spec

structure Mon where
  evs   : List C05.Ev := []
  gevs  : List C01.Ev := []            -- granted ranges of the global allocator (raw logical values)
  idx   : Nat := 0
  table : List (Nat × Nat) := []      -- suffix table as last observed (for stability)
  deriving Inhabited

structure DState where
  sfx   : SfxSt := { guarded := true }
  proto : St := { dcs := [1, 2], servers := [10], srvOf := fun _ => 10, maxLog := PdModel.Generated.TsoGlobal.maxLogical,
                  bits := 2, glob := (0, 0), loc := fun _ => (0, 0) }
  psfx  : List (Nat × Nat) := [(1, 1), (2, 2)]
  mon   : Mon := {}

def tableStr (t : List (Nat × Nat)) : String :=
  let sorted := t.toArray.qsort (fun a b => a.1 < b.1) |>.toList
  "[" ++ ",".intercalate (sorted.map (fun p => s!"{p.1}={p.2}")) ++ "]"

def parseTable (s : String) : List (Nat × Nat) :=
  let inner := ((s.dropWhile (· == '[')).toString.takeWhile (· != ']')).toString
  (inner.splitOn ",").filterMap (fun kv =>
    match kv.splitOn "=" with
    | [k, v] => some (natArg k, natArg v)
    | _ => none)

def parsePair (s : String) : TS :=
  match s.splitOn ":" with
  | [a, b] => (natArg a, natArg b)
  | _ => (0, 0)

def viewStr (st : St) : String :=
  s!"{st.glob.1}:{st.glob.2} {(st.loc 1).1}:{(st.loc 1).2} {(st.loc 2).1}:{(st.loc 2).2}"

def sfxOf (t : List (Nat × Nat)) (d : Nat) : Nat :=
  if d = 0 then 0 else ((t.find? (·.1 = d)).map (·.2)).getD 0

/-- the steps of one sequential global request when every allocator leader sits on server 10 -/
def globalReq (st : St) (c : Nat) : St × Option TS :=
  let s1 := run st [.gStart c 0, .gCheck 10, .gRepeat, .gCheck 10, .gCollect]
  let s2 := match s1.req with
    | some r => if r.phase = .write ∧ r.pending ≠ [] then run s1 [.gWrite 10, .gRepeat, .gWrite 10] else s1
    | none => s1
  let s3 := run s2 [.gPersist]
  let ts := s3.req.map (·.est)
  (run s3 [.gReturn], ts)

/-- suffix-table checks on an observed table -/
def tableFails (bits : Nat) (prev t : List (Nat × Nat)) : List String :=
  (if decide (C05.SuffixOk bits t) then [] else
    [s!"sig=C05.suffix-table-invalid bits={bits} table={tableStr t}"]) ++
  (if prev.all (fun p => t.contains p) then [] else
    [s!"sig=C05.suffix-changed-or-lost before={tableStr prev} after={tableStr t}"])

def parseGrant (s : String) : Option (C05.Ev × Nat) :=
  match s.splitOn ":" with
  | [a, ms, l, b, st, fi] => some (⟨natArg a, natArg ms, natArg l, natArg st, natArg fi⟩, natArg b)
  | _ => none

def step (d : DState) (opLine : String) (impl : String) : DState × StepOut :=
  match words opLine with
  | ["reset"] => ({ d with mon := {} }, { model := "ok" })
  | ["bits", n] => (d, { model := toString (calSuffixBits (natArg n)) })
  | ["diff", r, b, s] => (d, { model := toString (differentiate (natArg r) (natArg b) (natArg s)) })
  -- suffix assignment ------------------------------------------------------------------------
  | "sreset" :: _ => ({ d with sfx := { guarded := true }, mon := {} }, { model := "ok []" })
  | ws@(op :: _) =>
    if op == "dcjoin" || op == "dcleave" || op == "slead" || op == "checker" || op == "gchecker" || op == "sfinish" then
      let (s', out) : SfxSt × String :=
        match ws with
        | ["slead", m] => (sfxStep d.sfx (.lead (natArg m)), "ok")
        | ["checker", m, dc] =>
          if natArg dc = 0 then (d.sfx, "ok")
          else (sfxStep (sfxStep d.sfx (.read (natArg m) (natArg dc))) (.commit (natArg m)), "ok")
        | ["gchecker", m, dc] =>
          if natArg dc = 0 then (d.sfx, "ok") else
          let s1 := sfxStep d.sfx (.read (natArg m) (natArg dc))
          (s1, if (s1.pend (natArg m)).isSome then "parked" else "ok")
        | ["sfinish", m] => (sfxStep d.sfx (.commit (natArg m)), "ok")
        | _ => (d.sfx, "ok")
      -- monitor: the table the implementation shows
      let t := parseTable ((impl.splitOn " ").getLast?.getD "[]")
      -- after a completed checker the harness also reports the suffix width that member now stamps on its
      -- timestamps and the dc-locations that have a server: the width must hold every suffix in use
      let tok := (words impl).find? (·.startsWith "bits=")
      let widthFails : List String :=
        match tok with
        | some tk =>
          match (tk.drop 5).toString.splitOn ";" with
          | [b, dcs] =>
            (dcs.splitOn ",").filterMap (fun dc =>
              if dc.isEmpty then none else
              let sfx := sfxOf t (natArg dc)
              -- a dc-location in use that should have its own suffix by now (the model's table has one) but
              -- has none in the persisted table shares somebody else's
              if sfx = 0 ∧ sfxOf s'.table (natArg dc) ≠ 0 then
                some s!"sig=C05.dc-in-use-without-own-suffix dc={dc} table={tableStr t}"
              else if sfx < 2 ^ natArg b then none
              else some s!"sig=C05.suffix-width-too-small bits={b} dc={dc} suffix={sfx}")
          | _ => []
        | none => []
      let out' := match tok with | some tk => s!"{out} {tk}" | none => out
      let fails := tableFails PdModel.Generated.TsoGlobal.maxSuffixBits d.mon.table t ++ widthFails
      ({ d with sfx := s', mon := { d.mon with table := t } }, { model := s!"{out'} {tableStr s'.table}", fails := fails })
    -- protocol ---------------------------------------------------------------------------------
    else match ws with
    | "pinit" :: _ =>
      -- the initial memories of a sequence are an input: they are taken from what the harness reports
      match words ((impl.splitOn " | ").getLast?.getD "") with
      | [g, l1, l2] =>
        let st : St := { d.proto with glob := parsePair g, req := none, events := [], clock := 0,
                                      loc := fun i => if i = 1 then parsePair l1 else if i = 2 then parsePair l2 else (0, 0) }
        ({ d with proto := st }, { model := s!"ok | {viewStr st}" })
      | _ => (d, { model := "bad-op" })
    | ["rawtso", a, c] =>
      -- a request on a raw Tso stream: served like `req` when the allocator exists and the count is positive,
      -- otherwise the stream has to end with an error (the protocol has no in-band error)
      let a := natArg a; let c := natArg c
      if a ≤ 2 then
        let (st', ts?) : St × Option TS :=
          if a = 0 then globalReq d.proto c
          else
            let s1 := PdModel.TsoGlobal.step d.proto (.localGrant a c)
            (s1, some (s1.loc a))
        let out := match ts? with
          | some ts => s!"ts {ts.1} {differentiate ts.2 st'.bits (sfxOf d.psfx a)} {st'.bits}"
          | none => "err"
        ({ d with proto := st', mon := { d.mon with idx := d.mon.idx + 1 } }, { model := s!"{out} | {viewStr st'}" })
      else
        let fails := match words ((impl.splitOn " | ").headD "") with
          | "ts" :: ms :: _ =>
            [s!"sig=C01.global-tso-answer-for-a-refused-request alloc={a} count={c} physical={ms}"]
          | _ => []
        (d, { model := s!"err | {viewStr d.proto}", fails := fails })
    | ["reqfail", a, _] =>
      -- a global request the code has to refuse (the local allocators are further ahead than the reset gap allows
      -- the global memory to jump): what the memories are afterwards is an input; an answer is judged by the monitor
      let a := natArg a
      match words ((impl.splitOn " | ").getLast?.getD "") with
      | [g, l1, l2] =>
        let st : St := { d.proto with glob := parsePair g, req := none,
                                      loc := fun i => if i = 1 then parsePair l1 else if i = 2 then parsePair l2 else d.proto.loc i }
        let (mon', fails) : Mon × List String :=
          match words ((impl.splitOn " | ").headD "") with
          | ["ts", ms, l, _] =>
            let e : C05.Ev := ⟨a, natArg ms, natArg l, d.mon.idx, d.mon.idx⟩
            let evs := d.mon.evs ++ [e]
            ({ d.mon with evs := evs, idx := d.mon.idx + 1 },
              if C05.check evs then [] else [s!"sig=C05.order-or-uniqueness-after-failed-attempts alloc={a} ms={e.ms} logical={e.logical}"])
          | _ => ({ d.mon with idx := d.mon.idx + 1 }, [])
        ({ d with proto := st, mon := mon' }, { model := s!"{(impl.splitOn " | ").headD ""} | {viewStr st}", fails := fails })
      | _ => (d, { model := "bad-op" })
    | "lrestart" :: _ =>
      -- every local allocator is re-elected: what its memory is afterwards is an input (C01–C03 territory),
      -- but it must not be below what it was (nor, by the monitor on later grants, below an earlier global)
      match words ((impl.splitOn " | ").getLast?.getD "") with
      | [g, l1, l2] =>
        let n1 := parsePair l1; let n2 := parsePair l2
        let st : St := { d.proto with glob := parsePair g,
                                      loc := fun i => if i = 1 then n1 else if i = 2 then n2 else d.proto.loc i }
        let fails :=
          (if decide (tsLt n1 (d.proto.loc 1)) then [s!"sig=C05.local-memory-moved-back-after-restart dc=1 from={(d.proto.loc 1).1}:{(d.proto.loc 1).2} to={n1.1}:{n1.2}"] else []) ++
          (if decide (tsLt n2 (d.proto.loc 2)) then [s!"sig=C05.local-memory-moved-back-after-restart dc=2 from={(d.proto.loc 2).1}:{(d.proto.loc 2).2} to={n2.1}:{n2.2}"] else [])
        ({ d with proto := st }, { model := s!"{(impl.splitOn " | ").headD ""} | {viewStr st}", fails := fails })
      | _ => (d, { model := "bad-op" })
    | ["req", a, c] =>
      let a := natArg a; let c := natArg c
      let (st', ts?) : St × Option TS :=
        if a = 0 then globalReq d.proto c
        else
          let s1 := PdModel.TsoGlobal.step d.proto (.localGrant a c)
          (s1, if c = 0 then none else some (s1.loc a))
      let out := match ts? with
        | some ts => s!"ts {ts.1} {differentiate ts.2 st'.bits (sfxOf d.psfx a)} {st'.bits}"
        | none => "err"
      -- monitor on the implementation's answer
      let (mon', fails) : Mon × List String :=
        match words ((impl.splitOn " | ").headD "") with
        | ["ts", ms, l, b] =>
          let e : C05.Ev := ⟨a, natArg ms, natArg l, d.mon.idx, d.mon.idx⟩
          let evs := d.mon.evs ++ [e]
          let raw := natArg l / 2 ^ natArg b
          let gevs := if a = 0 then d.mon.gevs ++ [⟨d.mon.idx, d.mon.idx, natArg ms, raw - c, raw, natArg l⟩] else d.mon.gevs
          ({ d.mon with evs := evs, gevs := gevs, idx := d.mon.idx + 1 },
            (if a = 0 && !(C01.check 18 gevs) then
              [s!"sig=C01.global-timestamps-not-unique-increasing ms={e.ms} logical={e.logical}"] else []) ++
            (if natArg l < 2 ^ 18 then [] else [s!"sig=C01.global-logical-out-of-range logical={e.logical}"]) ++
            (if C05.check evs then [] else [s!"sig=C05.order-or-uniqueness alloc={a} ms={e.ms} logical={e.logical}"]) ++
            (if decide (C05.carriesSuffix (natArg b) d.psfx e) then [] else
              [s!"sig=C05.wrong-suffix alloc={a} logical={e.logical} bits={b}"]))
        | _ => ({ d.mon with idx := d.mon.idx + 1 }, [])
      ({ d with proto := st', mon := mon' }, { model := s!"{out} | {viewStr st'}", fails := fails })
    | ["setts", a, ms, l] =>
      let a := natArg a; let t : TS := (natArg ms, natArg l)
      let cur := if a = 0 then d.proto.glob else d.proto.loc a
      if tsLt cur t then
        let st' := PdModel.TsoGlobal.step d.proto (if a = 0 then .globalAdvance t else .localAdvance a t)
        ({ d with proto := st' }, { model := s!"ok | {viewStr st'}" })
      else (d, { model := s!"rejected | {viewStr d.proto}" })
    | ["cluster", _] =>
      -- three servers with the real clock and allocator moves: judged by the monitor only
      let parts := impl.splitOn " | "
      let gs := ((words (parts.headD "")).drop 1).filterMap parseGrant
      let t := parseTable ("[" ++ (parts.getD 1 "") ++ "]")
      let evs := gs.map (·.1)
      let gevs := (gs.filter (fun (p : C05.Ev × Nat) => p.1.alloc = 0)).map (fun (p : C05.Ev × Nat) =>
        let raw := p.1.logical / 2 ^ p.2
        (⟨p.1.start, p.1.finish, p.1.ms, raw - 1, raw, p.1.logical⟩ : C01.Ev))
      let fails :=
        (if (parts.headD "").startsWith "grants" then [] else [s!"sig=C05.cluster-run-failed {(parts.headD "")}"]) ++
        (if gs.all (fun (p : C05.Ev × Nat) => decide (p.1.logical < 2 ^ 18)) then [] else
          [s!"sig=C01.global-or-local-logical-out-of-range-cluster"]) ++
        (if C01.check 18 gevs then [] else [s!"sig=C01.global-timestamps-not-unique-increasing-cluster n={gevs.length}"]) ++
        (if C05.check evs then [] else [s!"sig=C05.order-or-uniqueness-cluster n={evs.length}"]) ++
        (if gs.all (fun (p : C05.Ev × Nat) => decide (C05.carriesSuffix p.2 t p.1)) then [] else
          [s!"sig=C05.wrong-suffix-cluster"]) ++
        tableFails PdModel.Generated.TsoGlobal.maxSuffixBits [] t
      (d, { model := impl, fails := fails })
    | ["bigreq", _, cnt] | ["joinlate", _, cnt] =>
      -- large sequential requests: judged by the monitor only (like a burst)
      let parts := impl.splitOn " | "
      let gs := ((words (parts.headD "")).drop 1).filterMap parseGrant
      let t := parseTable ("[" ++ (parts.getLast?.getD "") ++ "]")
      let minT := gs.foldl (fun m (p : C05.Ev × Nat) => min m p.1.start) (gs.headD (⟨0, 0, 0, 0, 0⟩, 0)).1.start
      let maxT := gs.foldl (fun m (p : C05.Ev × Nat) => max m p.1.finish) 0
      let base := d.mon.idx + 1
      let evs := d.mon.evs ++ gs.map (fun (p : C05.Ev × Nat) =>
        { p.1 with start := base + (p.1.start - minT), finish := base + (p.1.finish - minT) })
      let c := natArg cnt
      let gevs := d.mon.gevs ++ (gs.filter (fun (p : C05.Ev × Nat) => p.1.alloc = 0)).map (fun (p : C05.Ev × Nat) =>
        let raw := p.1.logical / 2 ^ p.2
        (⟨base + (p.1.start - minT), base + (p.1.finish - minT), p.1.ms, raw - c, raw, p.1.logical⟩ : C01.Ev))
      let fails :=
        (if gs.all (fun (p : C05.Ev × Nat) => decide (p.1.logical < 2 ^ 18)) then [] else
          [s!"sig=C01.global-or-local-logical-out-of-range count={c}"]) ++
        (if C01.check 18 gevs then [] else [s!"sig=C01.global-timestamps-not-unique-increasing-bigreq"]) ++
        (if C05.check evs then [] else [s!"sig=C05.order-or-uniqueness-bigreq"]) ++
        (if gs.all (fun (p : C05.Ev × Nat) => decide (C05.carriesSuffix p.2 t p.1)) then [] else
          [s!"sig=C05.wrong-suffix-bigreq"])
      ({ d with mon := { d.mon with evs := evs, gevs := gevs, idx := base + (maxT - minT) + 1 } }, { model := impl, fails := fails })
    | "burst" :: _ :: _ :: cnt :: _ =>
      -- concurrent requests: judged by the monitor only
      let parts := impl.splitOn " | "
      let gs := ((words (parts.headD "")).drop 1).filterMap parseGrant
      let t := parseTable ("[" ++ (parts.getLast?.getD "") ++ "]")
      let minT := gs.foldl (fun m (p : C05.Ev × Nat) => min m p.1.start) (gs.headD (⟨0, 0, 0, 0, 0⟩, 0)).1.start
      let maxT := gs.foldl (fun m (p : C05.Ev × Nat) => max m p.1.finish) 0
      let base := d.mon.idx + 1
      let evs := d.mon.evs ++ gs.map (fun (p : C05.Ev × Nat) =>
        { p.1 with start := base + (p.1.start - minT), finish := base + (p.1.finish - minT) })
      let c := natArg cnt
      let gevs := d.mon.gevs ++ (gs.filter (fun (p : C05.Ev × Nat) => p.1.alloc = 0)).map (fun (p : C05.Ev × Nat) =>
        let raw := p.1.logical / 2 ^ p.2
        (⟨base + (p.1.start - minT), base + (p.1.finish - minT), p.1.ms, raw - c, raw, p.1.logical⟩ : C01.Ev))
      let fails :=
        (if C01.check 18 gevs then [] else [s!"sig=C01.global-timestamps-not-unique-increasing-in-burst n={gs.length}"]) ++
        (if C05.check evs then [] else [s!"sig=C05.order-or-uniqueness-in-burst n={gs.length}"]) ++
        (if gs.all (fun (p : C05.Ev × Nat) => decide (C05.carriesSuffix p.2 t p.1)) then [] else
          [s!"sig=C05.wrong-suffix-in-burst"]) ++
        tableFails PdModel.Generated.TsoGlobal.maxSuffixBits [] t
      ({ d with mon := { d.mon with evs := evs, gevs := gevs, idx := base + (maxT - minT) + 1 } }, { model := impl, fails := fails })
    | _ => (d, { model := "bad-op" })
  | [] => (d, { model := "bad-op" })

def main : IO UInt32 := runDriver ({} : DState) step

end PdModel.Driver.TsoGlobal
