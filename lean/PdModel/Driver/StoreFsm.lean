import PdModel.Driver.Common
import PdModel.Model.StoreFsm
import PdModel.Spec.C14
/-!
Driver for area `storefsm` (property C14).

Trace line: `<op> => <res> ; served: <stores> ; stored: <stores> ; writes: <writes> ; cv: <a.b.c>`
  served store  = id/addr/state/destroyed/version/start/labels/lw/rw/regionCount/treeCount
  stored store  = id/addr/state/destroyed/version/start/labels/lw/rw        (`-` = key absent)
  write         = (m|l|r|d)<id>(+|!)          record / leader weight / region weight / delete, ok / refused

The model side recomputes the whole observation.  The order in which `checkStores` and
`RemoveTombStoneRecords` walk the store map is an input of the model; it is taken from the order of the
implementation's writes.  The monitor judges the implementation's observations only
(`Spec.C14.checkStep` on the previous and the current observation).
-/
namespace PdModel.Driver.StoreFsm
open PdModel.StoreFsm PdModel.Driver PdModel.Spec PdModel.AMap

/-! ### parsing -/

def parseVer (s : String) : Option Ver :=
  if s == "-" then some ⟨1, 0, 0⟩ else
  match s.splitOn "." with
  | [a, b, c] =>
    match a.toNat?, b.toNat?, c.toNat? with
    | some x, some y, some z => some ⟨x, y, z⟩
    | _, _, _ => none
  | _ => none

def parseLabels (s : String) : Labels :=
  if s == "-" || s == "" then [] else
  (s.splitOn ",").map (fun p =>
    match p.splitOn "=" with
    | [] => ("", "")
    | [k] => (k, "")
    | k :: rest => (k, "=".intercalate rest))

def parseState : String → SState
  | "O" => .offline
  | "T" => .tombstone
  | _ => .up

def addrOf (s : String) : String := if s == "-" then "" else s

def kvArg (ws : List String) (key : String) : String :=
  match ws.find? (fun w => w.startsWith (key ++ "=")) with
  | some w => (w.drop (key.length + 1)).toString
  | none => ""

def parseReq (id addr ver start labels st d : String) : Req :=
  { id := natArg id, addr := addrOf addr, ver := parseVer ver, start := natArg start,
    labels := parseLabels labels, state := parseState st, destroyed := d == "1" }

def parseOp (ws : List String) (order : List Nat) : Option Op :=
  match ws with
  | ["put", id, addr, ver, start, labels, st, d, mask] =>
    some (.put (parseReq id addr ver start labels st d) (natArg mask))
  | ["gput", id, addr, ver, start, labels, st, d, mask] =>
    some (.gput (parseReq id addr ver start labels st d) (natArg mask))
  | ["ghb", id, mask] => some (.ghb (natArg id) (natArg mask))
  | ["labels", id, ls, force, mask] => some (.labels (natArg id) (parseLabels ls) (force == "1") (natArg mask))
  | ["remove", id, d, mask] => some (.remove (natArg id) (d == "1") (natArg mask))
  | ["up", id, mask] => some (.up (natArg id) (natArg mask))
  | ["bury", id, mask] => some (.bury (natArg id) (natArg mask))
  | ["check", mask] => some (.check order (natArg mask))
  | ["weight", id, lw, rw, mask] => some (.weight (natArg id) (natArg lw) (natArg rw) (natArg mask))
  | ["rmtomb", mask] => some (.rmtomb order (natArg mask))
  | "region" :: rid :: s1 :: rest =>
    -- a trailing L marks a learner peer; the store bookkeeping counts every peer
    some (.region (natArg rid) ((s1 :: rest).map (fun x => natArg (x.dropEndWhile (· == 'L')).toString)))
  | ["restart"] => some .restart
  | _ => none

/-! ### printing the model state in the harness format -/

def insertSorted (k : Nat) : List Nat → List Nat
  | [] => [k]
  | x :: xs => if k ≤ x then k :: x :: xs else x :: insertSorted k xs

def sortNat (l : List Nat) : List Nat := l.foldr insertSorted []

def stateStr : SState → String
  | .up => "U" | .offline => "O" | .tombstone => "T"

def b01 (b : Bool) : String := if b then "1" else "0"

def labelsStr (ls : Labels) : String :=
  if ls.isEmpty then "-" else ",".intercalate (ls.map (fun l => l.1 ++ "=" ++ l.2))

def verStr (v : Ver) : String := s!"{v.major}.{v.minor}.{v.patch}"

def metaStr (id : Nat) (m : Meta) : String :=
  let addr := if m.addr == "" then "-" else m.addr
  s!"{id}/{addr}/{stateStr m.state}/{b01 m.destroyed}/{verStr m.ver}/{m.start}/{labelsStr m.labels}"

def optStr : Option Nat → String
  | some n => toString n
  | none => "-"

def joinOr (l : List String) : String := if l.isEmpty then "-" else " ".intercalate l

def writeStr (w : Write) : String :=
  let k := match w.kind with | .record => "m" | .lw => "l" | .rw => "r" | .del => "d"
  s!"{k}{w.id}{if w.failed then "!" else "+"}"

def resStr : Res → String
  | .ok => "ok" | .notfound => "notfound" | .tombstone => "tombstone" | .destroyed => "destroyed"
  | .isup => "isup" | .dupaddr => "dupaddr" | .badid => "badid" | .badver => "badver"
  | .incompat => "incompat" | .label => "label" | .tiflash => "tiflash" | .kverr => "kverr"

def dump (s : St) (ws : List Write) : String :=
  let sv := (sortNat (keys s.served)).filterMap (fun id =>
    (get s.served id).map (fun x =>
      s!"{metaStr id x.md}/{x.lw}/{x.rw}/{x.rcount}/{treeCount s.regions id}"))
  let st := (sortNat (keys s.stored)).filterMap (fun id =>
    (get s.stored id).map (fun m =>
      s!"{metaStr id m}/{optStr (get s.storedLW id)}/{optStr (get s.storedRW id)}"))
  s!"served: {joinOr sv} ; stored: {joinOr st} ; writes: {joinOr (ws.map writeStr)} ; cv: {verStr s.cv}"

/-! ### the implementation's observation -/

def parseLife : String → C14.Life
  | "O" => .offline
  | "T" => .tombstone
  | _ => .up

def verTriple (s : String) : Nat × Nat × Nat :=
  match s.splitOn "." with
  | [a, b, c] => (natArg a, natArg b, natArg c)
  | _ => (0, 0, 0)

def parseRec (addr st d ver start labels : String) : C14.Rec :=
  { addr := addrOf addr, state := parseLife st, destroyed := d == "1", version := verTriple ver,
    start := natArg start, labels := parseLabels labels }

def parseServed (s : String) : AMap C14.SRec :=
  if s == "-" then [] else
  (words s).filterMap (fun e =>
    match e.splitOn "/" with
    | [id, addr, st, d, ver, start, labels, lw, rw, _rc, tc] =>
      some (natArg id, { rec_ := parseRec addr st d ver start labels, lw := natArg lw, rw := natArg rw,
                         regions := natArg tc })
    | _ => none)

def parseStored (s : String) : AMap C14.DRec :=
  if s == "-" then [] else
  (words s).filterMap (fun e =>
    match e.splitOn "/" with
    | [id, addr, st, d, ver, start, labels, lw, rw] =>
      some (natArg id, { rec_ := parseRec addr st d ver start labels, lw := lw.toNat?, rw := rw.toNat? })
    | _ => none)

/-- (id, failed) of every write the implementation reported, in order -/
def parseWrites (s : String) : List (Nat × Bool) :=
  if s == "-" then [] else
  (words s).map (fun w => (natArg ((w.drop 1).dropEnd 1).toString, w.endsWith "!"))

structure Impl where
  res    : String := ""
  obs    : C14.Obs := {}
  writes : List (Nat × Bool) := []
  wellFormed : Bool := false

def section_ (parts : List String) (name : String) : Option String :=
  (parts.find? (fun p => p.startsWith (name ++ ": "))).map (fun p => (p.drop (name.length + 2)).toString)

def parseImpl (impl : String) : Impl :=
  match impl.splitOn " ; " with
  | res :: rest =>
    match section_ rest "served", section_ rest "stored", section_ rest "writes" with
    | some sv, some st, some ws =>
      { res := res, obs := { served := parseServed sv, stored := parseStored st }, writes := parseWrites ws,
        wellFormed := true }
    | _, _, _ => { res := res }
  | [] => {}

def kindOf (ws : List String) : C14.Kind :=
  match ws with
  | "gput" :: id :: _ => .rpcPut (natArg id)
  | "ghb" :: id :: _ => .rpcHeartbeat (natArg id)
  | "weight" :: id :: _ => .weight (natArg id)
  | "rmtomb" :: _ => .sweep
  | "bury" :: _ => .directBury
  | _ => .other

structure DState where
  model : St := {}
  pre   : C14.Obs := {}     -- the implementation's previous observation
  /- gated schedule (see the harness): the parked operation, the operation blocked behind it (with the
     state its unlocked look at the cluster saw), the writes shown so far -/
  pend1 : Option (List String) := none
  pend2 : Option (List String × St) := none
  gw    : List Write := []
  r1    : String := ""      -- result of the first operation, reported with the second one's

def monitor (pre : C14.Obs) (ws : List String) (i : Impl) : List String :=
  if !i.wellFormed then [] else
  let st : C14.Step :=
    { kind := kindOf ws, pre := pre, post := i.obs, ok := i.res == "ok", refused := i.res == "tombstone",
      crashed := i.res == "panic",
      failed := (i.writes.filter (·.2)).map (·.1) }
  (C14.violated st).map (fun v => s!"sig=C14.{v} op={" ".intercalate ws} res={i.res}")

/-- the monitor on a line of a gated schedule (park / blocked / release): no operation is judged as a
    whole there, but the served and stored records seen before and after the line are (states move only
    forward, buried only when empty, live addresses unique, stored = served) -/
def monitorGated (pre : C14.Obs) (ws : List String) (i : Impl) (direct : Bool := false) : List String :=
  if !i.wellFormed then [] else
  let st : C14.Step :=
    { kind := if direct then .directBury else .other, pre := pre, post := i.obs, ok := true, refused := false,
      crashed := (i.res.splitOn " ").contains "panic", failed := [] }
  (C14.violated st).map (fun v => s!"sig=C14.{v} op={" ".intercalate ws} res={i.res}")

/-- does the operation wait for the cluster lock held by a parked one?  (Every entry point takes the lock
    - or, through the RPC layer, the read lock - first, except `UpdateStoreLabels`, which looks the store up
    before, and `checkStores`, which only locks when it buries.) -/
def expectBlocked (s : St) (ws : List String) : Bool :=
  match ws with
  | "labels" :: id :: _ => (get s.served (natArg id)).isSome
  | "check" :: _ => (servedIds s).any (buriable s)
  | _ => true

/-- the second operation of a gated schedule, as it runs once it has the lock: what it learnt from the
    cluster before (state `pre`) is kept -/
def lockedHalf (pre : St) (ws : List String) (order : List Nat) : Option Op :=
  match ws with
  | ["labels", id, ls, force, mask] =>
    match get pre.served (natArg id) with
    | some sv =>
      -- the request is a clone of the record it saw (state and flags included: they matter when the record
      -- has been deleted in between and the "update" creates it anew)
      some (.labelsFrom { id := natArg id, addr := sv.md.addr, ver := some sv.md.ver, start := sv.md.start,
                          labels := parseLabels ls, state := sv.md.state, destroyed := sv.md.destroyed }
              (force == "1") (natArg mask))
    | none => parseOp ws order
  | ["check", mask] =>
    let cands := (servedIds pre).filter (buriable pre)
    some (.checkOnly ((order.filter cands.contains) ++ cands) (natArg mask))
  | _ => parseOp ws order

/-- is one of the operations in flight the direct hook call of `buryStore`? -/
def directInFlight (p1 : Option (List String)) (p2 : Option (List String × St)) : Bool :=
  (match p1 with | some ("bury" :: _) => true | _ => false) ||
  (match p2 with | some ("bury" :: _, _) => true | _ => false)

def step (d : DState) (opLine : String) (impl : String) : DState × StepOut :=
  let ws := words opLine
  let i := parseImpl impl
  let order := i.writes.map (·.1)
  let pre' := if i.wellFormed then i.obs else d.pre
  match ws with
  | "reset" :: _mode :: args =>
    match parseVer (kvArg args "cv") with
    | some cv =>
      let loc := kvArg args "loc"
      let cfg : Config := { strict := kvArg args "strict" == "1", pr := kvArg args "pr" == "1",
                            loc := if loc == "-" || loc == "" then [] else loc.splitOn "," }
      let s := init cfg cv
      ({ model := s, pre := {} }, { model := "ok ; " ++ dump s [], fails := monitor {} ["reset"] i })
    | none => (d, { model := "bad-op" })
  | "park" :: rest =>
    match d.pend1, d.pend2, parseOp rest order with
    | none, none, some op =>
      let o := PdModel.StoreFsm.step d.model op
      if o.writes.isEmpty then
        ({ model := o.st, pre := pre' },
         { model := resStr o.res ++ " ; " ++ dump o.st o.writes, fails := monitor d.pre rest i })
      else
        ({ d with pre := pre', pend1 := some rest, gw := o.writes.take 1 },
         { model := "parked ; " ++ dump d.model (o.writes.take 1), fails := monitorGated d.pre ws i (directInFlight d.pend1 d.pend2) })
    | _, _, _ => (d, { model := "bad-op" })
  | ["release"] =>
    match d.pend1, d.pend2 with
    | some ws1, p2 =>
      match parseOp ws1 order with
      | none => (d, { model := "bad-op" })
      | some op1 =>
        let o1 := PdModel.StoreFsm.step d.model op1
        match p2 with
        | none =>
          ({ model := o1.st, pre := pre' },
           { model := resStr o1.res ++ " ; " ++ dump o1.st o1.writes, fails := monitorGated d.pre ws i (directInFlight d.pend1 d.pend2) })
        | some (ws2, pre2) =>
          match lockedHalf pre2 ws2 (order.drop o1.writes.length) with
          | none => (d, { model := "bad-op" })
          | some op2 =>
            let o2 := PdModel.StoreFsm.step o1.st op2
            if o2.writes.isEmpty then
              ({ model := o2.st, pre := pre' },
               { model := resStr o1.res ++ " " ++ resStr o2.res ++ " ; " ++ dump o2.st o1.writes,
                 fails := monitorGated d.pre ws i (directInFlight d.pend1 d.pend2) })
            else
              -- the second operation holds the lock at a write of its own: the first one's result is
              -- reported together with the second one's
              ({ model := o1.st, pre := pre', pend2 := p2, gw := o1.writes, r1 := resStr o1.res },
               { model := "parked ; " ++ dump o1.st (o1.writes ++ o2.writes.take 1),
                 fails := monitorGated d.pre ws i (directInFlight d.pend1 d.pend2) })
    | none, some (ws2, pre2) =>
      match lockedHalf pre2 ws2 (order.drop d.gw.length) with
      | none => (d, { model := "bad-op" })
      | some op2 =>
        let o2 := PdModel.StoreFsm.step d.model op2
        ({ model := o2.st, pre := pre' },
         { model := d.r1 ++ " " ++ resStr o2.res ++ " ; " ++ dump o2.st (d.gw ++ o2.writes),
           fails := monitorGated d.pre ws i (directInFlight d.pend1 d.pend2) })
    | none, none =>
      -- the implementation is ahead of the model (they disagreed before): keep judging what it reports
      ({ d with pre := pre' }, { model := "bad-op", fails := monitorGated d.pre ws i })
  | _ =>
    match d.pend1, d.pend2 with
    | some _, none =>
      -- an operation started while another one is parked
      if expectBlocked d.model ws then
        ({ d with pre := pre', pend2 := some (ws, d.model) },
         { model := "blocked ; " ++ dump d.model d.gw, fails := monitorGated d.pre ws i (directInFlight d.pend1 d.pend2) })
      else
        match parseOp ws (order.drop d.gw.length) with
        | none => (d, { model := "bad-op" })
        | some op =>
          let o := PdModel.StoreFsm.step d.model op
          ({ d with model := o.st, pre := pre', gw := d.gw ++ o.writes },
           { model := resStr o.res ++ " ; " ++ dump o.st (d.gw ++ o.writes), fails := monitor d.pre ws i })
    | some _, some _ => ({ d with pre := pre' }, { model := "bad-op", fails := monitorGated d.pre ws i })
    | none, some _ => ({ d with pre := pre' }, { model := "bad-op", fails := monitorGated d.pre ws i })
    | none, none =>
      match parseOp ws order with
      | none => (d, { model := "bad-op" })
      | some op =>
        let o := PdModel.StoreFsm.step d.model op
        ({ model := o.st, pre := pre' },
         { model := resStr o.res ++ " ; " ++ dump o.st o.writes, fails := monitor d.pre ws i })

def main : IO UInt32 := runDriver ({} : DState) step

end PdModel.Driver.StoreFsm
