import PdModel.Driver.Common
import PdModel.Driver.Builder
import PdModel.Model.OpCtl
import PdModel.Model.StoreSim
import PdModel.Spec.C09
/-!
Driver for area `opctl` (property C09); the op lines are described in harness/cmd/opctl/main.go.
Model side: `OpCtl` (controller) + `StoreSim` (store).  Monitor side: `Spec.C09.checkEvent` on what
the implementation reported.
-/
namespace PdModel.Driver.OpCtl
open PdModel.Steps PdModel.OpCtl PdModel.StoreSim PdModel.Driver PdModel.Spec
open PdModel.Driver.Builder (kvGet splitList parsePeers parsePeer parseSteps parseItems)

/-! ### text -/

def cmdText : Cmd → String
  | .transferLeader s id => s!"tl:{s}#{id}"
  | .addNode s id => s!"an:{s}#{id}"
  | .addLearnerNode s id => s!"aln:{s}#{id}"
  | .removeNode s id => s!"rn:{s}#{id}"
  | .merge => "mg"
  | .split => "sp"
  | .changeV2 ps ds => if ps.isEmpty && ds.isEmpty then "lv" else s!"v2:{itemsText ps}/{itemsText ds}"
  | .leaveV2 => "lv"

def msgText (m : Msg) : String := s!"{m.region}/{m.confVer}.{m.version}/{m.target}/{cmdText m.cmd}"

def joinOr (l : List String) : String := if l.isEmpty then "-" else ";".intercalate l

def natsText (l : List Nat) : String := if l.isEmpty then "-" else ",".intercalate (l.map toString)

def simText (s : Sim) : String :=
  s!"sim {if s.region.peers.isEmpty then "-" else peersText s.region.peers}@{s.region.leader} cv={s.confVer} v={s.version} pend={natsText s.pending} range={s.range}"

def sortNatPairs (l : List (Nat × Nat)) : List (Nat × Nat) :=
  (PdModel.Builder.sortIds (l.map (·.1))).filterMap (fun k => l.find? (fun x => x.1 == k))

def dedup (l : List Nat) : List Nat := l.foldl (fun acc x => if acc.contains x then acc else acc ++ [x]) []

def digest (c : Ctl) (res : String) (msgs : List Msg) : String :=
  let run := (sortNatPairs c.running).map (fun x =>
    s!"{x.1}:{x.2}:{match c.getOp x.2 with | some o => o.cur | none => 0}")
  let st := c.ops.map (fun o => s!"{o.id}:{o.status.name}")
  let regions := PdModel.Builder.sortIds (dedup (c.ops.map (·.region)))
  let rec_ := regions.filterMap (fun r =>
    match c.records.find? (fun x => x.1 == r) with
      | some x => some s!"{r}:{x.2}:{match c.getOp x.2 with | some o => o.status.name | none => "?"}"
      | none => none)
  let w := c.waiting.flatten.map toString
  s!"{res} m={joinOr (msgs.map msgText)} run={joinOr run} st={joinOr st} rec={joinOr rec_} w={joinOr w}"

/-! ### driver state -/

structure DState where
  ctl     : Ctl := {}
  sims    : List Sim := []
  lastMsg : List Msg := []            -- last message per region
  mon     : C09.Mon := {}

def DState.sim (d : DState) (r : Nat) : Option Sim := d.sims.find? (fun s => s.id == r)
def DState.setSim (d : DState) (s : Sim) : DState :=
  { d with sims := if d.sims.any (fun x => x.id == s.id) then d.sims.map (fun x => if x.id == s.id then s else x)
                   else d.sims ++ [s] }

def noteMsgs (d : DState) (msgs : List Msg) : DState :=
  { d with lastMsg := msgs.foldl (fun l m => m :: l.filter (fun x => x.region != m.region)) d.lastMsg }

def parseNats (s : String) : List Nat := (splitList s ",").map natArg

/-- the model's answer and the new state -/
def parseRaceKind : String → Option RaceKind
  | "c" => some .cancel | "r" => some .replace | "t" => some .timeout | "k" => some .finish | _ => none

def modelStep (d : DState) (ws : List String) (impl : String := "") : DState × String :=
  match ws with
  | "reset" :: args => ({ ctl := { maxWaiting := natArg (kvGet args "max") }, mon := d.mon }, "ok")
  | kind :: args =>
    let r := natArg (kvGet args "r")
    let rs := parseNats (kvGet args "rs")
    let c := d.ctl
    match kind with
    | "region" =>
      match parsePeers (kvGet args "p") "," with
      | some peers =>
        let s : Sim := { id := r, region := ⟨peers, natArg (kvGet args "L")⟩, confVer := natArg (kvGet args "cv"),
                         version := natArg (kvGet args "v") }
        ({ d.setSim s with ctl := putView c s.view }, "ok")
      | none => (d, "bad-op")
    | "mkop" =>
      let id := natArg (kvGet args "id")
      if (c.getOp id).isSome then (d, "bad-op")
      else match parseSteps (kvGet args "steps") with
        | some steps =>
          let o : Op := { id := id, desc := natArg (kvGet args "d"), region := r, confVer := natArg (kvGet args "cv"),
                          version := natArg (kvGet args "v"), level := natArg (kvGet args "lvl"),
                          kindRegion := kvGet args "kr" == "1", kindMerge := kvGet args "km" == "1",
                          range0 := match d.sim r with | some s => s.range | none => 0, steps := steps }
          ({ d with ctl := { c with ops := c.ops ++ [o] } }, "ok")
        | none => (d, "bad-op")
    | "add" =>
      let ids := parseNats (kvGet args "ids")
      if ids.isEmpty || !ids.all (fun i => (c.getOp i).isSome) then (d, "bad-op")
      else
        let (c', m, ok) := addOperator c ids
        (noteMsgs { d with ctl := c' } m, digest c' (if ok then "true" else "false") m)
    | "addw" =>
      let ids := parseNats (kvGet args "ids")
      if ids.isEmpty || !ids.all (fun i => (c.getOp i).isSome) then (d, "bad-op")
      else
        let (c', m, n) := addWaiting c ids rs
        (noteMsgs { d with ctl := c' } m, digest c' (toString n) m)
    | "promote" =>
      let (c', m) := promote c rs
      (noteMsgs { d with ctl := c' } m, digest c' "ok" m)
    | "hb" =>
      match d.sim r with
      | none => (d, "bad-op")
      | some s =>
        let (c', m) := dispatch (putView c s.view) s.view true rs
        (noteMsgs { d with ctl := c' } m, digest c' "ok" m)
    | "push" =>
      let (c', m) := pushOperators c rs
      (noteMsgs { d with ctl := c' } m, digest c' "ok" m)
    | "rm" =>
      let id := natArg (kvGet args "id")
      if (c.getOp id).isNone then (d, "bad-op")
      else
        let (c', ok) := removeOperator c id
        ({ d with ctl := c' }, digest c' (if ok then "true" else "false") [])
    | "expire" =>
      match c.getOp (natArg (kvGet args "id")) with
      | some o => ({ d with ctl := c.setOp { o with createdOld := true } }, "ok")
      | none => (d, "bad-op")
    | "timeout" =>
      match c.getOp (natArg (kvGet args "id")) with
      | some o => ({ d with ctl := if o.status == .started then c.setOp { o with startedOld := true } else c }, "ok")
      | none => (d, "bad-op")
    | "race" =>
      -- competing end transitions on one started operator; which participant gets through first is the
      -- scheduler's choice: it is read from the implementation's report (`winner=`), the others follow
      let id := natArg (kvGet args "id")
      match c.getOp id, (splitList (kvGet args "kinds") ",").mapM parseRaceKind with
      | some o, some kinds =>
        let nT := (kinds.filter (· == .timeout)).length
        let nK := (kinds.filter (· == .finish)).length
        if o.status != .created || c.waiting.flatten.contains id || kinds.isEmpty || nT > 1 || nK > 1 ||
           (nT > 0 && o.steps.isEmpty) || (nK > 0 && !o.steps.isEmpty) then (d, "bad-op")
        else
          let w := (parseRaceKind (kvGet (words impl) "winner")).getD (kinds.headD .cancel)
          let order := if kinds.contains w then w :: kinds.erase w else kinds
          let (o', oks) := race o order
          let wins := (oks.filter (fun x => x)).length
          let winner := match (order.zip oks).find? (fun x => x.2) with | some x => x.1.letter | none => "-"
          ({ d with ctl := c.setOp o' },
           s!"wins={wins} winner={winner} final={o'.status.name} rec={if wins == 0 then "-" else o'.status.name}")
      | _, _ => (d, "bad-op")
    | "influence" =>
      let c' := (stepEv c .influence).1
      ({ d with ctl := c' }, digest c' "ok" [])
    | "sleep" =>
      ((match stepEv c (.sleep (natArg (kvGet args "ms"))) with | (c', _) => { d with ctl := c' }), "ok")
    | "delregion" =>
      ({ d with sims := d.sims.filter (fun s => s.id != r),
                ctl := { c with views := c.views.filter (fun v => v.id != r) } }, "ok")
    | "exec" =>
      match d.sim r with
      | none => (d, "bad-op")
      | some s =>
        let s' := match d.lastMsg.find? (fun m => m.region == r) with
          | some m => exec s m
          | none => s
        (d.setSim s', simText s')
    | "fadd" =>
      match d.sim r, parsePeer (kvGet args "p") with
      | some s, some p => let s' := foreign s (.addPeer p); (d.setSim s', simText s')
      | _, _ => (d, "bad-op")
    | "frm" =>
      match d.sim r with
      | some s => let s' := foreign s (.removeStore (natArg (kvGet args "s"))); (d.setSim s', simText s')
      | none => (d, "bad-op")
    | "flead" =>
      match d.sim r with
      | some s => let s' := foreign s (.setLeader (natArg (kvGet args "s"))); (d.setSim s', simText s')
      | none => (d, "bad-op")
    | "caught" =>
      match d.sim r with
      | some s => let s' := foreign s .caughtUp; (d.setSim s', simText s')
      | none => (d, "bad-op")
    | "frange" =>
      match d.sim r with
      | some s => let s' := foreign s .rangeChange; (d.setSim s', simText s')
      | none => (d, "bad-op")
    | _ => (d, "bad-op")
  | [] => (d, "bad-op")

/-! ### monitor: parse what the implementation said -/

def parseStatus : String → Option Status
  | "C" => some .created | "S" => some .started | "OK" => some .success | "X" => some .canceled
  | "R" => some .replaced | "E" => some .expired | "T" => some .timeout | _ => none

def parseMsg (s : String) : Option C09.SeenMsg :=
  match s.splitOn "/" with
  | r :: e :: t :: _ =>
    match e.splitOn "." with
    | [cv, v] => some ⟨natArg r, natArg cv, natArg v, natArg t⟩
    | _ => none
  | _ => none

def parseTriples (s : String) : List (List String) := (splitList s ";").map (fun x => x.splitOn ":")

/-- `<res> m=.. run=.. st=.. rec=.. w=..` -/
def parseDigest (impl : String) : Option C09.Seen :=
  match words impl with
  | res :: rest =>
    if !(rest.any (fun w => w.startsWith "run=")) then none
    else
      let msgs := (splitList (kvGet rest "m") ";").filterMap parseMsg
      let run := (parseTriples (kvGet rest "run")).filterMap (fun t =>
        match t with | [r, id, cur] => some (natArg r, natArg id, natArg cur) | _ => none)
      let st := (parseTriples (kvGet rest "st")).filterMap (fun t =>
        match t with | [id, s] => (parseStatus s).map (fun x => (natArg id, x)) | _ => none)
      let rec_ := (parseTriples (kvGet rest "rec")).filterMap (fun t =>
        match t with | [r, id, s] => (parseStatus s).map (fun x => (natArg r, natArg id, x)) | _ => none)
      some ({ result := res, msgs := msgs, running := run, status := st, records := rec_ } : C09.Seen)
  | [] => none

/-- `sim <peers>@<leader> cv=<n> v=<n> ...` as reported by the implementation side -/
def parseSim (r : Nat) (impl : String) : Option C09.RegionSeen :=
  match words impl with
  | "sim" :: pl :: rest =>
    match pl.splitOn "@" with
    | [ps, l] =>
      (parsePeers ps ",").map (fun peers =>
        { id := r, region := ⟨peers, natArg l⟩, confVer := natArg (kvGet rest "cv"), version := natArg (kvGet rest "v"),
          pending := parseNats (kvGet rest "pend"), range := natArg (kvGet rest "range") })
    | _ => none
  | _ => none

def monitorStep (m : C09.Mon) (ws : List String) (impl : String) : C09.Mon × List String :=
  match ws with
  | "reset" :: _ => ({}, [])
  | kind :: args =>
    let r := natArg (kvGet args "r")
    match kind with
    | "region" =>
      match parsePeers (kvGet args "p") "," with
      | some peers =>
        let reg : Region := ⟨peers, natArg (kvGet args "L")⟩
        let rs : C09.RegionSeen := { id := r, region := reg, confVer := natArg (kvGet args "cv"), version := natArg (kvGet args "v") }
        (C09.noteRegionPut m rs, [])
      | none => (m, [])
    | "mkop" =>
      if impl != "ok" then (m, []) else
      match parseSteps (kvGet args "steps") with
      | some steps =>
        (C09.noteOp m { id := natArg (kvGet args "id"), region := r, confVer := natArg (kvGet args "cv"),
                        version := natArg (kvGet args "v"), level := natArg (kvGet args "lvl"), steps := steps }, [])
      | none => (m, [])
    | "exec" | "fadd" | "frm" | "flead" | "caught" | "frange" =>
      match parseSim r impl with
      | some rs => (C09.noteSim m rs (kind == "exec") (kind == "caught"), [])
      | none => (m, [])
    | "race" =>
      let iw := words impl
      if !(iw.any (fun w => w.startsWith "wins=")) then (m, []) else
      match parseStatus (kvGet iw "final") with
      | some fin =>
        let recs := (splitList (kvGet iw "rec") "+").filterMap parseStatus
        (m, (C09.raceComplaints ⟨natArg (kvGet iw "wins"), fin, recs⟩).map (fun x => x ++ s!" op={natArg (kvGet args "id")} kinds={kvGet args "kinds"}"))
      | none => (m, ["sig=C09.unparsable-race-report"])
    | "delregion" => (C09.noteRegionGone m r, [])
    | "add" | "addw" | "promote" | "hb" | "push" | "rm" | "influence" =>
      match parseDigest impl with
      | none => (m, [])
      | some seen =>
        let ev : C09.EventKind := match kind with
          | "hb" => .heartbeat r
          | "rm" => .remove (natArg (kvGet args "id"))
          | "push" => .push
          | _ => .admission
        C09.checkEvent m ev seen
    | _ => (m, [])
  | [] => (m, [])

def step (d : DState) (opLine : String) (impl : String) : DState × StepOut :=
  let ws := words opLine
  let (d', out) := modelStep d ws impl
  let (mon', fails) := monitorStep d.mon ws impl
  ({ d' with mon := mon' }, { model := out, fails := fails })

def main : IO UInt32 := runDriver ({} : DState) step

end PdModel.Driver.OpCtl
