import PdModel.Driver.Common
import PdModel.Model.Checkers
/-!
Parsing of the cluster description lines shared by the `checkers` and `scatter` drivers
(see harness/internal/pdcluster): `opt`, `store`, `region`, `rule`, operator steps and region fits.
-/
namespace PdModel.Driver.ClusterParse
open PdModel.Driver PdModel.Spec.C10 PdModel.Filters PdModel.Checkers

def kv (tok : String) : String × String :=
  match tok.splitOn "=" with
  | [] => ("", "")
  | [k] => (k, "")
  | k :: rest => (k, "=".intercalate rest)

def listOf (s : String) (sep : String) : List String :=
  if s == "" || s == "-" then [] else s.splitOn sep

def dash (s : String) : String := if s == "-" then "" else s

def pairs (s : String) : List (String × String) :=
  (listOf s ",").filterMap (fun p =>
    match p.splitOn ":" with
    | k :: v :: rest => some (k, ":".intercalate (v :: rest))
    | _ => none)

def opCode : String → Nat
  | "in" => 0 | "notIn" => 1 | "exists" => 2 | "notExists" => 3 | _ => 9

def parseCons (s : String) : List Constraint :=
  (listOf s ";").filterMap (fun c =>
    match c.splitOn ":" with
    | [k, op] => some { key := k, op := opCode op, values := [] }
    | [k, op, vs] => some { key := k, op := opCode op, values := listOf vs "|" }
    | _ => none)

/-- driver-side description state -/
structure Desc where
  opts    : Opts := {}
  rules   : Bool := false     -- placement rules enabled
  jc      : Bool := true
  stores  : List Store := []
  regions : List (Nat × Region) := []
  /-- constraints of the `rule` lines, in order (for the `filters` comparison) -/
  ruleCons : List (List Constraint) := []
  deriving Inhabited

def defaultConf : Conf :=
  { disconnectSecs := PdModel.Generated.Checkers.storeDisconnectNs / 1000000000,
    fewRegions := PdModel.Generated.Checkers.initialMaxRegionCounts,
    freeBytes := PdModel.Generated.Checkers.initialMinSpace }

def Desc.init : Desc := { opts := { conf := defaultConf } }

def applyOpt (d : Desc) (toks : List String) : Desc :=
  toks.foldl (fun d t =>
    let (k, v) := kv t
    let o := d.opts
    let c := o.conf
    match k with
    | "maxrep" => { d with opts := { o with conf := { c with maxReplicas := natArg v } } }
    | "labels" => { d with opts := { o with conf := { c with locationLabels := listOf v "," } } }
    | "level" => { d with opts := { o with conf := { c with isolationLevel := dash v } } }
    | "low" =>
      match v.splitOn "/" with
      | [a, b] => { d with opts := { o with conf := { c with lowNum := natArg a, lowDen := natArg b } } }
      | _ => d
    | "maxdown" => { d with opts := { o with conf := { c with maxDownSecs := natArg v } } }
    | "maxsnap" => { d with opts := { o with maxSnap := natArg v } }
    | "maxpend" => { d with opts := { o with maxPending := natArg v } }
    | "reject" => { d with opts := { o with rejectLeader := pairs v } }
    | "flags" =>
      let has (ch : Char) : Bool := v.toList.contains ch
      { d with opts := { o with removeDown := has 'd', replaceOffline := has 'o', removeExtra := has 'x',
                                 locationReplacement := has 'l',
                                 conf := { c with makeUpEnabled := has 'm' } } }
    | "rules" => { d with rules := v == "1" }
    | "jc" => { d with jc := v == "1" }
    | _ => d) d

def parseStore (idTok : String) (toks : List String) : Store :=
  toks.foldl (fun s t =>
    let (k, v) := kv t
    match k with
    | "st" => { s with state := natArg v }
    | "down" => { s with downSecs := natArg v }
    | "busy" => { s with busy := v == "1" }
    | "pause" => { s with pauseLeader := v == "1" }
    | "add" => { s with addAvail := v == "1" }
    | "rm" => { s with rmAvail := v == "1" }
    | "ss" => { s with sendSnap := natArg v }
    | "rs" => { s with recvSnap := natArg v }
    | "pend" => { s with pending := natArg v }
    | "cap" => { s with capacity := natArg v }
    | "avail" => { s with available := natArg v }
    | "rc" => { s with regionCount := natArg v }
    | "labels" => { s with labels := pairs v }
    | _ => s) ({ id := natArg idTok } : Store)

def parsePeers (v : String) : List Peer :=
  (listOf v ",").filterMap (fun p =>
    match p.splitOn ":" with
    | [a, b, c] => some { id := natArg a, store := natArg b, role := natArg c }
    | _ => none)

def parseRegion (toks : List String) : Region :=
  let r : Region := toks.foldl (fun r t =>
    let (k, v) := kv t
    match k with
    | "peers" => { r with peers := parsePeers v }
    | "leader" => { r with leader := natArg v }
    | "down" => { r with down := (listOf v ",").filterMap (fun p =>
        match p.splitOn ":" with
        | [a, b] => some (natArg a, natArg b)
        | _ => none) }
    | "pending" => { r with pending := (listOf v ",").map natArg }
    | _ => r) ({ peers := [] } : Region)
  -- as the harness: the leader, down and pending entries must name a peer of the region
  let has (id : Nat) : Bool := r.peers.any (·.id == id)
  { r with leader := if has r.leader then r.leader else 0,
           down := r.down.filter (fun d => has d.1),
           pending := r.pending.filter has }

def setAssoc {α} (l : List (Nat × α)) (k : Nat) (v : α) : List (Nat × α) :=
  if l.any (·.1 == k) then l.map (fun e => if e.1 == k then (k, v) else e) else l ++ [(k, v)]

/-- interpret a description line; `none` when it is not one -/
def Desc.apply (d : Desc) (ws : List String) : Option Desc :=
  match ws with
  | "opt" :: toks => some (applyOpt d toks)
  | "store" :: id :: toks =>
    let s := parseStore id toks
    some { d with stores := if d.stores.any (·.id == s.id) then d.stores.map (fun x => if x.id == s.id then s else x)
                            else d.stores ++ [s] }
  | ["store"] => some d
  | "region" :: id :: toks => some { d with regions := setAssoc d.regions (natArg id) (parseRegion toks) }
  | ["region"] => some d
  | "rule" :: id :: toks =>
    match id.splitOn "/" with
    | [_, _] =>
      let cons := toks.foldl (fun acc t => let (k, v) := kv t; if k == "cons" then parseCons v else acc) []
      some { d with ruleCons := d.ruleCons ++ [cons] }
    | _ => some d
  | ["rule"] => some d
  | _ => none

def Desc.region (d : Desc) (id : Nat) : Option Region := (d.regions.find? (·.1 == id)).map (·.2)

/-- one operator step token → abstract steps -/
def parseStep (tok : String) : List Step :=
  match tok.splitOn ":" with
  | ["al", s] => [.add (natArg s) 1]
  | ["all", s] => [.add (natArg s) 1]
  | ["ap", s] => [.add (natArg s) 0]
  | ["alp", s] => [.add (natArg s) 0]
  | ["pl", s] => [.promote (natArg s)]
  | ["df", s] => [.demote (natArg s)]
  | ["rp", s] => [.remove (natArg s)]
  | ["tl", _, t] => [.transfer (natArg t)]
  | ["en", p, dm] => ((listOf p "+").map (fun s => Step.promote (natArg s))) ++ ((listOf dm "+").map (fun s => Step.demote (natArg s)))
  | ["lv", _, _] => [.other]
  | _ => [.other]

/-- `op <desc> r=<id> steps=a;b;c` → (desc, region id, steps); `none` for anything else -/
def parseOp (s : String) : Option (String × Nat × List Step) :=
  match words s with
  | ["op", desc, r, steps] =>
    let (_, rid) := kv r
    let (_, st) := kv steps
    some (desc, natArg rid, (listOf st ";").flatMap parseStep)
  | _ => none

def roleCode : String → Nat
  | "voter" => 0 | "leader" => 1 | "follower" => 2 | "learner" => 3 | _ => 0

/-- the region fit reported by the implementation -/
def parseFit (r : Region) (s : String) : Option Fit :=
  let peersOf (v : String) : List Peer := (listOf v "+").filterMap (fun id => r.peers.find? (·.id == natArg id))
  let toks := words s
  let rfs := toks.filterMap (fun t =>
    let (k, v) := kv t
    if k != "rf" then none else
    match v.splitOn "," with
    | [id, role, count, labels, level, cons, ps, dps] =>
      some ({ rule := { id := id, role := roleCode role, count := natArg count, constraints := parseCons cons,
                        labels := listOf labels "+", level := dash level },
              peers := peersOf ps, diffRole := peersOf dps } : RuleFit)
    | _ => none)
  let orphans := toks.filterMap (fun t => let (k, v) := kv t; if k == "orphans" then some (peersOf v) else none)
  match orphans with
  | [o] => if rfs.length + 1 == toks.length then some { ruleFits := rfs, orphans := o } else none
  | _ => none

end PdModel.Driver.ClusterParse
