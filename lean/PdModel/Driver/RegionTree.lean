import PdModel.Driver.Common
import PdModel.Driver.RegionText
import PdModel.Model.RegionTree
import PdModel.Spec.C07
/-!
Driver for area `regiontree` (property C07).

model side  – `RegionsInfo` as the Go code writes it (`Model/RegionTree.lean`), answers re-computed and
              compared with the implementation's (DIFF);
monitor side – the specification `Spec.C07`: the current region set is a plain list maintained by
              `Spec.C07.put` / `remove`, every answer the implementation gave is compared with the
              linear-scan definition on that list (MONITOR-FAIL).  The monitor never looks at the model
              state.  After a malformed put (decidable `WF` fails) the monitor is silent until the next
              reset: the property speaks about well-formed regions only (the model still has to agree).
-/
namespace PdModel.Driver.RegionTree
open PdModel.RegionTree PdModel.Driver PdModel.Driver.RegionText PdModel.Spec

structure DState where
  model : RegionsInfo := {}
  spec  : List Region := []
  dirty : Bool := false
  /-- some tree is no longer strictly ascending by start key (only reachable with malformed input): the
      ordered-set abstraction of `pkg/btree` says nothing then, the model side stops comparing -/
  chaos : Bool := false
  /-- `pkg/btree` on its own (ops `bt …`): the items as the ordered-list abstraction keeps them -/
  bt : List Key := []

def renderTree (s : RegionsInfo) (t : Tree) : String :=
  s!"{joinOr (t.items.map (fun a => toString (s.acc a).id))}/{t.totalSize}"

def sortStores (l : List (Nat × Tree)) : List (Nat × Tree) :=
  l.foldr (fun e acc =>
    let rec ins (e : Nat × Tree) : List (Nat × Tree) → List (Nat × Tree)
      | [] => [e]
      | x :: xs => if e.1 < x.1 then e :: x :: xs else x :: ins e xs
    ins e acc) []

def renderFam (s : RegionsInfo) (role : Role) : String :=
  let l := (sortStores (s.fam role)).filter (fun e => !e.2.items.isEmpty)
  if l.isEmpty then "-" else ";".intercalate (l.map (fun e => s!"{e.1}:{renderTree s e.2}"))

def renderDump (s : RegionsInfo) : String :=
  s!"T={renderTree s s.tree} L={renderFam s .leader} F={renderFam s .follower} R={renderFam s .learner} P={renderFam s .pending}"

def renderStats (s : RegionsInfo) (st : Nat) : String :=
  let c := fun r => storeCount s r st
  let z := fun r => storeSize s r st
  s!"c={c .leader},{c .follower},{c .learner},{c .pending} s={z .leader},{z .follower},{z .learner},{z .pending} " ++
  s!"rc={storeRegionCount s st} rs={storeRegionSize s st} " ++
  s!"bc={c .leader},{c .follower},{c .pending},{storeRegionCount s st},{z .leader},{storeRegionSize s st}"

/-- the same line from the specification -/
def specStats (L : List Region) (st : Nat) : String :=
  let c := fun r => C07.storeCount L r st
  let z := fun r => C07.storeSize L r st
  let rc := c .leader + c .follower + c .learner
  let rs := z .leader + z .follower + z .learner
  s!"c={c .leader},{c .follower},{c .learner},{c .pending} s={z .leader},{z .follower},{z .learner},{z .pending} " ++
  s!"rc={rc} rs={rs} bc={c .leader},{c .follower},{c .pending},{rc},{z .leader},{rs}"

def specFam (L : List Region) (role : Role) : String :=
  let stores := (L.flatMap (fun r => storesFor role r)).eraseDups
  let sorted := stores.foldr (fun e acc =>
    let rec ins (e : Nat) : List Nat → List Nat
      | [] => [e]
      | x :: xs => if e < x then e :: x :: xs else x :: ins e xs
    ins e acc) []
  let l := sorted.map (fun st => (st, C07.storeRegions L role st))
  let l := l.filter (fun e => !e.2.isEmpty)
  if l.isEmpty then "-" else
    ";".intercalate (l.map (fun e => s!"{e.1}:{renderIds e.2}/{C07.sumSize e.2}"))

def specDump (L : List Region) : String :=
  s!"T={renderIds L}/{C07.sumSize L} L={specFam L .leader} F={specFam L .follower} R={specFam L .learner} P={specFam L .pending}"

def pickOk (cands : List Region) (nilOk : Bool) (p : String) : Bool :=
  if p = "nil" then nilOk else cands.any (fun r => toString r.id = p)

/-- the same for the model, whose sub-trees can (after malformed input) hold an orphaned item with an old
    RegionInfo: such a candidate is reported as `id~stale`, as the harness does -/
def pickOkModel (s : RegionsInfo) (cands : List Region) (nilOk : Bool) (p : String) : Bool :=
  if p = "nil" then nilOk else
    cands.any (fun r => (if getRegion s r.id = some r then toString r.id else s!"{r.id}~stale") = p)

def renderCands (cands : List Region) (nilOk : Bool) : String :=
  s!"cands={renderIds cands} nil={nilOk}"

/-- (model answer, spec answer) for a query; `impl` is needed for random picks only -/
def answer (d : DState) (ws : List String) (impl : String) : Option (String × String) :=
  let s := d.model
  let L := d.spec
  match ws with
  | ["get", id] => some (renderOpt (getRegion s (natArg id)), renderOpt (C07.get L (natArg id)))
  | ["search", k] => some (renderOpt (searchRegion s (parseKey k)), renderOpt (C07.search L (parseKey k)))
  | ["searchprev", k] =>
    some (renderOpt (searchPrevRegion s (parseKey k)), renderOpt (C07.searchPrev L (parseKey k)))
  | ["scan", a, b, lim] =>
    some (joinOr ((scanRange s (parseKey a) (parseKey b) (intArg lim)).map renderOptId),
          renderIds (C07.scan L (parseKey a) (parseKey b) (intArg lim)))
  | ["ovl", a, b] =>
    let q : Region := { startKey := parseKey a, endKey := parseKey b }
    some (renderIds (getOverlaps s q), renderIds (C07.overlaps L q))
  | ["adj", a, b] =>
    let q : Region := { startKey := parseKey a, endKey := parseKey b }
    let (p, n) := getAdjacentRegions s q
    let (p', n') := C07.adjacent L q
    some (s!"{renderOptId p}|{renderOptId n}", s!"{renderOptId p'}|{renderOptId n'}")
  | ["len"] => some (s!"{regionCount s} {treeLen s} {regionCount s}", s!"{L.length} {L.length} {L.length}")
  | ["stats", st] => some (renderStats s (natArg st), specStats L (natArg st))
  | ["total"] =>
    some (s!"{totalSize s} {averageRegionSize s}",
          s!"{C07.sumSize L} {if L.length = 0 then (0 : Int) else Int.tdiv (C07.sumSize L) (L.length : Int)}")
  | ["sregions", st] =>
    -- the objects handed out: id/size/version.confver, i.e. the currently served RegionInfo of each id
    let ro := fun (l : List Region) =>
      joinOr (l.map (fun r => s!"{r.id}/{r.size}/{r.version}.{r.confVer}"))
    some (ro (storeRegions s (natArg st)),
          ro (C07.storeRegions L .leader (natArg st) ++ C07.storeRegions L .follower (natArg st)
            ++ C07.storeRegions L .learner (natArg st)))
  | ["dump"] => some (renderDump s, specDump L)
  | ["rand", role, st, ranges, k] =>
    let role := parseRole role
    let rg := parseRanges ranges
    let picks := impl.splitOn ","
    let mc := randRegionCands s role (natArg st) rg
    let mn := randRegionNilPossible s role (natArg st) rg
    let sc := C07.randCands L role (natArg st) rg
    let sn := C07.randNilPossible L role (natArg st) rg
    -- with 200 draws from a sub-tree of at most 6 regions and at most 2 ranges every candidate shows up
    -- (a given candidate is missed with probability < (11/12)^200 < 3e-8)
    let full := natArg k ≥ 200 && (C07.storeRegions L role (natArg st)).length ≤ 6 && rg.length ≤ 2
    let seen := fun (c : Region) => picks.any (fun p => p = toString c.id)
    let seenM := fun (c : Region) =>
      picks.any (fun p => p = (if getRegion s c.id = some c then toString c.id else s!"{c.id}~stale"))
    some (if picks.all (pickOkModel s mc mn) && (!full || mc.all seenM) then impl else renderCands mc mn,
          if picks.all (pickOk sc sn) && (!full || sc.all seen) then impl else renderCands sc sn)
  | _ => none

/-- the ordered-set functions of the model applied to bare keys (an item = a region with that start key) -/
def keyItem (k : Key) : Region := { startKey := k }

def renderKeys (l : List Key) : String := if l.isEmpty then "-" else ",".intercalate (l.map renderKey)

def renderKeyOpt : Option Key → String
  | some k => renderKey k
  | none => "nil"

/-- `bt …` ops: (new list, observation) -/
def btStep (l : List Key) : List String → List Key × String
  | ["new", _] => ([], "ok")
  | ["ins", k] =>
    let k := parseKey k
    (insertItem keyItem l k, if hasKey keyItem l k then renderKey k else "nil")
  | ["del", k] =>
    let k := parseKey k
    (deleteKey keyItem l k, if hasKey keyItem l k then renderKey k else "nil")
  | ["get", k] => (l, if hasKey keyItem l (parseKey k) then renderKey (parseKey k) else "nil")
  | ["at", i] => (l, if (intArg i) < 0 then "nil" else renderKeyOpt l[(intArg i).toNat]?)
  | ["idx", k] =>
    let k := parseKey k
    (l, s!"{if hasKey keyItem l k then renderKey k else "nil"} {rank keyItem l k}")
  | ["asc", k, n] => (l, renderKeys ((ascendGE keyItem l (parseKey k)).take (natArg n)))
  | ["desc", k, n] =>
    -- DescendLessOrEqual: the first visited item is `descendLE`, then downwards
    let below := l.filter (fun a => decide (a ≤ parseKey k))
    let first := match descendLE keyItem l (parseKey k) with
      | some a => [a]
      | none => []
    (l, renderKeys ((first ++ (below.reverse.drop 1)).take (natArg n)))
  | ["len"] => (l, toString l.length)
  | ["delmin"] => (l.drop 1, renderKeyOpt l.head?)
  | ["delmax"] => (l.dropLast, renderKeyOpt l.getLast?)
  | ["all"] => (l, renderKeys l)
  | _ => (l, "bad-op")

def sigOf (ws : List String) : String := s!"sig=C07.{ws.headD "op"}-differs-from-linear-scan"

def step (d : DState) (opLine : String) (impl : String) : DState × StepOut :=
  if impl = "skipped-after-panic" then
    -- the harness executes nothing between a panic and the next reset (the panic itself was judged)
    (d, { model := impl })
  else
  match words opLine with
  | ["reset"] => ({}, { model := "ok" })
  | "bounce" :: _reads :: leaderB :: spec =>
    match parseHeartbeat spec with
    | none => (d, { model := "bad-op" })
    | some hb =>
      -- PutRegion(leader on A) first, the writer ends with PutRegion(leader on B) ; PutRegion(leader on A); the reader must have seen one
      -- value only for each per-store count / size: a leader transfer never changes them
      let rA := regionFromHeartbeat hb
      let rB := { rA with leader := natArg leaderB }
      let stOf := fun (r : Region) => ((r.peers.find? (fun p => p.id = r.leader)).map (·.store)).getD 0
      let (a, b) := (stOf rA, stOf rB)
      let s' := (setRegion (setRegion (setRegion d.model rA).1 rB).1 rA).1
      let L' := C07.put (C07.put (C07.put d.spec rA) rB) rA
      let cnt := fun (L : List Region) (st : Nat) =>
        C07.storeCount L .leader st + C07.storeCount L .follower st + C07.storeCount L .learner st
      let siz := fun (L : List Region) (st : Nat) =>
        C07.storeSize L .leader st + C07.storeSize L .follower st + C07.storeSize L .learner st
      let m := s!"stores={a},{b} count={storeRegionCount s' a} size={storeRegionSize s' a} count={storeRegionCount s' b} size={storeRegionSize s' b}"
      let sp := s!"stores={a},{b} count={cnt L' a} size={siz L' a} count={cnt L' b} size={siz L' b}"
      let dirty := d.dirty || !decide (C07.WF rA)
      let fails := if dirty || sp = impl then [] else
        [s!"sig=C07.store-count-torn-under-leader-transfer region={rA.id} expected={sp} got={impl}"]
      ({ d with model := s', spec := L', dirty := dirty }, { model := if d.chaos then impl else m, fails := fails })
  | "bt" :: rest =>
    let (l, out) := btStep d.bt rest
    ({ d with bt := l }, { model := out })
  | "put" :: spec =>
    match parseHeartbeat spec with
    | none => (d, { model := "bad-op" })
    | some hb =>
      let r := regionFromHeartbeat hb
      let (s', ov) := setRegion d.model r
      let dirty := d.dirty || !decide (C07.WF r)
      let expect := s!"ov={renderIds (C07.displaced d.spec r)}"
      let fails := if dirty || expect = impl then [] else
        [s!"sig=C07.put-displaced-differs-from-linear-scan region={r.id} expected={expect} got={impl}"]
      let chaos := d.chaos || !treesOrdered (setRegionDetach d.model r).1 || !treesOrdered s'
      let out := if chaos then impl else if s'.nilDeref then "panic" else s!"ov={renderIds ov}"
      -- after a nil dereference the Go structure is left half-updated: nothing to compare until the reset
      ({ model := s', spec := C07.put d.spec r, dirty := dirty, chaos := chaos || s'.nilDeref },
        { model := out, fails := fails })
  | ["rm", id] =>
    let expect := if (C07.get d.spec (natArg id)).isSome then "ok" else "absent"
    let fails := if d.dirty || expect = impl then [] else
      [s!"sig=C07.rm-differs-from-linear-scan id={id} expected={expect} got={impl}"]
    let spec' := C07.remove d.spec (natArg id)
    match getRegion d.model (natArg id) with
    | some r =>
      let s' := removeRegion d.model r
      ({ d with model := s', spec := spec', chaos := d.chaos || !treesOrdered s' },
        { model := if d.chaos then impl else "ok", fails := fails })
    | none => ({ d with spec := spec' }, { model := if d.chaos then impl else "absent", fails := fails })
  | "rmstale" :: spec =>
    match parseHeartbeat spec with
    | none => (d, { model := "bad-op" })
    | some hb =>
      -- RemoveRegion with an older RegionInfo of the id.  The specification's answer is plain removal of the id,
      -- provided the old object still describes where the region is indexed: same id, key range and size as the
      -- region served now and the same stores (that is the DropCacheRegion race: roles / leader / pending may have
      -- changed in between).  Anything else is treated like the malformed stream.
      let old := regionFromHeartbeat hb
      let s' := removeRegion d.model old
      let stores := fun (r : Region) => (r.peers.map (·.store)) ++ (r.pending.map (·.store))
      let fits := match C07.get d.spec old.id with
        | some cur => cur.startKey = old.startKey && cur.endKey = old.endKey && cur.size = old.size &&
            (stores cur).all (fun st => (old.peers.map (·.store)).contains st) && decide (C07.WF old)
        | none => false
      let dirty := d.dirty || !fits
      let mGet := renderOptId (getRegion s' old.id)
      let mListed := (old.peers.map (·.store)).eraseDups.filter (fun st => (storeRegions s' st).any (fun r => r.id = old.id))
      let m := s!"ok get={mGet} listed={joinOr (mListed.map toString)}"
      let expect := "ok get=nil listed=-"
      let fails := if dirty || impl = expect then [] else
        [s!"sig=C07.removed-region-still-indexed id={old.id} got={impl}"]
      ({ d with model := s', spec := C07.remove d.spec old.id, dirty := dirty, chaos := d.chaos || !treesOrdered s' },
        { model := if d.chaos then impl else m, fails := fails })
  | "rmobj" :: spec =>
    match parseHeartbeat spec with
    | none => (d, { model := "bad-op" })
    | some hb =>
      let s' := removeRegion d.model (regionFromHeartbeat hb)
      ({ d with model := s', dirty := true, chaos := d.chaos || !treesOrdered s' },
        { model := if d.chaos then impl else "ok" })
  | ws =>
    match answer d ws impl with
    | none => (d, { model := "bad-op" })
    | some (m, sp) =>
      let panicked := ws.head? = some "rand" && (impl.splitOn ",").any (· = "panic")
      let stale := ws.head? = some "rand" && (impl.splitOn ",").any (fun p => p.endsWith "~stale")
      let fails := if d.dirty || sp = impl then [] else
        if stale then [s!"sig=C07.random-pick-returned-stale-region op={" ".intercalate (ws.take 4)} got={impl}"]
        else if panicked then [s!"sig=C07.random-pick-panicked op={" ".intercalate (ws.take 4)} expected={sp} got={impl}"]
        else [s!"{sigOf ws} expected={sp} got={impl}"]
      (d, { model := if d.chaos then impl else m, fails := fails })

def main : IO UInt32 := runDriver ({} : DState) step

end PdModel.Driver.RegionTree
