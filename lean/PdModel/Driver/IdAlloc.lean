import PdModel.Driver.Common
import PdModel.Model.IdAlloc
import PdModel.Spec.C04
import PdModel.Generated.IdAlloc
/-!
Driver for area `idalloc` (property C04).  Trace line: `<op> => <out> @<stored>`.
The model side recomputes `<out> @<stored>`; the monitor side judges the *implementation's*
observations with the proved checker `Spec.C04.check` plus the stored-bound rules.
-/
namespace PdModel.Driver.IdAlloc
open PdModel.IdAlloc PdModel.Driver PdModel.Spec

structure MonInst where
  member  : Nat
  pending : Option Nat := none   -- stored value (as observed) when the parked call did its read

structure Mon where
  evs     : List C04.Ev := []
  stored  : Nat := 0
  leader  : Nat := 0
  insts   : List MonInst := []

structure DState where
  model  : St
  mon    : Mon := {}
  queued : List (Nat × Op) := []   -- calls waiting for an allocator's mutex behind a parked call

def parseFault : String → Fault
  | "before" => .errBefore
  | "after" => .errAfter
  | _ => .none

def parseOp (ws : List String) : Option Op :=
  match ws with
  | ["new", m] => some (.new (natArg m))
  | ["leader", m] => some (.leader (natArg m))
  | ["alloc", i, f] => some (.alloc (natArg i) (parseFault f))
  | ["rebase", i, f] => some (.rebase (natArg i) (parseFault f))
  | ["galloc", i] => some (.galloc (natArg i))
  | ["grebase", i] => some (.grebase (natArg i))
  | ["finish", i, f] => some (.finish (natArg i) (parseFault f))
  | ["stored"] => some .stored
  | _ => none

/-- parse the implementation's `<out> @<stored>` -/
def parseImpl (impl : String) : List String × Nat :=
  match impl.splitOn " @" with
  | [a, b] => (words a, natArg b)
  | _ => ([], 0)

def monitor (m : Mon) (op : Op) (impl : String) : Mon × List String :=
  let (outw, st) := parseImpl impl
  let fails0 : List String :=
    if st < m.stored then [s!"sig=C04.stored-decreased from={m.stored} to={st}"] else []
  -- ownership of the transaction this op issues (if any)
  let txnOf : Option (Nat × Option Nat) :=   -- (instance, value it read)
    match op with
    | .alloc i _ | .rebase i _ => some (i, some m.stored)
    | .finish i _ => some (i, (m.insts[i]?).bind (·.pending))
    | _ => none
  let fails1 : List String :=
    match txnOf with
    | some (i, rv) =>
      match m.insts[i]? with
      | some x =>
        let owns := m.leader == x.member && x.member != 0 && rv == some m.stored
        let mustFail := match op with | .rebase _ _ => true | _ => false
        if !owns && (st != m.stored || (mustFail && outw.head? == some "ok")) then
          [s!"sig=C04.extended-without-ownership inst={i} leader={m.leader} member={x.member} read={rv} stored-before={m.stored} stored-after={st} out={outw}"]
        else []
      | none => []
    | none => []
  -- a successful allocation event
  let ev : Option C04.Ev :=
    match op, outw with
    | .alloc i _, ["ok", n] => some ⟨i, natArg n, st⟩
    | .galloc i, ["ok", n] => some ⟨i, natArg n, st⟩
    | .finish i _, ["ok", n] => some ⟨i, natArg n, st⟩
    | _, _ => none
  let evs := match ev with | some e => m.evs ++ [e] | none => m.evs
  let fails2 : List String :=
    match ev with
    | some e => if C04.checkNext m.evs e then [] else
        [s!"sig=C04.ids-not-unique-increasing-bounded inst={e.inst} id={e.id} bound={e.bound}"]
    | none => []
  let insts :=
    match op with
    | .new mem => m.insts ++ [{ member := mem }]
    | .galloc i | .grebase i =>
      if outw == ["parked"] then
        match m.insts[i]? with
        | some x => m.insts.set i { x with pending := some m.stored }
        | none => m.insts
      else m.insts
    | .finish i _ =>
      match m.insts[i]? with
      | some x => m.insts.set i { x with pending := none }
      | none => m.insts
    | _ => m.insts
  let leader := match op with | .leader l => l | _ => m.leader
  ({ evs := evs, stored := st, leader := leader, insts := insts }, fails0 ++ fails1 ++ fails2)

/-- `n` successive `Alloc` calls on instance `i` (what one AskSplit / AskBatchSplit does): the ids, or none
    as soon as one of them fails (the ids consumed so far are lost, the state keeps them consumed) -/
def allocMany (s : St) (i : Nat) : Nat → List Nat → St × Option (List Nat)
  | 0, acc => (s, some acc.reverse)
  | n + 1, acc =>
    match PdModel.IdAlloc.step s (.alloc i .none) with
    | (s', .id v) => allocMany s' i n (v :: acc)
    | (s', _) => (s', none)

/-- split handling (cluster_worker.go): 1 region id + one id per peer, `c` times, all from the same allocator;
    every id in the response is an allocation event for the monitor -/
def splitStep (d : DState) (i n : Nat) (impl : String) : DState × StepOut :=
  let (s', ids) := allocMany d.model i n []
  let modelOut := match ids with
    | some l => "ok " ++ " ".intercalate (l.map toString)
    | none => "fail"
  let (outw, st) := parseImpl impl
  let (mon', fails) : Mon × List String :=
    match outw with
    | "ok" :: vs =>
      let (m, fs) := vs.foldl (fun (acc : Mon × List String) v =>
        let (m', f') := monitor acc.1 (.alloc i .none) s!"ok {v} @{st}"
        (m', acc.2 ++ f')) (d.mon, [])
      (m, fs ++ (if vs.length = n then [] else [s!"sig=C04.split-response-wrong-id-count want={n} got={vs.length}"]))
    | _ => monitor d.mon (.alloc i .none) s!"err @{st}"
  ({ d with model := s', mon := mon' }, { model := s!"{modelOut} @{s'.bound}", fails := fails })

def step (d : DState) (opLine : String) (impl : String) : DState × StepOut :=
  match words opLine with
  | ["reset"] =>
    ({ model := init PdModel.Generated.IdAlloc.allocStep }, { model := "ok @0" })
  | ["race", i, g] =>
    -- Alloc calls until exactly one id is left in the window, then g concurrent calls (reported in ascending order)
    let i := natArg i
    let rec drain (s : St) (fuel : Nat) (acc : List Nat) : St × Option (List Nat) :=
      match fuel with
      | 0 => (s, some acc.reverse)
      | fuel + 1 =>
        match PdModel.IdAlloc.step s (.alloc i .none) with
        | (s', .id v) => if (v + 1) % 1000 = 0 then (s', some (v :: acc).reverse) else drain s' fuel (v :: acc)
        | (s', _) => (s', none)
    -- three rounds
    let round (acc : St × Option (List Nat)) : St × Option (List Nat) :=
      match acc.2 with
      | none => acc
      | some sofar =>
        match drain acc.1 1100 [] with
        | (s1, none) => (s1, none)
        | (s1, some l1) =>
          match allocMany s1 i (natArg g) [] with
          | (s2, none) => (s2, none)
          | (s2, some l2) => (s2, some (sofar ++ l1 ++ l2))
    let (s3, res) := round (round (round (d.model, some [])))
    let modelOut := match res with
      | some l => "ok " ++ " ".intercalate (l.map toString)
      | none => "fail"
    let (outw, st) := parseImpl impl
    let (mon', fails) : Mon × List String :=
      match outw with
      | "ok" :: vs =>
        vs.foldl (fun (acc : Mon × List String) v =>
          let (m', f') := monitor acc.1 (.alloc i .none) s!"ok {v} @{st}"
          (m', acc.2 ++ f')) (d.mon, [])
      | _ => monitor d.mon (.alloc i .none) s!"err @{st}"
    ({ d with model := s3, mon := mon' }, { model := s!"{modelOut} @{s3.bound}", fails := fails })
  | ["srvterm", _] =>
    -- a real server's allocator across leadership terms: every id obtained, by whatever path, is distinct
    let (outw, _) := parseImpl impl
    let ids := (outw.drop 1).map natArg
    let rec dup : List Nat → Option Nat
      | [] => none
      | x :: xs => if xs.contains x then some x else dup xs
    let fails := match dup ids with
      | some x => [s!"sig=C04.id-returned-twice-across-terms id={x} n={ids.length}"]
      | none => []
    (d, { model := impl, fails := fails })
  | ["split", i, p] => splitStep d (natArg i) (1 + natArg p) impl
  | ["bsplit", i, c, p] => splitStep d (natArg i) (natArg c * (1 + natArg p)) impl
  | ws =>
    match parseOp ws with
    | none => (d, { model := "bad-op @0" })
    | some op =>
      let instOf : Option Nat := match op with
        | .alloc i _ | .rebase i _ => some i
        | _ => none
      let busy (i : Nat) : Bool := match d.model.insts[i]? with
        | some x => x.pending.isSome
        | none => false
      match instOf with
      | some i =>
        if busy i && !(d.queued.any (·.1 == i)) then
          -- Alloc / Rebase hold the allocator's mutex for their whole body: a second call waits
          let (mon', fails) := monitor d.mon op impl
          ({ d with queued := d.queued ++ [(i, op)], mon := mon' }, { model := s!"blocked @{d.model.bound}", fails := fails })
        else
          let (s', o) := PdModel.IdAlloc.step d.model op
          let (mon', fails) := monitor d.mon op impl
          ({ d with model := s', mon := mon' }, { model := s!"{o.toString} @{s'.bound}", fails := fails })
      | none =>
        let (s1, o) := PdModel.IdAlloc.step d.model op
        match op, d.queued.find? (fun q => match op with | .finish i _ => q.1 == i | _ => false) with
        | .finish i _, some (_, q) =>
          -- the waiting call runs right after the parked one
          let (s2, o2) := PdModel.IdAlloc.step s1 q
          let (a, st) := parseImpl impl
          let parts := (" ".intercalate a).splitOn " ; "
          -- only the stored value after both calls is observed, so ownership of a window extension is judged
          -- for the pair: the parked call owns it if it is the leader's and read the current value, the waiting
          -- call (which reads at that moment) if it is the leader's
          let (m1, f1) := monitor d.mon op s!"{parts.headD ""} @{st}"
          let (m2, f2) := monitor m1 q s!"{parts.getD 1 ""} @{st}"
          let notOwn (l : List String) := l.filter (fun x => !x.startsWith "sig=C04.extended-without-ownership")
          let joint : List String :=
            match d.mon.insts[i]? with
            | some x =>
              let isLeader := d.mon.leader == x.member && x.member != 0
              if st != d.mon.stored && !isLeader then
                [s!"sig=C04.extended-without-ownership inst={i} leader={d.mon.leader} member={x.member} (parked + waiting call) stored-before={d.mon.stored} stored-after={st}"]
              else []
            | none => []
          ({ model := s2, mon := m2, queued := d.queued.filter (·.1 != i) },
           { model := s!"{o.toString} ; {o2.toString} @{s2.bound}", fails := notOwn f1 ++ notOwn f2 ++ joint })
        | _, _ =>
          let (mon', fails) := monitor d.mon op impl
          ({ d with model := s1, mon := mon' }, { model := s!"{o.toString} @{s1.bound}", fails := fails })

def main : IO UInt32 :=
  runDriver ({ model := init PdModel.Generated.IdAlloc.allocStep } : DState) step

end PdModel.Driver.IdAlloc
