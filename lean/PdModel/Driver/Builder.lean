import PdModel.Driver.Common
import PdModel.Model.Builder
import PdModel.Spec.C08
/-!
Driver for area `builder` (property C08).

    reset sj=<0|1> oj=<0|1> loc=<n> stores=<id:state:flags:labels;...>
    build r=<peers> L=<leader> uh=<stores> skip=<0|1> nid=<n> calls=<call;...>
    create h=<helper> r=.. L=.. uh=.. nid=.. [s= p= l= ps= roles=]
    leavejoint r=.. L=.. uh=..

The model side recomputes `ok k=.. steps=..` / `err <code>`; the monitor side parses the steps the
*implementation* returned and runs the proved checker `Spec.C08.firstViolation` on them, against
the request written in the op line.
-/
namespace PdModel.Driver.Builder
open PdModel.Steps PdModel.Builder PdModel.Driver PdModel.Spec

/-! ### parsing -/

def kvGet (ws : List String) (k : String) : String :=
  match ws.find? (fun w => w.startsWith (k ++ "=")) with
  | some w => "=".intercalate ((w.splitOn "=").drop 1)
  | none => ""

def splitList (s : String) (sep : String) : List String :=
  if s == "" || s == "-" then [] else s.splitOn sep

def parseRoleChar : Char → Option Role
  | 'v' => some .voter | 'l' => some .learner | 'i' => some .incoming | 'd' => some .demoting
  | _ => none

def parsePeer (s : String) : Option Peer :=
  let (a, rest) := s.toList.span Char.isDigit
  match rest with
  | c :: b =>
    match parseRoleChar c, (String.ofList a).toNat?, (String.ofList b).toNat? with
    | some role, some st, some id => some ⟨st, id, role⟩
    | _, _, _ => none
  | [] => none

def parsePeers (s : String) (sep : String) : Option (List Peer) :=
  (splitList s sep).mapM parsePeer

def parseItem (s : String) : Option Item :=
  match s.splitOn "#" with
  | [a, b] =>
    match a.toNat?, b.toNat? with
    | some x, some y => some ⟨x, y⟩
    | _, _ => none
  | _ => none

def parseItems (s : String) : Option (List Item × List Item) :=
  match s.splitOn "/" with
  | [a, b] =>
    match (splitList a "+").mapM parseItem, (splitList b "+").mapM parseItem with
    | some x, some y => some (x, y)
    | _, _ => none
  | _ => none

def parseStep (s : String) : Option Step :=
  match s.splitOn ":" with
  | ["split"] => some .split
  | ["mg", p] => some (.merge (p == "1"))
  | ["tl", arg] =>
    match arg.splitOn ">" with
    | [a, b] =>
      match a.toNat?, b.toNat? with
      | some x, some y => some (.transferLeader x y)
      | _, _ => none
    | _ => none
  | ["en", arg] => (parseItems arg).map (fun x => .enter x.1 x.2)
  | ["lv", arg] => (parseItems arg).map (fun x => .leave x.1 x.2)
  | [k, arg] =>
    match parseItem arg with
    | some it =>
      match k with
      | "ap" => some (.addPeer it.store it.id)
      | "alp" => some (.addLightPeer it.store it.id)
      | "al" => some (.addLearner it.store it.id)
      | "all" => some (.addLightLearner it.store it.id)
      | "pl" => some (.promoteLearner it.store it.id)
      | "df" => some (.demoteFollower it.store it.id)
      | "rm" => some (.removePeer it.store it.id)
      | _ => none
    | none => none
  | _ => none

def parseSteps (s : String) : Option (List Step) := (splitList s ",").mapM parseStep

def parsePRole : Char → Option PRole
  | 'L' => some .leader | 'F' => some .follower | 'V' => some .voter | 'N' => some .learner
  | _ => none

/-- `<store><L|F|V|N>+...`; a repeated store keeps its first position and takes the last role
    (the harness builds a Go map) -/
def parseRoles (s : String) : Option (List (Nat × PRole)) :=
  (splitList s "+").foldl (fun acc x =>
    match acc with
    | none => none
    | some l =>
      let cs := x.toList
      match cs.getLast?, (String.ofList cs.dropLast).toNat? with
      | some c, some st =>
        match parsePRole c with
        | some r =>
          if l.any (fun y => y.1 == st) then some (l.map (fun y => if y.1 == st then (st, r) else y))
          else some (l ++ [(st, r)])
        | none => none
      | _, _ => none) (some [])

def parseStore (s : String) : Option StoreInfo :=
  match s.splitOn ":" with
  | id :: st :: flags :: labels :: _ =>
    match id.toNat? with
    | some n =>
      let fl := flags.toList
      some { id := n,
             state := if st == "o" then .offline else if st == "t" then .tombstone else .up,
             down := fl.contains 'd', disconnected := fl.contains 'c', busy := fl.contains 'b',
             pauseLeader := fl.contains 'p', rejectLeader := fl.contains 'r',
             labels := (splitList labels ".").map natArg }
    | none => none
  | _ => none

def parseCall (s : String) : Option Call :=
  match s.splitOn ":" with
  | ["lw"] => some .lightWeight
  | ["fl"] => some .forceTargetLeader
  | ["ap", a] => (parsePeer a).map .addPeer
  | ["rp", a] => a.toNat?.map .removePeer
  | ["pl", a] => a.toNat?.map .promoteLearner
  | ["dv", a] => a.toNat?.map .demoteVoter
  | ["sl", a] => a.toNat?.map .setLeader
  | ["sp", a] => (parsePeers a "+").map .setPeers
  | ["er", a] => (parseRoles a).map .setExpectedRoles
  | _ => none

def parseHelper (ws : List String) : Option Helper :=
  let s := natArg (kvGet ws "s")
  let p := parsePeer (kvGet ws "p")
  match kvGet ws "h" with
  | "addpeer" => p.map .addPeer
  | "promote" => some (.promoteLearner s)
  | "rmpeer" => some (.removePeer s)
  | "transfer" => some (.transferLeader s)
  | "ftransfer" => some (.forceTransferLeader s)
  | "moveregion" => (parseRoles (kvGet ws "roles")).map .moveRegion
  | "movepeer" => p.map (.movePeer s)
  | "replaceleaderpeer" => p.map (fun q => .replaceLeaderPeer s q (natArg (kvGet ws "l")))
  | "moveleader" => p.map (.moveLeader s)
  | "scatter" =>
    if natArg (kvGet ws "l") == 0 then none
    else (parsePeers (kvGet ws "ps") "+").map (fun ps => .scatter ps (natArg (kvGet ws "l")))
  | "merge" =>
    match parsePeers (kvGet ws "ps") "+" with
    | some [] => none
    | some ps => some (.mergeMatch ps)
    | none => none
  | _ => none

/-! ### one build request -/

inductive Req where
  | build (skip : Bool) (calls : List Call)
  | create (h : Helper)
  | leaveJoint
  deriving Repr

structure Input where
  region    : Region
  unhealthy : List Nat
  nid       : Nat
  req       : Req
  /-- placement rules: number of rules fitted to the region and the stores that match a leader/voter rule -/
  nRules    : Nat := 0
  ruleOk    : List Nat := []
  deriving Repr

def parseInput (ws : List String) : Option Input :=
  match ws with
  | kind :: args =>
    match parsePeers (kvGet args "r") "," with
    | none => none
    | some peers =>
      let region : Region := ⟨peers, natArg (kvGet args "L")⟩
      let uh := (splitList (kvGet args "uh") ",").map natArg
      let nid := natArg (kvGet args "nid")
      let nr := natArg (kvGet args "nr")
      let rok := (splitList (kvGet args "rok") ",").map natArg
      match kind with
      | "build" =>
        match (splitList (kvGet args "calls") ";").mapM parseCall with
        | some calls => some ⟨region, uh, nid, .build (kvGet args "skip" == "1") calls, nr, rok⟩
        | none => none
      | "create" => (parseHelper args).map (fun h => ⟨region, uh, nid, .create h, nr, rok⟩)
      | "leavejoint" => some ⟨region, uh, nid, .leaveJoint, nr, rok⟩
      | _ => none
  | [] => none

/-- the model's answer: leader kind, region kind, steps -/
def runModel (c : Cluster) (i : Input) : Except Err (Bool × Bool × List Step) :=
  let ofB (r : Except Err B) : Except Err (Bool × Bool × List Step) :=
    r.map (fun b => (b.kindLeader, b.kindRegion, b.steps))
  match i.req with
  | .build skip calls => ofB (buildWith c i.region i.unhealthy skip calls i.nid)
  | .leaveJoint => ofB (createLeaveJoint c i.region i.unhealthy)
  | .create (.mergeMatch ps) => mergeSteps c i.region i.unhealthy ps i.nid
  | .create h => ofB (buildWith c i.region i.unhealthy h.skipJointCheck h.calls i.nid)

def kindText (l r : Bool) : String :=
  let s := (if l then "L" else "") ++ (if r then "R" else "")
  if s == "" then "-" else s

def obsText : Except Err (Bool × Bool × List Step) → String
  | .error e => s!"err {e.name}"
  | .ok (l, r, steps) => s!"ok k={kindText l r} steps={if steps.isEmpty then "-" else stepsText steps}"

/-! ### monitor: the request as the property sees it -/

def firstPeers (ps : List Peer) : List Peer := ps.foldl pmSet []

/-- requested placement of an input, or `none` if the request itself is rejected
    (uses only the recording calls of the builder, not the planning) -/
def requested (c : Cluster) (i : Input) : Option (Region × C08.Target × Bool) :=
  let origin : Region := i.region
  let ofB (b : B) (dropMerge : Bool) : Option (Region × C08.Target × Bool) :=
    let tp := b.targetPeers.map (fun p => (p.store, p.role))
    let tl := match pmGet b.targetPeers b.targetLeader with
      | some p => if p.role == .learner then 0 else b.targetLeader
      | none => 0
    some (origin, ⟨tp, tl⟩, dropMerge)
  match i.req with
  | .leaveJoint =>
    some (origin, ⟨(firstPeers origin.peers).map (fun p => (p.store, leaveRole p.role)), 0⟩, false)
  | .build skip calls =>
    match newBuilder c origin i.unhealthy skip with
    | .error _ => none
    | .ok b => match applyCalls b calls with
      | .error _ => none
      | .ok b => ofB b false
  | .create (.mergeMatch ps) =>
    -- CreateMergeRegionOperator builds nothing when the peers already match
    if regionMatch origin ps then
      some (origin, ⟨(firstPeers origin.peers).map (fun p => (p.store, p.role)), 0⟩, true)
    else
      match newBuilder c origin i.unhealthy false with
      | .error _ => none
      | .ok b => match applyCalls b (Helper.mergeMatch ps).calls with
        | .error _ => none
        | .ok b => ofB b true
  | .create h =>
    match newBuilder c origin i.unhealthy h.skipJointCheck with
    | .error _ => none
    | .ok b => match applyCalls b (match h with
                                   | .mergeMatch ps => if regionMatch origin ps then [] else h.calls
                                   | _ => h.calls) with
      | .error _ => none
      | .ok b => ofB b (match h with | .mergeMatch _ => true | _ => false)

def targetText (t : C08.Target) : String :=
  ",".intercalate (t.peers.map (fun x => s!"{x.1}{x.2.letter}")) ++ s!" tl={t.leader}"

/-- stable signature of a violation; the two classes of inputs known to fail on the pinned tree get
    their own names, everything else is named after the violated clause -/
def sigOf (c : Cluster) (origin : Region) (t : C08.Target) (pre : Region) (step : Option Step)
    (v : C08.Violation) : String :=
  let inPlaceDemote (s : Nat) : Bool :=
    origin.peers.any (fun p => p.store == s && p.role == .voter) && t.peers.contains (s, .learner)
  let addsVoter := t.peers.any (fun x => x.2 == .voter && !origin.peers.any (fun p => p.store == x.1))
  let anyInPlace := origin.peers.any (fun p => inPlaceDemote p.store)
  match v, step with
  | .precondition, some (.addLearner s _) | .precondition, some (.addLightLearner s _) =>
    if (storePeer pre s).isSome then
      if !c.supportJoint && inPlaceDemote s then "C08.nojoint-addlearner-on-occupied-store"
      else "C08.addlearner-on-occupied-store"
    else "C08." ++ v.name
  | .votersBelowMin, some (.demoteFollower _ _) =>
    if c.supportJoint && !c.optJoint && anyInPlace && addsVoter then "C08.nojoint-voters-below-min"
    else "C08." ++ v.name
  | _, _ => "C08." ++ v.name

/-- the inputs the property speaks about: a well-formed origin; a region that is inside a joint state
    is only asked to leave it or to move its leader; a leave request needs a voter of the incoming
    configuration on a store the cluster knows -/
def inDomain (c : Cluster) (i : Input) (origin : Region) (t : C08.Target) : Bool :=
  C08.wellFormed origin &&
  (match i.req with
   | .leaveJoint =>
     origin.peers.any (fun p => (p.role == .voter || p.role == .incoming) && (c.getStore p.store).isSome)
   | _ =>
     !inJoint origin ||
     (t.peers.all (fun x => origin.peers.any (fun p => p.store == x.1 && p.role == x.2)) &&
      origin.peers.all (fun p => t.peers.contains (p.store, p.role))))

def monitor (c : Cluster) (i : Input) (impl : String) : List String :=
  match words impl with
  | ["ok", _, st] =>
    match parseSteps ((st.splitOn "steps=").getD 1 "") with
    | none => ["sig=C08.unparsable-steps"]
    | some steps0 =>
      match requested c i with
      | none => ["sig=C08.operator-for-rejected-request"]
      | some (origin, t, dropMerge) =>
        if !inDomain c i origin t then [] else
        let steps := if dropMerge then steps0.dropLast else steps0
        match C08.firstViolation origin t steps with
        | none => []
        | some (k, v) =>
          let pre := run origin (steps.take k)
          let step := steps[k]?
          let stepTxt := match step with | some s => s.text | none => "final"
          [s!"sig={sigOf c origin t pre step v} at={k} step={stepTxt} state={peersText pre.peers}@{pre.leader} origin={peersText origin.peers}@{origin.leader} target={targetText t} sj={if c.supportJoint then 1 else 0} oj={if c.optJoint then 1 else 0}"]
  | _ => []

/-! ### driver -/

structure DState where
  cluster : Cluster := { stores := [], supportJoint := true, optJoint := true }

def step (d : DState) (opLine : String) (impl : String) : DState × StepOut :=
  match words opLine with
  | "reset" :: args =>
    match (splitList (kvGet args "stores") ";").mapM parseStore with
    | some stores =>
      ({ cluster := { stores := stores, supportJoint := kvGet args "sj" == "1",
                      optJoint := kvGet args "oj" == "1", nLoc := min (natArg (kvGet args "loc")) 3,
                      rulesOn := natArg (kvGet args "rules") != 0 } },
       { model := "ok" })
    | none => (d, { model := "bad-op" })
  | ws =>
    match parseInput ws with
    | none => (d, { model := "bad-op" })
    | some i =>
      -- the placement-rule inputs of this build (FitRegion depends on the region)
      let c := if d.cluster.rulesOn then
          { d.cluster with nRules := i.nRules,
                           stores := d.cluster.stores.map (fun s => { s with ruleOk := i.ruleOk.contains s.id }) }
        else d.cluster
      (d, { model := obsText (runModel c i), fails := monitor c i impl })

def main : IO UInt32 := runDriver ({} : DState) step

end PdModel.Driver.Builder
